import jax, jax.numpy as jnp, numpy as np
from precondition import distributed_shampoo as ds
rng=np.random.RandomState(0)
bad=0
for n in (4,8,16):
  for r in (1,2,3):
    for scale in (1.0, 100.0):
      g=rng.randn(n,r).astype(np.float32)*scale
      A=jnp.asarray(g@g.T)
      for rel in (True,False):
        X,met=ds.matrix_inverse_pth_root_eigh(A,4,ridge_epsilon=0.0,relative_matrix_epsilon=rel)
        err=float(met.inverse_pth_root_errors)
        fin=bool(jnp.all(jnp.isfinite(X)))
        if not fin:
          bad+=1
          print('n',n,'rank',r,'scale',scale,'rel',rel,'finite',fin,'reported error',err)
print('non-finite roots:',bad)

# --- optimizer level
# import jax, jax.numpy as jnp, numpy as np
# from precondition import distributed_shampoo as ds
# rng=np.random.RandomState(0)
# params={'w': jnp.zeros((16,4),jnp.float32)}
# opt=ds.distributed_shampoo(0.1, block_size=32, matrix_epsilon=0.0, eigh=True, start_preconditioning_step=1, preconditioning_compute_steps=1, batch_axis_name=None, graft_type=ds.GraftingType.SGD)
# st=opt.init(params)
# u=jnp.asarray(rng.randn(16,1).astype(np.float32)); v=jnp.asarray(rng.randn(1,4).astype(np.float32))
# for t in range(4):
#   g={'w': (u@v)*(1.0+t)}
#   upd,st=opt.update(g,st,params)
#   leaves=jax.tree_util.tree_leaves(st.stats['w'].preconditioners)
#   fin=all(bool(jnp.all(jnp.isfinite(x))) for x in leaves)
#   errs=st.stats['w'].training_metrics
#   print('step',t,'preconditioners finite:',fin,'update finite:',bool(jnp.all(jnp.isfinite(upd['w']))))
