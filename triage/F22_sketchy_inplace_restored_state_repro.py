"""F22 repro: Tearfree Sketchy's `_update_axis` multiplies a state leaf IN PLACE (`sketch_dk *= ...` on
`axis_state.eigvecs`).  jax arrays are immutable, so under jit / with jax-array leaves `*=` rebinds a new value; a state
restored with flax.serialization.from_bytes has numpy leaves backed by the (read-only) msgpack buffer: the first eager
`tx.update` on the restored state dies with "ValueError: output array is read-only", and with writable numpy leaves the
caller's state is silently modified by the update (not a pure function of its arguments).

Run:  PYTHONPATH=/repo /venv/bin/python triage/F22_sketchy_inplace_restored_state_repro.py
exit 0 = restored state continues bit-identically in eager mode; exit 1 = defect present."""
import sys
import numpy as np
import jax
import jax.numpy as jnp
from flax import serialization
from precondition.tearfree import optimizer, sketchy, second_order, grafting

opts = optimizer.TearfreeOptions(
    grafting_options=grafting.Options(grafting_type=grafting.GraftingType.RMSPROP, second_moment_decay=0.9, epsilon=1e-8, start_preconditioning_step=0, skip_preconditioning_any_dim_gt=4096, skip_preconditioning_rank1=False),
    second_order_options=second_order.Options(second_order_type=second_order.SecondOrderType.SKETCHY, sketchy_options=sketchy.Options(rank=2, update_freq=1), merge_dims=4096),
    momentum_options=optimizer.momentum.Options(),
)
tx = optimizer.tearfree(0.1, opts)
params = {'w': jnp.ones((4, 3))}
rng = np.random.RandomState(0)
grads = [{'w': jnp.asarray(rng.randn(4, 3), jnp.float32)} for _ in range(4)]
state = tx.init(params)
for g in grads[:2]:
  _, state = tx.update(g, state, params)
ref_state = state
ref = []
for g in grads[2:]:
  u, ref_state = tx.update(g, ref_state, params)
  ref.append(np.asarray(u['w']))

blob = serialization.to_bytes(state)
restored = serialization.from_bytes(tx.init(params), blob)
problems = []
# (a) eager continuation from the restored (numpy-leaf) state
try:
  st = restored
  for g, r in zip(grads[2:], ref):
    u, st = tx.update(g, st, params)
    if not np.array_equal(np.asarray(u['w']), r):
      problems.append('eager continuation from the restored state differs from the uninterrupted run')
except ValueError as e:
  problems.append(f'eager tx.update on the restored state raised: {e}')
# (b) writable numpy leaves: the update must not modify the state it was given
st_np = jax.tree.map(lambda x: np.array(x), state)
before = jax.tree.map(lambda x: np.array(x), st_np)
tx.update(grads[2], st_np, params)
same = jax.tree.leaves(jax.tree.map(lambda a, b: bool(np.array_equal(a, b)), before, st_np))
if not all(same):
  problems.append('tx.update modified the (numpy-leaf) state object it was given')
for p in problems:
  print('DEFECT:', p)
print('ok' if not problems else f'{len(problems)} problem(s)')
sys.exit(1 if problems else 0)
