"""F18 (triage, not part of any check): in replicated Distributed Shampoo with frequent directions the packed
preconditioner of a statistic smaller than the largest one loses its sketch eigenvalues (and its has_zeros
flag) on every step: they are stored in the last rows of the max_size-padded buffer and the update slices the
buffer back to the statistic's own size.

Run: cd /repo && /venv/bin/python /verif/triage/F18_fd_packed_layout_repro.py
Observed on the tree with the 14 fix: commits: axis 1 (size 6, padded to 8) prints eigvals [0. 0.] at every step
while axis 0 (size 8) keeps non-zero eigenvalues.  A start-anchored layout repairs it but changes the positions
pinned by FDLowRankInverseRootTest.test_pack_unpack* (16 tests), so it is recorded as a known finding.
"""
import jax.numpy as jnp
import numpy as np
from precondition import distributed_shampoo as ds

opt = ds.distributed_shampoo(0.1, 16, compression_rank=2, frequent_directions=True, reuse_preconditioner=True,
                             beta2=0.9, start_preconditioning_step=1, best_effort_shape_interpretation=False)
p = {'w': jnp.ones((8, 6))}
s = opt.init(p)
rng = np.random.RandomState(0)
for i in range(3):
  g = {'w': jnp.asarray(rng.randn(8, 6), jnp.float32)}
  _, s = opt.update(g, s, p)
  for j, pc in enumerate(s.stats['w'].preconditioners):
    _, eigvals, _, _, tail, _ = ds._fd_low_rank_unpack(pc, 2)
    print(i, j, pc.shape, 'eigvals', np.asarray(eigvals), 'tail', float(tail))
