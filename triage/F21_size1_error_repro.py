import jax, jax.numpy as jnp, numpy as np
from precondition import distributed_shampoo as ds
X,met=ds.matrix_inverse_pth_root(jnp.full((1,1),jnp.nan,jnp.float32),4,ridge_epsilon=1e-6)
print('direct: X',X,'reported error',met.inverse_pth_root_errors)
params={'w': jnp.ones((1,1),jnp.float32)}
opt=ds.distributed_shampoo(0.1, block_size=32, start_preconditioning_step=1, preconditioning_compute_steps=1, batch_axis_name=None, graft_type=ds.GraftingType.SGD)
st=opt.init(params)
for t in range(4):
  g={'w': jnp.full((1,1), jnp.nan if t==1 else 1.0, jnp.float32)}
  upd,st=opt.update(g,st,params)
  print('step',t,'preconditioners finite:',[bool(jnp.all(jnp.isfinite(x))) for x in st.stats['w'].preconditioners])
