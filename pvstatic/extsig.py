"""Canonical argument form for calls of library functions.

`jnp.max(x, 0)` and `jnp.max(x, axis=0)`, `optax.trace(m, n)` and `optax.trace(decay=m, nesterov=n)` are the same
call.  The evaluator normalises every external call listed here to one form - the first `npos` parameters
positional, the others by keyword - so rules never depend on how a call site happens to spell its arguments.
Signatures are those documented for numpy / jax.numpy / jax.lax / optax (the trusted base); only parameters
up to the last one any rule looks at are listed, further arguments are left as written.
"""

_REDUCE = (['a', 'axis'], 1)
_BIN = (['x1', 'x2'], 2)

_NP = {
    'where': (['condition', 'x', 'y'], 3),
    'max': _REDUCE, 'min': _REDUCE, 'sum': _REDUCE, 'mean': _REDUCE, 'prod': _REDUCE, 'any': _REDUCE, 'all': _REDUCE,
    'amax': _REDUCE, 'amin': _REDUCE,
    'maximum': _BIN, 'minimum': _BIN, 'power': _BIN, 'greater': _BIN, 'logical_and': _BIN, 'logical_or': _BIN,
    'dot': (['a', 'b'], 2), 'matmul': (['a', 'b'], 2), 'tensordot': (['a', 'b', 'axes'], 2),
    'reshape': (['a', 'shape'], 2),
    'transpose': (['a', 'axes'], 2),
    'squeeze': (['a', 'axis'], 1),
    'expand_dims': (['a', 'axis'], 2),
    'moveaxis': (['a', 'source', 'destination'], 3),
    'concatenate': (['arrays', 'axis'], 1),
    'stack': (['arrays', 'axis'], 1),
    'split': (['ary', 'indices_or_sections', 'axis'], 1),
    'flip': (['m', 'axis'], 1),
    'roll': (['a', 'shift', 'axis'], 2),
    'zeros': (['shape', 'dtype'], 1), 'ones': (['shape', 'dtype'], 1),
    'array': (['object', 'dtype'], 1), 'asarray': (['a', 'dtype'], 1),
    'zeros_like': (['a', 'dtype'], 1), 'ones_like': (['a', 'dtype'], 1),
    'pad': (['array', 'pad_width', 'mode'], 2),
    'diag': (['v', 'k'], 1),
    'round': (['a', 'decimals'], 1),
    'linalg.norm': (['x', 'ord', 'axis'], 1),
    'linalg.svd': (['a', 'full_matrices'], 1),
    'linalg.qr': (['a', 'mode'], 1),
    'linalg.eigh': (['a', 'UPLO'], 1),
}
_ALIASES = {'reshape': {'newshape': 'shape'}}

SIGS = {}
for _k, _v in _NP.items():
  SIGS['jax.numpy.' + _k] = _v
  SIGS['numpy.' + _k] = _v
SIGS.update({
    'jax.lax.psum': (['x', 'axis_name'], 2),
    'jax.lax.all_gather': (['x', 'axis_name', 'axis'], 2),
    'jax.lax.axis_index': (['axis_name'], 1),
    'jax.lax.with_sharding_constraint': (['x', 'shardings'], 2),
    'jax.lax.while_loop': (['cond_fun', 'body_fun', 'init_val'], 3),
    'jax.lax.fori_loop': (['lower', 'upper', 'body_fun', 'init_val'], 4),
    'jax.lax.rsqrt': (['x'], 1),
    'jax.vmap': (['fun', 'in_axes', 'out_axes'], 1),
    'optax.trace': (['decay', 'nesterov', 'accumulator_dtype'], 2),
    'optax.scale': (['step_size'], 1),
    'optax.scale_by_schedule': (['step_size_fn'], 1),
    'optax.add_decayed_weights': (['weight_decay', 'mask'], 1),
    'optax.GradientTransformation': (['init', 'update'], 2),
    'optax.TraceState': (['trace'], 0),
    'optax.MaskedState': (['inner_state'], 0),
})


def canonical(name, args, kwargs):
  """-> (args, kwargs) in canonical form, or the inputs unchanged when the call is not listed / not plain."""
  sig = SIGS.get(name)
  if sig is None or '**' in kwargs or any(getattr(a, 'op', None) == 'starred' for a in args):
    return args, kwargs
  params, npos = sig
  kwargs = dict(kwargs)
  for old, new in _ALIASES.get(name.rsplit('.', 1)[-1], {}).items():
    if old in kwargs and new not in kwargs:
      kwargs[new] = kwargs.pop(old)
  args = list(args)
  # keyword -> positional while contiguous
  while len(args) < npos and len(args) < len(params) and params[len(args)] in kwargs:
    args.append(kwargs.pop(params[len(args)]))
  # positional -> keyword beyond npos (only for listed parameters)
  if len(args) > npos:
    extra = args[npos:]
    if npos + len(extra) <= len(params):
      for i, a in enumerate(extra):
        if params[npos + i] in kwargs:
          return args, kwargs
      for i, a in enumerate(extra):
        kwargs[params[npos + i]] = a
      args = args[:npos]
  return args, kwargs
