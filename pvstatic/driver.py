"""Driver: runs the rules of one property, writes evidence, prints verdict lines.

Exit codes: 0 held (known findings may be listed), 1 violation, 2 analysis error.
"""
from __future__ import annotations

import argparse
import hashlib
import importlib
import json
import os
import sys
import time
import tempfile
import shutil
import subprocess
import traceback

from .model import Model, AnalysisError

VERIF = os.path.dirname(os.path.dirname(os.path.abspath(__file__)))
PROPS = ['C%02d' % i for i in range(1, 18)]


class Finding:
  def __init__(self, prop, rule, function, construct, message, loc):
    self.prop = prop
    self.rule = rule
    self.function = function
    self.construct = construct
    self.message = message
    self.loc = loc

  def key(self):
    return (self.prop, self.rule, self.function, self.construct)

  def to_json(self):
    return dict(property=self.prop, rule=self.rule, function=self.function,
                construct=self.construct, message=self.message, loc=self.loc)


class Ctx:
  """What a rule module sees."""

  def __init__(self, prop, tier, seed, model):
    self.prop = prop
    self.tier = tier
    self.seed = seed
    self.model = model
    self.findings = []
    self.obligations = 0
    self.discharged = 0
    self.nontrivial = set()
    self.samples = []
    self.rules = {}
    self.functions = set()
    self.exclusions = []
    self.assumptions = []
    self.notes = []
    self.evaluations = 0
    self.deferred = []

  def defer(self, msg):
    """An analysis gap met inside one rule family that should not hide the verdicts of the others: the run goes on; if it
    ends without a new violation the gap is reported as an analysis error (exit 2), otherwise the violations are."""
    self.deferred.append(msg)

  @property
  def thorough(self):
    return self.tier == 'thorough'

  def analysed(self, *fis):
    for fi in fis:
      self.functions.add(fi.fq if hasattr(fi, 'fq') else str(fi))

  def ob(self, rule, function, construct, ok, message='', loc='', sample=None, trivial=False):
    """Record one obligation (rule instance at a site)."""
    r = self.rules.setdefault(rule, dict(instances=0, ok=0))
    r['instances'] += 1
    self.obligations += 1
    if not trivial:
      self.nontrivial.add((rule, function, construct))
    if ok:
      r['ok'] += 1
      self.discharged += 1
    else:
      self.findings.append(Finding(self.prop, rule, function, construct, message, loc))
    if sample is not None or len(self.samples) < 40:
      self.samples.append(dict(rule=rule, site=function, construct=construct[:200],
                               verdict='ok' if ok else 'VIOLATED',
                               detail=(sample if sample is not None else message)[:300] if isinstance(sample if sample is not None else message, str) else sample))
    return ok

  def need(self, rule, found, minimum, what):
    """Instance-count floor: fewer instances than confirmed by hand = analysis broken."""
    if found < minimum:
      raise AnalysisError(f'{rule}: found {found} {what}, expected at least {minimum} '
                          '(anchor moved or construct not recognised)')

  def error(self, msg):
    raise AnalysisError(msg)

  def loc(self, fi, node=None):
    line = getattr(node, 'lineno', None) if node is not None else None
    if line is None:
      line = fi.node.lineno
    return f'{os.path.relpath(fi.module.path, self.model.repo)}:{line}'


def load_known():
  path = os.path.join(VERIF, 'known_findings.json')
  if not os.path.exists(path):
    return []
  with open(path) as f:
    data = json.load(f)
  return data.get('open', [])


def match_known(finding, known):
  for k in known:
    if (k.get('property') == finding.prop and k.get('rule') == finding.rule and
        k.get('function') == finding.function and k.get('construct') == finding.construct):
      return k
  return None


def run_property(prop, tier, seed, repo, write_evidence=True, quiet=False):
  t0 = time.time()
  out = []

  def say(s):
    out.append(s)
    if not quiet:
      print(s, flush=True)

  evidence_path = os.path.join(VERIF, 'evidence', f'{prop}.json')
  try:
    model = Model(repo)
    mod = importlib.import_module(f'pvstatic.rules.{prop}')
    ctx = Ctx(prop, tier, seed, model)
    try:
      mod.run(ctx)
    except AnalysisError as e:
      # a rule lost its anchor after other rules had already reported: the violations found stand (they are
      # printed, exit 1); with no new violation the run is analysis-broken (exit 2) - see `deferred` below
      if not ctx.findings:
        raise
      ctx.deferred.append(str(e))
    except Exception as e:     # a checker crash after violations were found: the violations stand, the crash is deferred
      if not ctx.findings:
        raise
      ctx.deferred.append(f'checker exception {type(e).__name__}: {e}')
    if ctx.obligations == 0:
      raise AnalysisError('no obligations were generated (vacuous run)')
  except AnalysisError as e:
    say(f'ANALYSIS-ERROR property={prop} {e}')
    return 2, out
  except Exception as e:  # checker bug: never report as a violation
    say(f'ANALYSIS-ERROR property={prop} checker exception {type(e).__name__}: {e}')
    if not quiet:
      traceback.print_exc()
    return 2, out

  known = load_known()
  new, listed = [], []
  seen = set()
  for f in ctx.findings:
    if f.key() in seen:
      continue
    seen.add(f.key())
    k = match_known(f, known)
    (listed if k else new).append(f)

  for f in listed:
    say(f'KNOWN-FINDING: property={prop} {f.rule} {f.function}: {f.construct} -- {f.message}')
  rc = 0
  replay_dir = os.path.join(VERIF, 'evidence', 'replay')
  for f in new:
    h = hashlib.sha256(repr(f.key()).encode()).hexdigest()[:10]
    rp = os.path.join(replay_dir, f'{prop}-{f.rule}-{h}.json')
    if write_evidence:
      os.makedirs(replay_dir, exist_ok=True)
      with open(rp, 'w') as fp:
        json.dump(dict(finding=f.to_json(), tier=tier, repo=repo,
                       replay_cmd=f'./check --replay {rp}'), fp, indent=1)
    say(f'VIOLATION property={prop} replay={rp}')
    say(f'  {f.loc} {f.function} [{f.rule}] {f.construct}: {f.message}')
    rc = 1

  if rc == 0 and ctx.deferred:
    say(f'ANALYSIS-ERROR property={prop} {ctx.deferred[0]}')
    return 2, out
  selftest = None
  if tier == 'thorough' and rc == 0 and write_evidence:
    selftest = checker_selftest(prop, repo, say)
  wall = time.time() - t0
  mod_doc = (mod.__doc__ or '').strip()
  ev = dict(
      property_id=prop, tier=tier, seed=seed, level='other',
      coverage=dict(
          explanation=getattr(mod, 'EXPLANATION', mod_doc)[:4000],
          obligations=ctx.obligations,
          discharged=ctx.discharged,
          evaluations=max(ctx.obligations, ctx.evaluations, 1),
          distinct_nontrivial=len(ctx.nontrivial),
          rule=('one evaluation = one (rule, site[, valuation]) obligation derived from the '
                'current source; distinct_nontrivial counts distinct (rule, function, normalised '
                'construct) triples whose verdict needed a derivation on the value graph'),
          samples=ctx.samples[:60],
          rules=ctx.rules,
          functions_analysed=sorted(ctx.functions),
          modules_parsed=len(model.modules),
          functions_parsed=len(model.functions),
          repo_digest=model.digest(),
          exclusions=ctx.exclusions,
          notes=ctx.notes,
          checker_cmd=f'./check {prop} --tier {tier}',
          trusted_base=['python ast', 'pvstatic abstract evaluator and rule tables', 'sympy (normal forms)'],
          exhaustive=False,
          checker_selftest=selftest,
      ),
      assumptions=ctx.assumptions + getattr(mod, 'ASSUMPTIONS', []),
      wall_s=round(wall, 3),
      violations=len(new),
      known_findings=len(listed),
  )
  if write_evidence:
    os.makedirs(os.path.dirname(evidence_path), exist_ok=True)
    with open(evidence_path, 'w') as fp:
      json.dump(ev, fp, indent=1, default=str)
  if not quiet:
    say(f'{prop} [{tier}] obligations={ctx.obligations} discharged={ctx.discharged} '
        f'violations={len(new)} known={len(listed)} functions={len(ctx.functions)} wall={wall:.2f}s')
  return rc, out


def checker_selftest(prop, repo, say):
  """Thorough tier only, and only when the tree under analysis is clean for `prop`: apply every
  catalogue mutant / twin and every confirmed seeded change for this property to scratch copies of
  the analysed tree (under /tmp, removed straight away) and run the quick rules on each.  This is
  evidence about the checker (what it distinguishes on today's code); it never changes the verdict
  on the tree itself.  Entries whose anchor text is absent from the analysed tree are skipped."""
  import importlib.util
  from concurrent.futures import ThreadPoolExecutor
  sp = importlib.util.spec_from_file_location('pv_selftest_run', os.path.join(VERIF, 'selftest', 'run.py'))
  st = importlib.util.module_from_spec(sp)
  sp.loader.exec_module(st)
  entries = []
  for e in st.load_catalogue():
    if prop in e['props']:
      e = dict(e, props=[prop])
      entries.append(e)
  res = dict(mutants=0, mutants_reported=0, twins=0, twins_silent=0, seeds=0, seeds_reported=0, skipped=0, problems=[])
  jobs = max(2, min(14, (os.cpu_count() or 4) - 2))
  with ThreadPoolExecutor(jobs) as ex:
    for entry, status, out in ex.map(lambda e: st.run_one(e, 'quick', repo), entries):
      kind = entry.get('kind', 'mutant')
      if status == 'STALE':
        res['skipped'] += 1
        continue
      rc = out[prop][0]
      if kind == 'mutant':
        res['mutants'] += 1
        if rc == 1:
          res['mutants_reported'] += 1
        else:
          res['problems'].append(f'mutant {entry["name"]}: rc={rc}')
      else:
        res['twins'] += 1
        if rc == 0:
          res['twins_silent'] += 1
        else:
          res['problems'].append(f'twin {entry["name"]}: rc={rc}')
    sd = os.path.join(VERIF, 'seeded')
    seeds = sorted(d for d in (os.listdir(sd) if os.path.isdir(sd) else []) if d.startswith(prop + '-') and
                   os.path.exists(os.path.join(sd, d, 'patch.diff')))

    def seed_one(sid):
      tmp = tempfile.mkdtemp(prefix='pvseed_', dir='/tmp')
      try:
        shutil.copytree(os.path.join(repo, 'precondition'), os.path.join(tmp, 'precondition'))
        r = subprocess.run(['patch', '-p1', '-s', '-d', tmp, '-i', os.path.join(sd, sid, 'patch.diff')], capture_output=True, text=True)
        if r.returncode != 0:
          return sid, None
        env = dict(os.environ, PYTHONPATH=VERIF, PYTHONDONTWRITEBYTECODE='1')
        r = subprocess.run([sys.executable, '-m', 'pvstatic.driver', prop, '--tier', 'quick', '--repo', tmp, '--no-evidence'],
                           capture_output=True, text=True, cwd=VERIF, env=env)
        return sid, r.returncode
      finally:
        shutil.rmtree(tmp, ignore_errors=True)
    for sid, rc in ex.map(seed_one, seeds):
      if rc is None:
        res['skipped'] += 1
        continue
      res['seeds'] += 1
      if rc == 1:
        res['seeds_reported'] += 1
      else:
        res['problems'].append(f'seed {sid}: rc={rc}')
  for pr in res['problems']:
    say(f'SELFTEST-NOTE property={prop} {pr}')
  say(f'{prop} checker self-test: mutants reported {res["mutants_reported"]}/{res["mutants"]}, twins silent '
      f'{res["twins_silent"]}/{res["twins"]}, seeded changes reported {res["seeds_reported"]}/{res["seeds"]}, skipped {res["skipped"]}')
  return res


def main(argv=None):
  ap = argparse.ArgumentParser()
  ap.add_argument('prop', nargs='?')
  ap.add_argument('--tier', default=os.environ.get('VERIF_TIER', 'quick'), choices=['quick', 'thorough'])
  ap.add_argument('--replay')
  ap.add_argument('--repo', default=os.environ.get('PVSTATIC_REPO', '/repo'))
  ap.add_argument('--no-evidence', action='store_true')
  args = ap.parse_args(argv)
  seed = int(os.environ.get('VERIF_SEED', '0') or 0)
  sys.setrecursionlimit(20000)
  if args.replay:
    with open(args.replay) as f:
      rp = json.load(f)
    fnd = rp['finding']
    rc, out = run_property(fnd['property'], rp.get('tier', 'quick'), seed, args.repo,
                           write_evidence=False, quiet=True)
    key = (fnd['rule'], fnd['function'], fnd['construct'])
    model_rc = 0
    # re-run and look for the same finding
    mod = importlib.import_module(f"pvstatic.rules.{fnd['property']}")
    ctx = Ctx(fnd['property'], rp.get('tier', 'quick'), seed, Model(args.repo))
    try:
      mod.run(ctx)
    except AnalysisError as e:
      print(f'ANALYSIS-ERROR property={fnd["property"]} {e}')
      return 2
    for f in ctx.findings:
      if (f.rule, f.function, f.construct) == key:
        print(f'VIOLATION property={f.prop} replay={args.replay}')
        print(f'  {f.loc} {f.function} [{f.rule}] {f.construct}: {f.message}')
        model_rc = 1
    if model_rc == 0:
      print(f'replay: finding no longer present on {args.repo}')
    return model_rc
  if not args.prop:
    ap.error('property id or --replay required')
  if args.prop == 'all':
    worst = 0
    for p in PROPS:
      if os.path.exists(os.path.join(VERIF, 'pvstatic', 'rules', f'{p}.py')):
        rc, _ = run_property(p, args.tier, seed, args.repo, write_evidence=not args.no_evidence)
        worst = max(worst, rc)
    return worst
  rc, _ = run_property(args.prop, args.tier, seed, args.repo, write_evidence=not args.no_evidence)
  return rc


if __name__ == '__main__':
  sys.exit(main())
