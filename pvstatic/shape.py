"""SHAPE domain: symbolic array shapes of value-graph terms.

A shape is a tuple of sympy expressions (dimension sizes).  `Shapes.of(t)` infers the shape of a term built from the
numpy / jax.numpy operations the sketch updates use (element-wise arithmetic with broadcasting, reshape with one -1,
transpose / .T / moveaxis, concatenate, indexing with slices / None / integers, reductions with an axis, thin SVD, QR
in mode 'r', eigh, matmul / dot, diag, where / maximum / sqrt ...), given the shapes of the leaves.  Unknown operations
raise ShapeError (the rule fails closed).  Dimension arithmetic uses sympy with Min for the thin factorizations;
`same(a, b)` decides equality of two shapes by simplification, treating every dimension symbol as a positive integer.
"""
from __future__ import annotations

import sympy as sp

from .lib import is_ext_call, method_name, strip_casts, show
from .terms import T, is_const, cval

ELEMENTWISE = {'sqrt', 'square', 'abs', 'maximum', 'minimum', 'where', 'power', 'multiply', 'add', 'subtract', 'divide', 'true_divide', 'exp', 'log',
               'isfinite', 'isnan', 'logical_and', 'logical_or', 'logical_not', 'negative', 'reciprocal', 'sign', 'select', 'rsqrt', 'float32', 'asarray',
               'array', 'zeros_like', 'ones_like', 'nan_to_num', 'clip'}


class ShapeError(Exception):
  pass


def bcast(a, b):
  """numpy broadcasting of two shapes (dims assumed compatible; a literal 1 yields to the other side)"""
  n = max(len(a), len(b))
  a = (sp.Integer(1),) * (n - len(a)) + tuple(a)
  b = (sp.Integer(1),) * (n - len(b)) + tuple(b)
  out = []
  for x, y in zip(a, b):
    if x == 1:
      out.append(y)
    elif y == 1:
      out.append(x)
    else:
      out.append(x)          # compatible by assumption (jax would raise otherwise: a crash, not a silent shape change)
  return tuple(out)


class Shapes:
  def __init__(self, leaf, dim):
    """leaf(t) -> shape tuple or None; dim(t) -> sympy expression for an integer-valued term (sizes, ranks) or None"""
    self.leaf = leaf
    self.dim = dim
    self.memo = {}

  # -- integers
  def num(self, t):
    t = strip_casts(t)
    d = self.dim(t)
    if d is not None:
      return d
    if is_const(t) and isinstance(cval(t), int) and not isinstance(cval(t), bool):
      return sp.Integer(cval(t))
    if t.op == 'bin' and t.args[0] in ('+', '-', '*', '//'):
      a, b = self.num(t.args[1]), self.num(t.args[2])
      return {'+': a + b, '-': a - b, '*': a * b, '//': sp.floor(a / b)}[t.args[0]]
    if t.op == 'call' and t.args[0].op == 'builtin' and t.args[0].args[0] in ('min', 'max') and len(t.args[1]) == 2:
      a, b = self.num(t.args[1][0]), self.num(t.args[1][1])
      return sp.Min(a, b) if t.args[0].args[0] == 'min' else sp.Max(a, b)
    if t.op == 'call' and t.args[0].op == 'builtin' and t.args[0].args[0] == 'int' and len(t.args[1]) == 1:
      return self.num(t.args[1][0])
    if t.op == 'call' and t.args[0].op == 'builtin' and t.args[0].args[0] == 'len' and len(t.args[1]) == 1:
      return self.of(t.args[1][0])[0]
    if t.op == 'sub' and t.args[0].op == 'attr' and t.args[0].args[1] == 'shape' and is_const(t.args[1]):
      return self.of(t.args[0].args[0])[cval(t.args[1])]
    if t.op == 'attr' and t.args[1] == 'ndim':
      return sp.Integer(len(self.of(t.args[0])))
    raise ShapeError(f'not an integer expression the SHAPE domain knows: {show(t, maxdepth=3)[:100]}')

  def _shape_tuple(self, t):
    t = strip_casts(t)
    if t.op in ('tuple', 'list'):
      return [None if (is_const(x) and cval(x) == -1) else self.num(x) for x in t.args]
    raise ShapeError(f'shape argument is not a literal tuple: {show(t, maxdepth=3)[:80]}')

  # -- shapes
  def of(self, t):
    if t in self.memo:
      return self.memo[t]
    r = self._of(t)
    self.memo[t] = r
    return r

  def _of(self, t):
    s = strip_casts(t)
    if s is not t and not is_ext_call(t, 'jax.numpy.asarray', 'jax.numpy.array'):
      return self.of(s)
    lf = self.leaf(t)
    if lf is not None:
      return tuple(lf)
    op, a = t.op, t.args
    if op == 'const':
      return ()
    if op == 'bin':
      if a[0] == '@':
        x, y = self.of(a[1]), self.of(a[2])
        return tuple(x[:-1]) + tuple(y[1:])
      return bcast(self.of(a[1]), self.of(a[2]))
    if op == 'un':
      return self.of(a[1])
    if op == 'cmp':
      return bcast(self.of(a[1]), self.of(a[2]))
    if op in ('ite', 'cond'):
      x, y = self.of(a[1]), self.of(a[2])
      if not same(x, y):
        raise ShapeError(f'arms of a conditional have different shapes {x} / {y}')
      return x
    if op == 'attr' and a[1] == 'T':
      return tuple(reversed(self.of(a[0])))
    if op == 'attr' and a[1] in ('ndim', 'size', 'dtype'):
      return ()
    if op == 'sub':
      base = self.of(a[0])
      if isinstance(base, tuple) and base and base[0] == 'tuple':
        if is_const(a[1]) and isinstance(cval(a[1]), int):
          return base[1 + cval(a[1])]
        if a[1].op == 'slice' and all(is_const(x) for x in a[1].args):
          lo, hi, st = (cval(x) for x in a[1].args)
          return ('tuple',) + tuple(base[1:][slice(lo, hi, st)])
        raise ShapeError('symbolic index into a tuple-valued result')
      return self._index(base, a[1])
    if op == 'call':
      return self._call(t)
    raise ShapeError(f'no shape rule for `{show(t, maxdepth=3)[:100]}`')

  def _index(self, shp, idx):
    items = list(idx.args) if idx.op == 'tuple' else [idx]
    out = []
    k = 0
    for it in items:
      if it.op == 'const' and cval(it) is None or (it.op == 'ext' and it.args[0].endswith('.newaxis')):
        out.append(sp.Integer(1))
        continue
      if it.op == 'const' and cval(it) is Ellipsis:
        rest = len([x for x in items[items.index(it) + 1:] if not ((x.op == 'const' and cval(x) is None) or (x.op == 'ext' and x.args[0].endswith('.newaxis')))])
        while k < len(shp) - rest:
          out.append(shp[k])
          k += 1
        continue
      if k >= len(shp):
        raise ShapeError('too many indices')
      if it.op == 'slice':
        lo, hi, st = it.args
        if not is_const(st, None):
          raise ShapeError('strided slice')
        n = shp[k]
        lo_v = sp.Integer(0) if is_const(lo, None) else self.num(lo)
        hi_v = n if is_const(hi, None) else sp.Min(self.num(hi), n)
        out.append(sp.simplify(hi_v - lo_v))
      else:
        pass                  # an integer (or scalar) index drops the axis
      k += 1
    out.extend(shp[k:])
    return tuple(out)

  def _call(self, t):
    f, args, kw = t.args[0], list(t.args[1]), dict(t.args[2])
    m = method_name(t)
    name = f.args[0].split('.')[-1] if f.op == 'ext' else None
    full = f.args[0] if f.op == 'ext' else ''
    if m is not None:
      recv = f.args[0]
      if m == 'reshape':
        return self._reshape(self.of(recv), args[0] if len(args) == 1 and args[0].op in ('tuple', 'list') else T('tuple', *args))
      if m == 'transpose':
        return self._transpose(self.of(recv), args[0] if args else None)
      if m in ('astype', 'copy'):
        return self.of(recv)
      if m == 'dot':
        x, y = self.of(recv), self.of(args[0])
        return tuple(x[:-1]) + tuple(y[1:])
      if m in ('sum', 'max', 'min', 'mean', 'all', 'any'):
        return self._reduce(self.of(recv), kw.get('axis', args[0] if args else None), kw.get('keepdims'))
      raise ShapeError(f'no shape rule for method `{m}`')
    if name in ELEMENTWISE:
      shp = ()
      for x in args:
        try:
          shp = bcast(shp, self.of(x))
        except ShapeError:
          if not is_const(strip_casts(x)):
            raise
      return shp
    if name == 'reshape' and len(args) == 2:
      return self._reshape(self.of(args[0]), args[1])
    if name == 'transpose':
      return self._transpose(self.of(args[0]), args[1] if len(args) > 1 else kw.get('axes'))
    if name == 'moveaxis' and len(args) == 3:
      shp = list(self.of(args[0]))
      src, dst = args[1], args[2]
      if is_const(dst, 0):
        i = self._axis_index(src, len(shp))
        if i is None:
          return (self.num(T('sub', T('attr', args[0], 'shape'), src)),) + tuple(_others(shp, None))
        return (shp[i],) + tuple(shp[:i] + shp[i + 1:])
      raise ShapeError('moveaxis form')
    if name == 'concatenate':
      parts = args[0].args if args[0].op in ('list', 'tuple') else None
      ax = kw.get('axis', args[1] if len(args) > 1 else None)
      if parts is None or ax is None or not is_const(ax):
        raise ShapeError('concatenate form')
      shps = [list(self.of(p)) for p in parts]
      k = cval(ax)
      out = list(shps[0])
      out[k] = sum((s_[k] for s_ in shps[1:]), shps[0][k])
      return tuple(out)
    if full.endswith('linalg.svd'):
      x = self.of(args[0])
      if not is_const(kw.get('full_matrices', args[1] if len(args) > 1 else None), False):
        raise ShapeError('full SVD')
      mn = sp.Min(x[-2], x[-1])
      return ('tuple', tuple(x[:-1]) + (mn,), tuple(x[:-2]) + (mn,), tuple(x[:-2]) + (mn, x[-1]))
    if full.endswith('linalg.qr'):
      x = self.of(args[0])
      mode = kw.get('mode', args[1] if len(args) > 1 else None)
      if mode is None or not is_const(mode, 'r'):
        raise ShapeError('qr mode')
      return (sp.Min(x[-2], x[-1]), x[-1])
    if full.endswith('linalg.eigh'):
      x = self.of(args[0])
      return ('tuple', tuple(x[:-1]), tuple(x))
    if name in ('matmul', 'dot'):
      x, y = self.of(args[0]), self.of(args[1])
      return tuple(x[:-1]) + tuple(y[1:])
    if name == 'diag' and len(args) == 1:
      x = self.of(args[0])
      return (x[0], x[0]) if len(x) == 1 else (sp.Min(*x),)
    if name in ('sum', 'max', 'min', 'mean', 'all', 'any', 'amax', 'amin', 'prod'):
      return self._reduce(self.of(args[0]), kw.get('axis', args[1] if len(args) > 1 else None), kw.get('keepdims'))
    if full.endswith('linalg.norm'):
      return self._reduce(self.of(args[0]), kw.get('axis'), kw.get('keepdims'))
    if name in ('zeros', 'ones', 'full', 'empty'):
      return tuple(self._shape_tuple(args[0])) if strip_casts(args[0]).op in ('tuple', 'list') else (self.num(args[0]),)
    if name == 'eye':
      n = self.num(args[0])
      return (n, self.num(args[1]) if len(args) > 1 and not (args[1].op == 'ext') else n)
    if name == 'expand_dims' and len(args) == 2 and is_const(args[1]):
      shp = list(self.of(args[0]))
      k = cval(args[1])
      k = k if k >= 0 else len(shp) + 1 + k
      return tuple(shp[:k] + [sp.Integer(1)] + shp[k:])
    raise ShapeError(f'no shape rule for `{full or show(f, maxdepth=2)}`')

  def _axis_index(self, ax, n):
    return (cval(ax) % n) if is_const(ax) and isinstance(cval(ax), int) else None

  def _reduce(self, shp, axis, keepdims):
    if axis is None or is_const(axis, None):
      return ()
    axes = [cval(axis)] if is_const(axis) else ([cval(x) for x in axis.args] if axis.op in ('tuple', 'list') and all(is_const(x) for x in axis.args) else None)
    if axes is None:
      raise ShapeError('reduction over a symbolic axis')
    axes = [x % len(shp) for x in axes]
    if keepdims is not None and is_const(keepdims, True):
      return tuple(sp.Integer(1) if i in axes else d for i, d in enumerate(shp))
    return tuple(d for i, d in enumerate(shp) if i not in axes)

  def _reshape(self, shp, arg):
    dims = self._shape_tuple(arg)
    total = sp.Integer(1)
    for d in shp:
      total = total * d
    if dims.count(None) > 1:
      raise ShapeError('more than one -1 in reshape')
    if None in dims:
      known = sp.Integer(1)
      for d in dims:
        if d is not None:
          known = known * d
      dims = [sp.simplify(total / known) if d is None else d for d in dims]
    return tuple(dims)

  def _transpose(self, shp, perm):
    if perm is None or is_const(perm, None):
      return tuple(reversed(shp))
    perm = strip_casts(perm)
    if perm.op in ('tuple', 'list') and all(is_const(x) for x in perm.args):
      return tuple(shp[cval(x)] for x in perm.args)
    # [dim] + [i for i in range(ndim) if i != dim]: axis `dim` first, the others in order
    raise ShapeError(f'symbolic permutation {show(perm, maxdepth=3)[:60]}')


def _others(shp, i):
  return list(shp)


def component(shape_or_tuple, k):
  if isinstance(shape_or_tuple, tuple) and shape_or_tuple and shape_or_tuple[0] == 'tuple':
    return shape_or_tuple[1 + k]
  raise ShapeError('not a tuple-valued operation')


def norm_dim(e):
  """Normal form of a dimension expression: nested Min flattened; an argument of Min that is provably >= the Min of the
  others is dropped (min(D, K, R + min(D, K)) = min(D, K) for positive R)."""
  e = sp.sympify(e)
  if not e.has(sp.Min):
    return sp.simplify(e)
  e = e.replace(lambda x: isinstance(x, sp.Min), lambda x: sp.Min(*[norm_dim(a) for a in x.args]))
  if isinstance(e, sp.Min):
    args = list(e.args)
    changed = True
    while changed and len(args) > 1:
      changed = False
      for x in list(args):
        others = [y for y in args if y is not x]
        rest = sp.Min(*others) if len(others) > 1 else others[0]
        diff = sp.simplify(x - rest)
        if diff.is_nonnegative:
          args = others
          changed = True
          break
    return sp.Min(*args) if len(args) > 1 else args[0]
  return e


def same(a, b):
  if isinstance(a, tuple) and a and a[0] == 'tuple' or isinstance(b, tuple) and b and b[0] == 'tuple':
    return a == b
  if len(a) != len(b):
    return False
  for x, y in zip(a, b):
    d = sp.simplify(norm_dim(x) - norm_dim(y))
    if d != 0:
      return False
  return True
