"""Index-map algebra for reshape / transpose / expand_dims / squeeze chains on concrete shapes.

A layout is a list of dims; each dim is a list of atomic factors (name, size) in
major-to-minor order.  reshape regroups the row-major factor sequence (splitting a
factor when needed), transpose permutes dims.  Two arrays hold the same elements in
the same order iff their layouts are equal after merging adjacent split factors.
"""
from __future__ import annotations


class LayoutError(Exception):
  pass


def fresh(shape, prefix='a'):
  return [[(f'{prefix}{i}', int(s))] for i, s in enumerate(shape)]


def shape_of(layout):
  out = []
  for d in layout:
    p = 1
    for _, s in d:
      p *= s
    out.append(p)
  return out


def reshape(layout, new_shape):
  new_shape = [int(x) for x in new_shape]
  total = 1
  for s in shape_of(layout):
    total *= s
  if -1 in new_shape:
    known = 1
    for s in new_shape:
      if s != -1:
        known *= s
    if known == 0 or total % known:
      raise LayoutError(f'cannot infer -1 in reshape to {new_shape}')
    new_shape = [total // known if s == -1 else s for s in new_shape]
  p = 1
  for s in new_shape:
    p *= s
  if p != total:
    raise LayoutError(f'reshape size mismatch {shape_of(layout)} -> {new_shape}')
  queue = [f for d in layout for f in d]
  out = []
  qi = 0
  for want in new_shape:
    dim = []
    need = want
    if want == 1:
      out.append([])
      continue
    while need > 1:
      while qi < len(queue) and queue[qi][1] == 1:
        qi += 1
      if qi >= len(queue):
        raise LayoutError('reshape ran out of factors')
      name, size = queue[qi]
      if size <= need:
        if need % size:
          raise LayoutError(f'reshape does not align: need {need}, factor {size}')
        dim.append((name, size))
        need //= size
        qi += 1
      else:
        if size % need:
          raise LayoutError(f'reshape splits factor unevenly: need {need}, factor {size}')
        hi = (name + '.h', need)
        lo = (name + '.l', size // need)
        dim.append(hi)
        queue[qi] = lo
        need = 1
    out.append(dim)
  return out


def transpose(layout, perm):
  perm = [int(p) for p in perm]
  if sorted(perm) != list(range(len(layout))):
    raise LayoutError(f'bad permutation {perm} for rank {len(layout)}')
  return [layout[p] for p in perm]


def moveaxis(layout, source, destination):
  n = len(layout)
  source, destination = int(source), int(destination)
  if source < 0:
    source += n
  if destination < 0:
    destination += n
  if not (0 <= source < n and 0 <= destination < n):
    raise LayoutError(f'bad moveaxis {source}->{destination} for rank {n}')
  order = [i for i in range(n) if i != source]
  order.insert(destination, source)
  return [layout[i] for i in order]


def swapaxes(layout, a, b):
  n = len(layout)
  a, b = int(a) % n, int(b) % n
  out = list(layout)
  out[a], out[b] = out[b], out[a]
  return out


def expand_dims(layout, axis):
  axis = int(axis)
  if axis < 0:
    axis += len(layout) + 1
  return layout[:axis] + [[]] + layout[axis:]


def squeeze(layout, axis):
  axis = int(axis)
  if axis < 0:
    axis += len(layout)
  if shape_of(layout)[axis] != 1:
    raise LayoutError('squeeze of a non-unit axis')
  return layout[:axis] + layout[axis + 1:]


def _base(name):
  return name.split('.')[0]


def normalise(layout):
  """Merge adjacent h/l halves of the same split factor inside each dim."""
  out = []
  for d in layout:
    cur = list(d)
    changed = True
    while changed:
      changed = False
      for i in range(len(cur) - 1):
        (n1, s1), (n2, s2) = cur[i], cur[i + 1]
        if n1.endswith('.h') and n2.endswith('.l') and n1[:-2] == n2[:-2]:
          cur[i:i + 2] = [(n1[:-2], s1 * s2)]
          changed = True
          break
    out.append(cur)
  return out


def same(l1, l2):
  return normalise(l1) == normalise(l2)
