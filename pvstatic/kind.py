"""KIND domain: pytree layout skeleton of a value-graph term.

skeleton(t) describes the tree structure a value contributes to the optimizer state:
  ('rec', cls, ((field, skel)...), ((static_field, norm)...))
  ('list', (skel...)) / ('list*', skel)  (homogeneous list of unknown length)
  'masked' (optax.MaskedNode()), 'none', 'empty' ([]), 'arr' (an array leaf)
  ('slot', path)   pass-through of an incoming state slot (equal to init by induction)
  ('ite', cond, a, b) when a configuration condition was left undecided
"""
from __future__ import annotations

from .lib import path_str, is_ext_call, ext_name, method_name, fn_name, show
from .terms import T, is_const, cval, walk

ARR = 'arr'


def static_norm(t):
  """Normal form of a static (pytree_node=False) field value."""
  if t.op == 'call' and t.args[0].op == 'builtin' and t.args[0].args[0] == 'list' and len(t.args[1]) == 1:
    inner = t.args[1][0]
    if inner.op == 'attr' and inner.args[1] == 'shape':
      return 'list(shape)'
    return 'list(' + str(static_norm(inner)) + ')'
  if t.op == 'attr' and t.args[1] == 'shape':
    return 'shape-tuple'
  if t.op == 'attr' and t.args[1] == 'dtype':
    return 'dtype-of-array'
  if t.op == 'list':
    return 'list' if t.args else 'empty-list'
  if t.op == 'tuple':
    return 'tuple'
  if t.op == 'ext':
    return t.args[0]
  if t.op == 'const':
    return repr(cval(t))
  if t.op == 'ite':
    return 'ite(' + show(t.args[0], maxdepth=4)[:80] + ', ' + str(static_norm(t.args[1])) + ', ' + str(static_norm(t.args[2])) + ')'
  if t.op == 'sym':
    return 'sym:' + str(t.args[-1])
  p = path_str(t)
  if p is not None:
    return 'path:' + p
  return 'expr:' + t.op


def is_masked(t):
  return t.op == 'call' and t.args[0].op == 'ext' and t.args[0].args[0].endswith('MaskedNode') and not t.args[1]


class Skel:
  def __init__(self, model, state_roots=('state',), slot_prefixes=()):
    self.model = model
    self.state_roots = set(state_roots)
    self.memo = {}

  def sk(self, t):
    if t in self.memo:
      return self.memo[t]
    r = self._sk(t)
    self.memo[t] = r
    return r

  def _sk(self, t):
    op = t.op
    if is_masked(t):
      return 'masked'
    if op == 'const':
      return 'none' if cval(t) is None else ARR
    if op == 'rec':
      ci = self.model.classes.get(t.args[0])
      static = set(ci.static_fields()) if ci else set()
      fields = tuple((k, self.sk(v)) for k, v in t.args[1] if k not in static)
      fmap = dict(t.args[1])
      st = []
      for k, v in t.args[1]:
        if k not in static:
          continue
        nv = static_norm(v)
        if k == 'quantized_dtype' and 'quantized' in fmap:
          pay = fmap['quantized']
          if v.op == 'attr' and v.args[1] == 'dtype' and v.args[0] is pay:
            nv = 'payload-dtype'
        st.append((k, nv))
      st = tuple(st)
      return ('rec', t.args[0].split('.')[-1], fields, st)
    if op in ('list', 'tuple'):
      if not t.args:
        return 'empty'
      parts = []
      star = False
      for e in t.args:
        if e.op == 'star' and e.args[0].op == 'loopacc':
          star = True
          continue
        if e.op == 'star':
          star = True
          parts.append(self.sk(e.args[0]))
        else:
          parts.append(self.sk(e))
      if star and not parts:
        return ('list*', 'any')
      if star:
        uniq = []
        for p in parts:
          if p not in uniq:
            uniq.append(p)
        return ('list*', uniq[0] if len(uniq) == 1 else ('mixed', tuple(uniq)))
      return ('list', tuple(parts))
    if op == 'ite':
      a, b = self.sk(t.args[1]), self.sk(t.args[2])
      if a == b:
        return a
      return ('ite', show(t.args[0], maxdepth=5)[:120], a, b)
    if op == 'cond':
      a, b = self.sk(t.args[1]), self.sk(t.args[2])
      if a == b:
        return a
      return ('cond-mismatch', a, b)
    if op in ('sym',):
      if t.args[0] == 'cfg':
        return ARR
      return ('slot', str(t.args[-1]))
    if op == 'attr':
      p = path_str(t)
      if p is not None and p.split('.')[0] in self.state_roots:
        return ('slot', p)
      return ARR
    if op in ('elem', 'leaf'):
      inner = self.sk(t.args[0])
      if isinstance(inner, tuple) and inner[0] == 'slot':
        return ('slot', inner[1] + '[]')
      if isinstance(inner, tuple) and inner[0] == 'list*':
        return inner[1]
      return ARR
    if op == 'tmap':
      return ('tree-of', self.sk(t.args[0]))
    if op == 'call':
      m = method_name(t)
      if m in ('replace', '_replace'):
        return ARR
      return ARR
    if op == 'store':
      base = self.sk(t.args[0])
      return base
    if op in ('loop', 'phi'):
      return self.sk(t.args[-1]) if op == 'loop' else self.sk(t.args[2])
    if op == 'oneof':
      ks = [self.sk(x) for x in t.args]
      return ks[0] if all(k == ks[0] for k in ks) else ('mixed', tuple(ks))
    return ARR


def flatten_diff(a, b, path='', star_len=None):
  """List of (path, a_sub, b_sub) where skeletons differ.  `star_len`: known length of the homogeneous lists in this
  comparison (e.g. one entry per tensor axis under a rank witness), so that `[x for ...]` and a literal list of that
  length compare entry by entry."""
  if a == b:
    return []
  if star_len is not None and isinstance(a, tuple) and isinstance(b, tuple):
    if a[0] == 'list*' and b[0] == 'list' and len(b[1]) == star_len:
      out = []
      for i, y in enumerate(b[1]):
        out.extend(flatten_diff(a[1], y, f'{path}[{i}]', star_len))
      return out
    if b[0] == 'list*' and a[0] == 'list' and len(a[1]) == star_len:
      out = []
      for i, x in enumerate(a[1]):
        out.extend(flatten_diff(x, b[1], f'{path}[{i}]', star_len))
      return out
  if isinstance(a, tuple) and isinstance(b, tuple) and a[0] == b[0] == 'rec' and a[1] == b[1]:
    out = []
    fa, fb = dict(a[2]), dict(b[2])
    for k in list(fa) + [k for k in fb if k not in fa]:
      if k not in fa or k not in fb:
        out.append((path + '.' + k, fa.get(k), fb.get(k)))
      else:
        out.extend(flatten_diff(fa[k], fb[k], path + '.' + k, star_len))
    sa, sb = dict(a[3]), dict(b[3])
    for k in sa:
      if sa.get(k) != sb.get(k) and 'payload-dtype' not in (sa.get(k), sb.get(k)):
        out.append((path + '.' + k + ' (static)', sa.get(k), sb.get(k)))
    return out
  if isinstance(a, tuple) and isinstance(b, tuple) and a[0] == b[0] == 'list' and len(a[1]) == len(b[1]):
    out = []
    for i, (x, y) in enumerate(zip(a[1], b[1])):
      out.extend(flatten_diff(x, y, f'{path}[{i}]', star_len))
    return out
  if isinstance(a, tuple) and isinstance(b, tuple) and a[0] == b[0] == 'list*':
    return flatten_diff(a[1], b[1], path + '[*]', star_len)
  return [(path, a, b)]


def short(sk, depth=0):
  if isinstance(sk, tuple):
    if sk[0] == 'rec':
      if depth > 1:
        return sk[1] + '(…)'
      return sk[1] + '(' + ', '.join(f'{k}={short(v, depth + 1)}' for k, v in sk[2]) + \
          (('; ' + ', '.join(f'{k}:{v}' for k, v in sk[3])) if sk[3] else '') + ')'
    if sk[0] == 'list':
      return '[' + ', '.join(short(x, depth + 1) for x in sk[1]) + ']'
    if sk[0] == 'list*':
      return '[' + short(sk[1], depth + 1) + ', ...]'
    if sk[0] == 'slot':
      return '<' + sk[1] + '>'
    return str(sk)[:160]
  return str(sk)
