"""Evaluation of guards and masks at chosen *points* of a numerical update.

Numerical code wraps its formulas in clamps (`where(x <= 0, 0, x)`), masks (`v *= x > 0`, `v *= 1 - bad`) and safe
divisions (`v /= where(ok, norm, 1)`).  A rule that checks the formula has to read through them - but only a guard
that is the identity where the formula is meant to hold may be read through.  This module evaluates guard
expressions at a point given by the rule as a valuation of leaves:

  ('num', v)   a concrete number          ('bool', b)  a concrete truth value
  'pos'        some strictly positive real 'orth'       a matrix with orthonormal columns

`Point.ival(t)` folds comparisons, boolean algebra, `1 - mask`, products with 0 / 1, norms of orthonormal or zero
matrices, `where` and `maximum`; anything else is None (unknown).  `Point.strip(t)` rewrites a term along its value
spine, replacing every `where`, mask product and safe division by what it is at the point; a guard that cannot be
evaluated raises `Unknown` (the rule fails closed), a guard that selects the zero arm yields the constant 0 (the
formula comparison then fails and the rule reports the guard).
"""
from __future__ import annotations

import operator

from .lib import is_ext_call, strip_casts
from .terms import T, const, is_const, cval

_OPS = {'<': operator.lt, '<=': operator.le, '>': operator.gt, '>=': operator.ge, '==': operator.eq, '!=': operator.ne}
ZERO = const(0.0)


class Unknown(Exception):
  def __init__(self, term, why):
    super().__init__(why)
    self.term = term
    self.why = why


class Indeterminate(Exception):
  """a guard on the value spine compares a positive quantity of arbitrary magnitude with a positive threshold: whatever
  it does, it is not the identity for every healthy value"""
  def __init__(self, term, cond):
    super().__init__('guard depends on the magnitude of a positive quantity')
    self.term = term
    self.cond = cond


def _num(v):
  return isinstance(v, tuple) and v[0] == 'num'


def _bool(v):
  return isinstance(v, tuple) and v[0] == 'bool'


def _is_zero(v):
  return (_num(v) and v[1] == 0) or (_bool(v) and v[1] is False)


def _is_one(v):
  return (_num(v) and v[1] == 1) or (_bool(v) and v[1] is True)


def _as_num(v):
  if _num(v):
    return v[1]
  if _bool(v):
    return 1 if v[1] else 0
  return None


class Point:
  def __init__(self, leaf, override=None, atom=None):
    """leaf(t) -> value or None for terms the rule knows; override: {term: value} takes precedence; atom(t): terms
    `strip` leaves untouched (quantities whose own definition is not on the value spine; default: where leaf answers)."""
    self.leaf = leaf
    self.override = dict(override or {})
    self.atom = atom if atom is not None else (lambda t: leaf(t) is not None)
    self.memo = {}

  # ------------------------------------------------------------------ values
  def ival(self, t):
    if t in self.memo:
      return self.memo[t]
    self.memo[t] = None          # cycles cannot occur in a DAG; placeholder keeps recursion simple
    v = self._ival(t)
    self.memo[t] = v
    return v

  def _ival(self, t):
    if t in self.override:
      return self.override[t]
    s = strip_casts(t)
    if s is not t:
      return self.ival(s)
    lv = self.leaf(t)
    if lv is not None:
      return lv
    op, a = t.op, t.args
    if op == 'const':
      v = cval(t)
      if isinstance(v, bool):
        return ('bool', v)
      if isinstance(v, (int, float)):
        return ('num', v)
      return None
    if op == 'cmp' and len(a) == 3 and a[0] in _OPS:
      return self._cmp(a[0], self.ival(a[1]), self.ival(a[2]))
    if op == 'bin':
      return self._bin(a[0], a[1], a[2])
    if op == 'un':
      x = self.ival(a[1])
      if a[0] in ('~', 'not'):
        return ('bool', not x[1]) if _bool(x) else None
      if a[0] == '-':
        return ('num', -x[1]) if _num(x) else None
      if a[0] == '+':
        return x
      return None
    if op == 'bool' and len(a) >= 2 and a[0] in ('and', 'or'):
      vs = [self.ival(x) for x in a[1:]]
      if all(_bool(v) for v in vs):
        return ('bool', all(v[1] for v in vs) if a[0] == 'and' else any(v[1] for v in vs))
      return None
    if op in ('ite', 'cond') and len(a) == 3:
      c = self.ival(a[0])
      if _bool(c) or _num(c):
        return self.ival(a[1] if _as_num(c) else a[2])
      return None
    if op == 'sub':
      x = self.ival(a[0])
      return x if (x == 'pos' or _num(x) or _bool(x)) else None      # element-wise classes survive indexing
    if op == 'call' and a[0].op == 'ext':
      return self._ext(a[0].args[0], list(a[1]), dict(a[2]), t)
    if op == 'call' and a[0].op == 'attr' and a[0].args[1] in ('sum', 'any', 'all', 'astype'):
      return self._ext('jax.numpy.' + a[0].args[1], [a[0].args[0]] + list(a[1]), dict(a[2]), t)
    return None

  def _cmp(self, o, x, y):
    if x is None or y is None:
      return None
    nx, ny = _as_num(x), _as_num(y)
    if nx is not None and ny is not None:
      return ('bool', bool(_OPS[o](nx, ny)))
    if x == 'pos' and ny is not None and ny <= 0:
      return ('bool', o in ('>', '>=', '!='))
    if y == 'pos' and nx is not None and nx <= 0:
      return ('bool', o in ('<', '<=', '!='))
    if (x == 'pos' and (y == 'pos' or (ny is not None and ny > 0))) or (y == 'pos' and nx is not None and nx > 0):
      return 'indet'               # depends on the magnitude
    return None

  def _bin(self, o, ta, tb):
    x, y = self.ival(ta), self.ival(tb)
    if o == '*':
      if _is_zero(x) or _is_zero(y):
        return ('num', 0)
      if _is_one(x):
        return y
      if _is_one(y):
        return x
      if x == 'pos' and y == 'pos':
        return 'pos'
      nx, ny = _as_num(x), _as_num(y)
      if nx is not None and ny is not None:
        return ('num', nx * ny)
      if (x == 'pos' and ny is not None and ny > 0) or (y == 'pos' and nx is not None and nx > 0):
        return 'pos'
      return None
    if o == '/':
      if _is_one(y):
        return x
      if _is_zero(x) and y is not None and not _is_zero(y):
        return ('num', 0)
      if x == 'pos' and (y == 'pos' or (_as_num(y) or 0) > 0):
        return 'pos'
      nx, ny = _as_num(x), _as_num(y)
      if nx is not None and ny not in (None, 0):
        return ('num', nx / ny)
      return None
    if o in ('+', '-'):
      nx, ny = _as_num(x), _as_num(y)
      if o == '-' and _bool(y) and nx == 1:
        return ('bool', not y[1])                    # 1 - mask
      if nx is not None and ny is not None:
        return ('num', nx + ny if o == '+' else nx - ny)
      if o == '+' and ((x == 'pos' and (y == 'pos' or (ny is not None and ny >= 0))) or (y == 'pos' and nx is not None and nx >= 0)):
        return 'pos'
      if o == '-' and x == 'pos' and ny is not None and ny <= 0:
        return 'pos'
      return None
    if o in ('%', '//'):
      nx, ny = _as_num(x), _as_num(y)
      if nx is not None and ny not in (None, 0):
        return ('num', nx % ny if o == '%' else nx // ny)
      return None
    if o == '**':
      if x == 'pos':
        return 'pos'
      nx, ny = _as_num(x), _as_num(y)
      if nx is not None and ny is not None:
        try:
          return ('num', nx ** ny)
        except Exception:
          return None
      return None
    if o in ('&', '|'):
      if _bool(x) and _bool(y):
        return ('bool', (x[1] and y[1]) if o == '&' else (x[1] or y[1]))
      # short circuits
      if o == '&' and (_is_zero(x) or _is_zero(y)):
        return ('bool', False)
      if o == '|' and (_is_one(x) or _is_one(y)):
        return ('bool', True)
      return None
    return None

  def _ext(self, name, args, kw, t):
    short = name.split('.')[-1]
    mod = name.split('.')[0]
    if mod not in ('jax', 'numpy'):
      return None
    if short in ('where', 'select') and len(args) == 3:
      c = self.ival(args[0])
      if _bool(c) or _num(c):
        return self.ival(args[1] if _as_num(c) else args[2])
      return None
    if short in ('maximum', 'minimum') and len(args) == 2:
      x, y = self.ival(args[0]), self.ival(args[1])
      nx, ny = _as_num(x), _as_num(y)
      if nx is not None and ny is not None:
        return ('num', max(nx, ny) if short == 'maximum' else min(nx, ny))
      if short == 'maximum' and ((x == 'pos' and (ny is not None or y == 'pos')) or (y == 'pos' and nx is not None)):
        return 'pos'
      if short == 'minimum' and ((x == 'pos' and ny is not None and ny <= 0) or (y == 'pos' and nx is not None and nx <= 0)):
        return ('num', ny if x == 'pos' else nx)
      return None
    if short in ('sqrt', 'square', 'abs') and len(args) == 1:
      x = self.ival(args[0])
      if x == 'pos':
        return 'pos'
      n = _as_num(x)
      if n is not None:
        return ('num', {'sqrt': lambda v: v ** 0.5 if v >= 0 else None, 'square': lambda v: v * v, 'abs': abs}[short](n))
      return None
    if short == 'power' and len(args) == 2:
      return self._bin('**', args[0], args[1])
    if short in ('multiply', 'divide', 'true_divide', 'add', 'subtract') and len(args) == 2:
      return self._bin({'multiply': '*', 'divide': '/', 'true_divide': '/', 'add': '+', 'subtract': '-'}[short], args[0], args[1])
    if short in ('mod', 'remainder', 'floor_divide') and len(args) == 2:
      return self._bin('//' if short == 'floor_divide' else '%', args[0], args[1])
    if short in ('equal', 'not_equal', 'greater', 'greater_equal', 'less', 'less_equal') and len(args) == 2:
      o = {'equal': '==', 'not_equal': '!=', 'greater': '>', 'greater_equal': '>=', 'less': '<', 'less_equal': '<='}[short]
      return self._cmp(o, self.ival(args[0]), self.ival(args[1]))
    if short == 'logical_not' and len(args) == 1:
      x = self.ival(args[0])
      return ('bool', not _as_num(x)) if (_bool(x) or _num(x)) else None
    if short in ('logical_and', 'logical_or') and len(args) == 2:
      return self._bin('&' if short == 'logical_and' else '|', args[0], args[1])
    if short in ('any', 'all') and args:
      x = self.ival(args[0])
      return x if _bool(x) else None
    if short in ('max', 'min', 'amax', 'amin', 'mean') and args:
      x = self.ival(args[0])
      return x if (x == 'pos' or _num(x)) else None          # a reduction of a uniformly classified array
    if short == 'sum' and args:
      x = self.ival(args[0])
      return x if (x == 'pos' or _is_zero(x)) else None
    if short == 'norm' and name.endswith('linalg.norm') and args:
      x = self.ival(args[0])
      if _is_zero(x):
        return ('num', 0)
      ordv = kw.get('ord')
      if x == 'orth' and (ordv is None or is_const(ordv, None) or is_const(ordv, 2)) and is_const(kw.get('axis', const(None)), 0):
        return ('num', 1)              # column norms of a matrix with orthonormal columns
      return None
    if short in ('expand_dims', 'reshape', 'squeeze', 'transpose', 'flip') and args:
      x = self.ival(args[0])
      return x if (x == 'pos' or _num(x) or _bool(x)) else None
    return None

  # ------------------------------------------------------------------ reading through guards
  def strip(self, t, is_mask, memo=None):
    """t with every guard on its value spine replaced by its value at the point."""
    if memo is None:
      memo = {}

    def rec_arg(a):
      if isinstance(a, T):
        return rec(a)
      if isinstance(a, tuple):
        return tuple(rec_arg(x) for x in a)
      return a

    def pick(c, x):
      v = self.ival(c)
      if v == 'indet':
        raise Indeterminate(x, c)
      if not (_bool(v) or _num(v)):
        raise Unknown(x, 'guard cannot be evaluated at the reference point')
      return bool(_as_num(v))

    def rec(x):
      if x in memo:
        return memo[x]
      r = None
      if self.atom(x):
        r = x                        # a quantity the rule knows: not rewritten (its own definition is not on the spine)
      elif is_ext_call(x, 'jax.numpy.where', 'jax.lax.select', 'numpy.where') and len(x.args[1]) == 3:
        c, a, b = x.args[1]
        r = rec(a if pick(c, x) else b)
      elif is_ext_call(x, 'jax.numpy.maximum') and len(x.args[1]) == 2 and any(is_const(strip_casts(y), 0, 0.0) for y in x.args[1]):
        other = [y for y in x.args[1] if not is_const(strip_casts(y), 0, 0.0)]
        if other:
          v = self.ival(other[0])
          # max(x, 0) is x wherever x >= 0; at a point where x is unknown the clamp is read through (it never
          # lowers a value) - only a known negative value is replaced
          r = ZERO if (_num(v) and v[1] < 0) else rec(other[0])
      elif x.op == 'bin' and x.args[0] == '*' and (is_mask(x.args[1]) or is_mask(x.args[2])):
        m_, o_ = (x.args[1], x.args[2]) if is_mask(x.args[1]) else (x.args[2], x.args[1])
        r = rec(o_) if pick(m_, x) else ZERO
      elif x.op == 'bin' and x.args[0] == '/' and _is_one(self.ival(x.args[2])):
        r = rec(x.args[1])
      if r is None:
        args = tuple(rec_arg(a) for a in x.args)
        r = x if all(n is o for n, o in zip(args, x.args)) else T(x.op, *args)
      memo[x] = r
      return r
    return rec(t)

  def guards(self, t, is_mask):
    """[(guard node, condition, kept arm, dropped arm)] for the where-guards on the value spine of t"""
    out = []
    seen = set()

    def rec(x):
      if x in seen:
        return
      seen.add(x)
      if is_ext_call(x, 'jax.numpy.where', 'jax.lax.select', 'numpy.where') and len(x.args[1]) == 3:
        c, a, b = x.args[1]
        out.append((x, c, a, b))
        rec(a)
        rec(b)
        return
      if x.op == 'bin' and x.args[0] == '*' and (is_mask(x.args[1]) or is_mask(x.args[2])):
        rec(x.args[2] if is_mask(x.args[1]) else x.args[1])
        return
      for a in x.args:
        if isinstance(a, T):
          rec(a)
        elif isinstance(a, tuple):
          for y in a:
            if isinstance(y, T):
              rec(y)
    rec(t)
    return out
