"""Definite-assignment analysis (structured walk, correlated-guard aware).

Reports reads of a function-local name on a path where no assignment to it is
guaranteed to have happened.  Recognised idiom: a name assigned under
`if G:` is definitely assigned inside a later `if G:` with the same guard text,
provided no free name of G was re-bound in between.
"""
from __future__ import annotations

import ast

from .model import _local_names


class Report:
  def __init__(self, fi, name, node, kind):
    self.fi = fi
    self.name = name
    self.node = node
    self.kind = kind   # 'maybe-unbound' | 'closure-maybe-unbound'

  def __repr__(self):
    return f'<DA {self.fi.short}:{self.name}@{getattr(self.node, "lineno", 0)} {self.kind}>'


class _State:
  __slots__ = ('assigned', 'versions', 'guards')

  def __init__(self, assigned, versions=None, guards=None):
    self.assigned = set(assigned)
    self.versions = dict(versions or {})
    self.guards = dict(guards or {})   # canonical guard text -> (names bound when it holds, names bound when it fails, versions of free names)

  def copy(self):
    return _State(self.assigned, self.versions, self.guards)


def _names_read(expr):
  """Name loads directly in expr, not descending into nested function bodies
  (lambda bodies and comprehensions are handled by the caller)."""
  out = []

  def rec(n, bound):
    if isinstance(n, ast.Name):
      if isinstance(n.ctx, ast.Load) and n.id not in bound:
        out.append(n)
      return
    if isinstance(n, ast.Lambda):
      a = n.args
      b = set(bound) | {x.arg for x in a.posonlyargs + a.args + a.kwonlyargs}
      if a.vararg:
        b.add(a.vararg.arg)
      if a.kwarg:
        b.add(a.kwarg.arg)
      for d in a.defaults + [k for k in a.kw_defaults if k is not None]:
        rec(d, bound)
      # body executes later: treated like a closure (collected separately)
      return
    if isinstance(n, (ast.ListComp, ast.SetComp, ast.GeneratorExp, ast.DictComp)):
      b = set(bound)
      for i, g in enumerate(n.generators):
        rec(g.iter, b if i else bound)
        for t in ast.walk(g.target):
          if isinstance(t, ast.Name):
            b.add(t.id)
        for c in g.ifs:
          rec(c, b)
      if isinstance(n, ast.DictComp):
        rec(n.key, b)
        rec(n.value, b)
      else:
        rec(n.elt, b)
      return
    if isinstance(n, ast.NamedExpr):
      rec(n.value, bound)
      return
    for c in ast.iter_child_nodes(n):
      rec(c, bound)
  if expr is not None:
    rec(expr, frozenset())
  return out


def _lambda_bodies(expr):
  out = []
  if expr is None:
    return out
  for n in ast.walk(expr):
    if isinstance(n, ast.Lambda):
      out.append(n)
  return out


def _free_reads(fn):
  """Name loads inside the nested function `fn` (at any depth) that resolve to a scope enclosing `fn`: every
  nested def / lambda binds its own locals and parameters, so a deeper function's local of the same name is not a
  read of the enclosing function's variable."""
  out = []

  def scope(node, outer_bound):
    a = node.args
    bound = set(outer_bound) | {x.arg for x in a.posonlyargs + a.args + a.kwonlyargs}
    if a.vararg:
      bound.add(a.vararg.arg)
    if a.kwarg:
      bound.add(a.kwarg.arg)
    if not isinstance(node, ast.Lambda):
      bound |= _local_names(node)
    body = node.body if isinstance(node.body, list) else [node.body]

    def walk(n, bound):
      if isinstance(n, (ast.FunctionDef, ast.AsyncFunctionDef, ast.Lambda)):
        for d in n.args.defaults + [k for k in n.args.kw_defaults if k is not None]:
          walk(d, bound)
        for d in getattr(n, 'decorator_list', []):
          walk(d, bound)
        scope(n, bound)
        return
      if isinstance(n, ast.ClassDef):
        return
      if isinstance(n, ast.Name):
        if isinstance(n.ctx, ast.Load) and n.id not in bound:
          out.append(n)
        return
      if isinstance(n, (ast.ListComp, ast.SetComp, ast.GeneratorExp, ast.DictComp)):
        inner = set(bound)
        for i, g in enumerate(n.generators):
          walk(g.iter, inner if i else bound)
          inner |= {t.id for t in ast.walk(g.target) if isinstance(t, ast.Name)}
          for c in g.ifs:
            walk(c, inner)
        for part in ([n.key, n.value] if isinstance(n, ast.DictComp) else [n.elt]):
          walk(part, inner)
        return
      for c in ast.iter_child_nodes(n):
        walk(c, bound)
    for st in body:
      walk(st, bound)
  scope(fn, set())
  return out


def _free_names(expr):
  return {n.id for n in ast.walk(expr) if isinstance(n, ast.Name)}


class DA:

  def __init__(self, fi):
    self.fi = fi
    self.locals = fi.locals
    self.reports = []
    self.exit_states = []
    self.closure_reads = []   # (name, node, defining-state assigned set, kind)

  def run(self):
    node = self.fi.node
    a = node.args
    params = {x.arg for x in a.posonlyargs + a.args + a.kwonlyargs}
    if a.vararg:
      params.add(a.vararg.arg)
    if a.kwarg:
      params.add(a.kwarg.arg)
    st = _State(params)
    st, term = self.block(node.body, st)
    if not term:
      self.exit_states.append(st.assigned)
    at_exit = set.intersection(*self.exit_states) if self.exit_states else set()
    for name, n, assigned_at_def in self.closure_reads:
      if name not in assigned_at_def and name not in at_exit:
        self.reports.append(Report(self.fi, name, n, 'closure-maybe-unbound'))
    return self.reports

  def _nested_unbound_reads(self, fn, st):
    """Reads, inside the nested function `fn`, of this function's locals that are not dominated by a binding when the
    body of `fn` is analysed from the state at its definition - including the correlated guards recorded so far: a name
    bound under `if G:` outside is bound inside `fn` wherever G is known to hold (e.g. after `if not G: return`)."""
    a = fn.args
    params = {x.arg for x in a.posonlyargs + a.args + a.kwonlyargs}
    if a.vararg:
      params.add(a.vararg.arg)
    if a.kwarg:
      params.add(a.kwarg.arg)
    inner_locals = _local_names(fn) | params
    sub = DA.__new__(DA)
    sub.fi = self.fi
    sub.locals = set(self.locals) | inner_locals
    sub.reports, sub.exit_states, sub.closure_reads = [], [], []
    st2 = st.copy()
    st2.assigned = (set(st.assigned) - inner_locals) | params | {fn.name}
    try:
      sub.block(fn.body, st2)
    except RecursionError:
      return [n for n in _free_reads(fn) if n.id in self.locals]
    out = [r.node for r in sub.reports if r.name in self.locals and r.name not in inner_locals and isinstance(r.node, ast.Name)]
    out += [n for (nm, n, assigned_at_def) in sub.closure_reads if nm in self.locals and nm not in inner_locals and nm not in assigned_at_def]
    # only names that are free in fn can refer to the enclosing function's variables
    free = {id(n) for n in _free_reads(fn)}
    return [n for n in out if id(n) in free]

  # -- helpers
  def check_expr(self, expr, st):
    for n in _names_read(expr):
      if n.id in self.locals and n.id not in st.assigned:
        self.reports.append(Report(self.fi, n.id, n, 'maybe-unbound'))
    for lam in _lambda_bodies(expr):
      a = lam.args
      bound = {x.arg for x in a.posonlyargs + a.args + a.kwonlyargs}
      if a.vararg:
        bound.add(a.vararg.arg)
      if a.kwarg:
        bound.add(a.kwarg.arg)
      for n in _names_read(lam.body):
        if n.id in self.locals and n.id not in bound:
          self.closure_reads.append((n.id, n, set(st.assigned)))

  def bind(self, target, st):
    if isinstance(target, ast.Name):
      st.assigned.add(target.id)
      st.versions[target.id] = st.versions.get(target.id, 0) + 1
    elif isinstance(target, (ast.Tuple, ast.List)):
      for e in target.elts:
        self.bind(e, st)
    elif isinstance(target, ast.Starred):
      self.bind(target.value, st)
    elif isinstance(target, (ast.Attribute, ast.Subscript)):
      self.check_expr(target.value, st)
      if isinstance(target, ast.Subscript):
        self.check_expr(target.slice, st)

  def block(self, stmts, st):
    for s in stmts:
      st, term = self.stmt(s, st)
      if term:
        return st, True
    return st, False

  def stmt(self, s, st):
    if isinstance(s, ast.Assign):
      self.check_expr(s.value, st)
      for t in s.targets:
        self.bind(t, st)
      return st, False
    if isinstance(s, ast.AnnAssign):
      if s.value is not None:
        self.check_expr(s.value, st)
        self.bind(s.target, st)
      return st, False
    if isinstance(s, ast.AugAssign):
      self.check_expr(s.value, st)
      if isinstance(s.target, ast.Name):
        if s.target.id in self.locals and s.target.id not in st.assigned:
          self.reports.append(Report(self.fi, s.target.id, s.target, 'maybe-unbound'))
      self.bind(s.target, st)
      return st, False
    if isinstance(s, ast.Expr):
      self.check_expr(s.value, st)
      return st, False
    if isinstance(s, ast.Return):
      self.check_expr(s.value, st)
      self.exit_states.append(set(st.assigned))
      return st, True
    if isinstance(s, ast.Raise):
      self.check_expr(s.exc, st)
      self.check_expr(s.cause, st)
      return st, True
    if isinstance(s, ast.Assert):
      self.check_expr(s.test, st)
      self.check_expr(s.msg, st)
      return st, False
    if isinstance(s, ast.Delete):
      for t in s.targets:
        if isinstance(t, ast.Name):
          st.assigned.discard(t.id)
          st.versions[t.id] = st.versions.get(t.id, 0) + 1
        else:
          self.check_expr(t, st)
      return st, False
    if isinstance(s, (ast.FunctionDef, ast.AsyncFunctionDef)):
      for d in s.args.defaults + [k for k in s.args.kw_defaults if k is not None]:
        self.check_expr(d, st)
      for d in s.decorator_list:
        self.check_expr(d, st)
      # free reads of enclosing locals inside the nested def
      for n in self._nested_unbound_reads(s, st):
        self.closure_reads.append((n.id, n, set(st.assigned) | {s.name}))
      st.assigned.add(s.name)
      st.versions[s.name] = st.versions.get(s.name, 0) + 1
      return st, False
    if isinstance(s, ast.ClassDef):
      st.assigned.add(s.name)
      return st, False
    if isinstance(s, (ast.Import, ast.ImportFrom)):
      for al in s.names:
        st.assigned.add((al.asname or al.name).split('.')[0])
      return st, False
    if isinstance(s, ast.If):
      return self.if_(s, st)
    if isinstance(s, (ast.For, ast.AsyncFor)):
      self.check_expr(s.iter, st)
      body = st.copy()
      self.bind(s.target, body)
      body, _ = self.block(s.body, body)
      # zero iterations possible: keep pre-state; versions of names bound in the body advance
      after = st.copy()
      for k, v in body.versions.items():
        if v != st.versions.get(k, 0):
          after.versions[k] = v
      after, term = self.block(s.orelse, after)
      return after, False
    if isinstance(s, ast.While):
      self.check_expr(s.test, st)
      always = isinstance(s.test, ast.Constant) and bool(s.test.value)
      body = st.copy()
      body, bterm = self.block(s.body, body)
      if always:
        # leaves only through break/return; approximate with the state after one body pass
        return body, False
      after = st.copy()
      for k, v in body.versions.items():
        if v != st.versions.get(k, 0):
          after.versions[k] = v
      after, _ = self.block(s.orelse, after)
      return after, False
    if isinstance(s, (ast.With, ast.AsyncWith)):
      for it in s.items:
        self.check_expr(it.context_expr, st)
        if it.optional_vars is not None:
          self.bind(it.optional_vars, st)
      return self.block(s.body, st)
    if isinstance(s, ast.Try):
      pre = st.copy()
      body, bterm = self.block(s.body, st.copy())
      if not bterm:
        body, bterm = self.block(s.orelse, body)
      outs = [] if bterm else [body]
      for h in s.handlers:
        hs = pre.copy()
        if h.name:
          hs.assigned.add(h.name)
        hs, hterm = self.block(h.body, hs)
        if not hterm:
          outs.append(hs)
      if not outs:
        if s.finalbody:
          self.block(s.finalbody, pre.copy())
        return pre, True
      merged = outs[0].copy()
      for o in outs[1:]:
        merged.assigned &= o.assigned
      if s.finalbody:
        merged, fterm = self.block(s.finalbody, merged)
        if fterm:
          return merged, True
      return merged, False
    if isinstance(s, (ast.Global, ast.Nonlocal, ast.Pass, ast.Break, ast.Continue)):
      return st, False
    # unknown compound statement: check expressions, assume bodies may run
    for c in ast.iter_child_nodes(s):
      if isinstance(c, ast.expr):
        self.check_expr(c, st)
    return st, False

  @staticmethod
  def _guard_key(test):
    """(canonical text, polarity): `not x`, `x is not None`, `a != b` are the negations of `x`, `x is None`, `a == b`."""
    pos = True
    t = test
    while True:
      if isinstance(t, ast.UnaryOp) and isinstance(t.op, ast.Not):
        t, pos = t.operand, not pos
        continue
      if isinstance(t, ast.Compare) and len(t.ops) == 1 and isinstance(t.ops[0], (ast.IsNot, ast.NotEq, ast.NotIn)):
        op = {ast.IsNot: ast.Is, ast.NotEq: ast.Eq, ast.NotIn: ast.In}[type(t.ops[0])]()
        t = ast.Compare(left=t.left, ops=[op], comparators=t.comparators)
        pos = not pos
        continue
      break
    return ast.unparse(t), pos

  def if_(self, s, st):
    self.check_expr(s.test, st)
    gtext, pos = self._guard_key(s.test)
    gfree = _free_names(s.test)
    a = st.copy()
    b = st.copy()
    # correlated guard: same (canonical) test, free names unchanged since it was recorded: names assigned only when
    # the test held are assigned again where it holds, names assigned only when it failed where it fails
    rec = st.guards.get(gtext)
    if rec is not None:
      names_t, names_f, vers = rec
      if all(st.versions.get(k, 0) == v for k, v in vers.items()):
        (a if pos else b).assigned |= names_t
        (b if pos else a).assigned |= names_f
    a, aterm = self.block(s.body, a)
    b, bterm = self.block(s.orelse, b)
    if aterm and bterm:
      return a, True
    if aterm:
      return b, False
    if bterm:
      return a, False
    merged = _State(a.assigned & b.assigned)
    for k in set(a.versions) | set(b.versions):
      merged.versions[k] = max(a.versions.get(k, 0), b.versions.get(k, 0))
    merged.guards = dict(st.guards)
    only_a = a.assigned - b.assigned - st.assigned
    only_b = b.assigned - a.assigned - st.assigned
    if (only_a or only_b) and not (gfree & (set(only_a) | set(only_b))):
      old_t, old_f = (st.guards[gtext][0], st.guards[gtext][1]) if gtext in st.guards else (set(), set())
      t_names, f_names = (only_a, only_b) if pos else (only_b, only_a)
      merged.guards[gtext] = (set(t_names) | old_t, set(f_names) | old_f, {k: merged.versions.get(k, 0) for k in gfree})
    return merged, False


def analyse(fi):
  return DA(fi).run()
