"""Documented formulas written as python expressions over named leaves, compared
with the value graph derived from the source (both go through the same
term -> sympy normal form)."""
from __future__ import annotations

import ast

from .evalr import Scope
from .model import AnalysisError
from .symb import Symb, equal
from .terms import T, ext, sym, subst, show, const

_STD = {'jnp': ext('jax.numpy'), 'lax': ext('jax.lax'), 'jax': ext('jax'), 'np': ext('numpy'),
        'functools': ext('functools')}


def spec_term(ev, src, env):
  """Evaluate expression source `src` with names bound to terms in env."""
  node = ast.parse(src.strip(), mode='eval').body
  sc = Scope('function', None, locals_=set(), label='<spec>')
  sc.vars.update(_STD)
  sc.vars.update(env)
  from .evalr import _Frame
  ev.frames.append(_Frame('<spec>', len(ev.path)))
  try:
    return ev.ev(node, sc)
  finally:
    ev.frames.pop()


def closure_values(ev, fi, names, required=True):
  """Values of closure variables `names` visible from function fi (its defining scope)."""
  sc = ev.closure_env(fi)
  out = {}
  for n in names:
    v = ev.lookup(n, sc)
    if v.op in ('unknown', 'unbound'):
      if required:
        raise AnalysisError(f'closure variable {n!r} not found in the scope of {fi.short}')
      continue
    out[n] = v
  return out


def abstract(term, values):
  """Replace each occurrence of a closure value by a named spec symbol.
  Larger terms are replaced first (they may contain smaller ones)."""
  mapping = {}
  for n, v in values.items():
    if v.op == 'const':
      continue
    mapping[v] = sym('spec', n)
  return subst(term, mapping), {n: (sym('spec', n) if v.op != 'const' else v) for n, v in values.items()}


class Comparer:
  def __init__(self, **symb_kw):
    self.symb = Symb(**symb_kw)

  def same(self, got, exp):
    return equal(self.symb.conv(got), self.symb.conv(exp))

  def fmt(self, t):
    try:
      return str(self.symb.conv(t))[:400]
    except Exception:
      return show(t)[:400]


def spec_block(ev, src, env, decide=None):
  """Execute statement source `src` abstractly in a fresh scope seeded with env;
  returns the resulting variable map (name -> term)."""
  import textwrap
  tree = ast.parse(textwrap.dedent(src))
  sc = Scope('function', None, locals_=set(), label='<spec>')
  sc.vars.update(_STD)
  sc.vars.update(env)
  from .evalr import _Frame
  ev.frames.append(_Frame('<spec>', len(ev.path)))
  try:
    ev.exec_block(tree.body, sc)
  finally:
    ev.frames.pop()
  return sc.vars
