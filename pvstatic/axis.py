"""AXIS domain: batch-axis non-interference.

An abstract value is (rank, batch_axis) with batch_axis an int, None (not batched: a scalar /
configuration value) or MIXED (data of different blocks has been combined).  Transfer functions
cover the jax.numpy operations used by Tearfree Shampoo's block routines.
"""
from __future__ import annotations

from .lib import ext_name, method_name, show
from .terms import T, is_const, cval

MIXED = 'MIXED'


class AxisError(Exception):
  pass


class Val:
  __slots__ = ('rank', 'batch', 'why')

  def __init__(self, rank, batch, why=''):
    self.rank = rank
    self.batch = batch
    self.why = why

  def __repr__(self):
    return f'Val(rank={self.rank}, batch={self.batch}{", " + self.why if self.why else ""})'


SCALAR = Val(0, None)


def _axis_list(t, rank):
  """Resolve an `axis` argument term to a list of non-negative ints."""
  if t is None or is_const(t, None):
    return None
  if is_const(t) and isinstance(cval(t), int):
    a = cval(t)
    return [a + rank if a < 0 else a]
  if t.op in ('tuple', 'list') and all(is_const(x) for x in t.args):
    return [(cval(x) + rank if cval(x) < 0 else cval(x)) for x in t.args]
  raise AxisError(f'axis argument not static: {show(t, maxdepth=3)}')


class Axis:
  def __init__(self, seeds):
    self.seeds = dict(seeds)   # term -> Val
    self.memo = {}
    self.events = []           # (term, description) where MIXED was introduced

  def val(self, t):
    if t in self.seeds:
      return self.seeds[t]
    if t in self.memo:
      return self.memo[t]
    v = self._val(t)
    self.memo[t] = v
    return v

  def _mixed(self, t, why):
    self.events.append((t, why))
    return Val(None, MIXED, why)

  def _join(self, t, vals):
    """Elementwise combination with right-aligned broadcasting."""
    vals = [v for v in vals if v is not None]
    if any(v.batch == MIXED for v in vals):
      return Val(None, MIXED, 'operand mixed')
    rank = max([v.rank for v in vals if v.rank is not None] or [0])
    batch = None
    for v in vals:
      if v.batch is None:
        continue
      # position from the right
      pos = v.batch + (rank - v.rank)
      if batch is None:
        batch = pos
      elif batch != pos:
        return self._mixed(t, f'operands carry the block axis at different positions ({batch} vs {pos})')
    return Val(rank, batch)

  def _val(self, t):
    op = t.op
    if op == 'const':
      return SCALAR
    if op == 'sym':
      return SCALAR
    if op in ('bin',):
      return self._join(t, [self.val(t.args[1]), self.val(t.args[2])])
    if op == 'un':
      return self.val(t.args[1])
    if op == 'cmp':
      return self._join(t, [self.val(t.args[1]), self.val(t.args[2])])
    if op == 'ite':
      return self._join(t, [self.val(t.args[1]), self.val(t.args[2])])
    if op == 'sub':
      base = self.val(t.args[0])
      if t.args[0].op == 'call' and ext_name(t.args[0]) in ('jax.numpy.linalg.eigh',) and is_const(t.args[1]):
        inner = self.val(t.args[0].args[1][0])
        if inner.batch == MIXED:
          return inner
        if cval(t.args[1]) == 0:
          return Val(inner.rank - 1, inner.batch)
        return Val(inner.rank, inner.batch)
      if base.batch is None:
        return base
      # x[..., None, :] / x[:, None]: an index made of one None and otherwise full slices / an ellipsis only inserts a unit axis
      idx = t.args[1]
      items = list(idx.args) if idx.op == 'tuple' else [idx]
      is_none = lambda y: (y.op == 'const' and cval(y) is None) or (y.op == 'ext' and y.args[0].endswith('.newaxis'))
      is_full = lambda y: (y.op == 'slice' and all(z.op == 'const' and cval(z) is None for z in y.args)) or (y.op == 'const' and cval(y) is Ellipsis)
      nones = [i for i, y in enumerate(items) if is_none(y)]
      if len(nones) == 1 and all(is_full(y) for i, y in enumerate(items) if i != nones[0]) and base.batch != MIXED:
        k = nones[0]
        has_ell_before = any(y.op == 'const' and cval(y) is Ellipsis for y in items[:k])
        a = (base.rank + 1 - (len(items) - k)) if has_ell_before else k
        return Val(base.rank + 1, base.batch + (1 if a <= base.batch else 0))
      raise AxisError(f'indexing a batched value: {show(t, maxdepth=3)}')
    if op == 'attr':
      if t.args[1] in ('shape', 'ndim', 'dtype', 'size'):
        return SCALAR
      return SCALAR
    if op == 'call':
      return self._call(t)
    if op in ('tuple', 'list'):
      return SCALAR
    raise AxisError(f'no AXIS transfer for {op}: {show(t, maxdepth=3)}')

  def _call(self, t):
    n = ext_name(t)
    m = method_name(t)
    args = list(t.args[1])
    kw = dict(t.args[2])
    if m in ('astype', 'copy'):
      return self.val(t.args[0].args[0])
    if n is None and m is None:
      if t.args[0].op == 'builtin':
        return SCALAR
      raise AxisError(f'unknown call {show(t, maxdepth=3)}')
    ELEMWISE = {'jax.numpy.where', 'jax.numpy.maximum', 'jax.numpy.minimum', 'jax.numpy.sqrt', 'jax.numpy.square',
                'jax.numpy.abs', 'jax.numpy.power', 'jax.numpy.exp', 'jax.numpy.log', 'jax.numpy.sign',
                'jax.numpy.logical_and', 'jax.numpy.logical_or', 'jax.numpy.logical_not', 'jax.numpy.isnan',
                'jax.numpy.isfinite', 'jax.lax.rsqrt', 'jax.numpy.reciprocal', 'jax.numpy.asarray', 'jax.numpy.array',
                'jax.numpy.ones_like', 'jax.numpy.zeros_like', 'jax.numpy.multiply', 'jax.numpy.add', 'jax.numpy.subtract',
                'jax.numpy.divide', 'jax.numpy.clip', 'jax.numpy.nan_to_num'}
    if n in ELEMWISE:
      return self._join(t, [self.val(a) for a in args])
    REDUCE = {'jax.numpy.max', 'jax.numpy.min', 'jax.numpy.sum', 'jax.numpy.mean', 'jax.numpy.any', 'jax.numpy.all',
              'jax.numpy.linalg.norm', 'jax.numpy.prod', 'jax.numpy.amax', 'jax.numpy.amin', 'jax.numpy.median',
              'jax.numpy.trace', 'jax.numpy.std', 'jax.numpy.var'}
    RMETH = {'max', 'min', 'sum', 'mean', 'any', 'all', 'prod'}
    if n in REDUCE or m in RMETH:
      x = args[0] if n else t.args[0].args[0]
      rest = args[1:] if n else args
      v = self.val(x)
      if v.batch == MIXED:
        return v
      if v.batch is None:
        return SCALAR
      ax = kw.get('axis', rest[0] if rest else None)
      axes = _axis_list(ax, v.rank)
      keep = 'keepdims' in kw and is_const(kw['keepdims'], True)
      if axes is None:
        return self._mixed(t, f'`{(n or m).split(".")[-1]}` without an axis reduces over the block axis: every block sees all blocks')
      if v.batch in axes:
        return self._mixed(t, f'`{(n or m).split(".")[-1]}` reduces over the block axis {v.batch}')
      if keep:
        return Val(v.rank, v.batch)
      nb = v.batch - sum(1 for a in axes if a < v.batch)
      return Val(v.rank - len(axes), nb)
    if n == 'jax.numpy.linalg.eigh':
      return self.val(args[0])
    if n == 'jax.numpy.expand_dims':
      v = self.val(args[0])
      if v.batch in (None, MIXED):
        return v
      ax = kw.get('axis', args[1] if len(args) > 1 else None)
      a = cval(ax)
      if a < 0:
        a += v.rank + 1
      return Val(v.rank + 1, v.batch + (1 if a <= v.batch else 0))
    if n == 'jax.numpy.einsum':
      if not (args and is_const(args[0]) and isinstance(cval(args[0]), str)):
        raise AxisError('einsum formula not static')
      formula = cval(args[0]).replace(' ', '')
      ins, out = formula.split('->')
      ins = ins.split(',')
      ops = [self.val(a) for a in args[1:]]
      if any(v.batch == MIXED for v in ops):
        return Val(None, MIXED, 'operand mixed')
      letters = set()
      for spec, v in zip(ins, ops):
        if v.batch is not None:
          letters.add(spec[v.batch])
      if not letters:
        return Val(len(out), None)
      if len(letters) > 1:
        return self._mixed(t, f'einsum `{formula}` binds the block axis of its operands to different letters {sorted(letters)}')
      b = letters.pop()
      for spec, v in zip(ins, ops):
        if v.batch is None and b in spec:
          return self._mixed(t, f'einsum `{formula}` contracts the block letter with an unbatched operand')
      if b not in out:
        return self._mixed(t, f'einsum `{formula}` sums over the block letter `{b}`')
      return Val(len(out), out.index(b))
    if n in ('jax.numpy.matmul', 'jax.numpy.dot', 'jax.numpy.tensordot'):
      vs = [self.val(a) for a in args[:2]]
      if any(v.batch == MIXED for v in vs):
        return Val(None, MIXED, 'operand mixed')
      if all(v.batch is None for v in vs):
        return SCALAR
      if n == 'jax.numpy.matmul' and all(v.batch == 0 and v.rank == 3 for v in vs):
        return Val(3, 0)
      return self._mixed(t, f'`{n.split(".")[-1]}` contracts batched operands outside vmap')
    if n in ('jax.numpy.transpose', 'jax.numpy.swapaxes', 'jax.numpy.reshape', 'jax.numpy.concatenate', 'jax.numpy.stack'):
      vs = [self.val(a) for a in args[:1]]
      if vs and vs[0].batch is None:
        return vs[0]
      raise AxisError(f'no AXIS transfer for {n} on a batched value')
    raise AxisError(f'no AXIS transfer for {n or m}: {show(t, maxdepth=3)}')
