"""pvstatic: repository-specific static analysis for google-research/precondition."""
