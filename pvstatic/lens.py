"""LEN domain: symbolic lengths of list-valued terms (sympy expressions)."""
from __future__ import annotations

import sympy as sp

from .symb import Symb
from .terms import T, is_const, cval
from .lib import show


class LenError(Exception):
  pass


class Len:
  def __init__(self, symb=None, assume=None):
    self.symb = symb or Symb(leaf=self._leaf)
    self.assume = dict(assume or {})    # term -> sympy length (e.g. caller-provided parallel lists)
    self.memo = {}

  def _leaf(self, t):
    # len(<list term>) inside scalar expressions is measured by this domain
    if t.op == 'call' and t.args[0].op == 'builtin' and t.args[0].args[0] == 'len' and len(t.args[1]) == 1 and \
        t.args[1][0].op in ('list', 'tuple', 'mut', 'bin', 'ite'):
      try:
        return self.of(t.args[1][0])
      except LenError:
        return None
    return None

  def scalar(self, t):
    return self.symb.conv(t)

  def of(self, t):
    if t in self.assume:
      return self.assume[t]
    if t in self.memo:
      return self.memo[t]
    r = self._of(t)
    self.memo[t] = r
    return r

  def _dom(self, d):
    if d.op == 'compdom':
      if len(d.args) > 1:
        raise LenError('filtered comprehension: length not exact')
      return self._iter(d.args[0])
    if d.op == 'repeat':
      return self.scalar(d.args[0])
    if d.op == 'loopdom':
      guards = d.args[2] if len(d.args) > 2 else ()
      if guards:
        raise LenError('conditionally appended element')
      n = self._iter(d.args[1])
      inner = d.args[3] if len(d.args) > 3 else None
      if inner is not None and not is_const(inner, None):
        return n * self._dom(inner)
      return n
    if d.op == 'sliceof':
      base, sl = d.args
      return self._slice_len(base, sl)
    if d.op == 'mapdom':
      return self._iter(d.args[0])
    if d.op in ('list', 'tuple', 'sym', 'mut', 'call'):
      return self._iter(d)
    raise LenError(f'unknown iteration domain {d.op}')

  def _iter(self, it):
    if it.op == 'call' and it.args[0].op == 'builtin':
      n = it.args[0].args[0]
      a = it.args[1]
      if n == 'range' and len(a) == 1:
        return self.scalar(a[0])
      if n == 'range' and len(a) == 2:
        return self.scalar(a[1]) - self.scalar(a[0])
      if n in ('list', 'tuple', 'reversed', 'enumerate', 'sorted') and a:
        return self._iter(a[0])
      if n == 'zip' and a:
        ls = [self._iter(x) for x in a]
        if all(sp.simplify(l - ls[0]) == 0 for l in ls):
          return ls[0]
        raise LenError('zip of lists with different symbolic lengths')
    if it.op == 'range_c':
      return sp.Integer(len(range(*it.args)))
    return self.of(it)

  def _slice_len(self, base, sl):
    n = self.of(base)
    lo, hi, st = sl.args
    if not is_const(st, None):
      raise LenError('strided slice')
    lo_e = sp.Integer(0) if is_const(lo, None) else self.scalar(lo)
    hi_e = n if is_const(hi, None) else self.scalar(hi)
    return sp.expand(hi_e - lo_e)

  def _of(self, t):
    op = t.op
    if op in ('list', 'tuple'):
      total = sp.Integer(0)
      for e in t.args:
        if e.op == 'star':
          if e.args[0].op == 'loopacc':
            raise LenError('list still being built in a loop')
          total += self._dom(e.args[1])
        else:
          total += 1
      return sp.expand(total)
    if op == 'sym':
      return self.symb.f('py_len', self.symb.conv(t))
    if op == 'mut':
      base, meth, args = t.args[0], t.args[1], t.args[2]
      if meth == 'extend':
        return sp.expand(self.of(base) + self.of(args[0]))
      if meth == 'append':
        return self.of(base) + 1
      raise LenError(f'mutation {meth}')
    if op == 'bin' and t.args[0] == '+':
      return sp.expand(self.of(t.args[1]) + self.of(t.args[2]))
    if op == 'sub' and t.args[1].op == 'slice':
      return self._slice_len(t.args[0], t.args[1])
    if op == 'ite':
      a, b = self.of(t.args[1]), self.of(t.args[2])
      if sp.simplify(a - b) == 0:
        return a
      raise LenError('branches of different length')
    if op == 'call' and t.args[0].op == 'builtin' and t.args[0].args[0] in ('list', 'tuple') and t.args[1]:
      return self._iter(t.args[1][0])
    if op in ('attr', 'elem', 'leaf'):
      return self.symb.f('py_len', self.symb.conv(t))
    raise LenError(f'no length for {op}: {show(t, maxdepth=2)}')
