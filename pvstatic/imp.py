"""Abstract interpreter for small imperative python (integer / float bookkeeping over dicts and loops).

Used where the property is about accounting done by plain python statements (C17: Sketchy memory
reallocation).  Statements are interpreted over symbolic values (sympy expressions); conditions the current
path does not decide split the path (the loop's own tests are the only split points); facts are kept in a
product of two classical domains

  * zones (difference bounds  x - y <= c  over atoms, closed by shortest paths; strict bounds between integer
    atoms are tightened by one), and
  * signs (pos / nonneg / zero / nonpos / neg, propagated through + * / floor),

so entailment questions ("is the denominator positive here?", "is rank' <= dim?", "does the pool still cover
what was handed out?") are answered by closure and sign propagation - there is no solver.  Loops are analysed
one symbolic iteration at a time from a havocked loop head to which a rule may add the invariant it wants to
check; after a loop everything the body assigns or mutates is havocked.  Nothing here executes repository
code: the input is the ast of the function.
"""
from __future__ import annotations

import ast
import copy
import itertools

import sympy as sp

from .model import AnalysisError


# ---------------------------------------------------------------- symbolic atoms

class cell(sp.Function):
  """cell(D, k): value stored under key k in dict version D (ranks: integers)."""
  is_integer = True
  is_real = True


class dsum(sp.Function):
  """sum of the values of dict version D."""
  is_integer = True
  is_real = True


class plen(sp.Function):
  is_integer = True
  is_nonnegative = True
  is_real = True


class opq(sp.Function):
  """uninterpreted pure call / subscript / attribute."""
  is_real = True


class trunc(sp.Function):
  """python int() of a float (truncation)."""
  is_integer = True
  is_real = True


_fresh = itertools.count()


def fresh(name, **assume):
  return sp.Symbol(f'{name}#{next(_fresh)}', **assume)


class DictObj:
  def __init__(self, oid):
    self.oid = oid
    self.version = 0
    self.cells = {}

  def sym(self):
    return sp.Symbol(f'dict{self.oid}v{self.version}')

  def havoc(self):
    self.version += 1
    self.cells = {}

  def __repr__(self):
    return f'<dict{self.oid}v{self.version} {self.cells}>'


class FuncObj:
  def __init__(self, node, env):
    self.node = node
    self.env = env          # defining environment (shared, by reference: closures see later bindings)


class Tup(tuple):
  pass


class Obj:
  """Opaque non-numeric python object (list literal, comprehension result, ...), identified structurally."""

  def __init__(self, tag):
    self.tag = tag

  def __repr__(self):
    return f'<obj {self.tag}>'


def as_sym(v):
  """Sympy stand-in for any value (used as argument of uninterpreted functions)."""
  if isinstance(v, sp.Basic):
    return v
  if isinstance(v, DictObj):
    return v.sym()
  if isinstance(v, Tup):
    return sp.Tuple(*[as_sym(x) for x in v])
  if isinstance(v, Obj):
    return sp.Symbol(f'obj:{v.tag}')
  if isinstance(v, FuncObj):
    return sp.Symbol(f'fn:{v.node.name}')
  if isinstance(v, str):
    return sp.Symbol(f'str:{v}')
  if v is None:
    return sp.Symbol('None')
  if isinstance(v, bool):
    return sp.true if v else sp.false
  if isinstance(v, (int, float)):
    return sp.nsimplify(v)
  return sp.Symbol(f'py:{v!r}')


# ---------------------------------------------------------------- facts: zones + signs

def _lin(expr):
  """expr -> (a, b, c) with expr == a - b + c, a / b atoms or None; None if not of that form."""
  expr = sp.expand(expr)
  d = expr.as_coefficients_dict()
  c = sp.Integer(0)
  pos, neg = [], []
  for term, co in d.items():
    if term == 1:
      c += co
    elif co == 1:
      pos.append(term)
    elif co == -1:
      neg.append(term)
    else:
      return None
  if len(pos) > 1 or len(neg) > 1:
    return None
  if not c.is_number:
    return None
  return (pos[0] if pos else None, neg[0] if neg else None, c)


def _is_int(e):
  return e is None or bool(e.is_integer) or isinstance(e, (sp.floor, trunc, cell, dsum, plen))


class Facts:
  """Conjunction of facts:  ('le', e): e <= 0, ('lt', e): e < 0, ('eq', e), ('ne', e), ('true', atom), ('false', atom)."""

  def __init__(self, items=()):
    self.items = list(items)
    self._zone = None

  def copy(self):
    return Facts(self.items)

  def add(self, kind, e=None):
    if kind in ('le', 'lt', 'eq', 'ne'):
      e = sp.expand(e)
    if (kind, e) not in self.items:
      self.items.append((kind, e))
      self._zone = None

  # -- relational <-> canonical
  @staticmethod
  def canon(rel):
    """sympy relational / boolean -> list of alternatives, each a list of (kind, expr) (a small DNF)."""
    if rel is sp.true:
      return [[]]
    if rel is sp.false:
      return []
    if isinstance(rel, sp.Symbol) or isinstance(rel, sp.Function) and not isinstance(rel, sp.core.relational.Relational):
      return [[('true', rel)]]
    if isinstance(rel, sp.Not):
      a = rel.args[0]
      if isinstance(a, (sp.Symbol,)) or isinstance(a, sp.Function):
        return [[('false', a)]]
      return Facts.canon(Facts.negate(a))
    if isinstance(rel, sp.And):
      out = [[]]
      for a in rel.args:
        out = [x + y for x in out for y in Facts.canon(a)]
      return out
    if isinstance(rel, sp.Or):
      out = []
      for a in rel.args:
        out.extend(Facts.canon(a))
      return out
    if isinstance(rel, sp.core.relational.Relational):
      l, r = rel.lhs, rel.rhs
      e = sp.expand(l - r)
      if isinstance(rel, sp.Le):
        return [[('le', e)]]
      if isinstance(rel, sp.Lt):
        return [[('lt', e)]]
      if isinstance(rel, sp.Ge):
        return [[('le', -e)]]
      if isinstance(rel, sp.Gt):
        return [[('lt', -e)]]
      if isinstance(rel, sp.Eq):
        return [[('eq', e)]]
      if isinstance(rel, sp.Ne):
        return [[('ne', e)]]
    raise AnalysisError(f'condition not understood: {rel}')

  @staticmethod
  def negate(rel):
    if rel is sp.true:
      return sp.false
    if rel is sp.false:
      return sp.true
    if isinstance(rel, sp.core.relational.Relational):
      return {sp.Le: sp.Gt, sp.Lt: sp.Ge, sp.Ge: sp.Lt, sp.Gt: sp.Le, sp.Eq: sp.Ne, sp.Ne: sp.Eq}[type(rel)](rel.lhs, rel.rhs, evaluate=False) \
          if type(rel) in (sp.Le, sp.Lt, sp.Ge, sp.Gt, sp.Eq, sp.Ne) else sp.Not(rel)
    if isinstance(rel, sp.And):
      return sp.Or(*[Facts.negate(a) for a in rel.args])
    if isinstance(rel, sp.Or):
      return sp.And(*[Facts.negate(a) for a in rel.args])
    if isinstance(rel, sp.Not):
      return rel.args[0]
    return sp.Not(rel)

  # -- zones
  def zone(self):
    if self._zone is not None:
      return self._zone
    Z = 'ZERO'
    nodes = {Z}
    edges = {}

    def put(a, b, c, strict):
      a = Z if a is None else a
      b = Z if b is None else b
      nodes.add(a)
      nodes.add(b)
      if strict and _is_int(None if a == Z else a) and _is_int(None if b == Z else b) and c.is_integer:
        c, strict = c - 1, False
      k = (a, b)
      if k not in edges or (c, not strict) < (edges[k][0], not edges[k][1]):
        edges[k] = (c, strict)
    for kind, e in self.items:
      if kind in ('le', 'lt', 'eq'):
        l = _lin(e)
        if l is None:
          continue
        a, b, c = l          # a - b + c <= 0  ->  a - b <= -c
        put(a, b, -c, kind == 'lt')
        if kind == 'eq':
          put(b, a, c, False)
    # sign knowledge of atoms carried by sympy assumptions
    for n in list(nodes):
      if n == Z:
        continue
      if n.is_positive:
        put(None, n, sp.Integer(0), True)        # 0 - n < 0
      elif n.is_nonnegative:
        put(None, n, sp.Integer(0), False)
      if n.is_negative:
        put(n, None, sp.Integer(0), True)
      elif n.is_nonpositive:
        put(n, None, sp.Integer(0), False)
    ns = list(nodes)
    d = dict(edges)
    for k in ns:
      for i in ns:
        if (i, k) not in d:
          continue
        for j in ns:
          if (k, j) not in d:
            continue
          c = d[(i, k)][0] + d[(k, j)][0]
          s = d[(i, k)][1] or d[(k, j)][1]
          if s and _is_int(None if i == Z else i) and _is_int(None if j == Z else j) and c.is_integer:
            c, s = c - 1, False
          if (i, j) not in d or (c, not s) < (d[(i, j)][0], not d[(i, j)][1]):
            d[(i, j)] = (c, s)
    self._zone = d
    return d

  def infeasible(self):
    d = self.zone()
    for (i, j), (c, s) in d.items():
      if i == j and (c < 0 or (c == 0 and s)):
        return True
    for kind, e in self.items:
      if kind == 'ne' and (e == 0 or ('eq', e) in self.items or ('eq', -e) in self.items):
        return True
      if kind == 'ne' and self.sign(e) == {'zero'}:
        return True
      if kind in ('true', 'false') and (('false' if kind == 'true' else 'true'), e) in self.items:
        return True
    return False

  def _zone_entails(self, kind, e):
    l = _lin(e)
    if l is None:
      return False
    a, b, c = l
    Z = 'ZERO'
    a = Z if a is None else a
    b = Z if b is None else b
    if a == b:
      return (c < 0) if kind == 'lt' else (c <= 0)
    d = self.zone()
    if (a, b) not in d:
      return False
    bc, bs = d[(a, b)]
    want = -c
    if kind == 'lt' and _is_int(None if a == Z else a) and _is_int(None if b == Z else b) and want.is_integer:
      return bc <= want - 1
    if kind == 'lt':
      return bc < want or (bc == want and bs)
    return bc <= want

  # -- signs
  def sign(self, e):
    """subset of {'pos','zero','neg'} the value may take; frozenset() never returned for feasible facts."""
    ALL = frozenset(('pos', 'zero', 'neg'))
    e = sp.expand(e) if not isinstance(e, (sp.Mul, sp.Pow)) else e
    if e.is_number:
      return frozenset(('pos',)) if e > 0 else (frozenset(('zero',)) if e == 0 else frozenset(('neg',)))
    s = set(ALL)
    if e.is_positive:
      s &= {'pos'}
    elif e.is_nonnegative:
      s &= {'pos', 'zero'}
    if e.is_negative:
      s &= {'neg'}
    elif e.is_nonpositive:
      s &= {'neg', 'zero'}
    if e.is_zero:
      s &= {'zero'}
    if ('eq', sp.expand(e)) in self.items:
      s &= {'zero'}
    if self._zone_entails('lt', -e):
      s &= {'pos'}
    elif self._zone_entails('le', -e):
      s &= {'pos', 'zero'}
    if self._zone_entails('lt', e):
      s &= {'neg'}
    elif self._zone_entails('le', e):
      s &= {'neg', 'zero'}
    if ('ne', sp.expand(e)) in self.items:
      s -= {'zero'}
    if isinstance(e, sp.Add) and s != {'pos'} and s != {'neg'} and s != {'zero'}:
      fe = sp.factor(e)
      if isinstance(fe, sp.Mul):
        s &= self.sign(fe)
    if isinstance(e, sp.Add):
      parts = [self.sign(t) for t in e.args]
      if all(p <= {'pos', 'zero'} for p in parts):
        s &= ({'pos'} if any(p == {'pos'} for p in parts) else {'pos', 'zero'})
      if all(p <= {'neg', 'zero'} for p in parts):
        s &= ({'neg'} if any(p == {'neg'} for p in parts) else {'neg', 'zero'})
    elif isinstance(e, sp.Mul):
      cur = frozenset(('pos',))
      for t in e.args:
        ts = self.sign(t)
        nxt = set()
        for x in cur:
          for y in ts:
            nxt.add('zero' if 'zero' in (x, y) else ('pos' if x == y else 'neg'))
        cur = frozenset(nxt)
      s &= cur
    elif isinstance(e, sp.Pow):
      bs = self.sign(e.base)
      if bs == {'pos'}:
        s &= {'pos'}
      elif e.exp.is_integer and e.exp.is_even:
        s &= ({'pos'} if 'zero' not in bs else {'pos', 'zero'})
    elif isinstance(e, (sp.floor, trunc)) and e.args:
      inner = self.sign(e.args[0])
      if inner <= {'pos', 'zero'}:
        s &= {'pos', 'zero'}
      if inner <= {'neg', 'zero'} and isinstance(e, trunc):
        s &= {'neg', 'zero'}
      if inner <= {'neg'} and isinstance(e, sp.floor):
        s &= {'neg'}
    return frozenset(s)

  # -- entailment
  def entails_atom(self, kind, e=None):
    if kind in ('true', 'false'):
      return (kind, e) in self.items
    e = sp.expand(e)
    if (kind, e) in self.items:
      return True
    if kind == 'le' and (('lt', e) in self.items or ('eq', e) in self.items):
      return True
    if e.is_number:
      return bool({'le': e <= 0, 'lt': e < 0, 'eq': e == 0, 'ne': e != 0}[kind])
    if kind in ('le', 'lt') and self._zone_entails(kind, e):
      return True
    sg = self.sign(e)
    if kind == 'le':
      return sg <= {'neg', 'zero'}
    if kind == 'lt':
      return sg <= {'neg'}
    if kind == 'eq':
      return sg <= {'zero'} or (self.entails_atom('le', e) and self.entails_atom('le', -e))
    if kind == 'ne':
      return 'zero' not in sg
    return False

  def entails(self, rel):
    """True when every model of the facts satisfies rel (sound, incomplete)."""
    if self.infeasible():
      return True
    alts = Facts.canon(rel)
    return any(all(self.entails_atom(k, e) for k, e in alt) for alt in alts)

  def refutes(self, rel):
    return self.entails(Facts.negate(rel))

  def assume(self, rel):
    """-> list of Facts (one per disjunct) with rel added."""
    out = []
    for alt in Facts.canon(rel):
      f = self.copy()
      for k, e in alt:
        f.add(k, e)
      if not f.infeasible():
        out.append(f)
    return out


# ---------------------------------------------------------------- interpreter

class NeedSplit(Exception):
  def __init__(self, rel):
    self.rel = rel


class _Return(Exception):
  def __init__(self, value):
    self.value = value


class State:
  def __init__(self):
    self.env = {}
    self.facts = Facts()
    self.univ = []           # (dict symbol, key placeholder, kind, expr): holds for every key of that dict version
    self.events = []
    self.broke = False
    self.cont = False         # `continue` met: the rest of this iteration's body is skipped

  def clone(self):
    memo = {}
    st = State()
    st.facts = self.facts.copy()
    st.univ = list(self.univ)
    st.events = list(self.events)
    st.broke = self.broke
    st.cont = self.cont
    st.zipsrc = dict(getattr(self, "zipsrc", {}))

    def cp(v):
      if isinstance(v, DictObj):
        if id(v) not in memo:
          n = DictObj(v.oid)
          n.version = v.version
          n.cells = dict(v.cells)
          memo[id(v)] = n
        return memo[id(v)]
      if isinstance(v, Tup):
        return Tup(cp(x) for x in v)
      if isinstance(v, FuncObj):
        if id(v) not in memo:
          n = FuncObj(v.node, None)
          memo[id(v)] = n
          n.env = cp_env(v.env)
        return memo[id(v)]
      return v

    def cp_env(env):
      if id(env) in memo:
        return memo[id(env)]
      n = {}
      memo[id(env)] = n
      for k, v in env.items():
        n[k] = cp(v)
      return n
    st.env = cp_env(self.env)
    return st

  def dicts(self):
    seen, out = set(), []

    def rec(v):
      if isinstance(v, DictObj) and id(v) not in seen:
        seen.add(id(v))
        out.append(v)
      elif isinstance(v, Tup):
        for x in v:
          rec(x)
    for v in self.env.values():
      rec(v)
    return out


class Interp:
  """Interprets one function body.  `opaque` names local functions that are not inlined."""

  def __init__(self, func_node, params=None, opaque=(), max_paths=256, typed=None):
    self.fn = func_node
    self.opaque = set(opaque)
    self.params = params or {}
    self.max_paths = max_paths
    self.oid = itertools.count(1)
    self.problems = []       # (kind, message, node)
    self.inline_depth = 0
    self.typed = typed or {}       # symbol name -> sympy assumptions for loop variables (a rule may type the ones it identified)

  # ---- entry
  def run(self):
    st = State()
    for a in self.fn.args.args + self.fn.args.kwonlyargs:
      st.env[a.arg] = self.params.get(a.arg, sp.Symbol(f'param:{a.arg}', real=True))
    try:
      outs = self.block(self.fn.body, st)
    except _Return as r:
      raise AnalysisError('unexpected return propagation')
    return outs

  # ---- statements
  def block(self, stmts, st):
    """-> list of (state, returned value or NotImplemented) for every path."""
    paths = [(st, NotImplemented)]
    for s in stmts:
      nxt = []
      for p, rv in paths:
        if rv is not NotImplemented or p.broke or p.cont:
          nxt.append((p, rv))
          continue
        nxt.extend(self.stmt(s, p))
      if len(nxt) > self.max_paths:
        raise AnalysisError(f'more than {self.max_paths} paths')
      paths = nxt
    return paths

  def stmt(self, s, st):
    if self.inline_depth:
      return self._stmt(s, st)        # splits inside an inlined call are taken by the calling statement
    snap = st.clone()
    try:
      return self._stmt(s, st)
    except NeedSplit as ns:
      out = []
      for rel in (ns.rel, Facts.negate(ns.rel)):
        for f in snap.facts.assume(rel):
          st2 = snap.clone()
          st2.facts = f
          out.extend(self.stmt(s, st2))
      return out

  def _stmt(self, s, st):
    if isinstance(s, ast.FunctionDef):
      st.env[s.name] = FuncObj(s, st.env)
      return [(st, NotImplemented)]
    if isinstance(s, (ast.Pass, ast.Import, ast.ImportFrom, ast.Global, ast.Nonlocal)):
      return [(st, NotImplemented)]
    if isinstance(s, ast.Delete):
      return [(st, NotImplemented)]
    if isinstance(s, ast.Expr):
      if isinstance(s.value, ast.Constant):
        return [(st, NotImplemented)]
      self.ev(s.value, st)
      return [(st, NotImplemented)]
    if isinstance(s, ast.Assign):
      v = self.ev(s.value, st)
      for t in s.targets:
        self.store(t, v, st, s)
      return [(st, NotImplemented)]
    if isinstance(s, ast.AnnAssign):
      if s.value is not None:
        self.store(s.target, self.ev(s.value, st), st, s)
      return [(st, NotImplemented)]
    if isinstance(s, ast.AugAssign):
      cur = self.ev(_as_load(s.target), st)
      v = self.ev(s.value, st)
      self.store(s.target, self.binop(s.op, cur, v, st, s), st, s)
      return [(st, NotImplemented)]
    if isinstance(s, ast.Return):
      v = self.ev(s.value, st) if s.value is not None else None
      return [(st, v)]
    if isinstance(s, ast.Assert):
      rel = self.cond(s.test, st)
      st.events.append(('assert', rel, s, st.facts.copy()))
      fs = st.facts.assume(rel)
      out = []
      for f in fs:
        st2 = st.clone() if len(fs) > 1 else st
        st2.facts = f
        out.append((st2, NotImplemented))
      return out          # paths on which the assertion fails end here (exception)
    if isinstance(s, ast.Raise):
      st.events.append(('raise', s))
      return []
    if isinstance(s, ast.If):
      rel = self.cond(s.test, st)
      if st.facts.entails(rel):
        return self.block(s.body, st)
      if st.facts.refutes(rel):
        return self.block(s.orelse, st)
      raise NeedSplit(rel)
    if isinstance(s, ast.Break):
      st.broke = True
      return [(st, NotImplemented)]
    if isinstance(s, ast.Continue):
      st.cont = True
      return [(st, NotImplemented)]
    if isinstance(s, ast.For):
      return self.for_(s, st)
    if isinstance(s, ast.While):
      return self.while_(s, st)
    raise AnalysisError(f'statement not modelled: {type(s).__name__} at line {s.lineno}')

  # ---- loops
  def _assigned(self, stmts):
    names = set()
    for s in stmts:
      for n in ast.walk(s):
        if isinstance(n, ast.Name) and isinstance(n.ctx, ast.Store):
          names.add(n.id)
    return names

  def for_(self, s, st):
    it = self.ev(s.iter, st)
    tnames = {n.id for n in ast.walk(s.target) if isinstance(n, ast.Name)}
    assigned = self._assigned(s.body) | tnames
    pre = st.clone()
    head = st.clone()
    self._havoc_names(head, assigned - tnames, s, 'h')
    self._bind_target(s.target, it, head, s)
    n0 = len(head.events)
    # first pass: which dicts does the body mutate?
    mutated = set()
    for p, _ in self.block(s.body, head.clone()):
      mutated |= {e[1] for e in p.events[n0:] if e[0] == 'dict-store'} | {e[2] for e in p.events[n0:] if e[0] == 'in-loop' and e[3] == 'dict-store'}
    for d in head.dicts():
      if d.oid in mutated:
        d.havoc()
    key_sym = head.env.get(s.target.id) if isinstance(s.target, ast.Name) else None
    if key_sym is None and isinstance(it, _View) and it.kind == 'items' and isinstance(s.target, (ast.Tuple, ast.List)) and \
        isinstance(s.target.elts[0], ast.Name):
      key_sym = head.env.get(s.target.elts[0].id)
    body_paths = self.block(s.body, head.clone())
    for p, rv in body_paths:
      if rv is not NotImplemented:
        raise AnalysisError('return inside a loop is not modelled')
      p.cont = False            # a continued iteration ends like any other
    st.events.append(('loop', s, head, body_paths, it, n0, pre))
    # universal facts: a loop over a dict's keys whose body only asserts facts about that key's cell
    itd = it.d if isinstance(it, _View) and it.kind in ('keys', 'items') else it
    if isinstance(itd, DictObj) and key_sym is not None and len(body_paths) == 1 and not body_paths[0][0].broke and itd.oid not in mutated:
      endp = body_paths[0][0]
      for kind, e in endp.facts.items:
        if (kind, e) not in head.facts.items and e is not None and key_sym in e.free_symbols:
          st.univ.append((itd.sym(), key_sym, kind, e))
    # exit state: everything assigned / mutated is unknown
    self._havoc_names(st, assigned, s, 'x')
    for d in st.dicts():
      if d.oid in mutated:
        d.havoc()
    for p, _ in body_paths:
      for e in p.events[n0:]:
        if e[0] == 'dict-store':
          st.events.append(('in-loop', s, e[1], 'dict-store', e))
        elif e[0] == 'in-loop':
          st.events.append(e)
    res = [(st, NotImplemented)]
    if s.orelse:
      res = self.block(s.orelse, st)
    return res

  def while_(self, s, st):
    """`while test: body` - one symbolic iteration from a havocked head under the assumption that the test holds;
    afterwards everything the body assigns or mutates is unknown and the test is known to be false."""
    assigned = self._assigned(s.body)
    pre = st.clone()
    head = st.clone()
    self._havoc_names(head, assigned, s, 'h')
    n0 = len(head.events)
    mutated = set()
    probe = head.clone()
    try:
      rel = self.cond(s.test, probe)
      for f in probe.facts.assume(rel):
        p0 = probe.clone()
        p0.facts = f
        for p, _ in self.block(s.body, p0):
          mutated |= {e[1] for e in p.events[n0:] if e[0] == 'dict-store'} | {e[2] for e in p.events[n0:] if e[0] == 'in-loop' and e[3] == 'dict-store'}
    except NeedSplit:
      raise AnalysisError('while test needs a case split before the loop')
    for d in head.dicts():
      if d.oid in mutated:
        d.havoc()
    rel = self.cond(s.test, head)
    body_paths = []
    for f in head.facts.assume(rel):
      h2 = head.clone()
      h2.facts = f
      body_paths.extend(self.block(s.body, h2))
    for p, rv in body_paths:
      if rv is not NotImplemented:
        raise AnalysisError('return inside a loop is not modelled')
      p.cont = False
    st.events.append(('loop', s, head, body_paths, None, n0, pre))
    self._havoc_names(st, assigned, s, 'x')
    for d in st.dicts():
      if d.oid in mutated:
        d.havoc()
    for p, _ in body_paths:
      for e in p.events[n0:]:
        if e[0] == 'dict-store':
          st.events.append(('in-loop', s, e[1], 'dict-store', e))
        elif e[0] == 'in-loop':
          st.events.append(e)
    out = []
    try:
      nrel = Facts.negate(self.cond(s.test, st))
      fs = st.facts.assume(nrel)
    except AnalysisError:
      fs = [st.facts]
    for f in fs or [st.facts]:
      st2 = st.clone() if len(fs) > 1 else st
      st2.facts = f
      out.append((st2, NotImplemented))
    if s.orelse:
      res = []
      for st2, _ in out:
        res.extend(self.block(s.orelse, st2))
      return res
    return out

  def _rebind(self, st, s, it):
    self._bind_target(s.target, it, st, s)
    return st

  def _havoc_names(self, st, names, s, tag):
    for n in sorted(names):
      v = st.env.get(n)
      if isinstance(v, (DictObj, FuncObj)):
        continue
      if n in st.env:
        st.env[n] = sp.Symbol(f'{n}@{s.lineno}{tag}', real=True)

  def _bind_zip(self, target, call, st, s):
    """for a, b in zip(xs, map(f, xs)): a is the generic element of xs, b is f(a).  Records which iterable each target
    element walks (st.zipsrc) so that rules can ask for 'the element of <parameter>'."""
    tag = f'@{s.lineno}'
    srcs = {}
    st.zipsrc = dict(getattr(st, 'zipsrc', {}))
    pending = []
    for arg, t in zip(call.args, target.elts):
      if isinstance(arg, ast.Call) and isinstance(arg.func, ast.Name) and arg.func.id == 'map' and len(arg.args) == 2 and not arg.keywords:
        pending.append((arg, t))
        continue
      nm = f'{t.id}{tag}'
      v = sp.Symbol(nm, **self.typed.get(nm, dict(real=True)))
      st.env[t.id] = v
      srcs[ast.dump(arg)] = v
      st.zipsrc[t.id] = arg
    for arg, t in pending:
      f = self.ev(arg.args[0], st)
      key = ast.dump(arg.args[1])
      elem = srcs.get(key)
      if elem is None:
        elem = sp.Symbol(f'item_{t.id}{tag}', real=True)
      if isinstance(f, FuncObj):
        outs = self.inline(f, [elem], {}, st, arg)
        st.env[t.id] = outs
      else:
        st.env[t.id] = opq(sp.Symbol('call:' + str(as_sym(f))), as_sym(elem))

  def _bind_target(self, target, it, st, s):
    tag = f'@{s.lineno}'
    if isinstance(target, (ast.Tuple, ast.List)) and isinstance(s.iter, ast.Call) and isinstance(s.iter.func, ast.Name) and s.iter.func.id == 'zip' and \
        not s.iter.keywords and len(s.iter.args) == len(target.elts) and all(isinstance(t, ast.Name) for t in target.elts):
      return self._bind_zip(target, s.iter, st, s)
    if isinstance(target, ast.Name):
      nm = f'{target.id}{tag}'
      st.env[target.id] = sp.Symbol(nm, **self.typed.get(nm, dict(real=True)))
    elif isinstance(target, (ast.Tuple, ast.List)) and isinstance(it, _View) and it.kind == 'items' and len(target.elts) == 2 and \
        all(isinstance(t, ast.Name) for t in target.elts):
      k = sp.Symbol(f'{target.elts[0].id}{tag}', real=True)
      st.env[target.elts[0].id] = k
      st.env[target.elts[1].id] = self.dict_load(it.d, k, st)
    elif isinstance(target, (ast.Tuple, ast.List)) and len(target.elts) == 2 and all(isinstance(t, ast.Name) for t in target.elts) and \
        isinstance(s.iter, ast.Call) and isinstance(s.iter.func, ast.Attribute) and s.iter.func.attr == 'items' and not s.iter.args and not s.iter.keywords and \
        not isinstance(self.ev(s.iter.func.value, st), (DictObj, Tup, list, tuple)):
      # `for k, v in m.items()` over an opaque mapping: v is m[k]
      m_ = self.ev(s.iter.func.value, st)
      nm = f'{target.elts[0].id}{tag}'
      k = sp.Symbol(nm, **self.typed.get(nm, dict(real=True)))
      st.env[target.elts[0].id] = k
      st.env[target.elts[1].id] = opq(sp.Symbol('getitem'), as_sym(m_), k)
    elif isinstance(target, (ast.Tuple, ast.List)):
      base = sp.Symbol(f'item{tag}', real=True)
      vals = []
      for i, t in enumerate(target.elts):
        v = opq(sp.Symbol('getitem'), base, sp.Integer(i))
        vals.append(v)
        if isinstance(t, ast.Name):
          st.env[t.id] = v
        else:
          raise AnalysisError('nested loop target not modelled')
    else:
      raise AnalysisError('loop target not modelled')

  # ---- stores
  def store(self, t, v, st, node):
    if isinstance(t, ast.Name):
      st.env[t.id] = v
    elif isinstance(t, ast.Starred):
      self.store(t.value, opq(sp.Symbol('starred'), as_sym(v)), st, node)
    elif isinstance(t, (ast.Tuple, ast.List)):
      if isinstance(v, Tup) and len(v) == len(t.elts) and not any(isinstance(e_, ast.Starred) for e_ in t.elts):
        for ti, vi in zip(t.elts, v):
          self.store(ti, vi, st, node)
      else:
        for i, ti in enumerate(t.elts):
          self.store(ti, opq(sp.Symbol('getitem'), as_sym(v), sp.Integer(i)), st, node)
    elif isinstance(t, ast.Subscript):
      base = self.ev(t.value, st)
      key = self.ev(t.slice, st)
      if isinstance(base, DictObj):
        self.dict_store(base, key, v, st, node)
      else:
        st.events.append(('obj-store', as_sym(base), as_sym(key), node, v))
    elif isinstance(t, ast.Attribute):
      st.events.append(('attr-store', node))
    else:
      raise AnalysisError('store target not modelled')

  def dict_store(self, d, key, v, st, node):
    k = as_sym(key)
    d.cells[k] = v
    st.events.append(('dict-store', d.oid, k, v, node, st.facts.copy(), d.version))

  def dict_load(self, d, key, st):
    k = as_sym(key)
    if k in d.cells:
      return d.cells[k]
    c = cell(d.sym(), k)
    for ds, ph, kind, e in st.univ:
      if ds == d.sym():
        st.facts.add(kind, e.subs(ph, k))
    return c

  # ---- conditions
  def cond(self, n, st):
    v = self.ev(n, st)
    return self.truth(v)

  def truth(self, v):
    if isinstance(v, (sp.core.relational.Relational, sp.And, sp.Or, sp.Not)) or v is sp.true or v is sp.false:
      return v
    if isinstance(v, bool):
      return sp.true if v else sp.false
    if v is None:
      return sp.false
    if isinstance(v, str):
      return sp.true if v else sp.false
    if isinstance(v, Tup):
      return sp.true if len(v) else sp.false
    if isinstance(v, sp.Basic):
      if v.is_number:
        return sp.true if v != 0 else sp.false
      if isinstance(v, sp.Symbol) and (v.name.startswith(('obj:', 'global:', 'truth(', 'in(', 'is(', 'cmp:', 'fn:', 'str:')) or v.is_real is None):
        return v if v.name.startswith(('truth(', 'in(', 'is(', 'cmp:')) else sp.Symbol(f'truth({v.name})')
      return sp.Ne(v, 0, evaluate=False)
    return sp.Symbol(f'truth({as_sym(v)})')

  # ---- expressions
  def ev(self, n, st):
    m = getattr(self, 'ev_' + type(n).__name__, None)
    if m is None:
      return Obj(f'{type(n).__name__}@{getattr(n, "lineno", 0)}:{getattr(n, "col_offset", 0)}')
    return m(n, st)

  def ev_Constant(self, n, st):
    v = n.value
    if isinstance(v, bool) or v is None or isinstance(v, str):
      return v
    if isinstance(v, int):
      return sp.Integer(v)
    if isinstance(v, float):
      return sp.nsimplify(v)
    return Obj(f'const:{v!r}')

  def ev_Name(self, n, st):
    if n.id in st.env:
      return st.env[n.id]
    return sp.Symbol(f'global:{n.id}')

  def ev_Tuple(self, n, st):
    return Tup(self.ev(e, st) for e in n.elts)

  def ev_List(self, n, st):
    if not n.elts:
      return Obj(f'list@{n.lineno}:{n.col_offset}')
    return Tup(self.ev(e, st) for e in n.elts)

  def ev_Dict(self, n, st):
    d = DictObj(next(self.oid))
    for k, v in zip(n.keys, n.values):
      if k is None:
        raise AnalysisError('dict unpacking not modelled')
      d.cells[as_sym(self.ev(k, st))] = self.ev(v, st)
    return d

  def ev_UnaryOp(self, n, st):
    if isinstance(n.op, ast.Not):
      return Facts.negate(self.truth(self.ev(n.operand, st)))
    v = self.ev(n.operand, st)
    if isinstance(n.op, ast.USub):
      return -self.num(v)
    if isinstance(n.op, ast.UAdd):
      return self.num(v)
    return opq(sp.Symbol('invert'), as_sym(v))

  def num(self, v):
    if isinstance(v, sp.Basic):
      return v
    if isinstance(v, bool):
      return sp.Integer(int(v))
    return as_sym(v)

  def ev_BinOp(self, n, st):
    return self.binop(n.op, self.ev(n.left, st), self.ev(n.right, st), st, n)

  def binop(self, op, a, b, st, node):
    if isinstance(a, Tup) and isinstance(b, Tup) and isinstance(op, ast.Add):
      return Tup(a + b)
    if isinstance(op, ast.Mult) and (isinstance(a, Tup) or isinstance(b, Tup)):
      return Obj(f'repeat@{getattr(node, "lineno", 0)}:{getattr(node, "col_offset", 0)}')
    if isinstance(a, str) or isinstance(b, str):
      return opq(sp.Symbol('strop'), as_sym(a), as_sym(b))
    a, b = self.num(a), self.num(b)
    if isinstance(op, ast.Add):
      return a + b
    if isinstance(op, ast.Sub):
      return a - b
    if isinstance(op, ast.Mult):
      return a * b
    if isinstance(op, ast.Div):
      ok = st.facts.sign(b) == {'pos'}
      st.events.append(('div', b, ok, node, st.facts.copy()))
      return a / b
    if isinstance(op, ast.FloorDiv):
      if b == 1:
        return sp.floor(a)
      ok = st.facts.sign(b) == {'pos'}
      st.events.append(('div', b, ok, node, st.facts.copy()))
      return sp.floor(a / b)
    if isinstance(op, ast.Mod):
      return opq(sp.Symbol('mod'), a, b)
    if isinstance(op, ast.Pow):
      return a ** b
    return opq(sp.Symbol(type(op).__name__), a, b)

  def ev_Compare(self, n, st):
    left = self.ev(n.left, st)
    rels = []
    for op, rn in zip(n.ops, n.comparators):
      right = self.ev(rn, st)
      rels.append(self.compare(op, left, right, st))
      left = right
    return rels[0] if len(rels) == 1 else sp.And(*rels)

  def compare(self, op, a, b, st):
    if isinstance(op, (ast.In, ast.NotIn)):
      if isinstance(b, DictObj):
        k = as_sym(a)
        if k in b.cells:
          return sp.true if isinstance(op, ast.In) else sp.false
      atom = sp.Symbol(f'in({as_sym(a)},{as_sym(b)})')
      return atom if isinstance(op, ast.In) else sp.Not(atom)
    if isinstance(op, (ast.Is, ast.IsNot)):
      if a is None and b is None:
        return sp.true if isinstance(op, ast.Is) else sp.false
      atom = sp.Symbol(f'is({as_sym(a)},{as_sym(b)})')
      return atom if isinstance(op, ast.Is) else sp.Not(atom)
    if not isinstance(a, (sp.Basic, bool, int)) or not isinstance(b, (sp.Basic, bool, int)):
      atom = sp.Symbol(f'cmp:{type(op).__name__}({as_sym(a)},{as_sym(b)})')
      return atom
    a, b = self.num(a), self.num(b)
    cls = {ast.Lt: sp.Lt, ast.LtE: sp.Le, ast.Gt: sp.Gt, ast.GtE: sp.Ge, ast.Eq: sp.Eq, ast.NotEq: sp.Ne}[type(op)]
    r = cls(a, b)
    if r in (sp.true, sp.false):
      return r
    return cls(a, b, evaluate=False)

  def ev_BoolOp(self, n, st):
    vals = [self.truth(self.ev(v, st)) for v in n.values]
    return sp.And(*vals) if isinstance(n.op, ast.And) else sp.Or(*vals)

  def ev_IfExp(self, n, st):
    rel = self.cond(n.test, st)
    if st.facts.entails(rel):
      return self.ev(n.body, st)
    if st.facts.refutes(rel):
      return self.ev(n.orelse, st)
    raise NeedSplit(rel)

  def ev_Subscript(self, n, st):
    base = self.ev(n.value, st)
    if isinstance(n.slice, ast.Slice):
      return Obj(f'slice@{n.lineno}:{n.col_offset}')
    key = self.ev(n.slice, st)
    if isinstance(base, DictObj):
      return self.dict_load(base, key, st)
    if isinstance(base, Tup) and isinstance(key, sp.Integer) and -len(base) <= int(key) < len(base):
      return base[int(key)]
    return opq(sp.Symbol('getitem'), as_sym(base), as_sym(key))

  def ev_Attribute(self, n, st):
    base = self.ev(n.value, st)
    return opq(sp.Symbol('attr:' + n.attr), as_sym(base))

  def ev_Lambda(self, n, st):
    return Obj(f'lambda@{n.lineno}:{n.col_offset}')

  def ev_JoinedStr(self, n, st):
    return Obj(f'fstring@{n.lineno}:{n.col_offset}')

  def _comp(self, n, st):
    return Obj(f'comp@{n.lineno}:{n.col_offset}')

  ev_ListComp = ev_GeneratorExp = ev_SetComp = ev_DictComp = _comp

  def ev_Call(self, n, st):
    # method calls on dicts
    if isinstance(n.func, ast.Attribute):
      recv = self.ev(n.func.value, st)
      meth = n.func.attr
      args = [self.ev(a, st) for a in n.args]
      if isinstance(recv, DictObj):
        if meth == 'update' and len(args) == 1 and isinstance(args[0], DictObj) and not n.keywords:
          for k, v in args[0].cells.items():
            self.dict_store(recv, k, v, st, n)
          return None
        if meth in ('values', 'keys', 'items') and not args:
          return _View(meth, recv)
        if meth == 'get' and args:
          return self.dict_load(recv, args[0], st)
        if meth == 'setdefault' and args:
          # d.setdefault(k, default): the entry under k afterwards (existing or the default just stored)
          return self.dict_load(recv, args[0], st)
        if meth in ('pop', 'clear', 'popitem'):
          recv.havoc()
          st.events.append(('dict-store', recv.oid, sp.Symbol('*'), None, n, st.facts.copy(), recv.version))
          return Obj(f'dictop@{n.lineno}')
      st.events.append(('call', f'.{meth}', [as_sym(recv)] + [as_sym(a) for a in args], n, st.facts.copy(), [recv] + args))
      return opq(sp.Symbol('meth:' + meth), as_sym(recv), *[as_sym(a) for a in args])
    f = self.ev(n.func, st)
    if any(isinstance(a, ast.Starred) for a in n.args) or any(k.arg is None for k in n.keywords):
      raise AnalysisError('star-args are not modelled')
    args = [self.ev(a, st) for a in n.args]
    kwargs = {k.arg: self.ev(k.value, st) for k in n.keywords}
    if isinstance(f, FuncObj):
      name = f.node.name
      st.events.append(('call', name, [as_sym(a) for a in args], n, st.facts.copy(), list(args)))
      if name in self.opaque:
        return opq(sp.Symbol('call:' + name), *[as_sym(a) for a in args])
      return self.inline(f, args, kwargs, st, n)
    fname = f.name.split(':', 1)[1] if isinstance(f, sp.Symbol) and f.name.startswith('global:') else None
    if fname == 'int' and len(args) == 1:
      v = self.num(args[0])
      return v if (v.is_integer or isinstance(v, sp.floor)) else trunc(v)
    if fname == 'float' and len(args) == 1:
      return self.num(args[0])
    if fname == 'abs' and len(args) == 1 and isinstance(args[0], sp.Basic):
      return sp.Abs(args[0])
    if fname == 'len' and len(args) == 1:
      if isinstance(args[0], Tup):
        return sp.Integer(len(args[0]))
      return plen(as_sym(args[0]))
    if fname == 'sum' and len(args) == 1 and isinstance(args[0], _View) and args[0].kind == 'values':
      d = args[0].d
      if d.cells:
        return fresh('sum', real=True)
      return dsum(d.sym())
    if fname in ('min', 'max') and len(args) == 2 and all(isinstance(a, sp.Basic) for a in args):
      a, b = args
      rel = sp.Le(a, b)
      if rel in (sp.true, sp.false):
        le = rel is sp.true
      elif st.facts.entails(sp.Le(a, b, evaluate=False)):
        le = True
      elif st.facts.entails(sp.Gt(a, b, evaluate=False)):
        le = False
      else:
        raise NeedSplit(sp.Le(a, b, evaluate=False))
      return (a if le else b) if fname == 'min' else (b if le else a)
    if fname in ('list', 'tuple', 'sorted', 'set', 'reversed') and len(args) >= 1:
      if isinstance(args[0], (DictObj, _View)):
        return args[0]
      return Obj(f'{fname}({as_sym(args[0])})') if not isinstance(args[0], Tup) or fname in ('sorted', 'set', 'reversed') else args[0]
    st.events.append(('call', fname or str(as_sym(f)), [as_sym(a) for a in args], n, st.facts.copy(), list(args)))
    return opq(sp.Symbol('call:' + (fname or str(as_sym(f)))), *[as_sym(a) for a in args], *[as_sym(v) for _, v in sorted(kwargs.items())])

  def inline(self, f, args, kwargs, st, n):
    node = f.node
    names = [a.arg for a in node.args.args]
    if node.args.vararg or node.args.kwarg or len(args) > len(names):
      raise AnalysisError(f'call of {node.name}: signature not modelled')
    env = dict(f.env)           # closure: reads see the defining scope as it is now
    defaults = node.args.defaults
    for i, nm in enumerate(names):
      if i < len(args):
        env[nm] = args[i]
      elif nm in kwargs:
        env[nm] = kwargs[nm]
      else:
        di = i - (len(names) - len(defaults))
        if di < 0:
          raise AnalysisError(f'call of {node.name}: missing argument {nm}')
        env[nm] = self.ev(defaults[di], st)
    saved = st.env
    st.env = env
    self.inline_depth += 1
    try:
      paths = self.block(node.body, st)
    finally:
      self.inline_depth -= 1
      st.env = saved
    alive = [(p, rv) for p, rv in paths]
    if len(alive) != 1:
      raise AnalysisError(f'inlined call of {node.name} splits into {len(alive)} paths inside an expression')
    p, rv = alive[0]
    p.env = saved
    if p is not st:
      raise AnalysisError('inlined call changed state identity')
    return None if rv is NotImplemented else rv


class _View:
  def __init__(self, kind, d):
    self.kind = kind
    self.d = d


def _as_load(t):
  t2 = copy.deepcopy(t)
  for n in ast.walk(t2):
    if hasattr(n, 'ctx'):
      n.ctx = ast.Load()
  return t2
