"""Shared helpers for rule modules."""
from __future__ import annotations

import ast

from .evalr import Evaluator
from .terms import T, const, cval, is_const, sym, walk, children, show, NONE


def ext_name(t):
  """Dotted external callee name of call-term t, else None."""
  if t.op == 'call' and t.args[0].op == 'ext':
    return t.args[0].args[0]
  return None


def is_ext_call(t, *names):
  n = ext_name(t)
  return n is not None and (n in names or any(n.endswith('.' + x) for x in names))


def method_name(t):
  if t.op == 'call' and t.args[0].op == 'attr':
    return t.args[0].args[1]
  return None


def fn_name(t):
  """Short name of an opaque repo call `fn`."""
  if t.op == 'call' and t.args[0].op == 'fn':
    return t.args[0].args[0].split('.')[-1]
  return None


def call_args(t):
  return list(t.args[1]), dict(t.args[2])


def kwarg(t, name, default=None):
  """Keyword argument `name` of a call term (external calls are in canonical form, see extsig)."""
  if t.op != 'call' or len(t.args) < 3:
    return default
  return dict(t.args[2]).get(name, default)


_MIRROR = {'>=': '<=', '<=': '>=', '<': '>', '>': '<', '==': '==', '!=': '!='}


def cmp_oriented(x, right_pred):
  """(op, l, r) of comparison term `x`, mirrored if needed so that `right_pred(r)` holds; None if neither side qualifies."""
  if x.op != 'cmp' or len(x.args) != 3:
    return None
  op, l, r = x.args
  if right_pred(r) and not right_pred(l):
    return op, l, r
  if right_pred(l) and not right_pred(r) and op in _MIRROR:
    return _MIRROR[op], r, l
  return None


def module_aliases(tree):
  """local name -> dotted import path, from the module's import statements (any depth)."""
  out = {}
  for n in ast.walk(tree):
    if isinstance(n, ast.Import):
      for a in n.names:
        out[a.asname or a.name.split('.')[0]] = a.name if a.asname else a.name.split('.')[0]
    elif isinstance(n, ast.ImportFrom) and n.module:
      for a in n.names:
        out[a.asname or a.name] = f'{n.module}.{a.name}'
  return out


def strip_casts(t):
  """Remove dtype casts / array wrappers that do not change the value."""
  while True:
    if t.op == 'call':
      m = method_name(t)
      if m in ('astype',):
        t = t.args[0].args[0]
        continue
      n = ext_name(t)
      if n in ('jax.numpy.asarray', 'jax.numpy.array', 'numpy.asarray', 'numpy.array') and t.args[1]:
        t = t.args[1][0]
        continue
    return t


def cast_targets(t):
  """dtype terms of the explicit casts wrapped around `t` (outermost first)."""
  out = []
  while True:
    if t.op == 'call':
      m = method_name(t)
      if m in ('astype',):
        if t.args[1]:
          out.append(t.args[1][0])
        t = t.args[0].args[0]
        continue
      n = ext_name(t)
      if n in ('jax.numpy.asarray', 'jax.numpy.array', 'numpy.asarray', 'numpy.array') and t.args[1]:
        dt = dict(t.args[2]).get('dtype')
        if dt is not None:
          out.append(dt)
        t = t.args[1][0]
        continue
    return out


def find(t, pred):
  return [x for x in walk(t) if pred(x)]


def find_ext_calls(t, *names):
  return [x for x in walk(t) if is_ext_call(x, *names)]


def leaves(t):
  """Symbolic leaves: sym terms and attr-paths rooted at a sym."""
  out = set()
  seen = set()

  def rec(x):
    if x in seen:
      return
    seen.add(x)
    if x.op == 'sym' or (x.op == 'obj' and x.args[1] == 'self'):
      out.add(x)
      return
    if x.op == 'attr':
      p = x
      while p.op == 'attr':
        p = p.args[0]
      if p.op == 'sym' or (p.op == 'obj' and p.args[1] == 'self'):
        out.add(x)
        return
    for c in children(x):
      rec(c)
  rec(t)
  return out


def path_str(t):
  parts = []
  while t.op == 'attr':
    parts.append(t.args[1])
    t = t.args[0]
  if t.op == 'sym':
    parts.append(str(t.args[-1]))
    return '.'.join(reversed(parts))
  if t.op == 'obj' and t.args[1] == 'self':
    parts.append('self')
    return '.'.join(reversed(parts))
  return None


def dep_names(t):
  """Field-sensitive dependence set as strings: 'grad', 'state.momentum', 'cfg:beta1'."""
  out = set()
  for l in leaves(t):
    if l.op == 'obj':
      out.add('self')
    elif l.op == 'sym':
      out.add(('cfg:' if l.args[0] == 'cfg' else '') + str(l.args[-1]))
    else:
      p = l
      while p.op == 'attr':
        p = p.args[0]
      out.add(('cfg:' if (p.op == 'sym' and p.args[0] == 'cfg') else '') + path_str(l))
  return out


def cfg(name, factory='distributed_shampoo'):
  return sym('cfg', factory, name)


def param(fn, name):
  return sym('param', fn, name)


def enum_member(ev, model, module_short, cls_name, member):
  ci = model.cls(module_short, cls_name)
  return ev.attr(T('class', ci.fq), member)


def evaluator(model, factory_cfg=None, factory='distributed_shampoo', **kw):
  bindings = {}
  for k, v in (factory_cfg or {}).items():
    bindings[(factory, k)] = v if isinstance(v, T) else const(v)
  extra = kw.pop('bindings', None)
  if extra:
    bindings.update(extra)
  return Evaluator(model, bindings=bindings, **kw)


def rec_fields(t):
  return dict(t.args[1]) if t.op == 'rec' else None


def unparse_short(node, n=120):
  s = ast.unparse(node)
  s = ' '.join(s.split())
  return s if len(s) <= n else s[:n - 1] + '…'


def norm_src(node):
  """Normalised statement/expression text used as construct key (no line numbers)."""
  return ' '.join(ast.unparse(node).split())


def select_arms(t):
  """If t is a select (lax.cond / jnp.where / lax.select / python ite), return
  (kind, predicate, true_arm, false_arm) else None."""
  if t.op == 'cond':
    return ('lax.cond', t.args[0], t.args[1], t.args[2])
  if t.op == 'ite':
    return ('ite', t.args[0], t.args[1], t.args[2])
  if is_ext_call(t, 'jax.numpy.where', 'jax.lax.select') and len(t.args[1]) == 3:
    a = t.args[1]
    return ('where', a[0], a[1], a[2])
  return None


class Decider:
  """Truth assignment for configuration atoms.

  truth:  {'frequent_directions': True, ...}   truthiness of cfg/param symbols
  cmps:   {('weight_decay', '!=', 0): True, ('padding_start', 'is', None): False, ...}
  calls:  {('callable', 'learning_rate'): False, ('_skip_preconditioning',): True}
  """

  def __init__(self, truth=None, cmps=None, calls=None, extra=None):
    self.truth = dict(truth or {})
    self.cmps = dict(cmps or {})
    self.calls = dict(calls or {})
    self.extra = extra
    self.undecided = []

  def _name(self, t):
    if t.op == 'sym':
      return str(t.args[-1])
    if t.op == 'attr':
      return path_str(t)
    return None

  def __call__(self, c):
    r = self._decide(c)
    if r is None and self.extra is not None:
      r = self.extra(c)
      if r is None and c.op == 'cmp' and len(c.args) == 3:
        # the rule's oracle may know the same comparison in mirrored and / or negated spelling
        o, a, b = c.args
        NEG = {'<': '>=', '>=': '<', '>': '<=', '<=': '>', '==': '!=', '!=': '==', 'is': 'is not', 'is not': 'is', 'in': 'not in', 'not in': 'in'}
        if o in _MIRROR:
          r = self.extra(T('cmp', _MIRROR[o], b, a))
        if r is None and o in NEG:
          r2 = self.extra(T('cmp', NEG[o], a, b))
          if r2 is None and NEG[o] in _MIRROR:
            r2 = self.extra(T('cmp', _MIRROR[NEG[o]], b, a))
          if r2 is not None:
            r = not r2
      elif r is None and c.op == 'un' and c.args[0] == 'not':
        r2 = self(c.args[1])
        if r2 is not None:
          r = not r2
    if r is None:
      self.undecided.append(c)
    return r

  def _decide(self, c):
    nm = self._name(c)
    if nm is not None and nm in self.truth:
      return self.truth[nm]
    if c.op == 'cmp':
      o, a, b = c.args
      na = self._name(a)
      if na is not None and (b.op in ('const', 'enum', 'ext')):
        bv = cval(b) if b.op == 'const' else (b.args[1] if b.op == 'enum' else b.args[0])
        key = (na, o, bv)
        if key in self.cmps:
          return self.cmps[key]
        neg_ops = {'==': '!=', '!=': '==', 'is': 'is not', 'is not': 'is', '<': '>=', '>=': '<', '>': '<=', '<=': '>'}
        k2 = (na, neg_ops.get(o), bv)
        if k2 in self.cmps:
          return not self.cmps[k2]
      nb = self._name(b)
      if nb is not None and a.op == 'const':
        flip = {'<': '>', '>': '<', '<=': '>=', '>=': '<=', '==': '==', '!=': '!='}.get(o)
        if flip:
          return self._decide(T('cmp', flip, b, a))
    if c.op == 'call':
      f, args, _ = c.args
      if f.op == 'builtin' and args:
        n0 = self._name(args[0])
        key = (f.args[0], n0)
        if key in self.calls:
          return self.calls[key]
      if f.op == 'fn':
        key = (f.args[0].split('.')[-1],)
        if key in self.calls:
          return self.calls[key]
    return None


def econd_summary(ev, bound, rec):
  """efficient_cond(predicate, compute_fn, init_state, *args, **kwargs) ==
  cond(predicate, tuple(compute_fn(*args, **kwargs)), tuple(init_state)).
  (The body of efficient_cond is checked against this summary by rule EC.)"""
  pred = bound.get('predicate')
  fn = bound.get('compute_fn')
  init = bound.get('init_state')
  args = bound.get('args')
  kwargs = bound.get('kwargs')
  if pred is None or fn is None or init is None:
    return None
  a = list(args.args) if args is not None and args.op == 'tuple' else []
  kw = {}
  if kwargs is not None and kwargs.op == 'dict':
    kw = {cval(k): v for k, v in kwargs.args if is_const(k)}
  ev.path.append(T('condarm', pred, True))
  try:
    res = ev.call(fn, a, kw, None, None)
  finally:
    ev.path.pop()
  if res.op == 'list':
    res = T('tuple', *res.args)
  if init.op == 'list':
    init = T('tuple', *init.args)
  r_ = T('cond', pred, res, init)
  ev.cond_log.append((r_, rec.caller if rec is not None else ev.cur_fq(), rec.node if rec is not None else None))
  return r_


def axes_all_but(ev, cmpr, ax, nd):
  """If `ax` denotes the axis list [0 .. nd-1] with exactly one axis i left out, return the term i, else None.
  Recognised spellings: range(i) + range(i+1, nd);  [a for a in range(nd) if a != i];  list(range(nd)) with i removed."""
  from .spec import spec_term

  def is_range_nd(it):
    while it.op == 'call' and it.args[0].op == 'builtin' and it.args[0].args[0] in ('list', 'tuple', 'iter') and len(it.args[1]) == 1:
      it = it.args[1][0]
    return it.op == 'call' and it.args[0].op == 'builtin' and it.args[0].args[0] == 'range' and len(it.args[1]) == 1 and cmpr.same(it.args[1][0], nd)
  a = ax
  while a.op == 'call' and a.args[0].op == 'builtin' and a.args[0].args[0] in ('list', 'tuple', 'sorted') and len(a.args[1]) == 1 and \
      a.args[1][0].op in ('list', 'tuple', 'mut', 'bin'):
    a = a.args[1][0]
  # C: list(range(nd)).remove(i)
  if a.op == 'mut' and a.args[1] == 'remove' and len(a.args[2]) == 1 and is_range_nd(a.args[0]):
    return a.args[2][0]
  # B: [v for v in range(nd) if v != i]
  if a.op in ('list', 'tuple') and len(a.args) == 1 and a.args[0].op == 'star':
    v, dom = a.args[0].args
    if dom.op == 'compdom' and len(dom.args) == 2 and is_range_nd(dom.args[0]) and v.op == 'rangevar':
      c, neg = dom.args[1], False
      if c.op == 'un' and c.args[0] == 'not':
        c, neg = c.args[1], True
      if c.op == 'cmp' and len(c.args) == 3 and (c.args[1] is v) != (c.args[2] is v):
        other = c.args[2] if c.args[1] is v else c.args[1]
        if (c.args[0] == '!=' and not neg) or (c.args[0] == '==' and neg):
          return other
    return None
  # A: range(i) + range(i + 1, nd): find the candidate i as the bound of the first range
  if a.op == 'bin' and a.args[0] == '+':
    first = a.args[1]
    while first.op == 'call' and first.args[0].op == 'builtin' and first.args[0].args[0] in ('list', 'tuple') and len(first.args[1]) == 1:
      first = first.args[1][0]
    if first.op == 'call' and first.args[0].op == 'builtin' and first.args[0].args[0] == 'range' and len(first.args[1]) == 1:
      i = first.args[1][0]
      if cmpr.same(ax, spec_term(ev, 'list(range(i)) + list(range(i + 1, n))', {'i': i, 'n': nd})):
        return i
  return None


def per_param_init(ev, init_fi, P, params_name='params'):
  """Evaluate an optax-style init function (`init_fn(params)`) as a whole and return the per-parameter value that its
  tree map builds, with the parameter leaf replaced by `P` - independent of how the per-parameter helper is named or
  where it is nested.  Raises AnalysisError when the init does not map over `params`."""
  from .model import AnalysisError
  ps = sym('param', init_fi.short, params_name)
  saved = dict(ev.leaf_override)
  ev.leaf_override[ps] = P          # the generic leaf of `params` is the rule's parameter symbol (oracles recognise it)
  try:
    r = ev.run(init_fi)
  finally:
    ev.leaf_override = saved
  tms = [x for x in walk(r) if x.op == 'tmap' and any(a_ is ps for a_ in x.args[1])]
  if not tms:
    raise AnalysisError(f'{init_fi.short}: no tree map over `{params_name}` found in the initial state')
  # the outermost such map is the per-parameter state
  tms.sort(key=lambda x: -sum(1 for _ in walk(x)))
  return tms[0].args[0]


def check_efficient_cond(ctx, rule):
  """efficient_cond's body implements cond(predicate, compute_fn(), init_state).

  Evaluated with a compute function of known arity (two results) so that the loop state folds to plain tuples:
  the while loop must start from (predicate, *init), run while state[0], and its body must produce
  (False, *compute()) - hence it runs at most once, exactly when the predicate holds - and the function must
  return the loop's components after the flag."""
  from .spec import spec_term
  m = ctx.model
  fi = m.func('distributed_shampoo', 'efficient_cond')
  ctx.analysed(fi)
  ev = evaluator(m)
  P = param('efficient_cond', 'predicate')
  C0, C1 = sym('spec', 'c0'), sym('spec', 'c1')
  F = spec_term(ev, 'lambda: (c0, c1)', {'c0': C0, 'c1': C1})
  I = T('list', sym('spec', 'init0'), sym('spec', 'init1'))
  r = ev.run(fi, args={'predicate': P, 'compute_fn': F, 'init_state': I,
                       'args': T('tuple'), 'kwargs': T('dict')})
  ok = False
  why = 'unrecognised shape'

  def unwrap(t):
    while t.op == 'call' and t.args[0].op == 'builtin' and t.args[0].args[0] in ('tuple', 'list') and len(t.args[1]) == 1:
      t = t.args[1][0]
    return t
  t = unwrap(r)
  comps = None
  if t.op == 'sub' and t.args[0].op == 'while' and t.args[1].op == 'slice' and is_const(t.args[1].args[0], 1) \
      and is_const(t.args[1].args[1], None) and is_const(t.args[1].args[2], None):
    w = t.args[0]
    comps = 'tail'
  elif t.op in ('tuple', 'list') and len(t.args) == 2 and all(x.op == 'sub' and x.args[0].op == 'while' for x in t.args) and \
      t.args[0].args[0] is t.args[1].args[0] and is_const(t.args[0].args[1], 1) and is_const(t.args[1].args[1], 2):
    w = t.args[0].args[0]
    comps = 'tail'
  if comps:
    wid, init, body, cnd = w.args
    init, body = unwrap(init), unwrap(body)
    st = T('wstate', wid)
    ok_init = init.op in ('list', 'tuple') and len(init.args) == 3 and init.args[0] is P and \
        init.args[1] is I.args[0] and init.args[2] is I.args[1]
    ok_body = body.op in ('list', 'tuple') and len(body.args) == 3 and is_const(body.args[0], False) and \
        body.args[1] is C0 and body.args[2] is C1
    ok_cond = cnd.op == 'sub' and cnd.args[0] is st and is_const(cnd.args[1], 0)
    ok = ok_init and ok_body and ok_cond
    why = f'init ok={ok_init} body ok={ok_body} cond ok={ok_cond}'
  ctx.ob(rule, fi.short, 'efficient_cond == cond(pred, compute(), init)', ok,
         f'efficient_cond no longer implements "predicate ? compute_fn() : init_state" ({why}); got `{show(r, maxdepth=6)[:200]}`', ctx.loc(fi),
         sample='while(state[0]) over (predicate, *init) with body (False, *compute())')
  return ok


def resimplify(ev, t, choose=None, memo=None):
  """Rebuild t bottom-up re-applying projections (attr/sub/elem) after choosing
  arms of `cond` nodes: choose(cond_term) -> True / False / None."""
  if memo is None:
    memo = {}

  def rec_arg(a):
    if isinstance(a, T):
      return rec(a)
    if isinstance(a, tuple):
      return tuple(rec_arg(x) for x in a)
    return a

  def rec(x):
    if x in memo:
      return memo[x]
    if x.op == 'cond' and choose is not None:
      c = choose(x)
      if c is not None:
        r = rec(x.args[1] if c else x.args[2])
        memo[x] = r
        return r
    args = tuple(rec_arg(a) for a in x.args)
    if x.op == 'attr':
      r = ev.attr(args[0], args[1])
    elif x.op == 'sub':
      r = ev.subscript(args[0], args[1])
    elif x.op == 'elem':
      r = ev.elem_of(args[0])
    elif x.op == 'ite':
      from .terms import ite as _ite
      r = _ite(args[0], args[1], args[2])
    elif all(n is o for n, o in zip(args, x.args)):
      r = x
    else:
      r = T(x.op, *args)
    memo[x] = r
    return r
  return rec(t)


def list_elements(t):
  """Element terms that can be stored in list-valued term t (through ite, star, slices, cond)."""
  out = []
  seen = set()

  def rec(x):
    if x in seen:
      return
    seen.add(x)
    if x.op == 'ite':
      rec(x.args[1])
      rec(x.args[2])
    elif x.op in ('list', 'tuple'):
      for e in x.args:
        if e.op == 'star':
          out.append(e.args[0])
        else:
          out.append(e)
    elif x.op in ('loop',):
      rec(x.args[2])
      rec(x.args[3])
    elif x.op == 'phi':
      rec(x.args[2])
    else:
      out.append(T('elem', x))
  rec(t)
  return out


def when_empty(c):
  """truth value of the test `c` when no parameter is preconditioned (None: not an emptiness test)"""
  c = strip_casts(c)
  if c.op == 'un' and c.args[0] == 'not':
    v = when_empty(c.args[1])
    return None if v is None else not v
  if c.op in ('list', 'mut', 'phi', 'loop') or (c.op == 'bin' and c.args[0] == '+' and any(y.op in ('list', 'mut') for y in c.args[1:])):
    return False                      # truthiness of the (empty) list / of a zero count
  if c.op == 'cmp' and len(c.args) == 3:
    o, a_, b_ = c.args
    if is_const(a_, 0):
      a_, b_ = b_, a_
      o = {'<': '>', '>': '<', '<=': '>=', '>=': '<='}.get(o, o)
    if is_const(b_, 0) and not is_const(a_):
      return {'==': True, '!=': False, '>': False, '<=': True, '>=': True, '<': False}.get(o)
  return None
