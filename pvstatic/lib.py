"""Shared helpers for rule modules."""
from __future__ import annotations

import ast

from .evalr import Evaluator
from .terms import T, const, cval, is_const, sym, walk, children, show, NONE


def ext_name(t):
  """Dotted external callee name of call-term t, else None."""
  if t.op == 'call' and t.args[0].op == 'ext':
    return t.args[0].args[0]
  return None


def is_ext_call(t, *names):
  n = ext_name(t)
  return n is not None and (n in names or any(n.endswith('.' + x) for x in names))


def method_name(t):
  if t.op == 'call' and t.args[0].op == 'attr':
    return t.args[0].args[1]
  return None


def fn_name(t):
  """Short name of an opaque repo call `fn`."""
  if t.op == 'call' and t.args[0].op == 'fn':
    return t.args[0].args[0].split('.')[-1]
  return None


def call_args(t):
  return list(t.args[1]), dict(t.args[2])


def strip_casts(t):
  """Remove dtype casts / array wrappers that do not change the value."""
  while True:
    if t.op == 'call':
      m = method_name(t)
      if m in ('astype',):
        t = t.args[0].args[0]
        continue
      n = ext_name(t)
      if n in ('jax.numpy.asarray', 'jax.numpy.array', 'numpy.asarray', 'numpy.array') and t.args[1]:
        t = t.args[1][0]
        continue
    return t


def find(t, pred):
  return [x for x in walk(t) if pred(x)]


def find_ext_calls(t, *names):
  return [x for x in walk(t) if is_ext_call(x, *names)]


def leaves(t):
  """Symbolic leaves: sym terms and attr-paths rooted at a sym."""
  out = set()
  seen = set()

  def rec(x):
    if x in seen:
      return
    seen.add(x)
    if x.op == 'sym':
      out.add(x)
      return
    if x.op == 'attr':
      p = x
      while p.op == 'attr':
        p = p.args[0]
      if p.op == 'sym':
        out.add(x)
        return
    for c in children(x):
      rec(c)
  rec(t)
  return out


def path_str(t):
  parts = []
  while t.op == 'attr':
    parts.append(t.args[1])
    t = t.args[0]
  if t.op == 'sym':
    parts.append(str(t.args[-1]))
    return '.'.join(reversed(parts))
  return None


def dep_names(t):
  """Field-sensitive dependence set as strings: 'grad', 'state.momentum', 'cfg:beta1'."""
  out = set()
  for l in leaves(t):
    if l.op == 'sym':
      out.add(('cfg:' if l.args[0] == 'cfg' else '') + str(l.args[-1]))
    else:
      p = l
      while p.op == 'attr':
        p = p.args[0]
      out.add(('cfg:' if p.args[0] == 'cfg' else '') + path_str(l))
  return out


def cfg(name, factory='distributed_shampoo'):
  return sym('cfg', factory, name)


def param(fn, name):
  return sym('param', fn, name)


def enum_member(ev, model, module_short, cls_name, member):
  ci = model.cls(module_short, cls_name)
  return ev.attr(T('class', ci.fq), member)


def evaluator(model, factory_cfg=None, factory='distributed_shampoo', **kw):
  bindings = {}
  for k, v in (factory_cfg or {}).items():
    bindings[(factory, k)] = v if isinstance(v, T) else const(v)
  extra = kw.pop('bindings', None)
  if extra:
    bindings.update(extra)
  return Evaluator(model, bindings=bindings, **kw)


def rec_fields(t):
  return dict(t.args[1]) if t.op == 'rec' else None


def unparse_short(node, n=120):
  s = ast.unparse(node)
  s = ' '.join(s.split())
  return s if len(s) <= n else s[:n - 1] + '…'


def norm_src(node):
  """Normalised statement/expression text used as construct key (no line numbers)."""
  return ' '.join(ast.unparse(node).split())


def select_arms(t):
  """If t is a select (lax.cond / jnp.where / lax.select / python ite), return
  (kind, predicate, true_arm, false_arm) else None."""
  if t.op == 'cond':
    return ('lax.cond', t.args[0], t.args[1], t.args[2])
  if t.op == 'ite':
    return ('ite', t.args[0], t.args[1], t.args[2])
  if is_ext_call(t, 'jax.numpy.where', 'jax.lax.select') and len(t.args[1]) == 3:
    a = t.args[1]
    return ('where', a[0], a[1], a[2])
  return None
