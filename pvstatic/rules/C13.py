"""C13 - device-count invariance of the distributed preconditioner computation (structural clauses).

Decided statically:
  P1  the pad count is (-N) mod D at all five sites (pmap, pmap-quantized, sharded init / shape / update),
      with N the number of statistics before padding and D the device count of that mode
      (psum(1, axis) | 1 | num_devices_for_pjit); the N == 0 special case pads to D in all three sharded
      functions;
  P2  every list handed to `batch` has symbolic length N + to_pad (LEN domain), pads are appended after the
      real entries, and padding entries are (identity statistic, exponent 1, padding start 0);
  P3  `batch` chunks x[idx:idx+b] over range(0, n, b) with b = n / D (slice width == stride), and `unbatch`
      re-emits pieces in row-major order (outer split on axis 0, inner split on axis 0): their composition
      is the identity on positions; the consumer zips the results against the length-N per-statistic lists,
      which drops exactly the pads;
  P4  axis_index / all_gather / psum in one function name the same axis, every batched operand is indexed
      by the same replica variable, and on one device the replica index is 0;
  P5  no shape-dependent squeeze on batched values (= C07.R5).
Not decided: bitwise equality of batched linear algebra across D; execution under a real mesh.
"""
from __future__ import annotations

import ast
import itertools

import sympy as sp

from ..lens import Len, LenError
from ..lib import (evaluator, Decider, econd_summary, rec_fields, show, walk, strip_casts, is_ext_call, fn_name,
                   method_name, path_str, ext_name, norm_src)
from ..spec import spec_term, Comparer
from ..terms import T, sym, const, is_const, cval, NONE
from ..model import AnalysisError
from . import ds_common as D

MOD = 'distributed_shampoo'
F = 'distributed_shampoo'

ASSUMPTIONS = [
    'per state, len(state.preconditioners) == len(state.statistics) (init layout, C07.R2); P2c checks the caller contributes one entry per statistic to each parallel list',
    'jnp.stack / jnp.split have numpy semantics',
]


def run(ctx):
  pad_counts(ctx)
  parallel_lists(ctx)
  batch_unbatch(ctx)
  redistribution(ctx)
  slice_back(ctx)
  sharded_init_pads(ctx)
  axis_names(ctx)
  vmapped_roots(ctx)
  pad_dtypes(ctx)
  from . import C07
  C07.squeeze_lint(ctx)


def redistribution(ctx):
  """P5: the flat list of new preconditioners (and metrics) is dealt back to the parameter states in order: state i
  receives the slice [start_i, start_i + n_i) with start_0 = 0 and start_{i+1} = start_i + n_i, n_i its number of
  statistics.  (An index that starts at 1, or advances by something else, silently hands every parameter its
  neighbour's preconditioners whenever the lengths still happen to fit.)"""
  m = ctx.model
  cmpr = Comparer()
  n_sites = 0
  for q, fixed, cls, slot in D.MODES[:3]:
    for metrics in (True, False):
      v = {'scheduled': False, 'steps1': False, 'reuse': False, 'metrics': metrics}
      fi, ev, r = D.eval_mode(m, q, fixed, v)
      ctx.analysed(fi)
      ctx.evaluations += 1
      sc = ev.last_scope
      allv = list(dict.fromkeys(x for v_ in sc.vars.values() for x in walk(v_)))
      slices = [x for x in allv if x.op == 'slice' and x.args[0].op == 'phi']
      loops = {(x.args[0], x.args[1]): x for x in allv if x.op == 'loop'}
      tag = f'[{q},axis={fixed.get("batch_axis_name")},metrics={int(metrics)}]'
      if not slices:
        raise AnalysisError(f'{q}: no slice by a running index found where new preconditioners are handed back to the states')
      for sl in dict.fromkeys(slices):
        lo, hi, st_ = sl.args
        n_sites += 1
        ok0 = is_const(lo.args[2], 0)
        n_t = None
        if hi.op == 'bin' and hi.args[0] == '+' and (hi.args[1] is lo or hi.args[2] is lo):
          n_t = hi.args[2] if hi.args[1] is lo else hi.args[1]
        okn = n_t is not None and is_const(st_, None) and ('num_statistics' in show(n_t, maxdepth=4) or 'statistics' in show(n_t, maxdepth=4))
        lp = loops.get((lo.args[0], lo.args[1]))
        oka = False
        if lp is not None and n_t is not None:
          body = lp.args[3]
          adv = spec_term(ev, 'i + n', {'i': lo, 'n': n_t})
          if body.op == 'ite':
            c = body.args[0]
            # `if n == 0: <nothing> else: ...; idx += n`: the index is unchanged exactly when n is 0
            is_zero_test = c.op == 'cmp' and c.args[0] == '==' and ((c.args[1] is n_t and is_const(c.args[2], 0)) or (c.args[2] is n_t and is_const(c.args[1], 0)))
            oka = is_zero_test and body.args[1] is lo and cmpr.same(body.args[2], adv)
          else:
            oka = cmpr.same(body, adv)
        ctx.ob('C13.P5', fi.short, f'running index starts at 0 {tag}', ok0,
               f'the index into the flat list of new preconditioners must start at 0; it starts at `{show(lo.args[2], maxdepth=3)}`', ctx.loc(fi),
               sample='idx = 0')
        ctx.ob('C13.P5', fi.short, f'state i receives [idx, idx + n_i) {tag}', okn,
               f'each state must receive the slice [idx : idx + its number of statistics]; got `{show(sl, maxdepth=5)[:160]}`', ctx.loc(fi),
               sample='flat[idx : idx + num_statistics]')
        ctx.ob('C13.P5', fi.short, f'index advances by n_i {tag}', oka,
               f'after each state the index must advance by exactly that state\'s number of statistics; loop step `{show(lp.args[3], maxdepth=5)[:200] if lp is not None else "<not a loop variable>"}`',
               ctx.loc(fi), sample='idx += num_statistics')
  ctx.need('C13.P5', n_sites, 5, 'running-index slices in the three preconditioner-refresh functions')


def slice_back(ctx):
  """P6: each padded root coming out of the batched computation is cut back to the announced shape of ITS statistic:
  p[:shape[0], :shape[1]] (1-d companions of the quantized mode: [:shape[0]]), shape being the entry of
  `original_shapes` that travels with p."""
  m = ctx.model
  n = 0
  for q, fixed, cls, slot in D.MODES[:3]:
    v = {'scheduled': False, 'steps1': False, 'reuse': False, 'metrics': False}
    fi, ev, r = D.eval_mode(m, q, fixed, v)
    ctx.analysed(fi)
    ctx.evaluations += 1
    sc = ev.last_scope
    allv = list(dict.fromkeys(x for v_ in sc.vars.values() for x in walk(v_)))
    is_shape = lambda t_: t_.op == 'elem' and t_.args[0].op == 'sym' and t_.args[0].args[-1] == 'original_shapes'
    uses_shape = lambda t_: any(is_shape(y) for y in walk(t_))
    sites = [x for x in allv if x.op == 'sub' and (x.args[1].op == 'slice' or (x.args[1].op == 'tuple' and all(y.op == 'slice' for y in x.args[1].args)))
             and uses_shape(x.args[1])]
    tag = f'[{q},axis={fixed.get("batch_axis_name")}]'
    if not sites:
      raise AnalysisError(f'{q}: no slice back to the original shapes found')
    for x in sites:
      idx = x.args[1]
      parts = list(idx.args) if idx.op == 'tuple' else [idx]
      ok = len(parts) in (1, 2)
      for k, sl in enumerate(parts):
        lo, hi, st_ = sl.args
        ok = ok and is_const(lo, None) and is_const(st_, None) and hi.op == 'sub' and is_shape(hi.args[0]) and is_const(hi.args[1], k)
      n += 1
      ctx.ob('C13.P6', fi.short, f'root cut back to its own announced shape {tag}', ok,
             f'a padded result must be sliced to [:shape[0], :shape[1]] of its own entry of original_shapes; got `{show(idx, maxdepth=5)[:160]}`',
             ctx.loc(fi), sample='p[:shape[0], :shape[1]]')
  ctx.need('C13.P6', n, 3, 'slice-back sites')


def _find_mod(tp):
  return [x for x in walk(tp) if x.op == 'bin' and x.args[0] == '%']


def pad_counts(ctx):
  m = ctx.model
  cmpr = Comparer()
  sites = [
      ('_pmap_compute_preconditioners', {'batch_axis_name': True}, 'psum'),
      ('_pmap_compute_preconditioners', {'batch_axis_name': False}, 'one'),
      ('_pmap_quantized_compute_preconditioners', {'batch_axis_name': True}, 'psum'),
      ('sharded_update_fn', {}, 'pjit'),
      ('sharded_init_fn', {}, 'pjit'),
      ('sharded_init_shape_and_dtype_fn', {}, 'pjit'),
  ]
  n = 0
  for q, fixed, dkind in sites:
    fi = m.func(MOD, F + '.' + q)
    ctx.analysed(fi)
    v = dict(scheduled=False, steps1=False, reuse=True, metrics=True)
    d = D.make_decider(v, fixed)
    ev = evaluator(m, opaque=D.OPAQUE | {'preconditioner_from_params', '_skip_preconditioning', 'shapes_for_preconditioners', 'exponent_for_preconditioner',
                                         '_quantize_momentum', '_quantize_diagonal_statistics', 'init_avg_grad', 'init_training_metrics',
                                         'init_avg_grad_shape', 'init_training_metrics_shapes', '_max_statistics_size_from_params',
                                         '_convert_to_parameter_stats', '_convert_from_parameter_stats', '_add_metrics_into_local_stats'},
                   decide=d, summaries={'efficient_cond': econd_summary})
    ev.run(fi)
    sc = ev.last_scope
    allv = []
    for v_ in sc.vars.values():
      for x in walk(v_):
        allv.append(x)

    def is_D(b):
      if dkind == 'psum':
        return is_ext_call(b, 'jax.lax.psum') and is_const(b.args[1][0], 1) and b.args[1][1].op == 'sym' and b.args[1][1].args[-1] == 'batch_axis_name'
      if dkind == 'one':
        return is_const(b, 1)
      return b.op == 'sym' and b.args[-1] == 'num_devices_for_pjit'
    # the pad count is found by its shape: a `%` whose right operand is this mode's device count
    mods = list(dict.fromkeys(x for x in allv if x.op == 'bin' and x.args[0] == '%' and is_D(x.args[2])))
    if not mods and dkind != 'one':
      raise AnalysisError(f'{q}: no `<count> % <device count>` expression found')
    tp = mods[0] if mods else const(0)
    ok = False
    why = show(tp, maxdepth=6)[:200]
    for x in mods:
      a, b = x.args[1], x.args[2]
      okn = a.op == 'un' and a.args[0] == '-'
      if dkind == 'psum':
        okd = is_ext_call(b, 'jax.lax.psum') and is_const(b.args[1][0], 1) and b.args[1][1].op == 'sym' and b.args[1][1].args[-1] == 'batch_axis_name'
      elif dkind == 'one':
        okd = is_const(b, 1)
      else:
        okd = b.op == 'sym' and b.args[-1] == 'num_devices_for_pjit'
      if okn and okd:
        # N is the number of statistics before padding: len(list) / counter
        nn = a.args[1]
        okN = (nn.op == 'call' and nn.args[0].op == 'builtin' and nn.args[0].args[0] == 'len') or nn.op in ('loop', 'phi', 'sym')
        ok = okN
    if dkind == 'one' and not mods:
      ok = True          # no modulo at all on one device: nothing is padded
    n += 1
    ctx.ob('C13.P1', fi.short, f'to_pad = (-N) mod D [{dkind}]', ok,
           f'the number of padding statistics must be (-N) % D with D = {"psum(1, batch_axis_name)" if dkind == "psum" else ("1" if dkind == "one" else "num_devices_for_pjit")}; got `{why}`',
           ctx.loc(fi), sample='to_pad = -N % D')
    if dkind == 'pjit':
      # N == 0 special case: some value of the function chooses the device count itself when there is nothing to pad
      # ... and it must choose it exactly then: the arm holding D is the one taken when there are no statistics
      from ..lib import when_empty as _when_empty
      isD = lambda y: y.op == 'sym' and y.args[-1] == 'num_devices_for_pjit'
      cands = [x for x in dict.fromkeys(allv) if x.op == 'ite' and len(x.args) == 3 and any(isD(y) for y in x.args[1:]) and
               any(any(z in mods for z in walk(y)) for y in x.args[1:] if not isD(y))]
      special = bool(cands)
      for x in cands:
        v = _when_empty(x.args[0])
        d_arm_is_true = isD(x.args[1])
        if v is None or v != d_arm_is_true:
          special = False
      ctx.ob('C13.P1', fi.short, 'no statistics at all: pad to D', special,
             'when no parameter is preconditioned the global arrays must still have D (dummy) rows, in init, declaration and update alike', ctx.loc(fi),
             sample='N == 0 -> to_pad = num_devices_for_pjit')
  ctx.need('C13.P1', n, 6, 'pad-count sites')


def parallel_lists(ctx):
  m = ctx.model
  cmpr = Comparer()
  n_lists = 0
  for q, fixed in (('_pmap_compute_preconditioners', {'batch_axis_name': True}), ('_pmap_compute_preconditioners', {'batch_axis_name': False}),
                   ('_pmap_quantized_compute_preconditioners', {'batch_axis_name': True})):
    for reuse in (True, False):
      fi = m.func(MOD, F + '.' + q)
      v = dict(scheduled=False, steps1=False, reuse=reuse, metrics=True)
      d = D.make_decider(v, fixed)
      ev = evaluator(m, opaque=(D.OPAQUE - {'pad_and_maybe_zero_preconditioners'}) | {'_pad_preconditioner'}, decide=d, summaries={'efficient_cond': econd_summary})
      ev.run(fi)
      ctx.evaluations += 1
      sc = ev.last_scope
      P = lambda nm: sym('param', fi.short, nm)
      ln = Len()
      N = ln.of(P('statistics'))
      # caller-provided parallel lists
      for nm in ('exponents', 'prev_preconditioners', 'original_shapes'):
        ln.assume[P(nm)] = N
      calls = [c for c in ev.calls if c.callee.endswith('.batch') and c.args is not None]
      ctx.need('C13.P2', len(calls), 3, f'batch(...) calls in {q}')
      # the pad count: multiplicity of the padding entries of the lists handed to batch
      mult = []
      for c in calls:
        x = c.args.get('x', NONE)
        for e in (x.args if x.op == 'list' else ()):
          if e.op == 'star' and _is_pad(e):
            dom = e.args[1]
            if dom.op == 'repeat':
              mult.append(dom.args[0])
            elif dom.op == 'compdom' and dom.args[0].op == 'call' and dom.args[0].args[0].op == 'builtin' and dom.args[0].args[0].args[0] == 'range' and len(dom.args[0].args[1]) == 1:
              mult.append(dom.args[0].args[1][0])
      if not mult:
        raise AnalysisError(f'{q}: no padding entries found in the lists handed to batch')
      tp = mult[0]
      want = sp.expand(N + ln.scalar(tp))
      # the not-taken arm of the refresh cond (efficient_cond's init state) must have the tree the taken arm produces:
      # every list in it holds one entry per batched statistic, N + to_pad - a carry of another length is a structure
      # mismatch as soon as to_pad > 0 (more than one device)
      from .C04 import parse_mod_guard
      conds = list(dict.fromkeys(x for v_ in sc.vars.values() for x in walk(v_)
                                 if x.op == 'cond' and parse_mod_guard(x.args[0]) is not None and D.contains_root_call(x.args[1])))
      n_init = 0
      for cnd in conds:
        stack_ = [cnd.args[2]]
        seen_ = set()
        while stack_:
          t_ = stack_.pop()
          if t_ in seen_:
            continue
          seen_.add(t_)
          if t_.op == 'list' and any(e_.op == 'star' for e_ in t_.args):
            try:
              got = ln.of(t_)
            except LenError:
              continue
            n_init += 1
            ctx.ob('C13.P2', fi.short, f'stale carry has one entry per batched statistic [reuse={reuse},axis={fixed.get("batch_axis_name")}]',
                   sp.simplify(got - want) == 0,
                   f'a list in the not-taken arm of the refresh cond has length {got}; the taken arm returns N + to_pad = {want} entries '
                   '(the two arms of efficient_cond must have the same tree: this fails on more than one device)', ctx.loc(fi),
                   sample=f'len = {want}', trivial=True)
            continue
          if t_.op == 'rec':
            stack_.extend(v2 for _, v2 in t_.args[1])
          elif t_.op in ('tuple', 'list', 'cond', 'ite'):
            stack_.extend(a_ for a_ in t_.args if isinstance(a_, T))
      if v['metrics'] if isinstance(v, dict) and 'metrics' in v else True:
        ctx.need('C13.P2', n_init, 1, f'lists in the stale carry of the refresh cond of {q}')
      for c in calls:
        x = c.args.get('x', NONE)
        nd = c.args.get('num_devices', NONE)
        if is_const(x, None):
          continue
        try:
          got = ln.of(x)
        except LenError as e:
          raise AnalysisError(f'{q}: LEN cannot measure a list handed to batch: {e}: {show(x, maxdepth=3)[:160]}')
        ok = sp.simplify(got - want) == 0
        n_lists += 1
        what = _what(x)
        ctx.ob('C13.P2', fi.short, f'len({what}) == N + to_pad [reuse={reuse},axis={fixed.get("batch_axis_name")}]', ok,
               f'list `{what}` handed to batch has length {got}, the other parallel lists have N + to_pad = {want}: the per-device chunks no longer line up',
               ctx.loc(fi), sample=f'len({what}) = {got}')
        # pads last
        if x.op == 'list':
          kinds = [_is_pad(e) for e in x.args]
          okp = kinds == sorted(kinds)
          ctx.ob('C13.P2', fi.short, f'{what}: pads appended after the real entries', okp,
                 f'padding entries of `{what}` must come after the N real entries (the consumer keeps the first N results)', ctx.loc(fi),
                 sample='real entries first, pads last', trivial=True)
        okd = (is_ext_call(nd, 'jax.lax.psum') and is_const(nd.args[1][0], 1)) if fixed.get('batch_axis_name') else is_const(nd, 1)
        ctx.ob('C13.P2', fi.short, f'{what}: batched over the device count', okd,
               'batch must split over the device count of this mode (psum(1, axis) | 1)', ctx.loc(fi), trivial=True, sample=None)
      # padding entry values
      xs = [c.args.get('x', NONE) for c in calls]
      ps = next((x for x in xs if x.op == 'list' and _what(x) in ('pad_square_matrix', 'quantized')), None)
      if ps is None:
        raise AnalysisError(f'{q}: packed statistics list not found among the batch arguments')
      pads = [e.args[0] for e in ps.args if e.op == 'star' and _is_pad(e)]
      if q == '_pmap_compute_preconditioners':
        okv = bool(pads) and all(is_ext_call(p_, 'jax.numpy.eye') and p_.args[1][0] is P('max_size') for p_ in pads)
      else:
        okv = bool(pads) and all('quantized' in show(p_, maxdepth=3) and any(is_ext_call(y, 'jax.numpy.eye') for y in walk(p_)) for p_ in pads)
      ctx.ob('C13.P2', fi.short, f'padding statistic is the identity [reuse={reuse}]', okv,
             'padding statistics must be identity matrices of the common size (their root is harmless and never used)', ctx.loc(fi), sample='eye(max_size)')
      ex = next((x for x in xs if x.op == 'mut' and any(y is P('exponents') for y in walk(x))), None)
      okx = ex is not None and ex.op == 'mut' and ex.args[1] == 'extend' and ex.args[2][0].op == 'list' and \
          all(e.op == 'star' and is_const(e.args[0], 1) for e in ex.args[2][0].args)
      ctx.ob('C13.P2', fi.short, f'padding exponent is 1 [reuse={reuse}]', okx, 'exponents must be extended by to_pad ones', ctx.loc(fi), sample='exponents.extend([1] * to_pad)')
      pd = next((x for x in xs if x.op == 'list' and len(x.args) == 2 and x.args[1].op == 'star' and is_const(x.args[1].args[0]) and isinstance(cval(x.args[1].args[0]), int)), None)
      okq = pd is not None and pd.op == 'list' and len(pd.args) == 2 and pd.args[1].op == 'star' and is_const(pd.args[1].args[0], 0) and \
          'len' in show(pd.args[0], maxdepth=4)
      ctx.ob('C13.P2', fi.short, f'padding start of pads is 0 [reuse={reuse}]', okq,
             'padding starts must be [len(stat) for stat in statistics] + [0] * to_pad (all-padding inputs yield a zero root and zero error)', ctx.loc(fi),
             sample='paddings = [len(s)...] + [0] * to_pad')
      # consumer drops pads: the select loop zips against the length-N lists
      cons = D.constructor_calls(ev, 'ParameterStats', '.' + q)
      okz = False
      for c in cons:
        for x in walk(c.args['preconditioners']):
          it = x.args[1] if x.op == 'loopdom' else (x.args[0] if x.op == 'compdom' and len(x.args) == 1 else None)
          if it is not None and it.op == 'call' and it.args[0].op == 'builtin' and it.args[0].args[0] == 'zip':
            members = it.args[1]
            if any(y is P('original_shapes') or y is P('prev_preconditioners') for y in members):
              okz = True
              # every zipped list is read from its position 0: entry i of the flat results (roots, errors) belongs to
              # statistic i, the pads sit at the END - an offset or end-anchored slice pairs statistic i with entry i + k
              for y in members:
                y0 = strip_casts(y)
                off = y0.op == 'sub' and y0.args[1].op == 'slice' and not is_const(y0.args[1].args[0], None)
                rev = (y0.op == 'call' and y0.args[0].op == 'builtin' and y0.args[0].args[0] == 'reversed') or \
                    (y0.op == 'sub' and y0.args[1].op == 'slice' and not is_const(y0.args[1].args[2], None))
                ctx.ob('C13.P2', fi.short, f'zipped results aligned at position 0 [reuse={reuse}]', not (off or rev),
                       f'a list zipped with the per-statistic lists is shifted / reversed: `{show(y0, maxdepth=4)[:120]}` - result i would be judged by '
                       'the error (or cut to the shape) of another statistic whenever padding is present', ctx.loc(fi), sample='zip(results, shapes, prev, errors) from position 0', trivial=True)
      ctx.ob('C13.P2', fi.short, f'results zipped against the N-long per-statistic lists [reuse={reuse}]', okz,
             'the accepted roots must be collected by zipping the flat results with original_shapes / prev_preconditioners (length N), which drops the pads',
             ctx.loc(fi), sample='zip(results, original_shapes, prev_preconditioners, errors)')
  ctx.need('C13.P2', n_lists, 8, 'lists handed to batch')
  caller_lists(ctx)
  # sharded update
  fi = m.func(MOD, F + '.sharded_update_fn')
  v = dict(scheduled=False, steps1=False, reuse=True, metrics=True)
  ev = evaluator(m, opaque=(D.OPAQUE - {'pad_and_maybe_zero_preconditioners'}) | {'_pad_preconditioner', '_convert_to_parameter_stats', '_convert_from_parameter_stats', '_add_metrics_into_local_stats'},
                 decide=D.make_decider(v, {}), summaries={'efficient_cond': econd_summary})
  ev.run(fi)
  sc = ev.last_scope
  # the padded statistics list (entries built by pad_square_matrix, then identity pads) and the list of padding starts
  # (entries len(statistic), then zeros) are found by what they hold
  def holds(v_, pred):
    # looks at the entries only (what is stored), not at the iteration domains
    return any(pred(x) for e_ in v_.args for x in walk(e_.args[0] if e_.op == 'star' else e_))
  vals_ = [v_ for v_ in sc.vars.values() if v_.op == 'list']
  st = next((v_ for v_ in vals_ if holds(v_, lambda x: fn_name(x) == 'pad_square_matrix') and holds(v_, lambda x: is_ext_call(x, 'jax.numpy.eye'))), None)
  ps_ = next((v_ for v_ in vals_ if v_ is not st and not holds(v_, lambda x: fn_name(x) == 'pad_square_matrix') and
              any(e_.op == 'star' and is_const(e_.args[0], 0) for e_ in v_.args) and
              holds(v_, lambda x: (x.op == 'call' and x.args[0].op == 'builtin' and x.args[0].args[0] == 'len') or
                    (x.op == 'sub' and is_const(x.args[1], 0) and x.args[0].op == 'attr' and x.args[0].args[1] == 'shape'))), None)
  ok = st is not None and ps_ is not None
  if ok:
    try:
      ln = Len()
      ok = _same_shape_lists(st, ps_)
    except LenError:
      ok = False
  if ok:
    # ... and the real entries of both lists run over the same statistics, in the same nesting order
    real = lambda v_: [e_ for e_ in v_.args if e_.op == 'star' and not _is_pad(e_)]
    ok = len(real(st)) == len(real(ps_)) and all(_nest(x_)[1] == _nest(y_)[1] and _nest(x_)[0] is not None for x_, y_ in zip(real(st), real(ps_)))
  ctx.ob('C13.P2', fi.short, 'sharded: statistics and padding starts extended in lock-step', ok,
         'new_padded_statistics and padding_starts must receive one entry per statistic and the same number of pads', ctx.loc(fi),
         sample='extend per statistic; += [0] * to_pad / eye pads')


def sharded_init_pads(ctx):
  """P2s: in the sharded initial state the three global arrays (statistics, preconditioners, exponents) list the real
  entries first, in parameter order, and the dummy / padding rows after them - however they are assembled (a list
  extended by pads and stacked, or jnp.pad of the stacked real entries with a zero leading width).  index_start of the
  local records counts from the front, and the update pads at the end."""
  m = ctx.model
  fi = m.func(MOD, F + '.sharded_init_fn')
  ctx.analysed(fi)
  ev = evaluator(m, decide=Decider(calls={('_skip_preconditioning',): False}, truth={'best_effort_memory_usage_reduction': False}),
                 opaque={'preconditioner_from_params', 'shapes_for_preconditioners', '_skip_preconditioning', '_quantize_momentum',
                         '_quantize_diagonal_statistics', 'init_avg_grad', 'init_training_metrics', '_max_statistics_size_from_params',
                         'precond_dim', 'exponent_for_preconditioner'})
  ev.run(fi)
  gs = [c for c in ev.calls if c.via == 'construct' and c.callee.endswith('.GlobalShardedParameterStats')]
  ctx.need('C13.P2', len(gs), 1, 'GlobalShardedParameterStats constructor in sharded_init_fn')

  def order_ok(t):
    """(ok, why) for an array term assembled from per-statistic entries and pads"""
    t = strip_casts(t)
    if is_ext_call(t, 'jax.numpy.stack', 'jax.numpy.concatenate', 'jax.numpy.asarray', 'jax.numpy.array') and t.args[1]:
      return order_ok(t.args[1][0])
    if is_ext_call(t, 'jax.numpy.pad') and len(t.args[1]) >= 2:
      w = t.args[1][1]
      lead = w.args[0] if w.op in ('tuple', 'list') and w.args else None
      if lead is not None and lead.op in ('tuple', 'list') and lead.args:
        lead = lead.args[0]                              # ((before, after), ...) form: first axis
      if lead is None or not is_const(lead, 0):
        return False, f'jnp.pad with leading width `{show(lead, maxdepth=3) if lead is not None else "?"}` puts padding BEFORE the real entries'
      return order_ok(t.args[1][0])
    if t.op == 'list':
      kinds = [_is_pad(e) for e in t.args]
      if kinds != sorted(kinds):
        return False, 'padding entries precede real entries in the list'
      return True, ''
    if t.op == 'bin' and t.args[0] == '+':
      a_, b_ = order_ok(t.args[1]), order_ok(t.args[2])
      return (a_[0] and b_[0]), (a_[1] or b_[1])
    return None, f'array assembled in an unrecognised way: `{show(t, maxdepth=3)[:100]}`'
  for fld in ('statistics', 'preconditioners', 'exponents'):
    ok, why = order_ok(gs[0].args.get(fld, NONE))
    if ok is None:
      ctx.defer(f'sharded_init_fn: {fld}: {why}')
      continue
    ctx.ob('C13.P2', fi.short, f'sharded init: {fld} rows = real entries, then pads', ok,
           f'global `{fld}`: {why}: row i no longer belongs to statistic i (index_start counts from the front, the update pads at the end)', ctx.loc(fi),
           sample='real rows first, dummy rows last')


BACKENDS = ('_pmap_compute_preconditioners', '_pmap_quantized_compute_preconditioners', '_pjit_compute_preconditioners')


def _per_state_count(ln, lst, states, n_s):
  """Number of entries one state contributes to a list built by `_compute_preconditioners` (LEN domain).
  Entries guarded by a test equivalent to `len(state.statistics) > 0` count fully: the guard is false
  exactly when the unguarded count (a multiple of n_s) would be 0."""
  def guard_ok(c):
    """the guard holds exactly when the state has statistics: decided by witness values of len(state.statistics)"""
    from ..terms import strip_negation
    c0, flipped = strip_negation(strip_casts(c))
    try:
      if c0.op == 'cmp' and len(c0.args) == 3 and c0.args[0] in ('<', '<=', '>', '>=', '==', '!='):
        le, re = ln.scalar(c0.args[1]), ln.scalar(c0.args[2])
        rel = {'<': sp.Lt, '<=': sp.Le, '>': sp.Gt, '>=': sp.Ge, '==': sp.Eq, '!=': sp.Ne}[c0.args[0]](le, re)
      else:
        rel = sp.Ne(ln.scalar(c0), 0)          # truthiness of a count
    except Exception:
      return False
    for val, want in ((0, False), (1, True), (3, True)):
      got = rel.subs(n_s, val) if hasattr(rel, 'subs') else rel
      if got not in (sp.true, sp.false):
        return False
      if (bool(got) != flipped) != want:
        return False
    return True

  def inner_count(d):
    if d is None or is_const(d, None):
      return sp.Integer(1)
    if d.op == 'loopdom':
      if len(d.args) > 2 and d.args[2]:
        raise LenError('conditionally appended entry inside the per-statistic loop')
      return ln._iter(d.args[1]) * inner_count(d.args[3] if len(d.args) > 3 else None)
    if d.op == 'guarded':
      if not guard_ok(d.args[0]):
        raise LenError(f'entry appended under {show(d.args[0], maxdepth=3)}')
      return inner_count(d.args[1]) if len(d.args) > 1 else sp.Integer(1)
    if d.op in ('attr', 'elem', 'sym', 'list', 'tuple', 'mut', 'call', 'sub'):
      return ln._iter(d)
    return ln._dom(d)

  def count(d):
    if d.op == 'guarded':
      if not guard_ok(d.args[0]):
        raise LenError(f'entry appended under {show(d.args[0], maxdepth=3)}')
      return count(d.args[1])
    if d.op == 'loopdom' and any(y is states for y in walk(d.args[1])):
      for g in (d.args[2] if len(d.args) > 2 else ()):
        if not guard_ok(g):
          raise LenError(f'entry appended under {show(g, maxdepth=3)}')
      return inner_count(d.args[3] if len(d.args) > 3 else None)
    raise LenError(f'entry not produced by the loop over the states: {show(d, maxdepth=3)[:120]}')
  if lst.op != 'list':
    raise LenError(f'not a list literal built in the loop: {lst.op}')
  total = sp.Integer(0)
  for e in lst.args:
    if e.op != 'star':
      raise LenError('entry outside the loop over the states')
    total += count(e.args[1])
  return sp.expand(total)


def caller_lists(ctx):
  """P2c: for every state, `_compute_preconditioners` contributes the same number of entries - one per
  statistic - to statistics, original_shapes, exponents and prev_preconditioners, and hands the same four
  lists to whichever back-end it dispatches to."""
  m = ctx.model
  fc = m.func(MOD, F + '._compute_preconditioners')
  ctx.analysed(fc)
  ev = evaluator(m, opaque=D.OPAQUE | set(BACKENDS) | {'preconditioner_from_params'}, decide=Decider(), summaries={'efficient_cond': econd_summary})
  ev.run(fc)
  calls = [c for c in ev.calls if c.callee.split('.')[-1] in BACKENDS and c.caller.startswith(fc.fq)]
  ctx.need('C13.P2', len({c.callee for c in calls}), 3, 'back-end calls in _compute_preconditioners')
  states = sym('param', fc.short, 'states')
  for c in calls:
    be = c.callee.split('.')[-1]
    ln = Len()
    stat_attr = [x for x in walk(c.args.get('statistics', NONE)) if x.op == 'attr' and x.args[1] == 'statistics' and any(y is states for y in walk(x.args[0]))]
    if not stat_attr:
      ctx.ob('C13.P2', fc.short, f'{be}: statistics gathered from the states', False, 'the statistics list must be gathered from state.statistics of every state', ctx.loc(fc))
      continue
    n_s = ln.of(stat_attr[0])
    n_p = ln.of(T('attr', stat_attr[0].args[0], 'preconditioners'))
    for k in ('statistics', 'original_shapes', 'exponents', 'prev_preconditioners'):
      try:
        got = _per_state_count(ln, c.args[k], states, n_s)
        ok = sp.simplify(got - n_s) == 0 or (k == 'prev_preconditioners' and sp.simplify(got - n_p) == 0)
        msg = f'`{k}` receives {got} entries per state, the parallel lists receive len(state.statistics) = {n_s}'
      except LenError as e:
        ok, got, msg = False, None, f'`{k}`: {e}'
      ctx.ob('C13.P2', fc.short, f'{be}: one `{k}` entry per statistic of every state', ok,
             msg + ': statistics, shapes, exponents and previous preconditioners no longer line up position by position', ctx.loc(fc),
             sample=f'{k}: {got} per state')
    # ... and WHAT is handed down: the stored statistics and the stored preconditioners themselves (the "old" value the
    # acceptance gate falls back to must be bit-for-bit the one in the state, not a reset / rescaled copy)
    from .C03 import pure_projection
    for k, field in (('statistics', 'statistics'), ('prev_preconditioners', 'preconditioners')):
      lst_ = c.args.get(k, NONE)
      elems = [e_.args[0] if e_.op == 'star' else e_ for e_ in lst_.args] if lst_.op == 'list' else None
      okv = bool(elems) and all(pure_projection(e_, {'states'}) and
                                any(x.op == 'attr' and x.args[1] == field for x in walk(e_)) for e_ in elems)
      ctx.ob('C13.P2', fc.short, f'{be}: `{k}` holds the stored {field} themselves', okv,
             f'every entry of `{k}` must be an element of state.{field} unchanged; got `{show(lst_, maxdepth=5)[:200]}`', ctx.loc(fc),
             sample=f'{k}.extend(state.{field})')
    nps = c.args.get('num_statistics_per_state')
    okn = nps is not None and nps.op == 'list' and len(nps.args) == 1 and nps.args[0].op == 'star' and \
        sp.simplify(ln.scalar(nps.args[0].args[0]) - n_s) == 0
    if okn:
      # one entry per state, unconditionally: a loop over (a zip with) `states` without guards, or an unfiltered comprehension
      dom_ = nps.args[0].args[1]
      it_ = dom_.args[1] if dom_.op == 'loopdom' and not dom_.args[2] and (len(dom_.args) < 4 or is_const(dom_.args[3], None)) else \
          (dom_.args[0] if dom_.op == 'compdom' and len(dom_.args) == 1 else None)
      okn = it_ is not None and any(y is states for y in walk(it_))
    ctx.ob('C13.P2', fc.short, f'{be}: num_statistics_per_state holds len(state.statistics) for every state', okn,
           'the per-state counts used to deal the results back must be len(state.statistics), one per state, unconditionally', ctx.loc(fc),
           sample='num_statistics_per_state.append(len(state.statistics))')


def _same_shape_lists(a, b):
  """Both lists are [per-stat star ...] + [to_pad pads]."""
  def sig(x):
    if x.op == 'bin' and x.args[0] == '+':
      return sig(x.args[1]) + sig(x.args[2])
    if x.op == 'mut' and x.args[1] == 'extend':
      return sig(x.args[0]) + sig(x.args[2][0])
    if x.op == 'list':
      out = []
      for e in x.args:
        if e.op == 'star':
          dom = e.args[1]
          out.append(('pad' if _is_pad(e) else 'real'))
        else:
          out.append('one')
      return out
    return ['?']
  sa, sb = sig(a), sig(b)
  return sa == sb and 'pad' in sa and 'real' in sa


def _is_pad(e):
  if e.op != 'star':
    return 0
  dom = e.args[1]
  txt = show(dom, maxdepth=6)
  return 1 if ('to_pad' in txt or "builtin('range')" in txt and '%' in txt or (dom.op == 'repeat') or '%' in txt) else 0


def _what(x):
  s = show(x, maxdepth=3)
  for key in ('pad_square_matrix', 'quantized', 'diagonal', 'bucket_size', 'exponents', "builtin('len')", '_pad_preconditioner', 'pad_vector'):
    if key in s:
      return key.replace("builtin('len')", 'paddings')
  return s[:40]


def batch_unbatch(ctx):
  m = ctx.model
  fb = m.func(MOD, 'batch')
  fu = m.func(MOD, 'unbatch')
  ctx.analysed(fb, fu)
  cmpr = Comparer()
  ev = evaluator(m)
  r = ev.run(fb)
  X, ND = sym('param', fb.short, 'x'), sym('param', fb.short, 'num_devices')
  ok = is_ext_call(r, 'jax.numpy.stack') and r.args[1] and r.args[1][0].op == 'list' and len(r.args[1][0].args) == 1 and r.args[1][0].args[0].op == 'star'
  if ok:
    st = r.args[1][0].args[0]
    elt, dom = st.args
    ok = is_ext_call(elt, 'jax.numpy.stack') and dom.op == 'compdom'
    if ok:
      piece = elt.args[1][0]
      rng = dom.args[0]
      idx = [y for y in walk(piece) if y.op == 'rangevar']
      ok = bool(idx) and rng.op == 'call' and rng.args[0].op == 'builtin' and rng.args[0].args[0] == 'range' and len(rng.args[1]) == 3
      if ok:
        iv = idx[0]
        lo, hi, stp = rng.args[1]
        b_exp = spec_term(ev, 'int(len(x) / nd)', {'x': X, 'nd': ND})
        ok = is_const(lo, 0) and cmpr.same(hi, spec_term(ev, 'len(x)', {'x': X})) and cmpr.same(stp, b_exp)
        # slice width == stride
        okw = False
        if piece.op == 'sub' and piece.args[1].op == 'slice':
          s_lo, s_hi, _ = piece.args[1].args
          okw = piece.args[0] is X and s_lo is iv and cmpr.same(s_hi, spec_term(ev, 'i + b', {'i': iv, 'b': stp}))
        elif piece.op == 'list' and piece.args and piece.args[0].op == 'star' and piece.args[0].args[1].op == 'sliceof':
          sl = piece.args[0].args[1].args[1]
          okw = piece.args[0].args[1].args[0] is X and sl.args[0] is iv and cmpr.same(sl.args[1], spec_term(ev, 'i + b', {'i': iv, 'b': stp}))
        ok = ok and okw
  ctx.ob('C13.P3', fb.short, 'chunks x[idx:idx+b] for idx in range(0, n, b), b = n / D', ok,
         f'batch must stack consecutive chunks of width b = int(len(x) / num_devices) with stride b (width != stride duplicates or drops statistics); got `{show(r, maxdepth=6)[:240]}`',
         ctx.loc(fb), sample='stack([stack(x[idx:idx+b]) for idx in range(0, n, b)])')
  # unbatch: the returned list, whatever loops / comprehensions build it, enumerates
  #   squeeze(split(squeeze(split(bv, shape[0], 0)[i], 0), shape[1], 0)[j], 0)   for i (outer), j (inner)
  # and, with one statistic per device, squeeze(squeeze(split(bv, shape[0], 0)[i], 0), 0) for i
  BV = sym('param', fu.short, 'batched_values')

  def is_one_cmp(c):
    return c.op == 'cmp' and c.args[0] in ('>', '<', '>=', '<=', '==', '!=') and (is_const(c.args[2], 1) or is_const(c.args[1], 1))

  def many(c):      # truth of the code's own test when shape[1] > 1
    if not is_one_cmp(c):
      return None
    o = c.args[0]
    if is_const(c.args[1], 1):
      o = {'>': '<', '<': '>', '>=': '<=', '<=': '>='}.get(o, o)
    return {'>': True, '>=': True, '!=': True, '<': False, '<=': False, '==': False}[o]

  def split_of(t, src_ok, count):
    kw = dict(t.args[2]) if is_ext_call(t, 'jax.numpy.split') else None
    return kw is not None and len(t.args[1]) == 1 and src_ok(t.args[1][0]) and is_const(kw.get('axis', const(0)), 0) and \
        cmpr.same(kw.get('indices_or_sections', NONE), spec_term(ev, count, {'bv': BV}))

  def squeezed(t):
    return t.args[1][0] if is_ext_call(t, 'jax.numpy.squeeze') and len(t.args[1]) == 1 and is_const(dict(t.args[2]).get('axis', NONE), 0) else None

  for b2_many in (True, False):
    ev = evaluator(m, decide=Decider(extra=lambda c: (many(c) if b2_many else (None if many(c) is None else not many(c)))))
    r = ev.run(fu)
    ctx.evaluations += 1
    e, doms = _nest(r)
    ok = e is not None
    if ok:
      outer_ok = lambda t: split_of(t, lambda x: x is BV, 'bv.shape[0]')
      piece = lambda t: (lambda q: q is not None and q.op == 'elem' and outer_ok(q.args[0]))(squeezed(t))     # squeeze(elem(outer split), 0)
      if b2_many:
        ok = len(doms) == 2 and outer_ok(doms[0]) and split_of(doms[1], piece, 'bv.shape[1]')
        inner = squeezed(e)
        ok = ok and inner is not None and inner.op == 'elem' and inner.args[0] is doms[1]
      else:
        ok = len(doms) == 1 and outer_ok(doms[0])
        inner = squeezed(e)
        ok = ok and inner is not None and piece(inner)
    if b2_many:
      ctx.ob('C13.P3', fu.short, 'unbatch re-emits row-major (outer pieces, then inner pieces)', ok,
             f'unbatch must split axis 0 into shape[0] pieces and each piece (axis 0 again) into shape[1] pieces, appending in that nested order; got `{show(r, maxdepth=6)[:240]}`',
             ctx.loc(fu), sample='for outer in split(b1): for inner in split(b2): append')
    else:
      ctx.ob('C13.P3', fu.short, 'b2 == 1: one result per outer piece', ok, f'with one statistic per device each outer piece is one result; got `{show(r, maxdepth=6)[:240]}`', ctx.loc(fu),
             sample='append(squeeze(outer piece))')


def _nest(r):
  """(element term, [iterables, outermost first]) of a list built by nested loops / comprehensions; (None, []) otherwise.
  Iterating over a mapped list `[g(x) for x in X]` is iterating over X (the element term already refers to X's element)."""
  if r.op == 'star':
    st = r
  elif r.op == 'list' and len(r.args) == 1 and r.args[0].op == 'star':
    st = r.args[0]
  else:
    return None, []
  e, dom = st.args
  doms = []

  def base(it):
    while it.op == 'list' and len(it.args) == 1 and it.args[0].op == 'star' and it.args[0].args[1].op == 'compdom':
      it = it.args[0].args[1].args[0]
    return it
  while dom is not None:
    if dom.op == 'compdom':
      doms.append(base(dom.args[0]))
      dom = None
    elif dom.op == 'loopdom':
      doms.append(base(dom.args[1]))
      dom = dom.args[3] if len(dom.args) > 3 else None
      if dom is not None and dom.op not in ('loopdom', 'compdom'):
        dom = None
    else:
      return None, []
  if e.op == 'star' or (e.op == 'list' and len(e.args) == 1 and e.args[0].op == 'star'):
    e2, d2 = _nest(e)
    if e2 is None:
      return None, []
    return e2, doms + d2
  return e, doms


def pad_dtypes(ctx):
  """P2d: every identity used to pad the per-statistic lists to a multiple of the device count is created with an explicit
  dtype (that of the real entries): the pads are stacked with the real statistics / roots, and an identity of the DEFAULT
  float type promotes the whole stack - real rows included - exactly when N is not a multiple of D (under
  jax_enable_x64 the state and the updates become float64 for some device counts only)."""
  m = ctx.model
  n = 0
  sites = [(q, fixed) for q, fixed, _, _ in D.MODES] + [('sharded_init_fn', {})]
  for q, fixed in sites:
    v = {'scheduled': False, 'steps1': False, 'reuse': True, 'metrics': True}
    fi, ev, r = D.eval_mode(m, q, fixed, v, extra_opaque={'_skip_preconditioning', 'preconditioner_from_params', 'init_training_metrics', 'init_avg_grad'})
    ctx.analysed(fi)
    ctx.evaluations += 1
    vals = list(dict.fromkeys(x for v_ in ev.last_scope.vars.values() for x in walk(v_)))
    pads = []
    for x in vals:
      if x.op in ('list', 'tuple'):
        for e in x.args:
          if e.op == 'star' and _is_pad(e):
            pads += [y for y in walk(e.args[0]) if is_ext_call(y, 'jax.numpy.eye')]
    for y in dict.fromkeys(pads):
      n += 1
      kw = dict(y.args[2])
      ctx.ob('C13.P2', fi.short, f'identity pad carries an explicit dtype [{q},axis={fixed.get("batch_axis_name")}]', 'dtype' in kw and not is_const(kw['dtype'], None),
             f'`{show(y, maxdepth=3)[:120]}` pads a list that is stacked with the real entries but has the default float type: with jax_enable_x64 the '
             f'stack is promoted whenever pads are present (N % D != 0)', ctx.loc(fi), sample='jnp.eye(max_size, dtype=<dtype of the real entries>)')
  ctx.need('C13.P2', n, 4, 'identity pads')


def vmapped_roots(ctx):
  """P7: the two per-device helpers (`_matrix_inverse_pth_root_vmap`, `_quantized_matrix_inverse_pth_root_vmap`) run
  the root routine under jax.vmap with EVERY per-statistic operand mapped along axis 0 and handed over whole: the
  operand is the helper's own parameter (not an element or a slice of it), and no `in_axes` entry is None.  (An
  exponent or padding start taken from the first statistic of the batch is right exactly when a device holds one
  statistic or all of its statistics agree - so the result depends on how many devices the statistics are dealt to.)
  The helper returns that batched result for every batch; the only shortcut accepted is the all-padding one keyed on
  the FIRST padding start (pads are appended after the real statistics: the first entry is padding iff all are)."""
  m = ctx.model
  n_sites = 0
  for q in ('_matrix_inverse_pth_root_vmap', '_quantized_matrix_inverse_pth_root_vmap'):
    fi = m.func(MOD, F + '.' + q)
    ctx.analysed(fi)
    ev = evaluator(m, opaque={'small_mi_pth_root', 'new_mi_pth_root', 'from_float_value', 'to_float'})
    r = ev.run(fi)
    ctx.evaluations += 1
    params = {sym('param', fi.short, a.arg): a.arg for a in fi.node.args.args}
    log = [v for v in ev.vmap_log if v[3].endswith(q)]
    if len(log) != 1:
      raise AnalysisError(f'{q}: expected exactly one call under jax.vmap, found {len(log)}')
    wrapper, vargs, res, _, vkw = log[0]
    n_sites += 1
    kw = dict(wrapper.args[1])
    ia = kw.get('in_axes')
    if ia is None or is_const(ia, 0):
      bad_axes = []
    elif ia.op in ('tuple', 'list'):
      bad_axes = [i for i, a in enumerate(ia.args) if not is_const(a, 0)]
    else:
      bad_axes = ['?']
    ctx.ob('C13.P7', fi.short, 'every operand of the vmapped root routine is mapped along axis 0', not bad_axes,
           f'in_axes of the jax.vmap around the root routine must map every operand along axis 0 (each statistic has its own exponent, padding start and previous root); '
           f'positions {bad_axes} are not 0 in `{show(ia or NONE, maxdepth=3)}`', ctx.loc(fi), sample='jax.vmap(f)(xs, ps, ...) [in_axes default 0]')
    oa = kw.get('out_axes')
    ctx.ob('C13.P7', fi.short, 'results are stacked along axis 0', oa is None or is_const(oa, 0),
           f'out_axes of the jax.vmap around the root routine must be 0 (unbatch splits axis 0); got `{show(oa or NONE, maxdepth=3)}`', ctx.loc(fi), sample='out_axes default 0')
    operands = [(f'#{i}', a) for i, a in enumerate(vargs)] + [(k, a) for k, a in vkw]
    seen = set()
    for nm, a in operands:
      whole = a in params or is_const(a, None)
      if a in params:
        seen.add(params[a])
      ctx.ob('C13.P7', fi.short, f'operand {nm} is a whole parameter of the helper', whole,
             f'operand {nm} of the vmapped root routine must be one of the helper\'s per-statistic arrays handed over whole; got `{show(a, maxdepth=4)[:120]}` '
             f'(an element or slice of it gives every statistic of the batch the same value)', ctx.loc(fi), sample='xs, ps, padding_starts, prev')
    missing = [p_ for p_ in params.values() if p_ not in seen]
    ctx.ob('C13.P7', fi.short, 'every parameter of the helper reaches the root routine', not missing,
           f'parameters {missing} of {q} are not handed to the vmapped root routine', ctx.loc(fi), sample='all of xs, ps, padding_starts, prev')
    # the value returned
    leaves = _ite_leaves_c(r, stop=res)
    ok = True
    why = ''
    for conds, leaf in leaves:
      if leaf is res:
        continue
      ps_ok = False
      if len(conds) >= 1:
        c, pol = conds[-1]
        PS = [t for t, nm_ in params.items() if nm_ == 'padding_starts']
        if pol and c.op == 'cmp' and c.args[0] == '==' and is_const(c.args[2], 0) and c.args[1].op == 'sub' and PS and c.args[1].args[0] is PS[0] and is_const(c.args[1].args[1], 0):
          ps_ok = any(is_ext_call(y, 'jax.numpy.zeros') or is_ext_call(y, 'jax.numpy.zeros_like') for y in walk(leaf))
      if not ps_ok:
        ok = False
        why = f'returns `{show(leaf, maxdepth=3)[:100]}` under `{show(conds[-1][0], maxdepth=4)[:100] if conds else "always"}`'
    ctx.ob('C13.P7', fi.short, 'the helper returns the batched roots for every batch', ok,
           f'{q} must return the vmapped root computation itself (a shortcut that answers for the whole batch from one entry other than the first padding start '
           f'drops the real statistics that share a device with padding); {why}', ctx.loc(fi), sample='return jax.vmap(...)(...)')
  ctx.need('C13.P7', n_sites, 2, 'vmapped root helpers')


def _ite_leaves_c(t, conds=(), stop=None):
  if t.op in ('ite', 'cond') and t is not stop:
    return _ite_leaves_c(t.args[1], conds + ((t.args[0], True),), stop) + _ite_leaves_c(t.args[2], conds + ((t.args[0], False),), stop)
  return [(conds, t)]


def _ite_leaves(t):
  if t.op == 'ite':
    return _ite_leaves(t.args[1]) + _ite_leaves(t.args[2])
  return [t]


def axis_names(ctx):
  m = ctx.model
  for q, metrics_on in itertools.product(('_pmap_compute_preconditioners', '_pmap_quantized_compute_preconditioners'), (True, False)):
    fi = m.func(MOD, F + '.' + q)
    v = dict(scheduled=False, steps1=False, reuse=True, metrics=metrics_on)
    d = D.make_decider(v, {'batch_axis_name': True})
    ev = evaluator(m, opaque=D.OPAQUE, decide=d, summaries={'efficient_cond': econd_summary})
    r = ev.run(fi)
    names = set()
    for x in walk(r):
      if is_ext_call(x, 'jax.lax.axis_index') and x.args[1]:
        names.add(x.args[1][0])
      if is_ext_call(x, 'jax.lax.all_gather') and len(x.args[1]) > 1:
        names.add(x.args[1][1])
      if is_ext_call(x, 'jax.lax.psum') and len(x.args[1]) > 1:
        names.add(x.args[1][1])
    ok = len(names) == 1 and all(n.op == 'sym' and n.args[-1] == 'batch_axis_name' for n in names)
    ctx.ob('C13.P4', fi.short, 'one collective axis', ok, f'axis_index / all_gather / psum must all name batch_axis_name; found {[show(n) for n in names]}', ctx.loc(fi),
           sample='batch_axis_name everywhere')
    # every batched operand of the root call is indexed by the same replica variable
    rc = [c for c in ev.calls if c.callee.split('.')[-1] in D.ROOT_CALLS and c.caller.startswith(fi.fq)]
    ctx.need('C13.P4', len(rc), 1, f'root call in {q}')
    for c in rc:
      idxs = set()
      bad = False
      for k, a in c.args.items():
        for arm in _ite_leaves(strip_casts(a)):
          arm = strip_casts(arm)
          if is_const(arm, None) or (arm.op == 'sub' and is_const(arm.args[0], None)):
            continue
          if arm.op == 'sub':
            idxs.add(arm.args[1])
            if fn_name(arm.args[0]) != 'batch':
              bad = True
          else:
            bad = True
      ok = not bad and len(idxs) == 1 and all(is_ext_call(i, 'jax.lax.axis_index') for i in idxs)
      ctx.ob('C13.P4', fi.short, 'every batched operand indexed by the same replica', ok,
             f'statistics, exponents, paddings and previous preconditioners must all be indexed by lax.axis_index(batch_axis_name); indices {[show(i, maxdepth=2) for i in idxs]}',
             ctx.loc(fi), sample='all_x[current_replica] for every operand')
    # results are all_gather-ed then unbatched
    cons = D.constructor_calls(ev, 'ParameterStats', '.' + q)
    okg = False
    for c in cons:
      for x in walk(c.args['preconditioners']):
        if fn_name(x) == 'unbatch' and x.args[1] and is_ext_call(x.args[1][0], 'jax.lax.all_gather'):
          okg = True
    ctx.ob('C13.P4', fi.short, 'roots all_gather-ed and unbatched', okg, 'per-device roots must be all_gather-ed over the axis and unbatched back to a flat list', ctx.loc(fi),
           sample='unbatch(all_gather(roots, axis))')
    # everything that is dealt back per statistic - roots AND the errors that gate them - comes from an all_gather: a
    # value that is only broadcast locally makes each replica judge all roots by the errors of its own slice
    def _gathered(t):
      while t.op in ('attr', 'sub', 'leaf', 'elem') or (t.op == 'tmap' and False):
        t = t.args[0]
      return is_ext_call(t, 'jax.lax.all_gather')
    bad = []
    n_unb = 0
    for c in cons:
      for fld in ('preconditioners', 'training_metrics'):
        for x in walk(c.args.get(fld, NONE)):
          if fn_name(x) == 'unbatch' and x.args[1]:
            n_unb += 1
            if not _gathered(x.args[1][0]):
              bad.append(show(x.args[1][0], maxdepth=3)[:80])
    ctx.ob('C13.P4', fi.short, f'every unbatched value was all_gather-ed [metrics={metrics_on}]', n_unb > 0 and not bad,
           f'values dealt back to the statistics without an all_gather over the replica axis: {list(dict.fromkeys(bad))[:3]}', ctx.loc(fi),
           sample='unbatch(all_gather(x, axis)) for roots and errors')
  # single device
  fi = m.func(MOD, F + '._pmap_compute_preconditioners')
  v = dict(scheduled=False, steps1=False, reuse=True, metrics=True)
  ev = evaluator(m, opaque=D.OPAQUE, decide=D.make_decider(v, {'batch_axis_name': False}), summaries={'efficient_cond': econd_summary})
  ev.run(fi)
  rc = [c for c in ev.calls if c.callee.split('.')[-1] in D.ROOT_CALLS and c.caller.startswith(fi.fq)]
  ok = bool(rc)
  for c in rc:
    for k, a in c.args.items():
      a = strip_casts(a)
      if is_const(a, None):
        continue
      arms = []

      def leaves_(t):
        if t.op == 'ite':
          leaves_(t.args[1])
          leaves_(t.args[2])
        else:
          arms.append(t)
      leaves_(a)
      for arm in arms:
        if is_const(arm, None) or (arm.op == 'sub' and is_const(arm.args[0], None)):
          continue
        ok = ok and arm.op == 'sub' and is_const(arm.args[1], 0)
  ctx.ob('C13.P4', fi.short, 'one device: replica 0', ok, 'without a pmap axis every batched operand must be indexed with 0', ctx.loc(fi), sample='all_x[0]')
