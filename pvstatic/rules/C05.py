"""C05 - grafting transplants only the norm; warm-up / skipped parameters take the graft step.

Decided statically:
  R1  norm identity (Distributed Shampoo): with weight decay off, the value X accumulated into the
      Shampoo momentum is `s * P` with P the preconditioned gradient and s a scalar such that
      s * ||P|| == ||graft step|| once the divide-by-zero epsilon is dropped, where the graft step
      is the value accumulated into the graft momentum of the same step - for every graft type,
      lr coupling and the skipped-parameter arm (direction = graft step itself).  Derived from the
      value graph by algebra (sympy), not matched against a particular spelling.
  R1t same identity for Tearfree `maybe_graft`: true arm = base * ||graft||/||base|| (0 when
      ||base|| == 0);
  R3  arms: masked / skipped parameters and steps before the start step return the graft step
      itself (Tearfree: `_masked(base)` arm and the false arm of the switch; DS: C04.K5 + skip arm);
  R2  Tearfree dispatch: every GraftingType member maps to its own norm optimiser
      (NONE: direction unchanged; SGD: identity; RMSPROP: g * rsqrt(acc' + eps) with
      acc' = (1-b) g^2 + b acc, or g^2 + acc when b == 1; ADAFACTOR: optax.adafactor with the
      options' hyper-parameters and the sign flip); direction sees masked inputs, the norm
      optimiser the unmasked ones; maybe_graft receives (graft update, direction update) in order;
      the mask rule is rank <= 1 (if enabled) or any dim > limit.
Not decided: closeness for eps != 0 (numerical); that P is the right preconditioned gradient (C02/C10).
"""
from __future__ import annotations

import sympy as sp

from ..lib import (evaluator, Decider, enum_member, rec_fields, show, walk, strip_casts, is_ext_call,
                   fn_name, method_name, path_str, dep_names, select_arms, ext_name)
from ..spec import spec_term, Comparer
from ..symb import Symb, equal
from ..terms import T, sym, const, is_const, cval, NONE
from ..model import AnalysisError
from . import C02 as R2

MOD = 'distributed_shampoo'
F = 'distributed_shampoo'

ASSUMPTIONS = [
    'norm homogeneity ||s x|| = |s| ||x|| for scalar s; scalars here are ratios of norms, hence >= 0',
    'the Euclidean norm is jnp.linalg.norm without ord/axis (Frobenius over the whole parameter)',
]


def run(ctx):
  ds_norm_identity(ctx)
  ds_excluded_parameters(ctx)
  # sharded mode: the grafting accumulator (diagonal statistics) and both momenta are written back after every update
  from . import C07
  C07.sharded_record_conversion(ctx)
  graft_accumulator_precision(ctx)
  # "from the start-preconditioning step on": the step compared against start_preconditioning_step is the incoming
  # state's count in all three modes (a post-increment count switches from the graft step one update early)
  from . import C04
  C04.ds_step_threading(ctx)
  # "the grafting optimizer's step itself": the closed form of every graft step (SGD / AdaGrad / RMSProp / normalised / SQRT_N
  # sign step) inside the documented pipeline
  from . import C02
  C02.transform_grad(ctx)
  tearfree_maybe_graft(ctx)
  tearfree_dispatch(ctx)
  tearfree_norm_optimisers(ctx)
  tearfree_mask(ctx)


def ds_excluded_parameters(ctx):
  """R3 (Distributed Shampoo): which parameters are excluded from preconditioning (and therefore always take the
  grafting optimizer's step) is exactly the documented set: rank below skip_preconditioning_rank_lt, or any dimension
  greater than skip_preconditioning_dim_size_gt."""
  from ..spec import spec_term, Comparer
  m = ctx.model
  fi = m.func(MOD, F + '._skip_preconditioning')
  ctx.analysed(fi)
  ev = evaluator(m)
  r = ev.run(fi)
  names = [a.arg for a in fi.node.args.args]
  if len(names) != 1:
    raise AnalysisError('_skip_preconditioning is expected to take the parameter alone')
  env = {'param': sym('param', fi.short, names[0]), 'rank_lt': sym('cfg', F, 'skip_preconditioning_rank_lt'),
         'dim_gt': sym('cfg', F, 'skip_preconditioning_dim_size_gt')}
  exp = spec_term(ev, 'len(param.shape) < rank_lt or any([s > dim_gt for s in param.shape])', env)
  cmpr = Comparer()
  ctx.ob('C05.R3', fi.short, 'excluded parameters: rank < rank_lt or any dim > dim_size_gt', cmpr.same(r, exp),
         f'a parameter is excluded from preconditioning iff its rank is below skip_preconditioning_rank_lt or some dimension exceeds '
         f'skip_preconditioning_dim_size_gt; got `{cmpr.fmt(r)[:240]}`', ctx.loc(fi), sample='len(shape) < rank_lt or any(s > dim_gt)')


def graft_accumulator_precision(ctx):
  """R4: the grafting optimizer's second-moment accumulator (diagonal statistics) is stored unquantised (float32) in every
  mode: the grafting step must be the AdaGrad / RMSProp step itself, and a bfloat16 running sum stalls (adding g^2 to a sum
  2^8 times larger is lost), so the transplanted norm drifts away from the grafting optimizer's."""
  m = ctx.model
  fq = m.func(MOD, F + '._quantize_diagonal_statistics')
  ctx.analysed(fq)
  ev = evaluator(m, opaque={'from_float_value'})
  ev.run(fq)
  calls = [c for c in ev.calls if c.callee.endswith('.from_float_value')]
  ctx.need('C05.R4', len(calls), 1, 'from_float_value call in _quantize_diagonal_statistics')
  for c in calls:
    dt = c.args.get('quantized_dtype', NONE)
    ok = dt.op == 'ext' and dt.args[0] == 'jax.numpy.float32' and c.args.get('fvalue') is sym('param', fq.short, 'diagonal_statistics')
    ctx.ob('C05.R4', fq.short, 'graft accumulator stored as float32', ok,
           f'the grafting second-moment accumulator must be kept in float32 whatever the memory mode; it is stored as `{show(dt, maxdepth=3)}`', ctx.loc(fq),
           sample='from_float_value(diagonal_statistics, jnp.float32)')


def _norm_atoms(e):
  return [a for a in e.atoms(sp.Function) if str(a.func) == 'norm']


def ds_norm_identity(ctx):
  m = ctx.model
  fi = m.func(MOD, F + '._transform_grad')
  ctx.analysed(fi)
  ev0 = evaluator(m)
  n = 0
  for g in R2.GRAFTS:
    if g == 'NONE':
      continue
    for skip in (False, True):
      for dec_lr in (True, False):
        v = dict(skip=skip, dec_lr=dec_lr, callable_lr=False, wd=False, dec_wd=False, mavg=False, nesterov=False, clip=True)
        gterm = enum_member(ev0, m, MOD, 'GraftingType', g)
        ev = evaluator(m, factory_cfg={'graft_type': gterm}, decide=R2.make_decider(v), opaque=R2.OPAQUE)
        r = ev.run(fi)
        ctx.evaluations += 1
        st = rec_fields(r.args[1])
        if st is None:
          raise AnalysisError('_transform_grad does not return a ParameterStats record')
        sb = Symb(transparent_calls=R2.TRANSPARENT)
        M = sb.conv(st['momentum'])
        Mg = sb.conv(st['diagonal_momentum'])
        b1 = sp.Symbol('distributed_shampoo.beta1', real=True)
        mom_old = sp.Symbol('distributed_shampoo._transform_grad.state.momentum', real=True)
        dmom_old = sp.Symbol('distributed_shampoo._transform_grad.state.diagonal_momentum', real=True)
        X = sp.expand(M - b1 * mom_old)
        Gs = sp.expand(Mg - b1 * dmom_old)
        vdesc = f'{g},skip={int(skip)},dec_lr={int(dec_lr)}'
        ok_free = not X.has(mom_old) and not Gs.has(dmom_old) and not X.has(dmom_old)
        ctx.ob('C05.R1', fi.short, f'accumulands [{vdesc}]', ok_free,
               'Shampoo/graft momenta must be beta1 * old + (their own pre-momentum update)', ctx.loc(fi),
               sample='momentum\' - beta1*momentum is the pre-momentum update')
        # direction P
        if skip:
          P = Gs
        else:
          cands = [a for a in X.atoms(sp.Function) if str(a.func) == 'm_preconditioned_grad']
          if len(cands) != 1:
            ctx.ob('C05.R1', fi.short, f'direction [{vdesc}]', False,
                   f'the pre-momentum update does not contain exactly one preconditioned gradient (found {len(cands)})', ctx.loc(fi))
            continue
          P = cands[0]
        Xe = _drop_tiny(X)
        Ge = _drop_tiny(Gs)
        n += 1
        if skip:
          # the direction is the graft step itself: X must reduce to it once eps -> 0
          ok = sp.cancel(sp.together(Xe - Ge)) == 0
          ctx.ob('C05.R1', fi.short, f'skipped parameter takes the graft step [{vdesc}]', ok,
                 f'for a parameter excluded from preconditioning the pre-momentum update must be the graft step; got `{str(Xe)[:200]}`',
                 ctx.loc(fi), sample='skip: X == graft step (eps -> 0)')
          continue
        nP = sp.Function('norm')(P)
        NP, pp = sp.Symbol('NP_', positive=True), sp.Symbol('P_', real=True)
        Xs = Xe.subs(nP, NP).subs(P, pp)
        s = sp.cancel(sp.together(Xs / pp))
        scalar_ok = not s.has(pp)
        ctx.ob('C05.R1', fi.short, f'direction [{vdesc}]', scalar_ok,
               f'pre-momentum update is not a scalar multiple of the preconditioned gradient: X/P = `{str(s)[:200]}`',
               ctx.loc(fi), sample='X = s * P with s scalar')
        nG = sp.Function('norm')(Ge)
        ok = scalar_ok and sp.cancel(sp.together(s * NP - nG)) == 0
        ctx.ob('C05.R1', fi.short, f'norm identity [{vdesc}]', ok,
               f'||pre-momentum update|| = `{str(s * NP)[:160]}` is not the graft step norm `{str(nG)[:160]}`',
               ctx.loc(fi), sample='s * ||P|| == ||graft step|| (eps -> 0)')
  ctx.need('C05.R1', n, 20, 'norm-identity obligations')


def _drop_tiny(e):
  """Replace numeric constants below 1e-20 (divide-by-zero guards) by 0."""
  reps = {}
  for a in e.atoms(sp.Number):
    if a != 0 and abs(float(a)) < 1e-20:
      reps[a] = 0
  return e.subs(reps)


def _norm_simplify(e):
  """Apply ||c x|| = c ||x|| for positive scalar factors c that are themselves free of tensors
  (numbers, lr, norms)."""
  nf = sp.Function('norm')

  def rule(expr):
    if not expr.args:
      return expr
    args = [rule(a) for a in expr.args]
    expr = expr.func(*args)
    if str(expr.func) == 'norm' and len(expr.args) == 1:
      inner = sp.factor_terms(expr.args[0])
      coeff, rest = inner.as_independent(*[s_ for s_ in inner.free_symbols if _tensor_symbol(s_)] +
                                         [f for f in inner.atoms(sp.Function) if _tensor_func(f)], as_Add=False)
      if coeff != 1 and rest != 1:
        return coeff * nf(rest)
    return expr
  try:
    return sp.simplify(rule(sp.simplify(e)))
  except Exception:
    return e


def _tensor_symbol(s_):
  n = str(s_)
  return n.endswith('.grad') or n.endswith('.param') or 'state.' in n or n in ('g', 'base', 'graft_upd')


def _tensor_func(f):
  return str(f.func) in ('m_preconditioned_grad', 'ones_like', 'sign', 'sqrt') or (str(f.func) not in ('norm',) and any(_tensor_symbol(s_) for s_ in f.free_symbols) and str(f.func) not in ('norm', 'asum', 'amax', 'py_float'))


# ------------------------------------------------------------------ Tearfree
GRAFT_FN = '_graft_with.update_fn.maybe_graft'      # label only (kept for stable finding keys); the function is found by role


def graft_leaf(m, masked):
  """The per-leaf grafting rule of Tearfree, wherever it is written: `_graft_with.update_fn` is evaluated as a whole
  and the element function of the tree map that produces the returned updates is returned, expressed over
    graft_upd  - a leaf of the norm optimiser's update  (norm.update(...)[0])
    base       - a leaf of the direction's update       (direction.update(...)[0])
  as the symbols param:<GRAFT_FN>:graft_upd / :base.  `masked` decides `_masked(base)`.
  -> (update_fn FuncInfo, evaluator, element term, whole result)"""
  from ..terms import subst
  fu = m.func('tearfree.grafting', '_graft_with.update_fn')
  ev = evaluator(m, decide=Decider(calls={('_masked',): masked}), opaque={'_masked', '_mask_skipped'})
  r = ev.run(fu)
  if r.op != 'tuple' or len(r.args) != 2:
    raise AnalysisError('_graft_with.update_fn does not return (updates, state)')
  sc = ev.closure_env(fu)
  direction, norm = ev.lookup('direction', sc), ev.lookup('norm', sc)
  if r.args[0].op != 'tmap':
    # an identity map returns the tree itself: the element is that tree's leaf
    t0 = r.args[0]
    is_norm = any(x.op == 'call' and x.args[0].op == 'attr' and x.args[0].args[1] == 'update' and x.args[0].args[0] is norm for x in walk(t0))
    is_dir = any(x.op == 'call' and x.args[0].op == 'attr' and x.args[0].args[1] == 'update' and x.args[0].args[0] is direction for x in walk(t0))
    if is_norm != is_dir:
      return fu, ev, sym('param', GRAFT_FN, 'graft_upd' if is_norm else 'base'), r
    raise AnalysisError('_graft_with.update_fn does not return tree-mapped updates')

  def from_(obj, tree):
    return any(x.op == 'call' and x.args[0].op == 'attr' and x.args[0].args[1] == 'update' and x.args[0].args[0] is obj for x in walk(tree))
  trees = list(r.args[0].args[1])
  gts = [t for t in trees if from_(norm, t) and not from_(direction, t)]
  bts = [t for t in trees if from_(direction, t) and not from_(norm, t)]
  if len(gts) != 1 or len(bts) != 1:
    raise AnalysisError('_graft_with.update_fn: the updates are not a tree map over (norm update, direction update)')
  mapping = {T('leaf', gts[0]): sym('param', GRAFT_FN, 'graft_upd'), T('leaf', bts[0]): sym('param', GRAFT_FN, 'base')}
  elt = subst(r.args[0].args[0], mapping)
  return fu, ev, elt, r


def tearfree_maybe_graft(ctx):
  m = ctx.model
  class _Lbl:          # findings keep the historical function label
    short = GRAFT_FN
  fi = _Lbl
  fu_, _, r, _ = graft_leaf(m, masked=True)
  ctx.analysed(fu_)
  _loc = ctx.loc(fu_)
  ctx.ob('C05.R3', fi.short, 'masked parameter takes the graft step', r.op == 'sym' and r.args[-1] == 'graft_upd',
         f'for a masked (skipped) parameter maybe_graft must return the graft update itself; got `{show(r, maxdepth=3)[:100]}`',
         _loc, sample='if _masked(base): return graft_upd')
  _, ev, r, _ = graft_leaf(m, masked=False)
  sa = select_arms(r)
  if sa is None:
    ctx.ob('C05.R1', fi.short, 'select', False, 'maybe_graft must select between grafted direction and graft update', _loc)
    return
  _, pred, t_arm, f_arm = sa
  ctx.ob('C05.R3', fi.short, 'warm-up arm is the graft step', f_arm.op == 'sym' and f_arm.args[-1] == 'graft_upd',
         f'before the start step the graft update itself must be returned; got `{show(f_arm, maxdepth=3)[:100]}`', _loc,
         sample='false arm = graft_upd')
  sb = Symb()
  X = sb.conv(t_arm)
  base = sp.Symbol('_graft_with.update_fn.maybe_graft.base', real=True)
  gu = sp.Symbol('_graft_with.update_fn.maybe_graft.graft_upd', real=True)
  s = sp.simplify(X / base)
  wh = [a for a in s.atoms(sp.Function) if str(a.func) == 'where']
  ok_zero = False
  ident_ok = False
  if len(wh) == 1 and s == wh[0]:
    c, a, b = wh[0].args
    nb = sp.Function('norm')(base)
    # canonical form of `where(||base|| > 0, ratio, 0)`: where(0 >= ||base||, 0, ratio)  [symb: le(||base||, 0)]
    ok_guard = str(c.func) == 'le' and c.args[1] == 0 and c.args[0] == nb
    ok_zero = ok_guard and a == 0
    ident_ok = equal(sp.simplify(b * nb), sp.Function('norm')(gu))
  else:
    ident_ok = equal(_norm_simplify(s * sp.Function('norm')(base)), sp.Function('norm')(gu)) and not s.has(base.func) if False else \
        equal(sp.simplify(s * sp.Function('norm')(base)), sp.Function('norm')(gu))
    ok_zero = False
  ctx.ob('C05.R1', fi.short, 'norm identity (tearfree)', ident_ok,
         f'grafted update must be base * ||graft_upd|| / ||base||; multiplier is `{str(s)[:200]}`', _loc,
         sample='base * ||graft_upd|| / ||base||')
  ctx.ob('C05.R1', fi.short, 'zero direction gives zero update', ok_zero,
         f'when ||base|| == 0 the multiplier must be 0 (guarded by ||base|| > 0); multiplier is `{str(s)[:200]}`', _loc,
         sample='where(||base|| > 0, ratio, 0)')


def tearfree_dispatch(ctx):
  m = ctx.model
  fi = m.func('tearfree.grafting', 'graft')
  ctx.analysed(fi)
  ev0 = evaluator(m)
  want = {'NONE': None, 'SGD': '_sgd', 'RMSPROP': '_rmsprop', 'ADAFACTOR': '_adafactor'}
  ci = m.cls('tearfree.grafting', 'GraftingType')
  members = [f for f, _, _ in ci.fields]
  ctx.ob('C05.R2', fi.short, 'GraftingType members covered', set(members) == set(want),
         f'dispatch table in the checker covers {sorted(want)}, enum has {sorted(members)}', ctx.loc(fi),
         sample=f'members {sorted(members)}')
  for mem in members:
    gt = enum_member(ev0, m, 'tearfree.grafting', 'GraftingType', mem)
    opts = T('rec', m.cls('tearfree.grafting', 'Options').fq, (('grafting_type', gt),))
    ev = evaluator(m, opaque={'_validate', '_graft_with', '_sgd', '_rmsprop', '_adafactor'})
    direction = sym('param', 'graft', 'direction')
    r = ev.run(fi, args={'options': opts, 'direction': direction})
    if want.get(mem) is None:
      ctx.ob('C05.R2', fi.short, f'{mem}: direction unchanged', r is direction,
             f'graft type {mem} must return the direction transform unchanged; got `{show(r, maxdepth=3)[:100]}`', ctx.loc(fi),
             sample='NONE -> direction')
      continue
    calls = [c for c in ev.calls if c.callee.endswith('._graft_with')]
    ok = len(calls) == 1 and fn_name(calls[0].args.get('norm', NONE)) == want[mem] and calls[0].args.get('direction') is direction \
        and r is calls[0].result
    ctx.ob('C05.R2', fi.short, f'{mem}: norm optimiser', ok,
           f'graft type {mem} must graft the direction with {want[mem]}()', ctx.loc(fi), sample=f'{mem} -> _graft_with(direction, {want[mem]}(...))')
  # update_fn plumbing
  fu = m.func('tearfree.grafting', '_graft_with.update_fn')
  ctx.analysed(fu)
  fu, ev, _elt, r = graft_leaf(m, masked=False)      # raises if the updates are not a tree map over (norm update, direction update)
  cmpr = Comparer()
  sc = ev.closure_env(fu)
  direction = ev.lookup('direction', sc)
  norm = ev.lookup('norm', sc)
  P = lambda nm: sym('param', fu.short, nm)
  ctx.ob('C05.R2', fu.short, 'maybe_graft(graft update, direction update)', True,
         'the returned updates must be a tree map over the norm optimiser\'s update and the direction update', ctx.loc(fu),
         sample='tree.map(maybe_graft, graft_updates, base_updates)')
  # direction sees masked inputs, norm sees raw ones
  dcalls = [x for x in walk(r) if x.op == 'call' and x.args[0].op == 'attr' and x.args[0].args[1] == 'update' and x.args[0].args[0] is direction]
  ncalls = [x for x in walk(r) if x.op == 'call' and x.args[0].op == 'attr' and x.args[0].args[1] == 'update' and x.args[0].args[0] is norm]
  okd = bool(dcalls) and all(fn_name(x.args[1][0]) == '_mask_skipped' and fn_name(x.args[1][2]) == '_mask_skipped' and
                             path_str(x.args[1][1]) == 'state.direction' for x in dcalls)
  okn = bool(ncalls) and all(x.args[1][0] is P('updates') and path_str(x.args[1][1]) == 'state.norm' for x in ncalls)
  ctx.ob('C05.R2', fu.short, 'direction on masked tree, norm on raw tree', okd and okn,
         'direction.update must see mask(updates), state.direction, mask(params); norm.update the raw updates and state.norm', ctx.loc(fu),
         sample='direction.update(mask(updates), state.direction, mask(params)); norm.update(updates, state.norm, params)')


def tearfree_norm_optimisers(ctx):
  m = ctx.model
  fu = m.func('tearfree.grafting', '_rmsprop.update_fn')
  ctx.analysed(fu)
  cmpr = Comparer()
  for one in (True, False):
    # the whole update is evaluated; helpers (however they are named or nested) are inlined
    ev = evaluator(m, decide=Decider(cmps={('options.second_moment_decay', '==', 1.0): one}))
    r = ev.run(fu)
    ok_acc = ok_step = False
    got_acc = got_step = NONE
    if r.op == 'tuple' and len(r.args) == 2:
      upd, st = r.args
      rf = rec_fields(st)
      acc = rf.get('acc') if rf else None
      U = T('leaf', sym('param', fu.short, 'updates'))
      A = T('leaf', ev.attr(sym('param', fu.short, 'state'), 'acc'))
      opts = None
      for x in walk(upd):
        if x.op == 'attr' and x.args[1] == 'epsilon':
          opts = x.args[0]
      env = {'u': U, 'a': A, 'options': opts if opts is not None else sym('spec', 'options')}
      acc_src = 'u * u + a' if one else 'u * u * (1 - options.second_moment_decay) + options.second_moment_decay * a'
      if acc is not None and acc.op == 'tmap':
        got_acc = acc.args[0]
        ok_acc = cmpr.same(got_acc, spec_term(ev, acc_src, env)) and set(acc.args[1]) == {sym('param', fu.short, 'updates'), ev.attr(sym('param', fu.short, 'state'), 'acc')}
      if upd.op == 'tmap':
        got_step = upd.args[0]
        # the accumulator inside the step is the NEW one (a leaf of the freshly mapped tree, i.e. the same expression)
        new_leaf = [x for x in walk(got_step) if x.op == 'leaf' and x.args[0].op == 'tmap']
        g2 = got_step
        if new_leaf and acc is not None and new_leaf[0].args[0] is acc:
          from ..terms import subst
          g2 = subst(got_step, {new_leaf[0]: got_acc})
        ok_step = cmpr.same(g2, spec_term(ev, f'u * jax.lax.rsqrt(({acc_src}) + options.epsilon)', env))
    ctx.ob('C05.R2', fu.short, f'rmsprop accumulator [decay==1: {one}]', ok_acc,
           f'RMSProp accumulator must be `{acc_src}` per leaf of (state.acc, updates); got `{cmpr.fmt(got_acc)[:200]}`', ctx.loc(fu), sample=acc_src)
    ctx.ob('C05.R2', fu.short, f'rmsprop step [decay==1: {one}]', ok_step,
           f'RMSProp graft step must be g * rsqrt(new_accumulator + epsilon); got `{cmpr.fmt(got_step)[:200]}`', ctx.loc(fu), sample='g * rsqrt(acc\' + eps)')
  fs = m.func('tearfree.grafting', '_sgd')
  ctx.analysed(fs)
  ev = evaluator(m)
  r = ev.run(fs)
  rf = rec_fields(r)
  ok = rf is not None and all(any(is_ext_call(x, 'optax.identity') for x in walk(rf[k])) for k in ('init', 'update'))
  ctx.ob('C05.R2', fs.short, 'sgd graft is the identity', ok, 'SGD grafting must be optax.identity()', ctx.loc(fs), sample='optax.identity()')
  fa = m.func('tearfree.grafting', '_adafactor')
  ctx.analysed(fa)
  ev = evaluator(m)
  r = ev.run(fa)
  ada = [x for x in walk(r) if is_ext_call(x, 'optax.adafactor')]
  sc = [x for x in walk(r) if is_ext_call(x, 'optax.scale')]
  ok = len(ada) >= 1 and bool(sc)
  if ok:
    kw = dict(ada[0].args[2])
    want = {'min_dim_size_to_factor': 'options.min_dim_size_to_factor', 'decay_rate': 'options.second_moment_decay',
            'multiply_by_parameter_scale': 'options.multiply_by_parameter_scale', 'eps': 'options.epsilon',
            'clipping_threshold': 'options.clipping_threshold'}
    ok = all(k in kw and path_str(kw[k]) == v for k, v in want.items())
    ok = ok and any(is_const(x.args[1][0], -1) for x in sc if x.args[1])
    ch = [x for x in walk(r) if is_ext_call(x, 'optax.chain')]
    ok = ok and bool(ch)
  ctx.ob('C05.R2', fa.short, 'adafactor graft', ok,
         'AdaFactor grafting must chain optax.adafactor(options\' hyper-parameters) with scale(-1)', ctx.loc(fa),
         sample='chain(adafactor(...), scale(-1))')


def tearfree_mask(ctx):
  m = ctx.model
  fi = m.func('tearfree.grafting', '_mask_skipped._maybe_mask')
  ctx.analysed(fi)
  ev = evaluator(m)
  r = ev.run(fi)
  cmpr = Comparer()
  sc = ev.closure_env(fi)
  opts = ev.lookup('options', sc)
  x = sym('param', fi.short, 'x')
  # ite(rank1 and ndim <= 1, MASK, ite(any(dim > limit), MASK, x))
  ok = False
  why = show(r, maxdepth=5)[:200]
  if r.op == 'ite':
    c1, a1, rest = r.args
    ok1 = a1.op == 'rec' and a1.args[0].endswith('_GraftMask')
    e1 = spec_term(ev, 'options.skip_preconditioning_rank1 and x.ndim <= 1', {'options': opts, 'x': x})
    ok1 = ok1 and cmpr.same(c1, e1)
    ok2 = False
    if rest.op == 'ite':
      c2, a2, b2 = rest.args
      ok2 = a2.op == 'rec' and a2.args[0].endswith('_GraftMask') and b2 is x
      gt = [y for y in walk(c2) if y.op == 'cmp' and y.args[0] == '>' and path_str(y.args[2]) == 'options.skip_preconditioning_any_dim_gt']
      anys = [y for y in walk(c2) if y.op == 'call' and y.args[0].op == 'builtin' and y.args[0].args[0] == 'any']
      ok2 = ok2 and bool(gt) and bool(anys)
    ok = ok1 and ok2
  ctx.ob('C05.R3', fi.short, 'mask rule', ok,
         f'a parameter is excluded from preconditioning iff (skip_rank1 and ndim <= 1) or any(dim > limit); got `{why}`', ctx.loc(fi),
         sample='(rank1 and ndim <= 1) or any(s > any_dim_gt)')
