"""C15 - the Tearfree optimizer is its documented composition.

Decided statically:
  T1  `tearfree()` returns sharded_chain(graft(second_order), momentum, learning-rate scale) in that order;
      the last transform is scale(-lr) or scale_by_schedule(step -> -lr(step));
      `sharded_chain` threads updates through its members in argument order with the matching states;
  T2  linearity in the learning rate: `learning_rate` reaches nothing but the last transform (no component
      constructor or state depends on it);
  T3  `second_order.apply` chains merge -> precondition -> unmerge built from ONE reshaper options value;
      Shampoo pads to its block size, Sketchy does not pad; init runs the preconditioner on merged params;
  T4  `momentum.apply`: scale(1 - decay) precedes the trace iff `ema`; trace(decay, nesterov); weight decay
      (only when > 0) comes after the momentum transforms iff `weight_decay_after_momentum`;
  T5  Shampoo root: p = 2 * rank, roots are V diag(w^(-1/p)) V^T built from two half factors w^(-0.5/p), with
      eigenvalues <= 1e-6 * (that block's largest) treated as zero; Sketchy applies
      V diag(inv_eigvals) V^T + inv_tail (I - V V^T) along every axis in turn (ekfac: svd slots);
  T6  per-block semantics (= C08.R1/R2), T7 sketch decay (= C09 Tearfree), cadence and warm-up (= C04
      Tearfree), grafting (= C05 Tearfree), merge / pad / blockify losslessness (= C06 Tearfree).
Not decided: numeric equality with an independent reference.
"""
from __future__ import annotations

import itertools

from ..lib import (evaluator, Decider, enum_member, rec_fields, show, walk, strip_casts, is_ext_call, fn_name,
                   method_name, path_str, ext_name, dep_names, select_arms)
from ..spec import spec_term, Comparer
from ..terms import T, sym, const, is_const, cval, NONE
from ..model import AnalysisError

ASSUMPTIONS = ['optax.scale / scale_by_schedule / trace / add_decayed_weights have their documented meaning']


def run(ctx):
  chain(ctx)
  second_order(ctx)
  momentum(ctx)
  shampoo_root(ctx)
  sketchy_apply(ctx)
  from . import C04, C05, C06, C08, C09
  C04.tearfree_shampoo(ctx)
  C04.tearfree_sketchy(ctx)
  C04.tearfree_graft(ctx)
  C05.tearfree_maybe_graft(ctx)
  C05.tearfree_dispatch(ctx)
  C05.tearfree_norm_optimisers(ctx)
  C05.tearfree_mask(ctx)
  C06.blockify_inverse(ctx)
  C06.large_axis_predicate(ctx)
  C06.reshaper(ctx)
  C08.tearfree_axis(ctx)
  C08.einsum_letters(ctx)
  C09.tearfree_sketchy(ctx)


def chain(ctx):
  m = ctx.model
  fi = m.func('tearfree.optimizer', 'tearfree')
  ctx.analysed(fi)
  LR = sym('param', fi.short, 'learning_rate')
  for sched in (False, True):
    ev = evaluator(m, decide=Decider(calls={('callable', 'learning_rate'): sched}),
                   opaque={'sharded_chain', 'graft', 'apply'})
    r = ev.run(fi)
    ch = [c for c in ev.calls if c.callee.endswith('.sharded_chain')]
    ctx.need('C15.T1', len(ch), 1, 'sharded_chain call in tearfree()')
    args = ch[0].args.get('args', NONE)
    ok = args.op == 'tuple' and len(args.args) == 3 and r is ch[0].result
    tag = f'[schedule={sched}]'
    if not ok:
      ctx.ob('C15.T1', fi.short, f'three-stage chain {tag}', False, f'tearfree must return sharded_chain(graft_tx, momentum_tx, lr_tx); got `{show(args, maxdepth=3)[:160]}`', ctx.loc(fi))
      continue
    g_tx, m_tx, l_tx = args.args
    okg = fn_name(g_tx) == 'graft' and g_tx.args[0].args[0].endswith('tearfree.grafting.graft')
    so = g_tx.args[1][1] if okg and len(g_tx.args[1]) > 1 else NONE
    okg = okg and path_str(g_tx.args[1][0]) == 'options.grafting_options' and fn_name(so) == 'apply' and so.args[0].args[0].endswith('second_order.apply') \
        and path_str(so.args[1][0]) == 'options.second_order_options'
    okm = fn_name(m_tx) == 'apply' and m_tx.args[0].args[0].endswith('momentum.apply') and path_str(m_tx.args[1][0]) == 'options.momentum_options'
    ctx.ob('C15.T1', fi.short, f'stage 1 = graft(grafting_options, second_order(second_order_options)) {tag}', okg,
           f'first stage must be grafting.graft(options.grafting_options, second_order.apply(options.second_order_options)); got `{show(g_tx, maxdepth=4)[:200]}`',
           ctx.loc(fi), sample='graft(second_order)')
    ctx.ob('C15.T1', fi.short, f'stage 2 = momentum(momentum_options) {tag}', okm,
           f'second stage must be momentum.apply(options.momentum_options); got `{show(m_tx, maxdepth=4)[:160]}`', ctx.loc(fi), sample='momentum')
    cmpr = Comparer()
    if sched:
      okl = is_ext_call(l_tx, 'optax.scale_by_schedule') and l_tx.args[1] and l_tx.args[1][0].op == 'closure'
      if okl:
        body = ev.call(l_tx.args[1][0], [sym('spec', 'count')], {}, None, None)
        okl = cmpr.same(body, spec_term(ev, '-1.0 * lr(count)', {'lr': LR, 'count': sym('spec', 'count')}))
    else:
      okl = is_ext_call(l_tx, 'optax.scale') and l_tx.args[1] and cmpr.same(l_tx.args[1][0], spec_term(ev, '-1.0 * lr', {'lr': LR}))
    ctx.ob('C15.T1', fi.short, f'stage 3 = scale by -learning_rate {tag}', okl,
           f'last stage must be optax.scale(-lr) / scale_by_schedule(step -> -lr(step)); got `{show(l_tx, maxdepth=4)[:160]}`', ctx.loc(fi), sample='scale(-lr)')
    dep_g = dep_names(g_tx) | dep_names(m_tx)
    ctx.ob('C15.T2', fi.short, f'learning rate reaches only the last stage {tag}', 'learning_rate' not in dep_g,
           'graft / second-order / momentum stages must not depend on learning_rate: the update is exactly linear in it', ctx.loc(fi),
           sample='learning_rate only in lr_tx')
  # sharded_chain semantics
  fc = m.func('tearfree.praxis_shim', 'sharded_chain.update_fn')
  fin = m.func('tearfree.praxis_shim', 'sharded_chain.init_fn')
  ctx.analysed(fc, fin)
  ARGS = sym('cfg', 'sharded_chain', 'args')
  ev = evaluator(m)
  r = ev.run(fc)
  P = lambda nm: sym('param', fc.short, nm)

  def is_member_update(call):
    """elem(args).update(<running updates>, elem(state), params)"""
    if not (call.op == 'call' and method_name(call) == 'update' and len(call.args[1]) == 3):
      return None
    recv = call.args[0].args[0]
    u, st, pr = call.args[1]
    if recv.op == 'elem' and recv.args[0] is ARGS and st.op == 'elem' and st.args[0] is P('state') and pr is P('params'):
      return u
    return None
  ok = r.op == 'tuple' and len(r.args) == 2
  why = ''
  if ok:
    upd, sts = r.args
    ok = upd.op == 'loop' and upd.args[2] is P('updates') and upd.args[3].op == 'sub' and is_const(upd.args[3].args[1], 0)
    why = 'returned updates are not the value threaded through every member'
    if ok:
      running = is_member_update(upd.args[3].args[0])
      ok = running is not None and running.op == 'phi' and running.args[0] == upd.args[0] and running.args[2] is P('updates')
      why = 'each member must receive the updates produced by the previous member, its own state and params'
    if ok:
      lid = upd.args[0]
      ok = sts.op in ('tuple', 'list') and len(sts.args) == 1 and sts.args[0].op == 'star'
      why = 'new chain state must hold exactly one entry per member'
      if ok:
        e, dom = sts.args[0].args
        it = dom.args[1] if dom.op == 'loopdom' else None
        okd = dom.op == 'loopdom' and dom.args[0] == lid and not dom.args[2] and it.op == 'call' and it.args[0].op == 'builtin' and \
            it.args[0].args[0] == 'zip' and set(it.args[1]) == {P('state'), ARGS} and len(it.args[1]) == 2
        src_state = e.args[1][0] if e.op == 'tmap' and e.args[1] else e
        oks = src_state.op == 'sub' and is_const(src_state.args[1], 1) and is_member_update(src_state.args[0]) is not None and \
            src_state.args[0] is upd.args[3].args[0]
        if e.op == 'tmap':
          f = e.args[0]
          oks = oks and f.op == 'ite' and is_ext_call(f.args[1], 'optax.MaskedNode') and f.args[2].op == 'leaf' and f.args[0].op == 'cmp' and \
              f.args[0].args[0] == 'is' and is_const(f.args[0].args[2], None)
        ok = okd and oks
        why = 'member states must be collected in member order (zip(state, args), unconditionally), each from the same update call, with None leaves mapped to MaskedNode'
  ctx.ob('C15.T1', fc.short, 'chain threads updates through members in order', ok,
         f'sharded_chain.update must apply each member to the running updates with its own state, in argument order: {why}; got `{show(r, maxdepth=5)[:200]}`', ctx.loc(fc),
         sample='for s, fn in zip(state, args): updates, new_s = fn.update(updates, s, params)')
  ri = evaluator(m).run(fin)
  oki = ri.op in ('tuple', 'list') and len(ri.args) == 1 and ri.args[0].op == 'star'
  if oki:
    e, dom = ri.args[0].args
    it = dom.args[0] if dom.op == 'compdom' and len(dom.args) == 1 else (dom.args[1] if dom.op == 'loopdom' and not dom.args[2] else None)
    oki = it is ARGS and e.op == 'call' and method_name(e) == 'init' and e.args[0].args[0].op == 'elem' and e.args[0].args[0].args[0] is ARGS and \
        len(e.args[1]) == 1 and e.args[1][0] is sym('param', fin.short, 'params')
  ctx.ob('C15.T1', fin.short, 'chain state = tuple of member states in order', oki,
         f'sharded_chain.init must return tuple(fn.init(params) for fn in args); got `{show(ri, maxdepth=5)[:160]}`', ctx.loc(fin), sample='tuple(fn.init(params) for fn in args)')


def second_order(ctx):
  m = ctx.model
  fi = m.func('tearfree.second_order', 'apply')
  fr = m.func('tearfree.second_order', '_reshaper_options')
  fp = m.func('tearfree.second_order', '_update_stats_and_precondition')
  ctx.analysed(fi, fr, fp)
  ev = evaluator(m, opaque={'sharded_chain', '_reshaper_options', '_update_stats_and_precondition', 'merge', 'unmerge'})
  r = ev.run(fi)
  ch = [c for c in ev.calls if c.callee.endswith('.sharded_chain')]
  ctx.need('C15.T3', len(ch), 1, 'sharded_chain call in second_order.apply')
  a = ch[0].args.get('args', NONE)
  ok = a.op == 'tuple' and len(a.args) == 3
  if ok:
    mg, pre, un = a.args
    ro = [c for c in ev.calls if c.callee.endswith('._reshaper_options')]
    ok = fn_name(mg) == 'merge' and fn_name(un) == 'unmerge' and len(ro) == 1 and mg.args[1][0] is ro[0].result and un.args[1][0] is ro[0].result
    pf = rec_fields(pre)
    ok = ok and pf is not None and any(fn_name(x) == '_update_stats_and_precondition' for x in walk(pf['update'])) and pf['init'].op == 'closure'
  ctx.ob('C15.T3', fi.short, 'merge -> precondition -> unmerge with one reshaper options value', ok,
         f'second_order.apply must be sharded_chain(merge(ro), wrapped(precond), unmerge(ro)) with the SAME ro = _reshaper_options(options); got `{show(a, maxdepth=4)[:240]}`',
         ctx.loc(fi), sample='chain(merge(ro), precond, unmerge(ro))')
  # wrap_init: precond.init(merged params)
  fw = m.func('tearfree.second_order', 'apply.wrap_init')
  ev2 = evaluator(m, opaque={'sharded_chain', '_reshaper_options', '_update_stats_and_precondition', 'merge', 'unmerge'})
  r2 = ev2.run(fw)
  txt = show(r2, maxdepth=8)
  okw = method_name(r2) == 'init' and any(method_name(x) == 'update' and fn_name(x.args[0].args[0]) == 'merge' for x in walk(r2))
  ctx.ob('C15.T3', fw.short, 'state initialised on merged parameters', okw,
         f'the preconditioner state must be initialised from merge_tx.update(params, ...)[0]; got `{txt[:200]}`', ctx.loc(fw), sample='precond.init(merged params)')
  ev0 = evaluator(m)
  for ty, want_block in (('SHAMPOO', 'options.shampoo_options.block_size'), ('SKETCHY', 0)):
    tt = enum_member(ev0, m, 'tearfree.second_order', 'SecondOrderType', ty)
    opts = sym('param', fr.short, 'options')

    def hook(ev_, base, name, tt=tt):
      if name == 'second_order_type' and base is opts:
        return tt
      return None
    ev = evaluator(m, decide=Decider(truth={'options.shampoo_options': True, 'options.sketchy_options': True}))
    ev.attr_hook = hook
    r = rec_fields(ev.run(fr))
    ok = r is not None and path_str(r['merge_dims']) == 'options.merge_dims' and \
        (path_str(r['block_size']) == want_block if isinstance(want_block, str) else is_const(r['block_size'], 0))
    ctx.ob('C15.T3', fr.short, f'reshaper options for {ty}', ok,
           f'{ty}: reshaper.Options(merge_dims, {"shampoo block size" if ty == "SHAMPOO" else "0 (no padding)"}); got `{show(ev.run(fr), maxdepth=4)[:160]}`',
           ctx.loc(fr), sample=f'{ty} -> block_size {want_block}')
    ev = evaluator(m, decide=Decider(truth={'options.shampoo_options': True, 'options.sketchy_options': True}), opaque={'apply'})
    ev.attr_hook = lambda ev_, base, name, tt=tt: tt if (name == 'second_order_type' and base.op == 'sym') else None
    r = ev.run(fp)
    want_mod = 'shampoo.apply' if ty == 'SHAMPOO' else 'sketchy.apply'
    want_arg = 'options.shampoo_options' if ty == 'SHAMPOO' else 'options.sketchy_options'
    ok = fn_name(r) == 'apply' and r.args[0].args[0].endswith(want_mod) and path_str(r.args[1][0]) == want_arg
    ctx.ob('C15.T3', fp.short, f'{ty} dispatches to {want_mod}', ok, f'got `{show(r, maxdepth=3)[:160]}`', ctx.loc(fp), sample=f'{ty} -> {want_mod}({want_arg})')


def momentum(ctx):
  m = ctx.model
  fi = m.func('tearfree.momentum', 'apply')
  ctx.analysed(fi)
  for decay, ema, after, wd in itertools.product([True, False], repeat=4):
    d = Decider(truth={'options.momentum_decay': decay, 'options.ema': ema, 'options.weight_decay_after_momentum': after},
                cmps={('options.weight_decay', '>', 0.0): wd})
    ev = evaluator(m, decide=d, opaque={'_validate', '_sharded_trace', 'sharded_chain'})
    r = ev.run(fi)
    ch = [c for c in ev.calls if c.callee.endswith('.sharded_chain')]
    ctx.need('C15.T4', len(ch), 1, 'sharded_chain call in momentum.apply')
    a = ch[0].args.get('args', NONE)
    by_result = {id(rc.result): rc for rc in ev.calls if rc.result is not None}

    def flat(t):
      # the chain members in order, through *splats and list concatenations
      if t.op == 'starred':
        return flat(t.args[0])
      if t.op in ('list', 'tuple'):
        out = []
        for e_ in t.args:
          out.extend(flat(e_) if e_.op == 'starred' else [e_])
        return out
      if t.op == 'bin' and t.args[0] == '+':
        return flat(t.args[1]) + flat(t.args[2])
      return [t]
    names = []
    for e in flat(a):
      rep = None
      if e.op == 'star':
        rep = e.args[1]
        e = e.args[0]
      if rep is not None and rep.op == 'repeat':
        inc = ev.decide(rep.args[0])
        if inc is None:
          raise AnalysisError('momentum.apply: weight-decay multiplicity not decided')
        if not inc:
          continue
      if is_ext_call(e, 'optax.scale'):
        cmpr = Comparer()
        okv = cmpr.same(e.args[1][0], spec_term(ev, '1 - o.momentum_decay', {'o': sym('param', fi.short, 'options')}))
        names.append('scale(1-decay)' if okv else 'scale(?)')
      elif fn_name(e) == '_sharded_trace':
        bound_ = by_result[id(e)].args if id(e) in by_result else {}
        okv = path_str(bound_.get('momentum', NONE)) == 'options.momentum_decay' and path_str(bound_.get('nesterov', NONE)) == 'options.nesterov'
        names.append('trace' if okv else 'trace(?)')
      elif is_ext_call(e, 'optax.add_decayed_weights'):
        names.append('wd' if path_str(e.args[1][0]) == 'options.weight_decay' else 'wd(?)')
      else:
        names.append('?' + show(e, maxdepth=2)[:30])
    mom = ((['scale(1-decay)'] if ema else []) + ['trace']) if decay else []
    w = ['wd'] if wd else []
    want = mom + w if after else w + mom
    tag = f'[decay={int(decay)},ema={int(ema)},wd_after={int(after)},wd={int(wd)}]'
    ctx.ob('C15.T4', fi.short, f'momentum chain {tag}', names == want,
           f'momentum stage {tag} must be {want}; got {names}', ctx.loc(fi), sample=f'{tag} -> {want}')
  # _sharded_trace wraps optax.trace(momentum, nesterov)
  ft = m.func('tearfree.momentum', '_sharded_trace')
  ev = evaluator(m)
  r = rec_fields(ev.run(ft))
  ok = r is not None
  if ok:
    tr = [x for x in walk(r['update']) if is_ext_call(x, 'optax.trace')]
    ok = bool(tr) and tr[0].args[1][0] is sym('param', ft.short, 'momentum') and tr[0].args[1][1] is sym('param', ft.short, 'nesterov') \
        and path_str(r['update']) is None and r['update'].op == 'attr' and r['update'].args[1] == 'update' and r['init'].args[1] == 'init'
  ctx.ob('C15.T4', ft.short, 'trace(decay, nesterov)', ok, f'_sharded_trace must expose optax.trace(momentum, nesterov).init/update; got `{show(ev.run(ft), maxdepth=4)[:200]}`', ctx.loc(ft),
         sample='optax.trace(momentum, nesterov)')


def shampoo_root(ctx):
  m = ctx.model
  # statistics: L <- decay * L + (1 - decay) * G G^T   (decay == 1: plain sum)
  fe = m.func('tearfree.shampoo', '_ema_update')
  ctx.analysed(fe)
  for one in (True, False):
    eve = evaluator(m, decide=Decider(cmps={('decay', '==', 1.0): one}))
    re_ = eve.run(fe)
    Pe = lambda nm: sym('param', fe.short, nm)
    src = 'old + new' if one else 'old * decay + new * (1 - decay)'
    ok_e = Comparer().same(re_, spec_term(eve, src, {'old': Pe('old'), 'new': Pe('new'), 'decay': Pe('decay')}))
    ctx.ob('C15.T5', fe.short, f'statistics EMA [decay==1: {one}]', ok_e,
           f'block statistics must be updated as `{src}` (weights decay and 1 - decay on the old statistic and the new Gram matrix); got `{Comparer().fmt(re_)[:160]}`',
           ctx.loc(fe), sample=src)
  fs_ = m.func('tearfree.shampoo', '_update_block_stats')
  evs_ = evaluator(m, opaque={'_ema_update'})
  evs_.run(fs_)
  for c_ in [c for c in evs_.calls if c.callee.endswith('._ema_update')]:
    okd = c_.args.get('decay') is sym('param', fs_.short, 'second_moment_decay') and c_.args.get('old', NONE).op == 'elem' and \
        is_ext_call(c_.args.get('new', NONE), 'jax.numpy.tensordot')
    ctx.ob('C15.T5', fs_.short, 'EMA(old statistic, new Gram, second_moment_decay)', okd,
           '_ema_update must receive (this axis\'s statistic, the new Gram matrix, second_moment_decay) in that order', ctx.loc(fs_),
           sample='_ema_update(cov, new_cov, second_moment_decay)')
  fr = m.func('tearfree.shampoo', '_pth_inv_root')
  fp = m.func('tearfree.shampoo', '_update_block_precond')
  ctx.analysed(fr, fp)
  cmpr = Comparer()
  ev = evaluator(m)
  r = ev.run(fr)
  P, COV = sym('param', fr.short, 'p'), sym('param', fr.short, 'cov')
  eg = [x for x in walk(r) if is_ext_call(x, 'jax.numpy.linalg.eigh')]
  ctx.need('C15.T5', len(set(eg)), 1, 'eigh in _pth_inv_root')
  E = eg[0]
  env = {'w': T('sub', E, const(0)), 'v': T('sub', E, const(1)), 'p': P}
  mask = 'w <= 1e-6 * jnp.max(w, axis=-1, keepdims=True)'
  half = f'jnp.where({mask}, 0.0, jnp.where({mask}, 1.0, w) ** (-0.5 / p))'
  exp = spec_term(ev, f'jnp.einsum("bik,bjk->bij", jnp.expand_dims({half}, -2) * v, jnp.expand_dims({half}, -2) * v)', env)
  ok = E.args[1][0] is COV and cmpr.same(r, exp)
  ctx.ob('C15.T5', fr.short, 'root = (V h)(V h)^T with h = w^(-0.5/p), eigenvalues <= 1e-6 max(block) dropped', ok,
         f'_pth_inv_root must build V diag(w^(-1/p)) V^T from two half factors w^(-0.5/p), zeroing eigenvalues <= 1e-6 * that block\'s largest; got `{cmpr.fmt(r)[:300]}`',
         ctx.loc(fr), sample='einsum(bik,bjk->bij) of (w^(-0.5/p) masked) * v')
  ev = evaluator(m, opaque={'_pth_inv_root'})
  ev.run(fp)
  calls = [c for c in ev.calls if c.callee.endswith('._pth_inv_root')]
  ctx.need('C15.T5', len(calls), 1, 'call to _pth_inv_root')
  pexp = spec_term(ev, 'len(meta.param_shape) * 2', {'meta': sym('param', fp.short, 'meta')})
  ctx.ob('C15.T5', fp.short, 'p = 2 * rank', all(cmpr.same(c.args.get('p', NONE), pexp) for c in calls),
         f'the root exponent must be p = 2 * len(param_shape); got `{cmpr.fmt(calls[0].args.get("p", NONE))}`', ctx.loc(fp), sample='p = 2 * rank')


def sketchy_apply(ctx):
  m = ctx.model
  fi = m.func('tearfree.sketchy', '_precondition')
  ctx.analysed(fi)
  cmpr = Comparer()
  names = ['eigvecs', 'eigvals', 'inv_eigvals', 'tail', 'inv_tail', 'ema_ggt', 'svd_result_u', 'svd_result_s', 'inv_prev_tail']
  for ekfac in (False, True):
    for rank in (1, 2, 3):
      axes = []
      for i in range(rank):
        axes.append(T('rec', m.cls('tearfree.sketchy', '_AxisState').fq, tuple((n, sym('slot', f'{n}{i}')) for n in names)))
      sk = T('rec', m.cls('tearfree.sketchy', '_TensorState').fq, (('axes', T('list', *axes)),))
      d = Decider(truth={'options.ekfac_svd': ekfac, 'ekfac': ekfac, 'memory_alloc': False, 'options.memory_alloc': False})
      ev = evaluator(m, decide=d)
      U = sym('param', fi.short, 'update')
      r = ev.run(fi, args={'sketches': sk})
      g = 'u'
      env = {'u': U}
      roll = 'tuple(range(1, u.ndim)) + (0,)'
      for i in range(rank):
        V = f'svd_result_u{i}' if ekfac else f'eigvecs{i}'
        E = f'svd_result_s{i}' if ekfac else f'inv_eigvals{i}'
        TT = f'inv_prev_tail{i}' if ekfac else f'inv_tail{i}'
        for nm in (V, E, TT):
          env[nm] = sym('slot', nm)
        basis = f'jnp.tensordot({g}, {V}, axes=[[0], [0]])'
        comp = f'jnp.tensordot({basis}, {V}, axes=[[u.ndim - 1], [1]])'
        rolled = f'jnp.transpose({g}, axes={roll})'
        g = f'(jnp.tensordot({basis} * {E}, {V}, axes=[[u.ndim - 1], [1]]) + {TT} * ({rolled} - {comp}))'
      exp = spec_term(ev, g, env)
      from .C02 import block_contraction  # noqa: F401  (rank normalisation lives there)
      import sympy as sp

      def rank_leaf(t):
        if t.op == 'attr' and t.args[1] == 'ndim':
          return sp.Symbol('RANK')
        return None
      cm = Comparer(leaf=rank_leaf)
      ctx.ob('C15.T5', fi.short, f'sketchy application rank {rank} [ekfac={ekfac}]', cm.same(r, exp),
             f'Sketchy must apply V diag(inv_eigvals) V^T + inv_tail (I - V V^T) along each axis in turn (rolling the axis); got `{cm.fmt(r)[:300]}`',
             ctx.loc(fi), sample=f'rank {rank}: per-axis low-rank + tail application')
