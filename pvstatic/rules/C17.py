"""C17 - Sketchy memory reallocation respects the budget.

Decided statically on `create_redist_dict` / `create_groups`:
  R1  leftover accounting: the body of the top-up loop is interpreted abstractly over the difference
      domain  rank = dim + c,  c in {<= -3, -2, -1, 0}  (rank <= dim is asserted before the loop) and
      extra in {1, >= 2}: in every class  0 <= d(rank) <= -d(extra),  rank' <= dim,  and once the budget
      is used up (extra' <= 0) the loop leaves; with `allocated <= budget` asserted before the loop this
      gives  sum(rank) <= budget  at return;
  R2  dominance / order inside the per-group loop: every rank is asserted <= dim, `allocated` is the sum of
      the ranks, the budget is re-read for the group and `allocated <= budget` asserted, before the top-up
      and before the ranks are written out with the group's own keys;
  R3  every rank handed out in the proportional phase is `dim` or rd(share) with rd(x) = int(x // 1) + 1
      (>= 1 for x >= 0) and every division feeding a share is guarded by a POSITIVITY test of its
      denominator (the remaining score is a float32 difference and can cancel to a negative number);
      each layer is charged rd - 1 against the pool that was reduced by one unit per layer up front;
  R4  groups are keyed by the axis dimension (`dim` entry, else rows of `eigvecs`), the budget of a group is
      group size * base rank.
Not decided: that the proportional phase never trips its own assertions (then no allocation is returned,
which does not contradict C17); behaviour under python -O.
"""
from __future__ import annotations

import ast

import sympy as sp

from ..lib import norm_src
from ..model import AnalysisError

RM = 'tearfree.reallocation'

ASSUMPTIONS = ['scores are non-negative finite floats', 'assert statements are executed (no python -O)']


class _Break(Exception):
  pass


class Interp:
  """Tiny symbolic interpreter for the top-up loop body (integers as sympy expressions)."""

  def __init__(self, env):
    self.env = dict(env)
    self.broke = False

  def ev(self, n):
    if isinstance(n, ast.Constant):
      return sp.Integer(n.value) if isinstance(n.value, int) else sp.nsimplify(n.value)
    if isinstance(n, ast.Name):
      if n.id not in self.env:
        raise AnalysisError(f'top-up loop reads unknown name `{n.id}`')
      return self.env[n.id]
    if isinstance(n, ast.Subscript):
      key = norm_src(n)
      if key not in self.env:
        raise AnalysisError(f'top-up loop reads unknown cell `{key}`')
      return self.env[key]
    if isinstance(n, ast.BinOp):
      a, b = self.ev(n.left), self.ev(n.right)
      if isinstance(n.op, ast.Add):
        return a + b
      if isinstance(n.op, ast.Sub):
        return a - b
      if isinstance(n.op, ast.Mult):
        return a * b
      raise AnalysisError(f'top-up loop: unsupported operator {type(n.op).__name__}')
    if isinstance(n, ast.UnaryOp) and isinstance(n.op, ast.USub):
      return -self.ev(n.operand)
    if isinstance(n, ast.Call) and isinstance(n.func, ast.Name) and n.func.id in ('min', 'max') and len(n.args) == 2:
      a, b = self.ev(n.args[0]), self.ev(n.args[1])
      d = self.truth(sp.Le(a, b))
      if n.func.id == 'min':
        return a if d else b
      return b if d else a
    if isinstance(n, ast.IfExp):
      return self.ev(n.body) if self.cond(n.test) else self.ev(n.orelse)
    raise AnalysisError(f'top-up loop: unsupported expression `{norm_src(n)}`')

  def truth(self, rel):
    r = sp.simplify(rel)
    if r is sp.true:
      return True
    if r is sp.false:
      return False
    raise AnalysisError(f'top-up loop: comparison `{rel}` not decided inside an ordering class')

  def cond(self, n):
    if isinstance(n, ast.Compare) and len(n.ops) == 1:
      a, b = self.ev(n.left), self.ev(n.comparators[0])
      op = {ast.Lt: sp.Lt, ast.LtE: sp.Le, ast.Gt: sp.Gt, ast.GtE: sp.Ge, ast.Eq: sp.Eq, ast.NotEq: sp.Ne}.get(type(n.ops[0]))
      if op is None:
        raise AnalysisError('top-up loop: unsupported comparison')
      return self.truth(op(a, b))
    if isinstance(n, ast.BoolOp):
      vals = [self.cond(v) for v in n.values]
      return all(vals) if isinstance(n.op, ast.And) else any(vals)
    if isinstance(n, ast.UnaryOp) and isinstance(n.op, ast.Not):
      return not self.cond(n.operand)
    raise AnalysisError(f'top-up loop: unsupported condition `{norm_src(n)}`')

  def store(self, target, val):
    if isinstance(target, ast.Name):
      self.env[target.id] = val
    elif isinstance(target, ast.Subscript):
      self.env[norm_src(target)] = val
    else:
      raise AnalysisError('top-up loop: unsupported store target')

  def run(self, stmts):
    for s in stmts:
      if isinstance(s, ast.Assign) and len(s.targets) == 1:
        self.store(s.targets[0], self.ev(s.value))
      elif isinstance(s, ast.AugAssign):
        cur = self.ev(s.target)
        v = self.ev(s.value)
        self.store(s.target, cur + v if isinstance(s.op, ast.Add) else cur - v if isinstance(s.op, ast.Sub) else (_ for _ in ()).throw(AnalysisError('augassign op')))
      elif isinstance(s, ast.If):
        self.run(s.body if self.cond(s.test) else s.orelse)
      elif isinstance(s, ast.Break):
        self.broke = True
        raise _Break()
      elif isinstance(s, (ast.Pass, ast.Expr)):
        pass
      else:
        raise AnalysisError(f'top-up loop: unsupported statement `{norm_src(s)[:60]}`')


def run(ctx):
  m = ctx.model
  fi = m.func(RM, 'create_redist_dict')
  ctx.analysed(fi)
  # locate the per-group loop
  groups_loop = None
  for n in ast.walk(fi.node):
    if isinstance(n, ast.For) and norm_src(n.iter) == 'group_dict':
      groups_loop = n
  if groups_loop is None:
    raise AnalysisError('create_redist_dict: `for dim in group_dict` loop not found')
  dim_name = groups_loop.target.id
  body = groups_loop.body
  # top-up: `if allocated < budget:` containing a for loop over the sorted scores
  topup_if = None
  for i, s in enumerate(body):
    if isinstance(s, ast.If) and any(isinstance(x, ast.For) for x in s.body) and 'allocated' in norm_src(s.test):
      topup_if, topup_pos = s, i
  if topup_if is None:
    raise AnalysisError('create_redist_dict: top-up block (`if allocated < group_resource`) not found')
  topup(ctx, fi, topup_if, dim_name)
  order(ctx, fi, body, topup_pos, dim_name)
  proportional(ctx, fi, body, dim_name)
  groups(ctx)


def topup(ctx, fi, blk, dim_name):
  test = norm_src(blk.test)
  ok = test in ('allocated < group_resource', 'group_resource > allocated')
  ctx.ob('C17.R1', fi.short, 'top-up only when budget is left', ok, f'the top-up must run only when allocated < budget; got `{test}`', ctx.loc(fi, blk), sample=test)
  init = [s for s in blk.body if isinstance(s, ast.Assign)]
  loop = [s for s in blk.body if isinstance(s, ast.For)]
  if len(loop) != 1 or not init:
    raise AnalysisError('top-up block: expected `extra = budget - allocated` and one loop')
  oki = norm_src(init[0]) == 'extra = group_resource - allocated'
  ctx.ob('C17.R1', fi.short, 'extra = budget - allocated', oki, f'the top-up pool must be budget - allocated; got `{norm_src(init[0])}`', ctx.loc(fi, init[0]),
         sample='extra = group_resource - allocated')
  lp = loop[0]
  key_t = lp.target.elts[0].id if isinstance(lp.target, ast.Tuple) else (lp.target.id if isinstance(lp.target, ast.Name) else None)
  if key_t is None:
    raise AnalysisError('top-up loop target not recognised')
  cell = f'realloc[{key_t}]'
  dim = sp.Symbol('dim', integer=True, positive=True)
  n = 0
  for c in (-3, -2, -1, 0):
    for ecls in ('1', '>=2'):
      k = sp.Symbol('k', integer=True, nonnegative=True)
      E0 = sp.Integer(1) if ecls == '1' else k + 2
      R0 = dim + c
      it = Interp({dim_name: dim, cell: R0, 'extra': E0, key_t: sp.Symbol('key')})
      try:
        it.run(lp.body)
      except _Break:
        pass
      R1, E1 = it.env[cell], it.env['extra']
      dR, dE = sp.simplify(R1 - R0), sp.simplify(E1 - E0)
      cname = f'rank {"<= dim-3" if c == -3 else ("= dim" + (str(c) if c else ""))}, extra {ecls}'
      checks = [
          (sp.simplify(dR) >= 0, f'rank changes by {dR} (must not decrease)'),
          (sp.simplify(dR + dE) <= 0, f'rank grows by {dR} but the pool is charged {-dE}: the group can exceed its budget'),
          (sp.simplify(R1 - dim) <= 0, f'rank becomes dim + {sp.simplify(R1 - dim)} > dim'),
      ]
      exhausted = sp.simplify(E1 <= 0)
      if exhausted is sp.true:
        checks.append((it.broke, f'the pool is exhausted (extra\' = {E1}) but the loop does not leave: the next layer may get a rank the budget does not cover'))
      bad = [msg for okc, msg in checks if okc is not True and okc is not sp.true]
      n += 1
      ctx.ob('C17.R1', fi.short, f'top-up accounting [{cname}]', not bad, '; '.join(bad), ctx.loc(fi, lp),
             sample=f'[{cname}] d(rank)={dR}, d(extra)={dE}, leaves={it.broke}')
  ctx.need('C17.R1', n, 8, 'ordering classes of the top-up loop')
  src = norm_src(lp.iter)
  ctx.ob('C17.R1', fi.short, 'top-up visits the group\'s own layers', src == 'sorted_scores', f'the top-up must iterate the group\'s sorted scores; got `{src}`', ctx.loc(fi, lp),
         sample='for (key, _) in sorted_scores')


def order(ctx, fi, body, topup_pos, dim_name):
  srcs = [norm_src(s) for s in body]

  def find(pred, what):
    for i, s in enumerate(srcs):
      if pred(s):
        return i
    return None
  i_assert_dim = find(lambda s: s.startswith('for key in realloc:') and f'assert realloc[key] <= {dim_name}' in s, 'rank<=dim asserts')
  i_alloc = find(lambda s: s == 'allocated = sum(realloc.values())', 'allocated')
  i_reset = find(lambda s: s.replace(' ', '') == f'(_,_,group_resource)=grp_info({dim_name})' or s.replace(' ', '') == f'_,_,group_resource=grp_info({dim_name})', 'budget reset')
  i_assert_budget = find(lambda s: s.startswith('assert allocated <= group_resource'), 'budget assert')
  i_store = find(lambda s: s == 'redist_dict = alloc_fn(redist_dict, group, realloc)', 'store')
  idx = [i_assert_dim, i_alloc, i_reset, i_assert_budget, topup_pos, i_store]
  names = ['assert rank <= dim (all keys)', 'allocated = sum(ranks)', 'budget re-read for the group', 'assert allocated <= budget', 'top-up', 'write-out alloc_fn(redist_dict, group, realloc)']
  ok = all(i is not None for i in idx) and idx == sorted(idx) and len(set(idx)) == len(idx)
  missing = [n for n, i in zip(names, idx) if i is None]
  ctx.ob('C17.R2', fi.short, 'assertions dominate top-up and write-out', ok,
         ('missing: ' + ', '.join(missing)) if missing else f'statements out of order (positions {idx}): the budget / upper-bound assertions must precede the top-up and the write-out',
         ctx.loc(fi), sample=' -> '.join(names))
  # grp_info: budget = group size * base rank
  gi = None
  for n in ast.walk(fi.node):
    if isinstance(n, ast.FunctionDef) and n.name == 'grp_info':
      gi = n
  if gi is None:
    raise AnalysisError('grp_info not found')
  src = ' '.join(norm_src(s) for s in gi.body)
  ok = 'group = group_dict[dim]' in src and 'group_size = len(group)' in src and ('group_resource = group_size * sketchy_rank' in src or 'group_resource = sketchy_rank * group_size' in src)
  ctx.ob('C17.R4', fi.short, 'budget = group size * base rank', ok, f'grp_info must return (group, len(group), len(group) * sketchy_rank); got `{src[:160]}`', ctx.loc(fi, gi),
         sample='group_resource = group_size * sketchy_rank')


def proportional(ctx, fi, body, dim_name):
  # rd
  rd = None
  outl = None
  for n in ast.walk(fi.node):
    if isinstance(n, ast.FunctionDef) and n.name == 'rd':
      rd = n
    if isinstance(n, ast.FunctionDef) and n.name == 'is_outlier':
      outl = n
  if rd is None or outl is None:
    raise AnalysisError('rd / is_outlier not found')
  src = norm_src(rd.body[-1])
  ctx.ob('C17.R3', fi.short, 'rd(x) = int(x // 1) + 1', src == 'return int(x // 1) + 1', f'rd must round down and add one (>= 1 for x >= 0); got `{src}`', ctx.loc(fi, rd), sample=src)
  # divisions guarded by positivity
  n_div = 0
  for node in ast.walk(fi.node):
    if isinstance(node, ast.IfExp) and isinstance(node.body, ast.BinOp) and isinstance(node.body.op, ast.Div):
      den = norm_src(node.body.right)
      test = norm_src(node.test)
      n_div += 1
      ok = test in (f'{den} > 0', f'{den} > 0.0', f'0 < {den}', f'0.0 < {den}')
      orelse = norm_src(node.orelse)
      ctx.ob('C17.R3', fi.short, f'division by {den} guarded by {den} > 0', ok and orelse in ('0.0', '0'),
             f'`{norm_src(node)}`: the remaining score is a float32 difference that can cancel to a negative number; a truthiness test lets a negative per-unit resource through and rd() hands out a rank <= 0',
             ctx.loc(fi, node), sample=norm_src(node))
  for node in ast.walk(fi.node):
    if isinstance(node, ast.BinOp) and isinstance(node.op, ast.Div):
      par_ok = False
      for p in ast.walk(fi.node):
        if isinstance(p, ast.IfExp) and p.body is node:
          par_ok = True
      if not par_ok:
        ctx.ob('C17.R3', fi.short, f'unguarded division {norm_src(node)}', False, 'every division in the allocation must be guarded by a positivity test of its denominator', ctx.loc(fi, node))
  ctx.need('C17.R3', n_div, 2, 'guarded divisions')
  # stores into realloc inside the proportional loop
  main = None
  for s in body:
    if isinstance(s, ast.For) and norm_src(s.iter) == 'sorted_scores' and any('is_outlier' in norm_src(x) for x in ast.walk(s) if isinstance(x, ast.If)):
      main = s
  if main is None:
    raise AnalysisError('proportional loop not found')
  pv = main.target.id if isinstance(main.target, ast.Name) else None
  ifs = [x for x in main.body if isinstance(x, ast.If)]
  ok = len(ifs) == 1
  if ok:
    br = ifs[0]
    t = norm_src(br.test)
    ok = t == f'is_outlier({pv}[1], total_score, group_resource, {dim_name} - 1)'
    a = [norm_src(x) for x in br.body]
    b = [norm_src(x) for x in br.orelse]
    ok_a = a == [f'realloc.update({{{pv}[0]: {dim_name}}})', f'group_resource -= {dim_name} - 1', f'total_score -= {pv}[1]']
    ok_b = len(b) == 4 and b[0].startswith('unit_rsc = group_resource / total_score if total_score') and \
        b[1] == f'realloc.update({{{pv}[0]: rd({pv}[1] * unit_rsc)}})' and b[2] == f'group_resource -= rd({pv}[1] * unit_rsc) - 1' and b[3] == f'total_score -= {pv}[1]'
    ctx.ob('C17.R3', fi.short, 'outlier layers get dim and are charged dim - 1', ok and ok_a,
           f'an outlier layer must receive rank dim, be charged dim - 1 and leave the score pool; got test `{t}` body {a}', ctx.loc(fi, br),
           sample='realloc[key] = dim; budget -= dim - 1; total -= score')
    ctx.ob('C17.R3', fi.short, 'other layers get rd(share) and are charged rd(share) - 1', ok and ok_b,
           f'a regular layer must receive rd(score * unit) and be charged exactly rd(score * unit) - 1; got {b}', ctx.loc(fi, br),
           sample='realloc[key] = rd(s * unit); budget -= rd(s * unit) - 1; total -= score')
  else:
    ctx.ob('C17.R3', fi.short, 'proportional loop shape', False, 'expected one outlier/regular branch per layer', ctx.loc(fi, main))
  # one unit per layer reserved up front
  srcs = [norm_src(s) for s in body]
  ok = 'group_resource -= group_size' in srcs and any(s.startswith('assert group_resource >= group_size') for s in srcs) and \
      srcs.index('group_resource -= group_size') < srcs.index(norm_src(main))
  ctx.ob('C17.R3', fi.short, 'one rank per layer reserved before sharing', ok,
         'the pool shared proportionally must be budget - group size (every layer keeps rank >= 1 without exceeding the budget)', ctx.loc(fi),
         sample='assert budget >= n; budget -= n')
  o = ' '.join(norm_src(s) for s in outl.body)
  ok = 'allocated_rsc = rd(score * unit_rsc) - 1' in o and 'return allocated_rsc > dim' in o
  ctx.ob('C17.R3', fi.short, 'outlier test: share beyond dim - 1', ok, f'is_outlier must compare rd(score * unit) - 1 with its dim argument; got `{o[:160]}`', ctx.loc(fi, outl),
         sample='rd(score * unit) - 1 > dim - 1')


def groups(ctx):
  m = ctx.model
  fg = m.func(RM, 'create_groups')
  ctx.analysed(fg)
  src = ' '.join(norm_src(s) for s in ast.walk(fg.node) if isinstance(s, ast.If) and "'dim' in carry" in norm_src(s.test))
  ok = "key = carry['dim']" in src and "key = carry['eigvecs'].shape[0]" in src
  ctx.ob('C17.R4', fg.short, 'groups keyed by the axis dimension', ok,
         f'layers must be grouped by their axis dimension: carry["dim"] or the number of rows of eigvecs (not the sketch rank); got `{src[:200]}`', ctx.loc(fg),
         sample="key = carry['dim'] | carry['eigvecs'].shape[0]")
  body = ' '.join(norm_src(s) for s in fg.node.body)
  ok = 'group_dict[key].append(name)' in body and 'group_dict[key] = [name]' in body
  ctx.ob('C17.R4', fg.short, 'every layer lands in exactly one group', ok, 'each layer name must be appended to the group of its key', ctx.loc(fg), sample='group_dict[key].append(name)')
