"""C17 - Sketchy memory reallocation respects the budget.

`create_redist_dict` and `create_groups` are plain python bookkeeping over dicts.  They are interpreted abstractly
(pvstatic.imp: symbolic values, zone + sign domains, one symbolic iteration per loop from a havocked head, path
splitting on the code's own tests) and the rules below are stated on what the interpretation yields - which dict
the ranks live in, what each loop does to it, which facts hold where - never on names or statement text.

Roles are found by data flow: RANKS is the dict handed to the last call of a group iteration (the write-out), the
group G is the other argument of that call that was looked up under the loop's own key d (the axis dimension),
the budget is B = len(G) * <sketchy_rank parameter>; the proportional loop P and the top-up loop T are the loops
that store into RANKS before / after the budget assertion.

  R1  top-up loop T: there is a pool variable E with  1 <= E0 <= B - sum(RANKS)  at entry such that in every path
      of one iteration (invariants: E >= 1, every rank <= d)  ranks do not decrease, d(ranks) + d(E) <= 0,
      every stored rank <= d, E' >= 0, and the loop continues only with E' >= 1.  Hence sum(RANKS) <= B at exit.
  R2  at the write-out the facts  sum(RANKS) <= B  and  "every rank <= d"  hold (established by assertions on every
      path) and nothing but T touches RANKS in between; the write-out receives G and RANKS.
  R3  proportional loop P: there is a pool variable C with  0 <= C0 <= B - len(G)  at entry such that every path
      of one iteration (invariants: C >= 0, scores >= 0) stores exactly one rank A, keyed by the current layer,
      A an integer >= 1, the pool is charged at least A - 1, every division has a denominator the path knows
      to be POSITIVE (a float32 difference can cancel to a negative number, truthiness is not enough), and the
      remaining-score variable decreases by at most the layer's own score.
      Also: every rank stored is <= d on its own path (outlier test and rank formula agree), every share has the
      proportional form floor(score * pool / remaining), and with it the pool provably stays >= 0.
  R5  the assertions of a group iteration are implied by what the code before them establishes (they never trip): an
      assertion stricter than what the loops guarantee would turn valid inputs into AssertionErrors.
  R4  create_groups keys every layer by its axis dimension (the `dim` entry, else the number of rows of
      `eigvecs`) and puts each layer name into exactly the group of its key.
Not decided: that the proportional phase never trips its own assertions for float scores (then no allocation is
returned); behaviour under python -O.
"""
from __future__ import annotations

import ast

import sympy as sp

from .. import imp
from ..imp import Interp, Facts, DictObj, cell, dsum, plen, opq
from ..model import AnalysisError

RM = 'tearfree.reallocation'

ASSUMPTIONS = ['scores are non-negative finite floats', 'assert statements are executed (no python -O)',
               'the nested helper functions of create_redist_dict are pure (same arguments, same result)']


def _short(e, n=110):
  e = str(e) if not isinstance(e, str) else e
  s = str(e)
  s = s.replace('opq(getitem, ', 'item(')
  return s if len(s) <= n else s[:n] + '...'


def run(ctx):
  m = ctx.model
  fi = m.func(RM, 'create_redist_dict')
  ctx.analysed(fi)
  rank_param = sp.Symbol('param:sketchy_rank', integer=True, positive=True)
  ip = Interp(fi.node, params={'sketchy_rank': rank_param})
  paths = ip.run()
  if not paths:
    raise AnalysisError('create_redist_dict: no path reaches the end')
  # second pass with the per-group loop variable (an axis dimension) typed as a positive integer
  typed = {}
  for p, rv in paths:
    for e in _group_loops(p):
      tgt = e[1].target
      if isinstance(tgt, (ast.Tuple, ast.List)) and tgt.elts and isinstance(tgt.elts[0], ast.Name) and isinstance(e[1].iter, ast.Call) and \
          isinstance(e[1].iter.func, ast.Attribute) and e[1].iter.func.attr == 'items':
        tgt = tgt.elts[0]           # `for d, group in groups.items()`: the key is the dimension
      if isinstance(tgt, ast.Name) and isinstance(e[2].env.get(tgt.id), sp.Symbol):
        typed[e[2].env[tgt.id].name] = dict(integer=True, positive=True)
  ip = Interp(fi.node, params={'sketchy_rank': rank_param}, typed=typed)
  paths = ip.run()
  n_groups = 0
  for p, rv in paths:
    gl = _group_loops(p)
    if len(gl) != 1:
      raise AnalysisError(f'create_redist_dict: expected one per-group loop, found {len(gl)}')
    n_groups += 1
    group_iteration(ctx, fi, ip, gl[0])
  ctx.need('C17.R2', n_groups, 1, 'per-group loop')
  one_list_per_parameter(ctx, fi)
  groups(ctx)


def _group_loops(p):
  """the per-group loop: its iterations fill a dict of ranks in a nested loop and hand it to a local function"""
  loops = [e for e in p.events if e[0] == 'loop']
  return [e for e in loops if any(x[0] == 'loop' and any(y[0] == 'dict-store' for qq, _ in x[3] for y in qq.events[x[5]:]) for q, _ in e[3] for x in q.events[e[5]:])
          and any((x[0] == 'call' and not str(x[1]).startswith('.') and any(isinstance(a, DictObj) for a in x[5])) or _inline_writeout(x) is not None
                  for q, _ in e[3] for x in q.events[e[5]:])]


def _inline_writeout(x):
  """loop event x copies cells of a dict into some other object (`tree[..][axis] = ranks[key]` for key in group): the
  write-out of a group iteration written in place instead of as a helper call.  Returns (cell's dict symbol) or None"""
  if x[0] != 'loop':
    return None
  for q, _ in x[3]:
    for e in q.events[x[5]:]:
      if e[0] == 'obj-store' and len(e) > 4 and isinstance(e[4], cell):
        return e[4].args[0]
      if e[0] == 'dict-store' and isinstance(e[3], cell) and not str(e[3].args[0]).startswith(f'dict{e[1]}v'):
        return e[3].args[0]          # a cell of ANOTHER dict copied into this one
  return None


def _pseudo_call(x):
  """a call-shaped event for an inline write-out loop: (ranks dict, iterable) as arguments, facts and node of the loop entry"""
  dsym = _inline_writeout(x)
  head, pre = x[2], x[6]
  ranks = None
  for st_ in (pre, head):
    for dd in st_.dicts():
      if dd.sym() == dsym and ranks is None:
        ranks = dd
  if ranks is None:
    for dd in pre.dicts():
      if str(dd.sym()).rsplit('v', 1)[0] == str(dsym).rsplit('v', 1)[0]:
        ranks = dd
  if ranks is None:
    return None
  it = x[4]
  args = [it, ranks] if isinstance(it, sp.Basic) else [ranks]
  return ('call', '<inline write-out>', [str(a) for a in args], x[1], pre.facts.copy(), args)


def _last_key(e):
  """d such that e == <groups>[d] (subscript of an opaque mapping); None otherwise."""
  if isinstance(e, opq) and len(e.args) == 3 and e.args[0] == sp.Symbol('getitem'):
    return e.args[2]
  return None


def group_iteration(ctx, fi, ip, gev):
  _, gnode, ghead, gpaths, git, gn0, gpre = gev
  if not gpaths:
    raise AnalysisError('per-group loop: no path reaches the end of an iteration')
  for q, _ in gpaths:
    evs = q.events[gn0:]
    calls = [e for e in evs if e[0] == 'call' and not str(e[1]).startswith('.') and any(isinstance(a, DictObj) for a in e[5])]
    if not calls:
      calls = [c_ for c_ in (_pseudo_call(x) for x in evs if _inline_writeout(x) is not None) if c_ is not None]
    if not calls:
      ctx.ob('C17.R2', fi.short, 'write-out receives the ranks', False, 'no call in the per-group iteration receives the dict of ranks', ctx.loc(fi, gnode))
      continue
    W = calls[-1]
    ranks = [a for a in W[5] if isinstance(a, DictObj)][-1]
    oid = ranks.oid
    # the group: an argument looked up under a key; that key is the group's dimension d
    G = d = None
    for a in W[5]:
      if isinstance(a, sp.Basic) and _last_key(a) is not None and ghead.env and any(_last_key(a) == v for v in ghead.env.values() if isinstance(v, sp.Basic)):
        G, d = a, _last_key(a)
    if G is None:
      ctx.ob('C17.R2', fi.short, 'write-out receives the group', False,
             f'the write-out call must receive the group (the list looked up under the loop key) and the ranks; got {[_short(a) for a in W[2]]}', ctx.loc(fi, W[3]))
      continue
    B = plen(G) * sp.Symbol('param:sketchy_rank', integer=True, positive=True)
    wfacts = W[4]
    # which loops store into RANKS, and where is the budget assertion?
    stores_loops = [e for e in evs if e[0] == 'loop' and _stores_into(e, oid)]
    direct = [e for e in evs if e[0] == 'dict-store' and e[1] == oid]
    S_syms = [a for a in wfacts_atoms(wfacts) if isinstance(a, dsum)]
    tag = 'top-up taken' if len(stores_loops) > 1 else 'no top-up'
    ok_b = False
    S = None
    for a in S_syms:
      if wfacts.entails(sp.Le(a, B, evaluate=False)):
        ok_b, S = True, a
    ctx.ob('C17.R2', fi.short, f'sum(ranks) <= len(group) * sketchy_rank known at the write-out [{tag}]', ok_b,
           'on this path no assertion establishes  sum(ranks) <= len(group) * sketchy_rank  (with the budget re-derived from the group itself) '
           'before the ranks are topped up and written out', ctx.loc(fi, W[3]), sample='assert sum(ranks) <= len(group) * sketchy_rank')
    if not ok_b:
      continue
    Dsym = S.args[0]
    # every rank <= d, as a universal fact on that dict version
    k0 = sp.Symbol('k0')
    ok_u = False
    for ds, ph, kind, e in q.univ:
      if ds == Dsym:
        f = wfacts.copy()
        f.add(kind, e.subs(ph, k0))
        if f.entails(sp.Le(cell(Dsym, k0), d, evaluate=False)):
          ok_u = True
    ctx.ob('C17.R2', fi.short, f'every rank <= dim known at the write-out [{tag}]', ok_u,
           'no assertion over all keys establishes rank <= dim (the dimension that defines this group) before the write-out', ctx.loc(fi, W[3]),
           sample='for key in ranks: assert ranks[key] <= dim')
    # order: P ... sum(ranks) bounded ... [T] ... W, and no other mutation after the bound was established
    vS = int(str(Dsym).rsplit('v', 1)[1])
    before = [e for e in stores_loops if _dict_of(e[6], oid).version < vS]
    after = [e for e in stores_loops if _dict_of(e[6], oid).version >= vS]
    stray = [e for e in direct if e[6] >= vS]
    ctx.ob('C17.R2', fi.short, f'ranks change after the budget assertion only inside the top-up loop [{tag}]', not stray and len(after) <= 1,
           'a store into the ranks after `assert sum(ranks) <= budget` and outside the top-up loop is not covered by any accounting', ctx.loc(fi, gnode),
           sample='assert ...; top-up loop; write-out', trivial=True)
    pdata = []
    if len(before) != 1:
      ctx.ob('C17.R3', fi.short, 'one proportional loop fills the ranks', False, f'expected one loop storing ranks before the budget assertion, found {len(before)}', ctx.loc(fi, gnode))
    else:
      pdata = proportional(ctx, fi, ip, before[0], oid, G, d, B)
    asserts_hold(ctx, fi, evs, pdata, oid, B, S)
    for T in after:
      topup(ctx, fi, ip, T, oid, d, B, S)


SHARED_FIXTURE = '''
def bad_fromkeys(names, n):
  return dict.fromkeys(names, [0] * n)
def bad_replicated(names, n):
  rows = [[0] * n] * len(names)
  return dict(zip(names, rows))
def bad_hoisted(names, n):
  row = [0] * n
  out = {}
  for name in names:
    out[name] = row
  return out
def fine(names, n):
  out = {}
  for name in names:
    out[name] = [0] * n
  flags = dict.fromkeys(names, 0)
  return out, flags
'''


def _is_mutable_display(e):
  if isinstance(e, (ast.List, ast.ListComp, ast.Dict, ast.DictComp, ast.Set, ast.SetComp)):
    return True
  if isinstance(e, ast.BinOp) and isinstance(e.op, ast.Mult):
    return _is_mutable_display(e.left) or _is_mutable_display(e.right)
  if isinstance(e, ast.Call) and isinstance(e.func, ast.Name) and e.func.id in ('list', 'dict', 'set'):
    return True
  return False


def shared_containers(fn):
  """places in `fn` (nested functions included) where ONE mutable container ends up under several keys / positions:
  dict.fromkeys(keys, <list>), [<list>] * n, and a list built outside a loop stored under the loop's keys"""
  out = []
  for n in ast.walk(fn):
    if isinstance(n, ast.Call) and isinstance(n.func, ast.Attribute) and n.func.attr == 'fromkeys' and len(n.args) == 2 and _is_mutable_display(n.args[1]):
      out.append((n, f'`{ast.unparse(n)}`: every key gets the SAME {type(n.args[1]).__name__.lower()} object'))
    if isinstance(n, ast.BinOp) and isinstance(n.op, ast.Mult):
      for side in (n.left, n.right):
        if isinstance(side, ast.List) and any(_is_mutable_display(e) for e in side.elts):
          out.append((n, f'`{ast.unparse(n)}`: the replicated entries are one and the same object'))
    if isinstance(n, (ast.For, ast.While)):
      assigned_in = {t.id for x in ast.walk(n) for t in ast.walk(x) if isinstance(t, ast.Name) and isinstance(t.ctx, ast.Store)}
      for st in ast.walk(n):
        if isinstance(st, ast.Assign) and isinstance(st.value, ast.Name) and st.value.id not in assigned_in and \
            any(isinstance(t, ast.Subscript) for t in st.targets):
          # is the name bound to a mutable display somewhere in fn (outside this loop)?
          for b in ast.walk(fn):
            if isinstance(b, ast.Assign) and any(isinstance(t, ast.Name) and t.id == st.value.id for t in b.targets) and _is_mutable_display(b.value):
              out.append((st, f'`{ast.unparse(st)}` stores the one container `{st.value.id}` (built outside the loop) under every key'))
              break
  return out


def one_list_per_parameter(ctx, fi):
  """R6: the result tree holds one FRESH list of ranks per parameter: the write-out assigns `tree[...][axis] = rank` item by
  item, so two parameters sharing one list object overwrite each other's ranks (the budget and rank <= dim facts hold
  for the dict of ranks, not for what is returned)."""
  fx = ast.parse(SHARED_FIXTURE)
  hits = {f.name: len(shared_containers(f)) for f in fx.body if isinstance(f, ast.FunctionDef)}
  if hits != {'bad_fromkeys': 1, 'bad_replicated': 1, 'bad_hoisted': 1, 'fine': 0}:
    raise AnalysisError(f'C17.R6 positive fixture not matched ({hits})')
  sites = shared_containers(fi.node)
  for node, why in sites:
    ctx.ob('C17.R6', fi.short, f'shared container: {" ".join(ast.unparse(node).split())[:80]}', False,
           f'{why}; the ranks written for one parameter overwrite those of the others', ctx.loc(fi, node))
  if not sites:
    ctx.ob('C17.R6', fi.short, 'one fresh rank list per parameter', True, '', ctx.loc(fi), sample='cur[name] = [0] * num_axes inside the loop')


def _integer_valued(e):
  """sums / products of integers, integer symbols, floor(.) / int(.) results and dict cells"""
  if e.is_integer:
    return True
  if isinstance(e, (sp.floor, imp.trunc, cell, dsum, plen)):
    return True
  if isinstance(e, (sp.Add, sp.Mul)):
    return all(_integer_valued(a) for a in e.args)
  if isinstance(e, sp.Pow):
    return _integer_valued(e.base) and bool(e.exp.is_integer and e.exp.is_nonnegative)
  return False


def wfacts_atoms(f):
  out = set()
  for kind, e in f.items:
    if e is not None and isinstance(e, sp.Basic):
      out |= e.atoms(sp.Function)
  return out


def _loop_vars(ip, ev):
  node, head = ev[1], ev[2]
  tn = {n.id for n in ast.walk(node.target) if isinstance(n, ast.Name)} if isinstance(node, ast.For) else set()
  out = {}
  for n in sorted(ip._assigned(node.body) - tn):
    v = head.env.get(n)
    if isinstance(v, sp.Symbol):
      out[n] = v
  return out


def _rerun(ip, ev, facts=(), univ=()):
  node, head = ev[1], ev[2]
  st = head.clone()
  for r in facts:
    fs = st.facts.assume(r)
    if len(fs) != 1:
      raise AnalysisError('loop invariant is not a conjunction')
    st.facts = fs[0]
  st.univ = list(st.univ) + list(univ)
  n0 = len(st.events)
  return [(p, p.events[n0:]) for p, rv in ip.block(node.body, st)]


def _dict_of(st, oid):
  for dd in st.dicts():
    if dd.oid == oid:
      return dd
  raise AnalysisError('ranks dict not reachable in loop head state')


def _stores_into(e, oid):
  """does loop event e store into dict oid - directly or inside a nested loop?"""
  for q, _ in e[3]:
    for x in q.events[e[5]:]:
      if x[0] == 'dict-store' and x[1] == oid:
        return True
      if x[0] == 'loop' and _stores_into(x, oid):
        return True
  return False


def _iteration_problems(p, evs, oid, Dh, d, name, Ei, is_while):
  """obligations of ONE iteration of a top-up loop on path p (events evs), pool variable `name` = Ei at the head"""
  probs = []
  E1 = p.env.get(name)
  stores = {}
  for e in evs:
    if e[0] == 'dict-store' and e[1] == oid:
      stores[e[2]] = e[3]
  dR = sp.Integer(0)
  for k, v in stores.items():
    old = cell(Dh, k)
    # reading the old value instantiates "every rank <= d"
    p.facts.add('le', sp.expand(old - d))
    if v is None or not isinstance(v, sp.Basic):
      probs.append('a rank is overwritten by a non-numeric value')
      continue
    dR += v - old
    if not p.facts.entails(sp.Ge(v, old, evaluate=False)):
      probs.append(f'a rank can decrease: {_short(old)} -> {_short(v)}')
    if not p.facts.entails(sp.Le(v, d, evaluate=False)):
      probs.append(f'a rank can exceed dim: new value {_short(v)}')
  if not isinstance(E1, sp.Basic):
    probs.append('pool variable is not numeric after the iteration')
    return probs
  dE = sp.expand(E1 - Ei)
  if not p.facts.entails(sp.Le(sp.expand(dR + dE), 0, evaluate=False)):
    probs.append(f'ranks grow by {sp.expand(dR)} while the pool is charged {sp.expand(-dE)}: the group can exceed its budget')
  if not p.facts.entails(sp.Ge(E1, 0, evaluate=False)):
    probs.append(f'the pool can become negative ({_short(E1)})')
  if is_while:
    if not p.facts.entails(sp.Ge(Ei, 1, evaluate=False)):
      probs.append(f'the loop test does not guarantee that budget is left when the body runs (pool {_short(Ei)} not known >= 1)')
  elif not p.broke and not p.facts.entails(sp.Ge(E1, 1, evaluate=False)):
    probs.append(f'the loop continues with an exhausted pool (pool\' = {_short(E1)} not known >= 1): the next layer gets a rank the budget does not cover')
  return probs


def topup(ctx, fi, ip, T, oid, d, B, S):
  node, head, pre = T[1], T[2], T[6]
  lv = _loop_vars(ip, T)
  Dh = _dict_of(head, oid).sym()
  K = sp.Symbol('K*')
  univ = [(Dh, K, 'le', sp.expand(cell(Dh, K) - d))]
  best = None
  for name, E in lv.items():
    E0 = pre.env.get(name)
    probs = []
    if not isinstance(E0, sp.Basic):
      continue
    if not pre.facts.entails(sp.Le(E0, B - S, evaluate=False)):
      probs.append(f'entry: pool `{name}` = {_short(E0)} is not known to be <= budget - sum(ranks)')
    is_while = isinstance(node, ast.While)
    Ei = sp.Symbol(E.name, integer=True)
    if is_while:
      # the loop test itself must guarantee budget is left whenever the body runs
      paths = _rerun_subst(ip, T, {E: Ei}, [], univ)
      if not pre.facts.entails(sp.Ge(E0, 0, evaluate=False)):
        probs.append(f'entry: pool `{name}` = {_short(E0)} is not known to be >= 0')
    else:
      if not pre.facts.entails(sp.Ge(E0, 1, evaluate=False)):
        probs.append(f'entry: pool `{name}` = {_short(E0)} is not known to be >= 1 (the loop must only run when budget is left)')
      paths = _rerun_subst(ip, T, {E: Ei}, [sp.Ge(Ei, 1, evaluate=False)], univ)
    n_paths = 0
    for p, evs in paths:
      inner = [x for x in evs if x[0] == 'loop' and _stores_into(x, oid)]
      if not inner:
        n_paths += 1
        probs += _iteration_problems(p, evs, oid, Dh, d, name, Ei, is_while)
        continue
      # ranks are handed out by a loop nested in this one.  Invariant carried through both levels: every rank <= d and
      # pool <= budget - sum(ranks) (established at the entry of the outer loop, preserved by every inner iteration
      # that satisfies the per-iteration obligations, untouched by the outer loop's own statements).
      if any(e[0] == 'dict-store' and e[1] == oid for e in evs):
        probs.append('ranks are changed both by a nested loop and by the enclosing loop\'s own statements (not covered by the accounting)')
      for x in inner:
        xnode, xhead, xpre = x[1], x[2], x[6]
        Ex = xhead.env.get(name)
        Epre = xpre.env.get(name)
        if not isinstance(Ex, sp.Symbol) or not isinstance(Epre, sp.Basic):
          probs.append(f'the nested loop does not keep the pool `{name}` as a running variable')
          continue
        x_while = isinstance(xnode, ast.While)
        if not x_while and not xpre.facts.entails(sp.Ge(Epre, 1, evaluate=False)):
          probs.append(f'the nested loop can start with an exhausted pool (`{name}` = {_short(Epre)} not known >= 1)')
        Exi = sp.Symbol(Ex.name, integer=True)
        Dx = _dict_of(xhead, oid).sym()
        xuniv = [(Dx, K, 'le', sp.expand(cell(Dx, K) - d))]
        xpaths = _rerun_subst(ip, x, {Ex: Exi}, [] if x_while else [sp.Ge(Exi, 1, evaluate=False)], xuniv)
        for q, qevs in xpaths:
          n_paths += 1
          if any(y[0] == 'loop' and _stores_into(y, oid) for y in qevs):
            probs.append('ranks are handed out more than two loops deep (not analysed)')
            continue
          probs += _iteration_problems(q, qevs, oid, Dx, d, name, Exi, x_while)
      # after the nested loops the enclosing iteration must not give the pool back
      E_end = p.env.get(name)
      last = inner[-1]
      ends = {qq.env.get(name) for qq, _ in last[3]}
      if isinstance(E_end, sp.Basic) and E_end.free_symbols & {Ei} and E_end != Ei:
        probs.append(f'the enclosing loop changes the pool itself ({_short(E_end)}) around the nested loop')
    if n_paths == 0:
      probs.append('no feasible path through the loop body')
    cand = (len(probs), name, probs, n_paths)
    if best is None or cand < best:
      best = cand
  if best is None:
    ctx.ob('C17.R1', fi.short, 'top-up accounting', False, 'the top-up loop changes ranks but keeps no pool variable', ctx.loc(fi, node))
    return
  nprob, name, probs, n_paths = best
  ctx.need('C17.R1', n_paths, 2, 'paths through one top-up iteration')
  ctx.ob('C17.R1', fi.short, 'top-up accounting: ranks + pool never grow, ranks stay <= dim, loop leaves when the pool is used up', not probs,
         '; '.join(dict.fromkeys(probs)), ctx.loc(fi, node), sample=f'pool `{name}`: {n_paths} paths, d(ranks) + d(pool) <= 0')


def _rerun_subst(ip, ev, subst, facts, univ):
  """re-run one iteration with some head symbols replaced (e.g. by integer-typed twins)."""
  node, head = ev[1], ev[2]
  st = head.clone()
  for k, v in list(st.env.items()):
    if isinstance(v, sp.Basic):
      st.env[k] = v.subs(subst)
  for r in facts:
    fs = st.facts.assume(r)
    if len(fs) != 1:
      raise AnalysisError('loop invariant is not a conjunction')
    st.facts = fs[0]
  st.univ = list(st.univ) + list(univ)
  n0 = len(st.events)
  if isinstance(node, ast.While):
    # the body runs only when the loop test holds
    out = []
    rel = ip.cond(node.test, st)
    for f in st.facts.assume(rel):
      st2 = st.clone()
      st2.facts = f
      out.extend((p, p.events[n0:]) for p, rv in ip.block(node.body, st2))
    return out
  return [(p, p.events[n0:]) for p, rv in ip.block(node.body, st)]


def proportional(ctx, fi, ip, P, oid, G, d, B):
  node, head, pre = P[1], P[2], P[6]
  lv = _loop_vars(ip, P)
  # scores are non-negative: every component of the loop item
  item_atoms = set()
  for v in head.env.values():
    if isinstance(v, sp.Basic):
      for a in v.atoms(sp.Function):
        if isinstance(a, opq) and a.args and a.args[0] == sp.Symbol('getitem'):
          item_atoms.add(a)
  tvals = [head.env[n.id] for n in ast.walk(node.target) if isinstance(n, ast.Name) and n.id in head.env]
  item_syms = set()
  for v in tvals:
    if isinstance(v, sp.Basic):
      item_syms |= v.free_symbols
  nonneg = []
  for v in tvals:
    if isinstance(v, sp.Symbol):
      for i in (0, 1):
        nonneg.append(sp.Ge(opq(sp.Symbol('getitem'), v, sp.Integer(i)), 0, evaluate=False))
    elif isinstance(v, sp.Basic):
      nonneg.append(sp.Ge(v, 0, evaluate=False))
  d_pos = sp.Ge(d, 1, evaluate=False)
  best = None
  for name, C in lv.items():
    C0 = pre.env.get(name)
    if not isinstance(C0, sp.Basic):
      continue
    probs = []
    if not pre.facts.entails(sp.Le(C0, B - plen(G), evaluate=False)):
      probs.append(f'entry: pool `{name}` = {_short(C0)} is not known to be <= budget - len(group) (one rank per layer must be set aside before sharing)')
    if not pre.facts.entails(sp.Ge(C0, 0, evaluate=False)):
      probs.append(f'entry: pool `{name}` = {_short(C0)} is not known to be >= 0')
    paths = _rerun(ip, P, [sp.Ge(C, 0, evaluate=False), d_pos] + nonneg)
    n_paths = 0
    # which loop variable is the remaining score (a denominator), and which item component is the layer's score:
    # every share must have the proportional form  score * pool / remaining
    remaining = {}
    scores = set()
    bad_share = []
    for p, evs in paths:
      for e in evs:
        if e[0] == 'div':
          for n2, t in lv.items():
            if n2 != name and e[1] == t:
              remaining[n2] = t
    floors = set()
    for p, evs in paths:
      for kind, e_ in p.facts.items:
        if e_ is not None and isinstance(e_, sp.Basic):
          floors |= e_.atoms(sp.floor)
      for e in evs:
        if e[0] == 'dict-store' and isinstance(e[3], sp.Basic):
          floors |= e[3].atoms(sp.floor)
    lemmas = []
    for fl in floors:
      x = fl.args[0]
      if x == 0:
        continue
      ok_form = False
      for n2, t in remaining.items():
        cand_ = sp.simplify(x * t / C)
        if not (cand_.free_symbols & {t, C}) and cand_.free_symbols & item_syms:
          scores.add(cand_)
          ok_form = True
          # lemma (exact arithmetic): 0 <= floor(score * pool / remaining) <= pool  when 0 <= score <= remaining, pool >= 0
          lemmas.append(sp.Le(fl, C, evaluate=False))
          lemmas.append(sp.Ge(fl, 0, evaluate=False))
      if not ok_form:
        bad_share.append(fl)
    for fl in bad_share:
      probs.append(f'a share `{_short(fl)}` is not of the proportional form floor(score * pool / remaining score): the pool is not known to cover it')
    for p, evs in paths:
      n_paths += 1
      for lm in lemmas:
        fs = p.facts.assume(lm)
        if len(fs) == 1:
          p.facts = fs[0]
      stores = [(e[2], e[3]) for e in evs if e[0] == 'dict-store' and e[1] == oid]
      keys = {k for k, _ in stores}
      if len(keys) != 1:
        probs.append(f'an iteration stores {len(keys)} ranks (exactly one, for the current layer, is required)')
        continue
      k, A = stores[-1]
      if not (isinstance(k, sp.Basic) and k.free_symbols & item_syms):
        probs.append(f'the rank is stored under `{_short(k)}`, not under the current layer')
      if isinstance(k, sp.Basic) and any(k == sc_ for sc_ in scores):
        probs.append(f'the rank is stored under the layer\'s score `{_short(k)}`, not under its key')
      if not isinstance(A, sp.Basic):
        probs.append('the stored rank is not numeric')
        continue
      if not _integer_valued(A):
        probs.append(f'the stored rank `{_short(A)}` is not integer-valued')
      if not p.facts.entails(sp.Ge(A, 1, evaluate=False)):
        probs.append(f'the stored rank `{_short(A)}` is not known to be >= 1')
      if not p.facts.entails(sp.Le(A, d, evaluate=False)):
        probs.append(f'the stored rank `{_short(A)}` is not known to be <= dim on this path (the outlier test and the rank formula disagree)')
      C1 = p.env.get(name)
      if not isinstance(C1, sp.Basic) or not p.facts.entails(sp.Ge(sp.expand(C - C1 - (A - 1)), 0, evaluate=False)):
        probs.append(f'the pool is charged {_short(sp.expand(C - C1)) if isinstance(C1, sp.Basic) else "?"} for a rank of {_short(A)} (must be at least rank - 1)')
      elif not p.facts.entails(sp.Ge(C1, 0, evaluate=False)):
        probs.append(f'the pool can become negative ({_short(C1)}): later shares would be negative and ranks < 1')
      for e in evs:
        if e[0] == 'div' and not e[2]:
          probs.append(f'division by `{_short(e[1])}` whose positivity is not established on this path (a float32 difference can cancel to a negative number; truthiness is not enough)')
      for n2, t in remaining.items():
        t1 = p.env.get(n2)
        if not isinstance(t1, sp.Basic):
          continue
        delta = sp.expand(t - t1)
        if scores and not any(p.facts.entails(sp.Le(delta, sc_, evaluate=False)) for sc_ in scores):
          probs.append(f'the remaining score `{n2}` decreases by {_short(delta)}, more than the layer\'s own score {[_short(x_) for x_ in scores]}')
        if not p.facts.entails(sp.Ge(delta, 0, evaluate=False)) and scores:
          pass
    if n_paths == 0:
      probs.append('no feasible path through the loop body')
    pdata = []
    for p, evs in paths:
      st_ = [(e[2], e[3]) for e in evs if e[0] == 'dict-store' and e[1] == oid]
      if st_ and isinstance(st_[-1][1], sp.Basic):
        pdata.append((p.facts, st_[-1][1]))
    cand = (len(probs), name, probs, n_paths, pdata)
    if best is None or cand[:2] < best[:2]:
      best = cand
  if best is None:
    ctx.ob('C17.R3', fi.short, 'proportional loop accounting', False, 'the proportional loop keeps no pool variable', ctx.loc(fi, node))
    return []
  nprob, name, probs, n_paths, pdata = best
  ctx.need('C17.R3', n_paths, 2, 'paths through one proportional iteration')
  probs = list(dict.fromkeys(probs))
  groups_ = {'entry': [x for x in probs if x.startswith('entry')], 'division': [x for x in probs if x.startswith('division')],
             'rank': [x for x in probs if x not in [y for y in probs if y.startswith(('entry', 'division'))]]}
  ctx.ob('C17.R3', fi.short, 'one rank per layer is set aside before sharing (pool <= budget - len(group), >= 0)', not groups_['entry'],
         '; '.join(groups_['entry']), ctx.loc(fi, node), sample=f'pool `{name}` at entry: budget - len(group)')
  ctx.ob('C17.R3', fi.short, 'every division of the proportional phase has a positive denominator', not groups_['division'],
         '; '.join(groups_['division']), ctx.loc(fi, node), sample='x / total if total > 0 else 0.0')
  ctx.ob('C17.R3', fi.short, 'each layer gets one integer rank >= 1 and the pool is charged at least rank - 1', not groups_['rank'],
         '; '.join(groups_['rank']), ctx.loc(fi, node), sample=f'{n_paths} paths: rank in {{dim, floor(share) + 1}}, pool -= rank - 1')
  return pdata


def asserts_hold(ctx, fi, evs, pdata, oid, B, S):
  """R5: the assertions of a group iteration are implied by what the code before them establishes - they never trip,
  so an allocation is returned for every input (an assertion stricter than what the loops guarantee turns valid inputs
  into AssertionErrors)."""
  n = 0
  for e in evs:
    if e[0] == 'assert':
      rel, node, before = e[1], e[2], e[3]
      f = before.copy()
      if any(isinstance(a, dsum) for a in rel.atoms(sp.Function)):
        # what the proportional loop guarantees about the sum (R3: one unit per layer set aside, each rank charged)
        f.add('le', sp.expand(S - B))
      ok = f.entails(rel)
      n += 1
      ctx.ob('C17.R5', fi.short, f'assertion cannot trip: {_short(rel, 60)}', ok,
             f'`assert {_short(rel, 160)}` is not implied by what is established before it: valid inputs would raise AssertionError instead of getting an allocation',
             ctx.loc(fi, node), sample=_short(rel, 80))
    if e[0] == 'loop':
      for qq, _ in e[3]:
        for x in qq.events[e[5]:]:
          if x[0] == 'assert':
            rel, node = x[1], x[2]
            cells = [a for a in rel.atoms(sp.Function) if isinstance(a, cell)]
            if not cells or not pdata:
              continue
            bad = []
            for facts, A in pdata:
              r2 = rel
              for c in cells:
                r2 = r2.subs(c, A)
              if not facts.entails(r2):
                bad.append(_short(A))
            n += 1
            ctx.ob('C17.R5', fi.short, f'assertion over all ranks cannot trip: {_short(rel, 60)}', not bad,
                   f'`assert {_short(rel, 120)}` can fail for a rank the proportional loop hands out ({", ".join(dict.fromkeys(bad))}): such inputs raise instead of getting an allocation',
                   ctx.loc(fi, node), sample=_short(rel, 80))
  return n


def groups(ctx):
  m = ctx.model
  fg = m.func(RM, 'create_groups')
  ctx.analysed(fg)
  ip = Interp(fg.node)
  paths = ip.run()
  loops = [e for p, _ in paths for e in p.events if e[0] == 'loop']
  outer = [e for e in loops if any(x[0] == 'dict-store' or (x[0] == 'call' and x[1] == '.append') for q, _ in e[3] for x in q.events[e[5]:])]
  if len(outer) != 1:
    raise AnalysisError(f'create_groups: expected one loop over the layers, found {len(outer)}')
  ev = outer[0]
  node, head = ev[1], ev[2]
  name_sym = head.env.get(node.target.id) if isinstance(node.target, ast.Name) else None
  if name_sym is None and isinstance(node.target, (ast.Tuple, ast.List)):
    # for name, entry in zip(layer_names, ...): the element that walks the `layer_names` parameter
    zs = getattr(head, 'zipsrc', {})
    hits = [t.id for t in node.target.elts if isinstance(t, ast.Name) and isinstance(zs.get(t.id), ast.Name) and zs[t.id].id == 'layer_names']
    if len(hits) == 1:
      name_sym = head.env.get(hits[0])
  n_paths = 0
  keys_seen = set()
  ok_member = True
  ok_key = True
  why = []
  for q, _ in ev[3]:
    n_paths += 1
    evs = q.events[ev[5]:]
    placed = []
    for e in evs:
      if e[0] == 'dict-store':
        placed.append((e[2], 'new', e[3]))
      if e[0] == 'call' and e[1] == '.append' and isinstance(e[2][0], cell):
        placed.append((e[2][0].args[1], 'append', e[2][1] if len(e[2]) > 1 else None))
    if len(placed) != 1:
      ok_member = False
      why.append(f'a layer is placed {len(placed)} times')
      continue
    k, how, val = placed[0]
    member = val if how == 'append' else (val[0] if isinstance(val, imp.Tup) and len(val) == 1 else None)
    if name_sym is None or member is None or imp.as_sym(member) != name_sym:
      ok_member = False
      why.append(f'the group receives `{_short(imp.as_sym(val) if val is not None else None)}`, not the layer name')
    # key: <node>['dim'] or <node>['eigvecs'].shape[0]
    form = None
    if isinstance(k, opq) and k.args[0] == sp.Symbol('getitem'):
      base, sub = k.args[1], k.args[2]
      if sub == sp.Symbol('str:dim'):
        form = 'dim'
      elif sub == 0 and isinstance(base, opq) and base.args[0] == sp.Symbol('attr:shape') and isinstance(base.args[1], opq) and \
          base.args[1].args[0] == sp.Symbol('getitem') and base.args[1].args[2] == sp.Symbol('str:eigvecs'):
        form = 'eigvecs.shape[0]'
    has_dim = sp.Symbol  # placeholder to keep flake quiet
    in_dim = [e for kind, e in q.facts.items if kind in ('true', 'false') and str(e).startswith('in(str:dim,')]
    cond_dim = any(kind == 'true' for kind, e in q.facts.items if str(e).startswith('in(str:dim,'))
    cond_nodim = any(kind == 'false' for kind, e in q.facts.items if str(e).startswith('in(str:dim,'))
    if form is None or (form == 'dim' and not cond_dim) or (form == 'eigvecs.shape[0]' and not cond_nodim):
      ok_key = False
      why.append(f'group key `{_short(k)}` is not the axis dimension (the `dim` entry when present, else the rows of `eigvecs`)')
    keys_seen.add(form)
  ctx.need('C17.R4', n_paths, 2, 'paths through create_groups (dim entry present / absent)')
  ctx.ob('C17.R4', fg.short, 'groups keyed by the axis dimension', ok_key and keys_seen == {'dim', 'eigvecs.shape[0]'},
         '; '.join(dict.fromkeys(w for w in why if 'key' in w)) or f'key forms seen: {sorted(str(x) for x in keys_seen)}', ctx.loc(fg, node),
         sample="key = node['dim'] | node['eigvecs'].shape[0]")
  ctx.ob('C17.R4', fg.short, 'every layer lands in exactly one group', ok_member, '; '.join(dict.fromkeys(w for w in why if 'key' not in w)), ctx.loc(fg, node),
         sample='groups[key].append(name) | groups[key] = [name]')
