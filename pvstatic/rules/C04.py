"""C04 - refresh cadence, step counter and warm-up switch.

Decided statically:
  K1  every update path rebuilds its state with count = <incoming count> + 1
      (Distributed Shampoo replicated + sharded, SM3, Tearfree Shampoo/Sketchy/grafting);
  K2  every refresh guard is `incoming_count % interval == 0` (interval = the configured
      option or preconditioning_compute_steps_schedule(...)), the count reaching the
      per-parameter helpers is the incoming state's count with no arithmetic in between;
  K3  the not-taken arm of every guarded refresh returns the incoming slots themselves
      (statistics, blocks, sketches, metrics) - what makes non-refresh steps bit-identical;
      a statistics refresh passes roots through and a root refresh passes statistics
      through; Sketchy's ekfac `update_sketches=False` arm restores the five sketch slots;
  K4  the root refresh consumes the statistics produced on the same step;
  K5  warm-up switch is `incoming_count >= start` with the preconditioned value on the
      true side and the graft value on the false side;
  K6  the scheduled interval is clamped from below by a constant >= 1 at the outermost level;
  EC  efficient_cond implements "predicate ? compute() : init".
Not decided: traced non-integer schedule values; that roots numerically reflect the statistics.
"""
from __future__ import annotations

from ..lib import (evaluator, Decider, econd_summary, check_efficient_cond, is_ext_call, strip_casts,
                   walk, show, select_arms, rec_fields, path_str, ext_name, leaves, dep_names, fn_name, method_name,
                   list_elements)
from ..spec import spec_term, Comparer
from ..terms import T, sym, const, is_const, cval, NONE
from ..model import AnalysisError
from . import ds_common as D
from .C03 import pure_projection

ASSUMPTIONS = [
    'lax.cond / efficient_cond evaluate exactly one arm; the not-taken arm value is returned bit-for-bit',
    'jax.tree.map applies its function leaf-wise',
]


def parse_mod_guard(p):
  """p == (c % k == 0) in any recognised spelling -> (c, k) else None."""
  p = strip_casts(p)
  if p.op == 'cmp' and p.args[0] == '==':
    a, b = strip_casts(p.args[1]), strip_casts(p.args[2])
    if is_const(a, 0):
      a, b = b, a
    if is_const(b, 0):
      return _mod(a)
  if is_ext_call(p, 'jax.numpy.equal') and len(p.args[1]) == 2:
    a, b = [strip_casts(x) for x in p.args[1]]
    if is_const(a, 0):
      a, b = b, a
    if is_const(b, 0):
      return _mod(a)
  if p.op == 'un' and p.args[0] == 'not':
    return _mod(strip_casts(p.args[1]))
  if is_ext_call(p, 'jax.numpy.logical_not') and p.args[1]:
    return _mod(strip_casts(p.args[1][0]))
  return None


def _mod(a):
  a = strip_casts(a)
  if a.op == 'bin' and a.args[0] == '%':
    return strip_casts(a.args[1]), strip_casts(a.args[2])
  if is_ext_call(a, 'jax.numpy.mod', 'jax.numpy.remainder') and len(a.args[1]) == 2:
    return strip_casts(a.args[1][0]), strip_casts(a.args[1][1])
  return None


def is_path(t, root, *fields):
  """t is root.f1.f2... where root is a param/sym named `root`."""
  p = path_str(t)
  if p is None:
    return False
  return p == '.'.join((root,) + fields)


def run(ctx):
  check_efficient_cond(ctx, 'C04.EC')
  counters(ctx)
  ds_guards(ctx)
  ds_step_threading(ctx)
  sharded_root_operands(ctx)
  ds_warmup(ctx)
  tearfree_shampoo(ctx)
  tearfree_sketchy(ctx)
  tearfree_graft(ctx)
  schedule(ctx)
  # "bit-identical between refreshes": on a non-refresh step the candidate is a placeholder and the error a sentinel that the
  # acceptance gate must reject (non-strict comparison with the threshold, same dtype) - the gate rules decide that
  from . import C03
  C03.run_gate(ctx)


# ------------------------------------------------------------------ K1
def counters(ctx):
  m = ctx.model
  sites = [
      ('distributed_shampoo', 'distributed_shampoo.update_fn', 'ShampooState', 'state',
       {'_compute_stats', '_compute_preconditioners', '_transform_grad'}),
      ('distributed_shampoo', 'distributed_shampoo.sharded_update_fn', 'ShampooState', 'state', D.OPAQUE | {'_convert_to_parameter_stats', '_convert_from_parameter_stats', '_add_metrics_into_local_stats', '_update_preconditioners_fn'}),
      ('sm3', 'sm3.update_fn', 'SM3State', 'state', {'_moving_averages', '_sketch_diagonal_statistics', '_moving_averages_momentum', '_quantize_momentum'}),
      ('tearfree.shampoo', '_update', '_ShampooState', 'state', {'_blockify', '_deblockify', '_blocks_metadata', '_precondition_blocks', '_update_block_stats', '_update_block_precond'}),
      ('tearfree.sketchy', '_update', '_SketchyState', 'state', {'_update_sketches', '_precondition'}),
      ('tearfree.grafting', '_graft_with.update_fn', 'GraftingState', 'state', {'_mask_skipped', '_masked'}),
  ]
  n = 0
  for mod, q, cls, st, opaque in sites:
    fi = m.func(mod, q)
    ctx.analysed(fi)
    ev = evaluator(m, opaque=opaque, summaries={'efficient_cond': econd_summary})
    r = ev.run(fi)
    cons = [c for c in ev.calls if c.via == 'construct' and c.callee.endswith('.' + cls) and c.caller == fi.fq]
    if not cons:
      raise AnalysisError(f'{q}: state constructor {cls}(...) not found on the update path')
    cmpr = Comparer()
    for c in cons:
      cnt = c.args.get('count')
      exp = spec_term(ev, 'state.count + 1', {'state': sym('param', fi.short, st)})
      ok = cnt is not None and cmpr.same(cnt, exp)
      n += 1
      ctx.ob('C04.K1', fi.short, f'{cls}.count', ok,
             f'new state count is `{cmpr.fmt(cnt) if cnt is not None else None}`, must be incoming count + 1',
             ctx.loc(fi), sample='count = state.count + 1')
    # the returned state is one of those constructors
    ret_ok = any(x is c.result for c in cons for x in walk(r))
    ctx.ob('C04.K1', fi.short, f'{cls} returned', ret_ok, 'the rebuilt state record is not what the update returns', ctx.loc(fi),
           sample='update returns the rebuilt state')
  ctx.need('C04.K1', n, 6, 'state constructors with a count')


# ------------------------------------------------------------------ K2/K3 Distributed Shampoo
def _interval_ok(k, v, which):
  """k is the configured interval (or the schedule call when scheduled)."""
  k = strip_casts(k)
  scheduled = v is not None and v.get('scheduled') and which == 'preconditioning_compute_steps'
  if scheduled:
    # under a scheduled interval the guard must use the interval scheduled for THIS step, not the configured start value
    if fn_name(k) == 'preconditioning_compute_steps_schedule':
      args = k.args[1]
      return len(args) == 4 and args[1].op == 'sym' and args[1].args[-1] == which
    return False
  return k.op == 'sym' and k.args[0] == 'cfg' and k.args[-1] == which


def ds_guards(ctx):
  m = ctx.model
  n_guards = 0
  # statistics refresh in _compute_stats
  fi = m.func(D.MOD, 'distributed_shampoo._compute_stats')
  ctx.analysed(fi)
  for skip in (False,):
    d = Decider(truth={'frequent_directions': False, 'average_grad': False},
                cmps={('statistics_compute_steps', '>', 1): True}, calls={('_skip_preconditioning',): skip})
    ev = evaluator(m, decide=d, opaque={'preconditioner_from_params', '_skip_preconditioning', 'updated_statistics_from_grad'},
                   summaries={'efficient_cond': econd_summary})
    state = sym('param', fi.short, 'state')
    r = ev.run(fi)
    rf = rec_fields(r)
    if rf is None:
      raise AnalysisError('_compute_stats does not return a ParameterStats record')
    st = rf['statistics']
    if st.op == 'call' and st.args[0].op == 'builtin' and st.args[0].args[0] == 'list':
      st = st.args[1][0]
    ok = st.op == 'cond'
    ctx.ob('C04.K2', fi.short, 'statistics: guarded refresh', ok,
           f'with statistics_compute_steps > 1 the statistics must be refreshed under a step guard; got `{show(st, maxdepth=3)[:120]}`',
           ctx.loc(fi), sample='efficient_cond(step % statistics_compute_steps == 0, compute, state.statistics)')
    if ok:
      g = parse_mod_guard(st.args[0])
      okg = g is not None and g[0].op == 'sym' and g[0].args[-1] == 'step' and _interval_ok(g[1], None, 'statistics_compute_steps')
      n_guards += 1
      ctx.ob('C04.K2', fi.short, 'statistics: guard form', okg,
             f'statistics refresh guard must be step % statistics_compute_steps == 0; got `{show(st.args[0], maxdepth=5)[:160]}`',
             ctx.loc(fi), sample='step % statistics_compute_steps == 0')
      init = st.args[2]
      elems = list_elements(init) if init.op in ('tuple', 'list') else [init]
      oki = all(pure_projection(e, {'state'}) and 'statistics' in show(e) for e in elems) and bool(elems)
      ctx.ob('C04.K3', fi.short, 'statistics: identity arm', oki,
             f'on non-refresh steps the statistics must be the incoming state.statistics; got `{show(init, maxdepth=4)[:120]}`',
             ctx.loc(fi), sample='not-taken arm = state.statistics')
    # pass-through slots
    for slot in ('diagonal_statistics', 'preconditioners', 'diagonal_momentum', 'momentum', 'training_metrics'):
      ctx.ob('C04.K3', fi.short, f'{slot}: pass-through', is_path(rf[slot], 'state', slot),
             f'_compute_stats must pass `{slot}` through unchanged; got `{show(rf[slot], maxdepth=3)[:100]}`', ctx.loc(fi),
             sample=f'{slot} = state.{slot}', trivial=True)
  # always-refresh shortcut when the interval is 1
  d = Decider(truth={'frequent_directions': False, 'average_grad': False},
              cmps={('statistics_compute_steps', '>', 1): False}, calls={('_skip_preconditioning',): False})
  ev = evaluator(m, decide=d, opaque={'preconditioner_from_params', '_skip_preconditioning', 'updated_statistics_from_grad'},
                 summaries={'efficient_cond': econd_summary})
  rf = rec_fields(ev.run(fi))
  ctx.ob('C04.K2', fi.short, 'statistics: interval 1 shortcut', (fn_name(rf['statistics']) == 'updated_statistics_from_grad' or method_name(rf['statistics']) == 'updated_statistics_from_grad'),
         'with statistics_compute_steps <= 1 statistics are recomputed unconditionally', ctx.loc(fi),
         sample='interval 1 => unconditional refresh')

  # preconditioner refresh in the three mode functions
  for q, fixed, cls, slot in D.MODES:
    for v in D.valuations(ctx.thorough):
      fi, ev, r = D.eval_mode(m, q, fixed, v)
      ctx.analysed(fi)
      ctx.evaluations += 1
      vtag = ','.join(f'{k}={int(b)}' for k, b in v.items())
      if r.op == 'ite' and q != 'sharded_update_fn':
        # the early `return states`: taken exactly when there is nothing to precondition
        from ..lib import when_empty
        ve = when_empty(r.args[0])
        unchanged = r.args[1] if ve else r.args[2]
        ok_e = ve is not None and unchanged.op == 'sym' and unchanged.args[-1] == 'states'
        ctx.ob('C04.K2', fi.short, f'states returned unchanged only when there are no statistics [{vtag}]', ok_e,
               f'the early return of the incoming states must be taken exactly when no parameter is preconditioned; test `{show(r.args[0], maxdepth=3)[:100]}` '
               f'returns `{show(unchanged, maxdepth=2)[:60]}` in that case', ctx.loc(fi), sample='if not packed_statistics: return states')
      count_term = sym('param', fi.short, 'step') if q != 'sharded_update_fn' else None
      # refresh conds = conds whose taken arm contains the root computation and whose other arm does not
      cons0 = D.constructor_calls(ev, cls, '.' + q)
      if not cons0:
        raise AnalysisError(f'{q}: no {cls}(...) constructor found on the update path')
      slot_t = cons0[0].args[slot]
      guards = [c for c in D.conds_in(slot_t) if parse_mod_guard(c.args[0]) is not None]
      refresh = [c for c in guards if D.contains_root_call(c.args[1]) and not D.contains_root_call(c.args[2])]
      for c in guards:
        if D.contains_root_call(c.args[2]) and not D.contains_root_call(c.args[1]):
          ctx.ob('C04.K2', fi.short, f'refresh polarity [{vtag}]', False,
                 'a refresh guard computes the roots on its FALSE arm', ctx.loc(fi))
      if v['steps1'] and not v['scheduled']:
        ctx.ob('C04.K2', fi.short, f'preconditioners: interval 1 shortcut [{vtag}]', not refresh and D.contains_root_call(slot_t),
               'with preconditioning_compute_steps == 1 roots are recomputed unconditionally', ctx.loc(fi),
               sample='interval 1 => unconditional refresh')
        continue
      # no root computation may be reachable off the guard: every root call sits on the taken arm of a step guard, or on
      # the `interval == 1` arm of the scheduled dispatcher (there every step is a refresh step)
      stray = _unguarded_roots(slot_t)
      ctx.ob('C04.K2', fi.short, f'preconditioners: no root computation off the guard [{vtag}]', not stray,
             f'a root computation is reachable on a step that is not a multiple of the interval: `{show(stray[0], maxdepth=3)[:120] if stray else ""}` '
             'is neither under `count % interval == 0` nor on the interval == 1 arm', ctx.loc(fi), sample='all root calls guarded')
      inner = [c for c in refresh if parse_mod_guard(c.args[0]) is not None]
      ctx.ob('C04.K2', fi.short, f'preconditioners: guarded refresh [{vtag}]', bool(inner),
             'the root computation is not under a `count % interval == 0` guard', ctx.loc(fi),
             sample='efficient_cond(step % k == 0, roots, init)')
      for c in inner:
        cc, kk = parse_mod_guard(c.args[0])
        if q == 'sharded_update_fn':
          okc = is_path(cc, 'state', 'count')
        else:
          okc = cc.op == 'sym' and cc.args[-1] == 'step'
        okk = _interval_ok(kk, v, 'preconditioning_compute_steps')
        if okk and v['scheduled']:
          sch = kk.args[1][3]
          okk = (is_path(sch, 'state', 'count') if q == 'sharded_update_fn' else (sch.op == 'sym' and sch.args[-1] == 'step'))
        n_guards += 1
        ctx.ob('C04.K2', fi.short, f'preconditioners: guard form [{vtag}]', okc and okk,
               f'preconditioner refresh guard must be incoming_count % preconditioning_compute_steps[_schedule] == 0; got `{show(c.args[0], maxdepth=5)[:200]}`',
               ctx.loc(fi), sample='step % preconditioning_compute_steps_t == 0')
      # metrics identity arm
      if v['metrics']:
        if q == 'sharded_update_fn':
          continue
        cons = D.constructor_calls(ev, cls, '.' + q)
        for c in cons:
          tm = c.args.get('training_metrics')
          mconds = [x for x in D.conds_in(tm) if parse_mod_guard(x.args[0]) is not None and not D.contains_root_call(x.args[2])
                    and pure_projection(_first(x.args[2]), {'state', 'states'})]
          ctx.ob('C04.K3', fi.short, f'training_metrics: identity arm [{vtag}]', bool(mconds),
                 'on non-refresh steps the stored training metrics must be the incoming state.training_metrics',
                 ctx.loc(fi), sample='efficient_cond(perform_step, new metrics, [state.training_metrics])')
      # pass-through slots of the rebuilt per-parameter records
      if cls == 'ParameterStats':
        for c in D.constructor_calls(ev, cls, '.' + q):
          for s_ in ('diagonal_statistics', 'statistics', 'diagonal_momentum', 'momentum', 'avg_grad'):
            ctx.ob('C04.K3', fi.short, f'{s_}: pass-through', pure_projection(c.args[s_], {'states', 'state'}) and s_ in show(c.args[s_]),
                   f'the preconditioner refresh must not touch `{s_}`', ctx.loc(fi), trivial=True, sample=f'{s_} = state.{s_}')
  ctx.need('C04.K2', n_guards, 6, 'refresh guards in Distributed Shampoo')
  dispatcher(ctx)
  scheduled_flag(ctx)
  sharded_metrics(ctx)


def _is_interval_one(c):
  """c is `<interval> == 1` (canonical polarity) for a preconditioning interval value"""
  if c.op != 'cmp' or c.args[0] != '==':
    return False
  a, b = c.args[1], c.args[2]
  if is_const(a, 1):
    a, b = b, a
  return is_const(b, 1) and 'preconditioning_compute_steps' in show(a, maxdepth=6)


def _unguarded_roots(t):
  out = []
  seen = set()

  def rec(x, guarded):
    if (x, guarded) in seen:
      return
    seen.add((x, guarded))
    if x.op == 'call' and x.args[0].op == 'fn' and x.args[0].args[0].split('.')[-1] in D.ROOT_CALLS and not guarded:
      out.append(x)
    if x.op in ('cond', 'ite') and len(x.args) == 3:
      c = x.args[0]
      if parse_mod_guard(c) is not None or _is_interval_one(c):
        rec(c, guarded)
        rec(x.args[1], True)
        rec(x.args[2], guarded)
        return
    for a in x.args:
      if isinstance(a, T):
        rec(a, guarded)
      elif isinstance(a, tuple):
        for y in a:
          if isinstance(y, T):
            rec(y, guarded)
          elif isinstance(y, tuple):
            for z in y:
              if isinstance(z, T):
                rec(z, guarded)
  rec(t, False)
  return out


def scheduled_flag(ctx):
  """K6b: the three refresh functions agree on when the preconditioning interval is scheduled - exactly when
  decay_preconditioning_compute_steps and end_preconditioning_compute_steps are set and the learning rate is a schedule -
  and hand that flag to the dispatcher (an `or` here makes the traced interval a python int in one mode and a tracer in
  another)."""
  m = ctx.model
  cmpr = Comparer()
  cfg = lambda n: sym('cfg', D.F, n)
  n = 0
  for q in ('_pmap_compute_preconditioners', '_pmap_quantized_compute_preconditioners', 'sharded_update_fn'):
    fi = m.func(D.MOD, D.F + '.' + q)
    ctx.analysed(fi)
    ev = evaluator(m, opaque=D.OPAQUE | {'_update_preconditioners_fn', '_convert_to_parameter_stats', '_convert_from_parameter_stats',
                                          '_add_metrics_into_local_stats', 'pad_and_maybe_zero_preconditioners'},
                   summaries={'efficient_cond': econd_summary})
    ev.run(fi)
    ctx.evaluations += 1
    exp = spec_term(ev, 'd and e and callable(lr)', {'d': cfg('decay_preconditioning_compute_steps'), 'e': cfg('end_preconditioning_compute_steps'),
                                                     'lr': cfg('learning_rate')})
    for c in [c for c in ev.calls if c.callee.endswith('._update_preconditioners_fn')]:
      n += 1
      got = c.args.get('scheduled', NONE)
      okf = cmpr.same(got, exp)
      if not okf:
        # however the flag is computed: its truth table over (decay set, end set, learning rate callable) is the conjunction
        from ..ideal import Point
        import itertools as _it
        D_, E_ = cfg('decay_preconditioning_compute_steps'), cfg('end_preconditioning_compute_steps')
        LR = cfg('learning_rate')
        is_callable = lambda t: t.op == 'call' and t.args[0].op == 'builtin' and t.args[0].args[0] == 'callable' and len(t.args[1]) == 1 and t.args[1][0] is LR
        rows = []
        for vd, ve, vc in _it.product([False, True], repeat=3):
          pt = Point(lambda t, vd=vd, ve=ve, vc=vc: ('bool', vd) if t is D_ else (('bool', ve) if t is E_ else (('bool', vc) if is_callable(t) else None)))
          v_ = pt.ival(got)
          rows.append(v_ is not None and v_ != 'indet' and bool(v_[1]) == (vd and ve and vc))
        okf = all(rows)
      ctx.ob('C04.K6', fi.short, 'interval is scheduled iff decay and end are set and the learning rate is a schedule', okf,
             f'the `scheduled` flag handed to the dispatcher must be decay_preconditioning_compute_steps and end_preconditioning_compute_steps and '
             f'callable(learning_rate); got `{show(got, maxdepth=4)[:200]}`', ctx.loc(fi, c.node) if c.node is not None else ctx.loc(fi),
             sample='decay and end and callable(learning_rate)')
  ctx.need('C04.K6', n, 3, 'dispatcher calls')


def dispatcher(ctx):
  """K2d: `_update_preconditioners_fn` runs the every-step function exactly when the interval is 1 and the guarded
  function otherwise, in all four (quantized, scheduled) modes."""
  m = ctx.model
  fi = m.func(D.MOD, '_update_preconditioners_fn')
  ctx.analysed(fi)
  P = lambda n: sym('param', fi.short, n)
  for q in (True, False):
    for sch in (True, False):
      ev = evaluator(m, decide=Decider(truth={'quantized': q, 'scheduled': sch}))
      r = ev.run(fi)
      ctx.evaluations += 1
      if r.op != 'tuple':
        raise AnalysisError('_update_preconditioners_fn does not return a tuple')
      n = 0
      for i, x in enumerate(r.args):
        if is_const(x, None):
          continue
        n += 1
        sa = select_arms(x)
        ok = sa is not None and sa[1].op == 'cmp' and sa[1].args[0] == '==' and \
            ((sa[1].args[1] is P('steps') and is_const(sa[1].args[2], 1)) or (sa[1].args[2] is P('steps') and is_const(sa[1].args[1], 1)))
        if ok:
          every, gated = sa[2], sa[3]
          ok = any(y.op == 'call' and y.args[0] is P('update_preconditioners_every_fn') for y in walk(every)) and \
              not any(y.op == 'call' and y.args[0] is P('update_preconditioners_fn') for y in walk(every)) and \
              any(y.op == 'call' and y.args[0] is P('update_preconditioners_fn') for y in walk(gated)) and \
              not any(y.op == 'call' and y.args[0] is P('update_preconditioners_every_fn') for y in walk(gated))
        ctx.ob('C04.K2', fi.short, f'dispatch on interval == 1 [quantized={q},scheduled={sch},out={i}]', ok,
               f'the unguarded every-step refresh may run only when the interval is exactly 1, the guarded one otherwise; got `{show(x, maxdepth=4)[:200]}`',
               ctx.loc(fi), sample='steps == 1 ? every_fn() : guarded_fn()')
      ctx.need('C04.K2', n, 2, 'outputs of _update_preconditioners_fn')


def _first(t):
  if t.op in ('tuple', 'list') and t.args:
    return t.args[0]
  return t


def sharded_metrics(ctx):
  """_add_metrics_into_local_stats(local_stats, metrics, keep_old): keep_old selects the old metrics,
  and the sharded update passes ~perform_step."""
  m = ctx.model
  fi = m.func(D.MOD, '_add_metrics_into_local_stats')
  ctx.analysed(fi)
  ev = evaluator(m, summaries={'efficient_cond': econd_summary})
  r = ev.run(fi)
  conds = [c for c in D.conds_in(r)]
  ok = False
  for c in conds:
    if c.args[0].op == 'sym' and c.args[0].args[-1] == 'keep_old':
      t_arm = _first(c.args[1])
      ok = pure_projection(t_arm, {'local_stats'}) and 'training_metrics' in show(t_arm)
  ctx.ob('C04.K3', fi.short, 'keep_old selects the old metrics', ok,
         'efficient_cond(keep_old, ...) must return local_stat.training_metrics when keep_old is true', ctx.loc(fi),
         sample='keep_old ? local_stat.training_metrics : new')
  fu = m.func(D.MOD, 'distributed_shampoo.sharded_update_fn')
  v = dict(scheduled=False, steps1=False, reuse=False, metrics=True)
  d = D.make_decider(v, {})
  ev = evaluator(m, opaque=D.OPAQUE | {'_add_metrics_into_local_stats'}, decide=d, summaries={'efficient_cond': econd_summary})
  ev.run(fu)
  calls = [c for c in ev.calls if c.callee.endswith('._add_metrics_into_local_stats')]
  ctx.need('C04.K3', len(calls), 1, 'call to _add_metrics_into_local_stats in sharded_update_fn')
  for c in calls:
    ko = strip_casts(c.args.get('keep_old', NONE))
    inner = None
    if ko.op == 'un' and ko.args[0] in ('~', 'not'):
      inner = ko.args[1]
    elif is_ext_call(ko, 'jax.numpy.logical_not') and ko.args[1]:
      inner = ko.args[1][0]
    g = parse_mod_guard(inner) if inner is not None else None
    ctx.ob('C04.K3', fu.short, 'sharded metrics keep_old = not perform_step', g is not None and is_path(g[0], 'state', 'count'),
           f'keep_old must be the negated refresh guard; got `{show(ko, maxdepth=5)[:120]}`', ctx.loc(fu),
           sample='keep_old = ~(state.count % k == 0)')


def sharded_root_operands(ctx):
  """K4 (sharded mode): the refresh inside `sharded_update_fn` takes the roots of THIS step's statistics - the first
  operand of the batched root computation is the stack of the padded statistics returned by `_compute_stats` on this
  step (not the stacked statistics of the incoming state, which lag one step behind), and the exponents are the
  stored ones."""
  m = ctx.model
  q, fixed, cls, slot = D.MODES[-1]
  n = 0
  for v in D.valuations(ctx.thorough):
    fi, ev, r = D.eval_mode(m, q, fixed, v)
    ctx.analysed(fi)
    ctx.evaluations += 1
    vtag = ','.join(f'{k}={int(b)}' for k, b in v.items())
    roots = list(dict.fromkeys(x for x in walk(r) if fn_name(x) == '_matrix_inverse_pth_root_pjit'))
    if not roots:
      raise AnalysisError(f'{q}: no batched root computation found [{vtag}]')
    callee = m.func(D.MOD, 'distributed_shampoo._matrix_inverse_pth_root_pjit')
    names = [a.arg for a in callee.node.args.args]
    for x in roots:
      n += 1
      bound = dict(zip(names, x.args[1]))
      bound.update(dict(x.args[2]))
      xs = bound.get('xs', NONE)
      pads = [y for y in walk(xs) if fn_name(y) == 'pad_square_matrix']
      fresh = any(fn_name(z) == '_compute_stats' for y in pads for z in walk(y.args[1][0])) if pads else \
          any(fn_name(z) == '_compute_stats' for z in walk(xs))
      ctx.ob('C04.K4', fi.short, f'sharded roots computed from this step\'s statistics [{vtag}]', fresh,
             f'the statistics handed to _matrix_inverse_pth_root_pjit must be the ones _compute_stats returned on this step; got `{show(xs, maxdepth=4)[:160]}`',
             ctx.loc(fi), sample='_matrix_inverse_pth_root_pjit(stack(pad(new statistics)), ...)')
      ps = bound.get('ps', NONE)
      ctx.ob('C04.K4', fi.short, f'sharded roots use the stored exponents [{vtag}]', is_path(ps, 'state', 'stats', 'global_stats', 'exponents'),
             f'the exponents handed to _matrix_inverse_pth_root_pjit must be state.stats.global_stats.exponents; got `{show(ps, maxdepth=4)[:120]}`',
             ctx.loc(fi), sample='global_stats.exponents')
      pst = bound.get('padding_starts', NONE)
      okp = any(y.op == 'call' and y.args[0].op == 'builtin' and y.args[0].args[0] == 'len' for y in walk(pst)) and \
          not any(is_path(y, 'state', 'stats', 'global_stats', 'exponents') for y in walk(pst))
      ctx.ob('C04.K4', fi.short, f'sharded roots masked with the statistics\' own sizes [{vtag}]', okp,
             f'the padding starts handed to _matrix_inverse_pth_root_pjit must be the sizes of this step\'s statistics; got `{show(pst, maxdepth=4)[:120]}`',
             ctx.loc(fi), sample='array([len(stat) ...] + [0] * to_pad)')
  ctx.need('C04.K4', n, 3, 'sharded root computations')


def ds_step_threading(ctx):
  """The step seen by the per-parameter helpers is the incoming state.count."""
  m = ctx.model
  n = 0
  for q in ('update_fn', 'sharded_update_fn'):
    fi = m.func(D.MOD, 'distributed_shampoo.' + q)
    ctx.analysed(fi)
    ev = evaluator(m, opaque=D.OPAQUE | {'_compute_preconditioners', '_convert_to_parameter_stats', '_convert_from_parameter_stats',
                                         '_add_metrics_into_local_stats', '_update_preconditioners_fn'},
                   summaries={'efficient_cond': econd_summary})
    r = ev.run(fi)
    want = {'_compute_stats': 'step', '_transform_grad': 'step'}
    if q == 'update_fn':
      want['_compute_preconditioners'] = 'step'
    for callee, pname in want.items():
      calls = [c for c in ev.calls if c.callee.endswith('.' + callee) and c.args is not None]
      if not calls:
        raise AnalysisError(f'{q}: call to {callee} not found')
      for c in calls:
        st = c.args.get(pname)
        n += 1
        ctx.ob('C04.K2', fi.short, f'{callee}(step=state.count)', st is not None and is_path(st, 'state', 'count'),
               f'{callee} must receive the incoming state.count as its step; got `{show(st, maxdepth=4) if st is not None else None}`',
               ctx.loc(fi), sample=f'{callee}(..., state.count)')
    # K4: ordering
    if q == 'update_fn':
      cp = [c for c in ev.calls if c.callee.endswith('._compute_preconditioners')][0]
      ok1 = any(fn_name(x) == '_compute_stats' for x in walk(cp.args['states']))
      tg = [c for c in ev.calls if c.callee.endswith('._transform_grad')][0]
      ok2 = any(fn_name(x) == '_compute_preconditioners' for x in walk(tg.args['state']))
      ctx.ob('C04.K4', fi.short, 'roots computed from this step\'s statistics', ok1,
             '_compute_preconditioners must consume the states returned by _compute_stats on the same step', ctx.loc(fi),
             sample='_compute_preconditioners(_compute_stats(...))')
      ctx.ob('C04.K4', fi.short, 'update preconditioned with this step\'s roots', ok2,
             '_transform_grad must consume the states returned by _compute_preconditioners (replicated path)', ctx.loc(fi),
             sample='_transform_grad(_compute_preconditioners(...))')
    else:
      tg = [c for c in ev.calls if c.callee.endswith('._transform_grad')][0]
      ok = any(fn_name(x) == '_compute_stats' for x in walk(tg.args['state'])) and not D.contains_root_call(tg.args['state'])
      ctx.ob('C04.K4', fi.short, 'sharded update uses the previous refresh', ok,
             'sharded _transform_grad must read the stored (previous) preconditioners, after this step\'s statistics', ctx.loc(fi),
             sample='_transform_grad(_compute_stats(...)) before the new roots')
  # _compute_preconditioners forwards its step
  fi = m.func(D.MOD, 'distributed_shampoo._compute_preconditioners')
  ctx.analysed(fi)
  ev = evaluator(m, opaque={'_pmap_compute_preconditioners', '_pmap_quantized_compute_preconditioners', '_pjit_compute_preconditioners',
                            'preconditioner_from_params'})
  ev.run(fi)
  for c in ev.calls:
    if c.callee.split('.')[-1] in ('_pmap_compute_preconditioners', '_pmap_quantized_compute_preconditioners'):
      st = c.args.get('step')
      n += 1
      ctx.ob('C04.K2', fi.short, f'{c.callee.split(".")[-1]}(step)', st is not None and st.op == 'sym' and st.args[-1] == 'step',
             'the refresh function must receive the caller\'s step unchanged', ctx.loc(fi), sample='step forwarded')
  ctx.need('C04.K2', n, 7, 'step-threading call sites')


# ------------------------------------------------------------------ K5
def ds_warmup(ctx):
  m = ctx.model
  fi = m.func(D.MOD, 'distributed_shampoo._transform_grad')
  ctx.analysed(fi)
  ev0 = evaluator(m)
  from ..lib import enum_member
  g = enum_member(ev0, m, D.MOD, 'GraftingType', 'SGD')
  for nesterov in (True, False):
    d = Decider(truth={'decoupled_learning_rate': True, 'nesterov': nesterov, 'moving_average_for_momentum': False,
                       'decoupled_weight_decay': False},
                cmps={('weight_decay', '!=', 0): False}, calls={('callable', 'learning_rate'): False, ('_skip_preconditioning',): False})
    ev = evaluator(m, factory_cfg={'graft_type': g}, decide=d,
                   opaque={'preconditioner_from_params', '_skip_preconditioning', '_quantize_momentum',
                           '_quantize_diagonal_statistics', '_maybe_dequantize_preconditioners', 'preconditioned_grad'})
    r = ev.run(fi)
    upd = r.args[0]
    cmps = [x for x in walk(upd) if x.op == 'cmp' and x.args[0] in ('>=', '>', '<', '<=') and
            any(l.op == 'sym' and l.args[-1] == 'start_preconditioning_step' for l in leaves(x))]
    ctx.need('C04.K5', len(cmps), 1, 'warm-up comparator in _transform_grad')
    cmpr = Comparer()
    for c in set(cmps):
      exp = spec_term(ev, 'step >= start', {'step': sym('param', fi.short, 'step'), 'start': sym('cfg', 'distributed_shampoo', 'start_preconditioning_step')})
      ctx.ob('C04.K5', fi.short, f'warm-up comparator [nesterov={nesterov}]', cmpr.same(c, exp),
             f'warm-up switch must be step >= start_preconditioning_step; got `{cmpr.fmt(c)}`', ctx.loc(fi),
             sample='run_shampoo = step >= start_preconditioning_step')
    # blend r*A + (1-r)*B with A preconditioned, B graft
    blends = []
    for x in walk(upd):
      if x.op == 'bin' and x.args[0] == '+':
        pa = _blend(x)
        if pa is not None:
          blends.append(pa)
    ctx.ob('C04.K5', fi.short, f'warm-up blend present [nesterov={nesterov}]', bool(blends),
           'the update must blend preconditioned and graft values with the warm-up switch', ctx.loc(fi),
           sample='r * shampoo + (1 - r) * graft')
    for r_, a, b in blends:
      has = lambda t, pre: any(d_ == pre or d_.startswith(pre + '.') for d_ in dep_names(t))
      a_pre = has(a, 'state.momentum') or any(fn_name(t) == 'preconditioned_grad' or method_name(t) == 'preconditioned_grad' for t in walk(a))
      b_pre = has(b, 'state.momentum') or any(fn_name(t) == 'preconditioned_grad' or method_name(t) == 'preconditioned_grad' for t in walk(b))
      b_graft = has(b, 'state.diagonal_momentum') or not b_pre
      ctx.ob('C04.K5', fi.short, f'warm-up polarity [nesterov={nesterov}]', a_pre and not b_pre and b_graft,
             'from start_preconditioning_step on the PRECONDITIONED value must be used (r side), before it the graft value',
             ctx.loc(fi), sample='r side = preconditioned momentum, (1-r) side = graft momentum')


def _blend(x):
  """x == r*A + (1-r)*B -> (r, A, B)"""
  l, r = x.args[1], x.args[2]
  for p, q in ((l, r), (r, l)):
    if p.op == 'bin' and p.args[0] == '*' and q.op == 'bin' and q.args[0] == '*':
      for rr, A in ((p.args[1], p.args[2]), (p.args[2], p.args[1])):
        for om, B in ((q.args[1], q.args[2]), (q.args[2], q.args[1])):
          if om.op == 'bin' and om.args[0] == '-' and is_const(om.args[1], 1, 1.0) and om.args[2] is rr:
            if any(c.op == 'cmp' for c in walk(rr)):
              return rr, A, B
  return None


# ------------------------------------------------------------------ Tearfree
def tearfree_shampoo(ctx):
  m = ctx.model
  fi = m.func('tearfree.shampoo', '_update')
  ctx.analysed(fi)
  ev = evaluator(m, opaque={'_blockify', '_deblockify', '_blocks_metadata', '_precondition_blocks', '_pth_inv_root', '_ema_update'})
  r = ev.run(fi)
  cons = [c for c in ev.calls if c.via == 'construct' and c.callee.endswith('._ShampooState')]
  if not cons:
    raise AnalysisError('tearfree shampoo: _ShampooState constructor not found')
  blocks = cons[0].args['blocks']
  ok = blocks.op == 'cond'
  ctx.ob('C04.K2', fi.short, 'roots: guarded refresh', ok, 'new blocks must come from the guarded root refresh', ctx.loc(fi),
         sample='cond(count % update_preconditioners_freq == 0, ...)')
  if not ok:
    return
  outer = blocks
  g = parse_mod_guard(outer.args[0])
  ctx.ob('C04.K2', fi.short, 'roots: guard form',
         g is not None and is_path(g[0], 'state', 'count') and is_path(g[1], 'options', 'update_preconditioners_freq'),
         f'root refresh guard must be state.count % options.update_preconditioners_freq == 0; got `{show(outer.args[0], maxdepth=5)[:160]}`',
         ctx.loc(fi), sample='state.count % update_preconditioners_freq == 0')
  inner = outer.args[2]
  ctx.ob('C04.K3', fi.short, 'roots: identity arm', inner.op == 'cond' or is_path(inner, 'state', 'blocks'),
         'when roots are not refreshed the blocks of the statistics stage must be returned unchanged', ctx.loc(fi),
         sample='lambda: blocks')
  ok4 = inner.op == 'cond' and any(x is inner for x in walk(outer.args[1]))
  ctx.ob('C04.K4', fi.short, 'roots from this step\'s statistics', ok4,
         'the root refresh must read the blocks produced by the statistics stage of the same step', ctx.loc(fi),
         sample='precond stage consumes stats stage output')
  if inner.op == 'cond':
    g2 = parse_mod_guard(inner.args[0])
    ctx.ob('C04.K2', fi.short, 'statistics: guard form',
           g2 is not None and is_path(g2[0], 'state', 'count') and is_path(g2[1], 'options', 'update_statistics_freq'),
           f'statistics refresh guard must be state.count % options.update_statistics_freq == 0; got `{show(inner.args[0], maxdepth=5)[:160]}`',
           ctx.loc(fi), sample='state.count % update_statistics_freq == 0')
    ctx.ob('C04.K3', fi.short, 'statistics: identity arm', is_path(inner.args[2], 'state', 'blocks'),
           'when statistics are not refreshed the incoming state.blocks must be returned unchanged', ctx.loc(fi),
           sample='lambda: blocks (= state.blocks)')
  # slot-level pass-through of the two stage functions
  fs = m.func('tearfree.shampoo', '_update_block_stats')
  fp = m.func('tearfree.shampoo', '_update_block_precond')
  ctx.analysed(fs, fp)
  ev2 = evaluator(m, opaque={'_pth_inv_root', '_ema_update'})
  rs = rec_fields(ev2.run(fs))
  rp = rec_fields(ev2.run(fp))
  if rs is None or rp is None:
    raise AnalysisError('tearfree shampoo stage functions do not return _AxesBlocks')
  ctx.ob('C04.K3', fs.short, 'roots pass-through', is_path(rs['roots'], 'block', 'roots'),
         'a statistics refresh must leave the roots untouched', ctx.loc(fs), sample='roots=block.roots')
  ctx.ob('C04.K3', fp.short, 'stats pass-through', is_path(rp['stats'], 'block', 'stats'),
         'a root refresh must leave the statistics untouched', ctx.loc(fp), sample='stats=block.stats')
  # the preconditioned update uses the refreshed blocks
  upd = r.args[0] if r.op == 'tuple' else r
  ctx.ob('C04.K4', fi.short, 'update uses refreshed roots', any(x is outer for x in walk(upd)),
         'the update must be preconditioned with the blocks stored in the new state', ctx.loc(fi),
         sample='_precondition_blocks(..., new blocks)')


def tearfree_sketchy(ctx):
  m = ctx.model
  fi = m.func('tearfree.sketchy', '_update')
  ctx.analysed(fi)
  for ekfac in (False, True):
    d = Decider(truth={'options.ekfac_svd': ekfac})
    ev = evaluator(m, opaque={'_update_sketches', '_precondition'}, decide=d)
    r = ev.run(fi)
    cons = [c for c in ev.calls if c.via == 'construct' and c.callee.endswith('._SketchyState')]
    if not cons:
      raise AnalysisError('tearfree sketchy: _SketchyState constructor not found')
    sk = cons[0].args['sketches']
    ok = sk.op == 'cond'
    ctx.ob('C04.K2', fi.short, f'sketches: guarded refresh [ekfac={ekfac}]', ok, 'new sketches must come from the guarded refresh', ctx.loc(fi),
           sample='cond(count % update_freq == 0, ...)')
    if not ok:
      continue
    g = parse_mod_guard(sk.args[0])
    ctx.ob('C04.K2', fi.short, f'sketches: guard form [ekfac={ekfac}]',
           g is not None and is_path(g[0], 'state', 'count') and is_path(g[1], 'options', 'update_freq'),
           f'sketch refresh guard must be state.count % options.update_freq == 0; got `{show(sk.args[0], maxdepth=5)[:160]}`',
           ctx.loc(fi), sample='state.count % update_freq == 0')
    if not ekfac:
      ctx.ob('C04.K3', fi.short, 'sketches: identity arm', is_path(sk.args[2], 'state', 'sketches'),
             'when sketches are not refreshed the incoming state.sketches must be returned unchanged', ctx.loc(fi),
             sample='lambda: sketches')
    else:
      # the else arm calls _update_sketches(..., update_sketches=False)
      calls = [c for c in ev.calls if c.callee.endswith('._update_sketches')]
      flags = [c.args.get('update_sketches') for c in calls]
      ctx.ob('C04.K3', fi.short, 'ekfac: non-refresh arm keeps the sketch', any(is_const(f, False) for f in flags) and any(is_const(f, True) for f in flags),
             'with ekfac_svd the non-refresh arm must call _update_sketches(update_sketches=False)', ctx.loc(fi),
             sample='updated_preconditioner_only: update_sketches=False')
    upd = r.args[0] if r.op == 'tuple' else r
    ctx.ob('C04.K4', fi.short, f'update uses refreshed sketches [ekfac={ekfac}]', any(x is sk for x in walk(upd)),
           'the update must be preconditioned with the sketches stored in the new state', ctx.loc(fi),
           sample='_precondition(..., new_sketches)')
  # _update_sketches forwards the flag; _update_axis restores the five sketch slots
  fs = m.func('tearfree.sketchy', '_update_sketches')
  ev = evaluator(m, opaque={'_update_axis'})
  ev.run(fs)
  calls = [c for c in ev.calls if c.callee.endswith('._update_axis')]
  ctx.need('C04.K3', len(calls), 1, 'call to _update_axis')
  for c in calls:
    f = c.args.get('update_sketches')
    ctx.ob('C04.K3', fs.short, 'update_sketches forwarded', f is not None and f.op == 'sym' and f.args[-1] == 'update_sketches',
           '_update_sketches must forward its update_sketches flag to _update_axis', ctx.loc(fs), sample='flag forwarded')
  fa = m.func('tearfree.sketchy', '_update_axis')
  ctx.analysed(fs, fa)
  for ekfac in (False, True):
    d = Decider(truth={'options.ekfac_svd': ekfac, 'options.linear_approx_tail': False, 'options.add_ggt': False,
                       'memory_alloc': False, 'options.memory_alloc': False, 'options.relative_epsilon': True})
    ev = evaluator(m, decide=d, opaque={'_safe_svd'})
    r = ev.run(fa)
    ok = r.op == 'cond' and r.args[0].op == 'sym' and r.args[0].args[-1] == 'update_sketches'
    ctx.ob('C04.K3', fa.short, f'final select on update_sketches [ekfac={ekfac}]', ok,
           '_update_axis must select between the refreshed and the restored state on update_sketches', ctx.loc(fa),
           sample='lax.cond(update_sketches, res, restored)')
    if not ok:
      continue
    rest = rec_fields(r.args[2])
    full = rec_fields(r.args[1])
    if rest is None or full is None:
      raise AnalysisError('_update_axis arms are not _AxisState records')
    for slot in ('eigvecs', 'eigvals', 'inv_eigvals', 'tail', 'inv_tail'):
      ctx.ob('C04.K3', fa.short, f'restore {slot} [ekfac={ekfac}]', is_path(rest[slot], 'axis_state', slot),
             f'with update_sketches=False slot `{slot}` must be restored from the incoming axis_state (non-refresh steps leave the sketch bit-identical); got `{show(rest[slot], maxdepth=3)[:100]}`',
             ctx.loc(fa), sample=f'{slot}=axis_state.{slot}')
    if not ekfac:
      for slot in ('svd_result_u', 'svd_result_s', 'inv_prev_tail', 'ema_ggt'):
        ctx.ob('C04.K3', fa.short, f'pass-through {slot}', is_path(full[slot], 'axis_state', slot),
               f'without ekfac/add_ggt slot `{slot}` must be passed through', ctx.loc(fa), trivial=True, sample=f'{slot} passthrough')


def tearfree_graft(ctx):
  m = ctx.model
  from . import C05

  class fi:          # findings keep the historical function label; the per-leaf rule is found by role (C05.graft_leaf)
    short = C05.GRAFT_FN
  fu_, ev, r, _ = C05.graft_leaf(m, masked=False)
  ctx.analysed(fu_)
  sa = select_arms(r)
  ok = sa is not None and sa[0] == 'where'
  ctx.ob('C04.K5', fi.short, 'warm-up select', ok, 'maybe_graft must select between the grafted direction and the graft update', ctx.loc(fu_),
         sample='where(count >= start, base * multiplier, graft_upd)')
  if not ok:
    return
  cmpr = Comparer()
  from ..lib import cmp_oriented
  oc = cmp_oriented(strip_casts(sa[1]), lambda t: (path_str(strip_casts(t)) or '').endswith('options.start_preconditioning_step'))
  ok = oc is not None and oc[0] == '>=' and path_str(strip_casts(oc[1])) == 'state.count'
  ctx.ob('C04.K5', fi.short, 'warm-up comparator', ok,
         f'warm-up switch must be state.count >= options.start_preconditioning_step; got `{cmpr.fmt(sa[1])}`', ctx.loc(fu_),
         sample='state.count >= start_preconditioning_step')
  t_dep, f_dep = dep_names(sa[2]), dep_names(sa[3])
  ctx.ob('C04.K5', fi.short, 'warm-up polarity', 'base' in t_dep and f_dep == {'graft_upd'},
         'from the start step on the preconditioned direction (base) must be used; before it the graft update itself', ctx.loc(fu_),
         sample='true arm = base * multiplier, false arm = graft_upd')


def schedule(ctx):
  m = ctx.model
  fi = m.func(D.MOD, 'preconditioning_compute_steps_schedule')
  ctx.analysed(fi)
  ev = evaluator(m)
  r = strip_casts(ev.run(fi))
  ok = False
  if is_ext_call(r, 'jax.numpy.maximum') and len(r.args[1]) == 2:
    a, b = r.args[1]
    ok = (is_const(a) and cval(a) >= 1) or (is_const(b) and cval(b) >= 1)
  elif is_ext_call(r, 'jax.numpy.clip') and len(r.args[1]) >= 2:
    ok = is_const(r.args[1][1]) and cval(r.args[1][1]) >= 1
  ctx.ob('C04.K6', fi.short, 'interval >= 1', ok,
         f'the scheduled interval must be clamped from below by a constant >= 1 at the outermost level (else count % 0); got `{show(r, maxdepth=4)[:160]}`',
         ctx.loc(fi), sample='maximum(rounded, 1)')
