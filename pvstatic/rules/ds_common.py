"""Shared evaluation of Distributed Shampoo's preconditioner-refresh functions."""
from __future__ import annotations

import itertools

from ..lib import (evaluator, Decider, econd_summary, is_ext_call, strip_casts, walk, show,
                   leaves, path_str, fn_name)
from ..terms import T, sym, const, is_const, cval
from ..model import AnalysisError

MOD = 'distributed_shampoo'
F = 'distributed_shampoo'

ROOT_CALLS = {'_matrix_inverse_pth_root_vmap', '_quantized_matrix_inverse_pth_root_vmap',
              '_matrix_inverse_pth_root_pjit'}
OPAQUE = ROOT_CALLS | {'pad_square_matrix', 'pad_vector', 'unbatch', 'batch',
                       'pad_and_maybe_zero_preconditioners', 'preconditioning_compute_steps_schedule',
                       '_compute_stats', '_transform_grad', 'precond_dim'}

MODES = [
    # (function qualname, fixed truth, record class, slot)
    ('_pmap_compute_preconditioners', {'batch_axis_name': True}, 'ParameterStats', 'preconditioners'),
    ('_pmap_compute_preconditioners', {'batch_axis_name': False}, 'ParameterStats', 'preconditioners'),
    ('_pmap_quantized_compute_preconditioners', {'batch_axis_name': True}, 'ParameterStats', 'preconditioners'),
    ('sharded_update_fn', {}, 'GlobalShardedParameterStats', 'preconditioners'),
]


def valuations(thorough):
  keys = ['scheduled', 'steps1', 'reuse', 'metrics']
  if thorough:
    combos = list(itertools.product([False, True], repeat=4))
  else:
    combos = [(False, False, False, True), (False, True, False, True), (True, False, True, True),
              (False, False, True, False), (True, True, False, False)]
  for c in combos:
    yield dict(zip(keys, c))


def make_decider(v, fixed):
  truth = {
      'reuse_preconditioner': v['reuse'],
      'generate_training_metrics': v['metrics'],
      'generate_fd_metrics': False,
      'decay_preconditioning_compute_steps': v['scheduled'],
      'end_preconditioning_compute_steps': v['scheduled'],
  }
  truth.update(fixed)
  cmps = {('preconditioning_compute_steps', '==', 1): v['steps1'],
          ('preconditioning_compute_steps_t', '==', 1): v['steps1'],
          ('steps', '==', 1): v['steps1'],
          ('reset_frequency', 'is', None): True}
  calls = {('callable', 'learning_rate'): v['scheduled']}
  return Decider(truth=truth, cmps=cmps, calls=calls)


def eval_mode(model, q, fixed, v, extra_opaque=()):
  fi = model.func(MOD, F + '.' + q)
  d = make_decider(v, fixed)
  ev = evaluator(model, opaque=OPAQUE | set(extra_opaque), decide=d,
                 summaries={'efficient_cond': econd_summary})
  r = ev.run(fi)
  return fi, ev, r


def constructor_calls(ev, cls_short, caller_suffix):
  return [c for c in ev.calls if c.callee.endswith('.' + cls_short) and c.via == 'construct'
          and c.caller.endswith(caller_suffix)]


def contains_root_call(t):
  for x in walk(t):
    if x.op == 'call' and x.args[0].op == 'fn' and x.args[0].args[0].split('.')[-1] in ROOT_CALLS:
      return True
  return False


def conds_in(t):
  return [x for x in walk(t) if x.op == 'cond']
