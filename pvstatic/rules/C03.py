"""C03 - a stored preconditioner is the old one or a verified new root.

Decided statically, for the replicated (pmap), pmap-quantized and sharded update paths and
for every valuation of (scheduled interval, interval == 1, reuse_preconditioner, metrics on/off):
  G1  every array stored into a `preconditioners` slot by the refresh functions is a
      pass-through of the incoming slot or a *select* (lax.cond / jnp.where / lax.select)
      between the incoming slot and the candidate - never an arithmetic combination
      (0 * NaN poisons the old value);
  G2  the select predicate is isnan(e) or e >= inverse_failure_threshold, e being the
      inverse_pth_root_errors produced by the same root computation as the candidate, and
      the old value sits on the true arm;
  G3  on every non-refresh path (efficient_cond not taken) e evaluates to a sentinel S
      for which the predicate is true by construction (S == threshold [times ones]);
  G4  all parts of a quantized preconditioner are gated by the same predicate;
  EC  efficient_cond implements "predicate ? compute() : init" (summary used by G3);
  G5  denominators in the per-parameter transform are guarded (x + eps, maximum(1, .)).
Not decided: that a small finite error implies a finite root; finiteness of updates for
given magnitudes (floating point).
"""
from __future__ import annotations

from ..lib import (cast_targets, is_ext_call, strip_casts, walk, show, select_arms, list_elements, resimplify,
                   check_efficient_cond, rec_fields, leaves, path_str, ext_name, evaluator, Decider)
from ..terms import T, is_const, cval, const
from ..model import AnalysisError
from . import ds_common as D

ASSUMPTIONS = [
    'lax.cond / jnp.where / lax.select return exactly one of their operands (bit-for-bit)',
    'the root routines are opaque here; their own error reporting is C01',
]

_PROJ_OPS = {'sym', 'attr', 'sub', 'elem', 'const', 'slice', 'tuple', 'unzipped', 'leaf', 'index', 'zipped'}


def pure_projection(t, roots):
  for x in walk(t):
    if x.op not in _PROJ_OPS:
      return False
    if x.op == 'sym' and str(x.args[-1]) not in roots and x.args[0] != 'cfg':
      return False
    if x.op == 'sym' and x.args[0] == 'cfg':
      return False
  return any(x.op == 'sym' for x in walk(t))


def parse_predicate(p):
  """-> dict(e_nan, e_cmp, thr, strict, shape) or None."""
  p = strip_casts(p)
  parts = None
  if is_ext_call(p, 'jax.numpy.logical_or') and len(p.args[1]) == 2:
    parts = list(p.args[1])
  elif p.op == 'bin' and p.args[0] == '|':
    parts = [p.args[1], p.args[2]]
  elif p.op == 'bool' and p.args[0] == 'or' and len(p.args) == 3:
    parts = [p.args[1], p.args[2]]
  if parts is None:
    return dict(shape='not-an-or', parts=[p])
  out = dict(shape='or', e_nan=None, e_cmp=None, thr=None, strict=None)
  for q in parts:
    q = strip_casts(q)
    if is_ext_call(q, 'jax.numpy.isnan') and q.args[1]:
      out['e_nan'] = strip_casts(q.args[1][0])
      continue
    neg = False
    if (q.op == 'un' and q.args[0] in ('~', 'not')):
      neg = True
      q = strip_casts(q.args[1])
    elif is_ext_call(q, 'jax.numpy.logical_not') and q.args[1]:
      neg = True
      q = strip_casts(q.args[1][0])
    o = a = b = None
    if q.op == 'cmp':
      o, a, b = q.args
    else:
      n = ext_name(q)
      table = {'jax.numpy.greater_equal': '>=', 'jax.numpy.greater': '>', 'jax.numpy.less': '<', 'jax.numpy.less_equal': '<='}
      if n in table and len(q.args[1]) == 2:
        o, (a, b) = table[n], q.args[1]
    if o is None:
      continue
    if neg:
      o = {'<': '>=', '<=': '>', '>': '<=', '>=': '<'}.get(o)
    # normalise to e OP thr
    if o in ('<', '<='):
      o = {'<': '>', '<=': '>='}[o]
      a, b = b, a
    if o in ('>', '>='):
      out['e_cmp'] = strip_casts(a)
      out['e_casts'] = cast_targets(a)
      out['thr'] = strip_casts(b)
      out['strict'] = (o == '>')
  return out


def is_threshold(t):
  return t.op == 'sym' and t.args[0] == 'cfg' and t.args[-1] == 'inverse_failure_threshold'


def _strip_shape(s):
  while True:
    s = strip_casts(s)
    if s.op == 'call' and s.args[0].op == 'attr' and s.args[0].args[1] in ('reshape', 'squeeze', 'ravel', 'flatten'):
      s = s.args[0].args[0]
      continue
    if is_ext_call(s, 'jax.numpy.reshape', 'jax.numpy.broadcast_to', 'jax.numpy.squeeze', 'jax.numpy.expand_dims') and s.args[1]:
      s = s.args[1][0]
      continue
    return s


def sentinel_ok(s):
  """predicate(S) true by construction: S is the threshold, threshold * ones, inf or nan."""
  s = _strip_shape(s)
  if is_threshold(s):
    return True
  if s.op == 'bin' and s.args[0] == '*':
    a, b = strip_casts(s.args[1]), strip_casts(s.args[2])
    for x, y in ((a, b), (b, a)):
      if is_threshold(x) and (is_ext_call(y, 'jax.numpy.ones_like', 'jax.numpy.ones') or is_const(y, 1, 1.0)):
        return True
  if is_const(s) and isinstance(cval(s), float) and (cval(s) != cval(s) or cval(s) == float('inf')):
    return True
  if s.op == 'ext' and s.args[0] in ('jax.numpy.inf', 'jax.numpy.nan', 'numpy.inf', 'numpy.nan'):
    return True
  return False


def check_store(ctx, fi, ev, tag, E, roots, vtag, preds):
  """One array stored into a preconditioners slot."""
  fn = fi.short
  if pure_projection(E, roots):
    ctx.ob('C03.G1', fn, f'{tag}: pass-through', True, '', ctx.loc(fi), trivial=True,
           sample='incoming slot passed through')
    return
  sa = select_arms(E)
  if sa is not None and sa[0] == 'ite':
    check_store(ctx, fi, ev, tag, sa[2], roots, vtag, preds)
    check_store(ctx, fi, ev, tag, sa[3], roots, vtag, preds)
    return
  if sa is None:
    blend = E.op == 'bin' and E.args[0] in ('+', '-', '*')
    has_old = any(l.op == 'sym' and str(l.args[-1]) in roots or (l.op == 'attr' and path_str(l).split('.')[0] in roots)
                  for l in leaves(E))
    msg = ('arithmetic blend of the incoming preconditioner and the candidate (a NaN/Inf candidate poisons the old value)'
           if blend and has_old else 'candidate stored without an acceptance select')
    ctx.ob('C03.G1', fn, f'{tag}: store', False, msg + f': `{show(E, maxdepth=4)[:160]}`', ctx.loc(fi))
    return
  kind, pred, t_arm, f_arm = sa
  ctx.ob('C03.G1', fn, f'{tag}: select', True, '', ctx.loc(fi), sample=f'{kind}(pred, old, candidate) [{vtag}]')
  pp = parse_predicate(pred)
  preds.append(strip_casts(pred))
  if pp.get('shape') != 'or':
    # the ACCEPT form: `new if e < threshold else old`.  A strict `<` is false for a NaN error, so this one test is the
    # negation of `isnan(e) | e >= threshold` (the reverse spelling `old if e >= threshold else new` is not: NaN passes)
    raws = [strip_casts(x_) for x_ in getattr(ev, 'raw_preds', {}).get(E, [])]
    acc = None
    for raw in raws:
      this = None
      if raw.op == 'cmp' and len(raw.args) == 3 and raw.args[0] in ('<', '>'):
        this = (raw.args[1], raw.args[2]) if raw.args[0] == '<' else (raw.args[2], raw.args[1])
      elif ext_name(raw) in ('jax.numpy.less', 'jax.numpy.greater') and len(raw.args[1]) == 2 and not raw.args[2]:
        this = tuple(raw.args[1]) if ext_name(raw).endswith('less') else (raw.args[1][1], raw.args[1][0])
      if this is None or (acc is not None and (this[0] is not acc[0] or this[1] is not acc[1])):
        acc = None
        break
      acc = this
    raw = None
    if raw is not None:
      if raw.op == 'cmp' and len(raw.args) == 3 and raw.args[0] in ('<', '>'):
        acc = (raw.args[1], raw.args[2]) if raw.args[0] == '<' else (raw.args[2], raw.args[1])
      elif ext_name(raw) in ('jax.numpy.less', 'jax.numpy.greater') and len(raw.args[1]) == 2 and not raw.args[2]:
        acc = tuple(raw.args[1]) if ext_name(raw).endswith('less') else (raw.args[1][1], raw.args[1][0])
    if acc is not None:
      pp = dict(shape='or', e_nan=strip_casts(acc[0]), e_cmp=strip_casts(acc[0]), e_casts=cast_targets(acc[0]), thr=strip_casts(acc[1]), strict=False)
  ok_shape = pp.get('shape') == 'or' and pp['e_nan'] is not None and pp['e_cmp'] is not None
  if not ok_shape:
    missing = []
    if pp.get('shape') != 'or':
      missing.append('not a disjunction')
    else:
      if pp['e_nan'] is None:
        missing.append('isnan(error) missing')
      if pp['e_cmp'] is None:
        missing.append('error >= threshold missing')
    ctx.ob('C03.G2', fn, f'{tag}: predicate', False,
           f'gate predicate must be isnan(e) or e >= inverse_failure_threshold ({", ".join(missing)}): `{show(strip_casts(pred), maxdepth=5)[:200]}`',
           ctx.loc(fi))
    return
  ok = True
  why = []
  if pp['strict']:
    ok = False
    why.append('comparison is strict (>) - an error equal to the threshold (the non-refresh sentinel) would be accepted')
  if not is_threshold(pp['thr']):
    ok = False
    why.append(f'threshold is `{show(pp["thr"], maxdepth=3)}`, not the configured inverse_failure_threshold')
  if pp['e_nan'] is not pp['e_cmp']:
    ok = False
    why.append('isnan and the comparison look at different error values')
  widened = [dt for dt in pp.get('e_casts', []) if dt.op == 'ext' and dt.args[0].split('.')[-1] not in ('float32',)]
  if widened:
    ok = False
    why.append(f'the error is cast to {widened[0].args[0].split(".")[-1]} before the comparison: the non-refresh sentinel equals the threshold only in the '
               'dtype it was created in (float32(thr) widened is < thr for most thresholds), so stale candidates pass the gate')
  ctx.ob('C03.G2', fn, f'{tag}: predicate', ok, '; '.join(why), ctx.loc(fi),
         sample='isnan(e) | e >= inverse_failure_threshold')
  # arms
  old_true = pure_projection(t_arm, roots)
  old_false = pure_projection(f_arm, roots)
  part = tag.split('.')[-1] if '.' in tag else None
  if part in ('quantized', 'diagonal', 'bucket_size') and old_true:
    from ..lib import path_str as _ps
    suffix_ok = t_arm.op == 'attr' and t_arm.args[1] == part
    ctx.ob('C03.G2', fn, f'{tag}: old arm is the same part', suffix_ok,
           f'the value kept for `{part}` must be the incoming preconditioner\'s `{part}`; got `{show(t_arm, maxdepth=3)[:100]}`',
           ctx.loc(fi), sample=f'old arm = prev.{part}')
  ctx.ob('C03.G2', fn, f'{tag}: polarity', old_true and not old_false,
         ('old value is selected when the predicate is FALSE (arms swapped)' if old_false and not old_true else
          f'true arm of the gate must be the incoming preconditioner: true=`{show(t_arm, maxdepth=3)[:100]}` false=`{show(f_arm, maxdepth=3)[:100]}`'),
         ctx.loc(fi), sample='true arm = incoming slot')
  e = pp['e_cmp']
  cand = f_arm if old_true else t_arm
  # provenance: e and candidate come from the same root computation
  rc_e = {x for x in walk(e) if x.op == 'call' and x.args[0].op == 'fn' and x.args[0].args[0].split('.')[-1] in D.ROOT_CALLS}
  rc_c = {x for x in walk(cand) if x.op == 'call' and x.args[0].op == 'fn' and x.args[0].args[0].split('.')[-1] in D.ROOT_CALLS}
  ctx.ob('C03.G2', fn, f'{tag}: error-provenance', bool(rc_e) and rc_e == rc_c,
         'the gated error is not the error reported by the root computation that produced the candidate', ctx.loc(fi),
         sample='e and candidate share the root call')
  fields = [x for x in walk(e) if x.op == 'attr' and x.args[1] == 'inverse_pth_root_errors'] or \
      [1 for x in walk(e) if x.op == 'rec']
  # sentinel on non-refresh paths
  conds = [c for c in D.conds_in(e)]
  import itertools
  n_paths = 0
  for choice in itertools.product([True, False], repeat=len(conds)):
    table = dict(zip(conds, choice))
    s = resimplify(ev, e, choose=lambda c: table.get(c))
    if D.contains_root_call(s):
      continue
    if any(x.op == 'cond' for x in walk(s)):
      continue
    n_paths += 1
    ctx.ob('C03.G3', fn, f'{tag}: sentinel', sentinel_ok(s) and not pp['strict'],
           f'on a non-refresh step the gated error evaluates to `{show(strip_casts(s), maxdepth=4)[:120]}`, for which '
           'isnan(e) | e >= threshold is not true by construction: the placeholder would replace the preconditioner',
           ctx.loc(fi), sample=f'sentinel `{show(strip_casts(s), maxdepth=3)[:80]}` [{vtag}]')
  return n_paths


def run(ctx):
  run_gate(ctx)
  denominators(ctx)
  # G6: the root routines guard zero eigenvalues / padding before taking negative powers (finite roots for
  # matrix_epsilon == 0 and padded statistics) - shared with C01
  from . import C01
  C01.eigh_routine(ctx)
  C01.siblings(ctx)
  # the error the gate sees is the error of the root that is stored (not of an intermediate of the same routine)
  C01.provenance(ctx)
  C01.lobpcg_path(ctx)
  C01.size1_error_honest(ctx)      # ... also on the 1x1 shortcut (F21)
  # sharded mode: the reported errors kept in the state are the ones of the roots that were kept (old metrics exactly
  # on the steps whose roots were not refreshed)
  from . import C04
  C04.sharded_metrics(ctx)
  # the error the gate reads is the one the root routine reported: the per-device helpers return the batched result
  # (roots AND metrics) of the root routine itself
  from . import C13
  C13.vmapped_roots(ctx)


def run_gate(ctx):
  m = ctx.model
  check_efficient_cond(ctx, 'C03.EC')
  sites = 0
  sentinel_paths = 0
  for q, fixed, cls, slot in D.MODES:
    for v in D.valuations(ctx.thorough):
      fi, ev, r = D.eval_mode(m, q, fixed, v)
      ctx.analysed(fi)
      ctx.evaluations += 1
      vtag = ','.join(f'{k}={int(b)}' for k, b in v.items()) + (',axis=' + str(int(fixed.get('batch_axis_name', 0))) if fixed else '')
      cons = D.constructor_calls(ev, cls, '.' + q)
      if not cons:
        raise AnalysisError(f'{q}: no {cls}(...) constructor found on the update path')
      roots = {'prev_preconditioners', 'states', 'state'}
      for c in cons:
        st = c.args.get(slot)
        if st is None:
          raise AnalysisError(f'{q}: {cls} constructor has no `{slot}` argument')
        if cls == 'GlobalShardedParameterStats':
          elems = [st]
        else:
          elems = list_elements(st)
        preds = []
        for E in elems:
          rf = rec_fields(E)
          if rf is not None and E.args[0].endswith('QuantizedValue'):
            for k in ('quantized', 'diagonal', 'bucket_size'):
              n = check_store(ctx, fi, ev, f'{slot}.{k}', _unelem(rf[k]), roots, vtag, preds)
              sentinel_paths += n or 0
              sites += 1
            ctx.ob('C03.G4', fi.short, f'{slot}: one gate for all quantized parts', len(set(preds)) == 1,
                   'the parts of a quantized preconditioner are gated by different predicates', ctx.loc(fi),
                   sample='quantized/diagonal/bucket_size share the predicate')
          else:
            n = check_store(ctx, fi, ev, slot, _unelem(E), roots, vtag, preds)
            sentinel_paths += n or 0
            sites += 1
      if not v['steps1'] and not v['scheduled']:
        pass
  ctx.need('C03.G1', sites, 8, 'gated stores across modes/valuations')
  ctx.need('C03.G3', sentinel_paths, 3, 'non-refresh sentinel paths')
  # what the gate falls back to is the stored value itself: the caller hands the stored statistics / preconditioners down unchanged
  from . import C13
  C13.caller_lists(ctx)


def _unelem(t):
  return t


def denominators(ctx):
  """G5: every division in _transform_grad has a guarded denominator."""
  m = ctx.model
  fi = m.func(D.MOD, 'distributed_shampoo._transform_grad')
  ctx.analysed(fi)
  n = 0
  for graft in ['ADAGRAD', 'ADAGRAD_NORMALIZED', 'RMSPROP', 'RMSPROP_NORMALIZED', 'SGD', 'SQRT_N', 'NONE']:
    ev0 = evaluator(m)
    from ..lib import enum_member
    g = enum_member(ev0, m, D.MOD, 'GraftingType', graft)
    d = Decider(truth={'clip_by_scaled_gradient_norm': True, 'decoupled_learning_rate': True, 'nesterov': True,
                       'moving_average_for_momentum': False, 'decoupled_weight_decay': False},
                cmps={('weight_decay', '!=', 0): True}, calls={('callable', 'learning_rate'): False, ('_skip_preconditioning',): False})
    ev = evaluator(m, factory_cfg={'graft_type': g}, decide=d,
                   opaque={'preconditioner_from_params', '_skip_preconditioning', '_quantize_momentum',
                           '_quantize_diagonal_statistics', '_maybe_dequantize_preconditioners'})
    r = ev.run(fi)
    ctx.evaluations += 1
    for x in walk(r):
      if x.op == 'bin' and x.args[0] == '/':
        den = x.args[2]
        ok = guarded(den)
        n += 1
        ctx.ob('C03.G5', fi.short, f'denominator[{graft}] {show(den, maxdepth=2)[:60]}', ok,
               f'division by `{show(den, maxdepth=4)[:120]}` is not guarded (needs nonneg + positive epsilon, maximum(1, .) or a positive constant)',
               ctx.loc(fi), sample=f'guarded denominator `{show(den, maxdepth=2)[:60]}`')
      if is_ext_call(x, 'jax.lax.rsqrt', 'jax.numpy.reciprocal') and x.args[1]:
        den = x.args[1][0]
        ok = guarded(den)
        n += 1
        ctx.ob('C03.G5', fi.short, f'reciprocal[{graft}] of {show(den, maxdepth=2)[:60]}', ok,
               f'{ext_name(x).split(".")[-1]} of `{show(den, maxdepth=4)[:120]}` is not guarded (needs nonneg + an epsilon that is positive IN FLOAT32, maximum(1, .) or a positive constant)',
               ctx.loc(fi), sample=f'guarded reciprocal `{show(den, maxdepth=2)[:60]}`')
  ctx.need('C03.G5', n, 4, 'divisions in _transform_grad')


def guarded(den):
  den = strip_casts(den)
  if is_const(den) and isinstance(cval(den), (int, float)) and cval(den) > 0:
    return True
  if den.op == 'sym' and den.args[0] == 'cfg' and den.args[-1] in ('clip_by_scaled_gradient_norm',):
    return True   # truthy (non-zero) on this path by the enclosing `if`
  if den.op == 'bin' and den.args[0] == '+':
    a, b = strip_casts(den.args[1]), strip_casts(den.args[2])
    for x, y in ((a, b), (b, a)):
      if nonneg(x) and positive_eps(y):
        return True
  if is_ext_call(den, 'jax.numpy.maximum') and len(den.args[1]) == 2:
    a, b = den.args[1]
    if (is_const(a) and cval(a) > 0) or (is_const(b) and cval(b) > 0):
      return True
  if is_ext_call(den, 'jax.numpy.sqrt') and den.args[1]:
    inner = strip_casts(den.args[1][0])
    if inner.op == 'call' and inner.args[0].op == 'builtin' and inner.args[0].args[0] == 'float':
      return True   # sqrt(float(x.size)) : size >= 1 for non-empty tensors
  return False


def nonneg(x):
  x = strip_casts(x)
  if is_ext_call(x, 'jax.numpy.linalg.norm', 'jax.numpy.sqrt', 'jax.numpy.abs', 'jax.numpy.square'):
    return True
  if is_ext_call(x, 'jax.numpy.sum', 'jax.numpy.mean', 'jax.numpy.max') and x.args[1]:
    return nonneg(x.args[1][0])
  if x.op == 'bin' and x.args[0] == '**' and is_const(x.args[2], 2):
    return True
  return False


_F32_TINY = 1.1754944e-38     # smallest positive normal float32: a smaller guard constant is 0 (or subnormal) next to float32 data


def positive_eps(y):
  if is_const(y) and isinstance(cval(y), float) and cval(y) >= _F32_TINY:
    return True
  if y.op == 'sym' and 'epsilon' in str(y.args[-1]).lower():
    return True
  return False
