"""C07 - state contract: stable layout, every accepted configuration runs.

Decided statically:
  R1  package-wide definite assignment (no path can die on an unbound local);
  R2  layout fixed point: the pytree skeleton (records, lists, MaskedNode/None/[] leaves, static
      fields) of the initial per-parameter state is fed through the whole replicated update path
      (_compute_stats -> _compute_preconditioners [pmap / pmap-quantized] -> _transform_grad), for a
      preconditioned and a skipped parameter together and for every consistent valuation of the
      layout-relevant configuration atoms; after each stage the skeleton must equal the initial one,
      and both arms of every lax.cond / efficient_cond met on the way must have the same skeleton
      (the root routines are inlined, so the compression cond and the metrics conds are covered);
      same for SM3, Tearfree Shampoo and Tearfree Sketchy (add_ggt / ekfac valuations);
  R3  sharded triple: sharded_init_fn, shape_and_dtype_fn and partition_spec_fn build the same local
      record (skeleton, static fields), count statistics under the same guard, derive the padded
      leading dimension by the same formula and the maximal statistic size from the same parameters,
      and declared dtypes equal the dtypes the init constructs;
  R4  sibling dispatch on preconditioner type (= C06.S3);
  R5  no axis-less squeeze on batched values in reachable code;
  R6  configuration-only assertions on the update path never fail for a configuration the
      constructor accepts (checked by folding the assertion under each valuation);
  R7  no dead store of a computed value on an update path.
Not decided: dtype of updates under mixed precision; shape-dependent assertions; arbitrary
trace-time shape errors.
"""
from __future__ import annotations

import ast
import itertools

from ..da import analyse as da_analyse
from ..kind import Skel, flatten_diff, short
from ..lib import (evaluator, Decider, econd_summary, enum_member, rec_fields, show, walk, strip_casts,
                   is_ext_call, fn_name, method_name, path_str, dep_names, ext_name, leaves, norm_src, module_aliases, per_param_init)
from ..spec import spec_term, Comparer
from ..terms import T, sym, const, is_const, cval, NONE
from ..model import AnalysisError

MOD = 'distributed_shampoo'
F = 'distributed_shampoo'

ASSUMPTIONS = [
    'array-valued expressions are leaves; their shapes/dtypes are not tracked by the skeleton (dtypes only in R3)',
    'jax.tree.map / all_gather / with_sharding_constraint preserve tree structure',
    '_pjit_compute_preconditioners is unreachable (update_fn is only returned when shard_optimizer_states is false and only then calls it when true)',
]

UNREACHABLE = {'distributed_shampoo._pjit_compute_preconditioners': 'reachable only through update_fn under shard_optimizer_states, but update_fn is returned only when it is false'}


def run(ctx):
  package_da(ctx)
  from . import C06
  C06.sibling_dispatch(ctx)          # R4
  C06.large_axis_predicate(ctx)      # init-time rejections vs. metadata (explicit rejection, not an internal assert)
  ds_layout(ctx)
  other_layouts(ctx)
  sharded_triple(ctx)
  sharded_update_layout(ctx)
  sharded_record_conversion(ctx)
  graft_accumulator_agreement(ctx)
  no_numpy_floats_in_update(ctx)
  sketchy_buffer_widths(ctx)
  sketchy_update_shapes(ctx)
  from . import C13
  C13.slice_back(ctx)
  C13.parallel_lists(ctx)           # the stale carry of the refresh cond has the taken arm's tree (lengths in the LEN domain)                # stored preconditioners keep their announced shapes
  squeeze_lint(ctx)
  validation(ctx)
  dead_stores(ctx)
  transformation_wiring(ctx)


def sharded_record_conversion(ctx):
  """R2c: the sharded update works on ParameterStats views of the sharded state and writes them back: every per-parameter
  field goes through both conversions under its own name (diagonal_statistics -> diagonal_statistics, ...), the static
  fields index_start / sizes are carried over from the old local record.  A field left out of the write-back (easy with
  `.replace(...)`) silently freezes that part of the state - e.g. the grafting accumulator - in sharded mode only."""
  m = ctx.model
  ft = m.func(MOD, '_convert_to_parameter_stats')
  ff = m.func(MOD, '_convert_from_parameter_stats')
  ctx.analysed(ft, ff)
  shared = ['diagonal_statistics', 'diagonal_momentum', 'momentum', 'avg_grad', 'training_metrics']
  ev = evaluator(m)
  ps = T('rec', m.cls(MOD, 'ParameterStats').fq, tuple((n, sym('slot', 'p_' + n)) for n in
                                                      ['diagonal_statistics', 'statistics', 'preconditioners', 'diagonal_momentum', 'momentum', 'avg_grad', 'training_metrics']))
  ls = T('rec', m.cls(MOD, 'LocalShardedParameterStats').fq, tuple((n, sym('slot', 'l_' + n)) for n in shared + ['index_start', 'sizes']))
  r = ev.run(ff, args={'parameter_stats': ps, 'local_stats': ls})
  rf = rec_fields(r)
  okc = rf is not None and r.op == 'rec' and r.args[0].endswith('.LocalShardedParameterStats')
  ctx.ob('C07.R2', ff.short, 'write-back builds a LocalShardedParameterStats', okc, f'got `{show(r, maxdepth=3)[:120]}`', ctx.loc(ff), sample='LocalShardedParameterStats(...)')
  if okc:
    for n in shared:
      ctx.ob('C07.R2', ff.short, f'write-back of `{n}`', rf.get(n) is sym('slot', 'p_' + n),
             f'the updated `{n}` of the parameter view must be written back to the local record; got `{show(rf.get(n, NONE), maxdepth=3)[:100]}` '
             '(a field that is not written back stays at its initial value in sharded mode)', ctx.loc(ff), sample=f'{n} = parameter_stats.{n}')
    for n in ('index_start', 'sizes'):
      ctx.ob('C07.R2', ff.short, f'static `{n}` carried over', rf.get(n) is sym('slot', 'l_' + n),
             f'`{n}` must be taken from the old local record; got `{show(rf.get(n, NONE), maxdepth=3)[:100]}`', ctx.loc(ff), sample=f'{n} = local_stats.{n}')
  ev2 = evaluator(m, opaque={'_precond_dim'})
  r2 = ev2.run(ft, args={'local_stat': ls, 'global_stats': sym('spec', 'G'), 'compression_rank': sym('spec', 'r')})
  rf2 = rec_fields(r2)
  okt = rf2 is not None and r2.op == 'rec' and r2.args[0].endswith('.ParameterStats')
  ctx.ob('C07.R2', ft.short, 'view is a ParameterStats', okt, f'got `{show(r2, maxdepth=3)[:120]}`', ctx.loc(ft), sample='ParameterStats(...)')
  if okt:
    for n in shared:
      ctx.ob('C07.R2', ft.short, f'view of `{n}`', rf2.get(n) is sym('slot', 'l_' + n),
             f'the parameter view must expose the local record\'s `{n}` under the same name; got `{show(rf2.get(n, NONE), maxdepth=3)[:100]}`', ctx.loc(ft),
             sample=f'{n} = local_stat.{n}')


def graft_accumulator_agreement(ctx):
  """R2g: for every member of GraftingType, init allocates the grafting accumulator (diagonal_statistics as an array
  rather than []) exactly when `_transform_grad` accumulates squared gradients into it for that graft type.  The two sites
  decide independently (an exclusion list in init, an if / elif chain in the transform): a member missing from one of them
  is an accepted configuration whose first update dies with a TypeError ([] + array), or an accumulator that is never
  written."""
  from . import C02
  m = ctx.model
  fpred = m.func(MOD, F + '._graft_type_has_diagonal_statistics')
  ftg = m.func(MOD, F + '._transform_grad')
  ctx.analysed(fpred, ftg)
  ev0 = evaluator(m)
  members = [f_ for f_, _, _ in m.cls(MOD, 'GraftingType').fields]
  ctx.need('C07.R2', len(members), 5, 'GraftingType members')
  v = list(C02.valuations(False, 0))[0][1]
  for g in members:
    gterm = enum_member(ev0, m, MOD, 'GraftingType', g)
    b = evaluator(m, factory_cfg={'graft_type': gterm}).run(fpred)
    if not (is_const(b) and isinstance(cval(b), bool)):
      raise AnalysisError(f'_graft_type_has_diagonal_statistics does not fold to a constant for GraftingType.{g}: {show(b, maxdepth=3)[:80]}')
    ev2 = evaluator(m, factory_cfg={'graft_type': gterm}, decide=C02.make_decider(v), opaque=C02.OPAQUE)
    r = ev2.run(ftg)
    ctx.evaluations += 1
    rf = rec_fields(r.args[1]) if r.op == 'tuple' and len(r.args) == 2 else None
    if rf is None:
      raise AnalysisError('_transform_grad does not return (update, ParameterStats)')
    uses = any(is_ext_call(x, 'jax.numpy.square') or (x.op == 'bin' and x.args[0] == '**' and is_const(x.args[2], 2)) for x in walk(rf['diagonal_statistics']))
    ctx.ob('C07.R2', fpred.short, f'accumulator allocated iff used [GraftingType.{g}]', cval(b) == uses,
           f'for GraftingType.{g} init {"allocates" if cval(b) else "does not allocate"} diagonal_statistics but _transform_grad '
           f'{"accumulates squared gradients into it" if uses else "leaves it untouched"}', ctx.loc(fpred), sample=f'{g}: {"array" if uses else "[]"}')


_NUMPY_FLOAT_FNS = {'sqrt', 'log', 'log2', 'log10', 'exp', 'power', 'mean', 'std', 'var', 'divide', 'true_divide', 'float64', 'float_', 'double',
                    'reciprocal', 'cbrt', 'square', 'linalg.norm', 'sum', 'prod', 'cumsum'}


def no_numpy_floats_in_update(ctx):
  """R9: the per-parameter transform computes with jnp only: a *numpy* float function (np.sqrt(n), np.mean(..)) returns a
  float64 scalar that JAX treats as strongly typed, so under jax_enable_x64 it promotes whatever it is combined with -
  the update and every state leaf derived from it change dtype after the first step (Python floats and jnp scalars of
  unspecified dtype are weakly typed and do not).  Decided on the value graph of `_transform_grad` for every graft
  type with all optional stages on: no call of a float-valued numpy function reaches the returned update or state."""
  from . import C02
  m = ctx.model
  ftg = m.func(MOD, F + '._transform_grad')
  ctx.analysed(ftg)
  ev0 = evaluator(m)
  members = [f_ for f_, _, _ in m.cls(MOD, 'GraftingType').fields]
  v = dict(skip=False, dec_lr=True, callable_lr=True, wd=True, dec_wd=False, mavg=True, nesterov=True, clip=True)
  n = 0
  for g in members:
    gterm = enum_member(ev0, m, MOD, 'GraftingType', g)
    ev2 = evaluator(m, factory_cfg={'graft_type': gterm}, decide=C02.make_decider(v), opaque=C02.OPAQUE)
    r = ev2.run(ftg)
    ctx.evaluations += 1
    n += 1
    bad = []
    for x in walk(r):
      if x.op == 'call' and x.args[0].op == 'ext' and x.args[0].args[0].startswith('numpy.') and not x.args[0].args[0].startswith('numpy.random'):
        short = x.args[0].args[0][len('numpy.'):]
        if short in _NUMPY_FLOAT_FNS:
          bad.append(x)
    wrapped = set()
    for x in walk(r):      # float(np.sqrt(..)) / jnp.asarray(np..., dtype) are fine
      if x.op == 'call' and x.args[0].op == 'builtin' and x.args[0].args[0] in ('float', 'int') and x.args[1]:
        wrapped |= {y for y in walk(x.args[1][0])}
    bad = [x for x in bad if x not in wrapped]
    ctx.ob('C07.R2', ftg.short, f'no numpy float arithmetic on the update path [GraftingType.{g}]', not bad,
           f'`{show(bad[0], maxdepth=3)[:120] if bad else ""}` is a numpy float64 value inside the traced update: with jax_enable_x64 it promotes the update and the '
           f'state leaves computed from it to float64 (use jnp, or wrap in float(..))', ctx.loc(ftg), sample='jnp.sqrt(float(n))')
  ctx.need('C07.R2', n, 5, 'graft types evaluated for numpy float calls')


def sketchy_buffer_widths(ctx):
  """R2k: the per-axis buffers of Tearfree Sketchy are sized from ONE sketch rank k (global or per-axis allocation): eigvecs
  (d, k), eigvals / inv_eigvals (k,), and the ekfac SVD buffers (d, m) / (m,) with m = min(d, k + <product of the other
  dims>) built from that same k - `_update_axis` asserts eigvecs is (d, k) and writes SVD factors of the width its k gives,
  so a buffer sized from another rank changes shape on the first update."""
  m = ctx.model
  fi0 = m.func('tearfree.sketchy', '_init._tensor_state')
  ctx.analysed(fi0)
  for mem in (True, False):
    d = Decider(truth={'options.add_ggt': False, 'options.ekfac_svd': True, 'add_ggt': False, 'ekfac': True, 'memory_alloc': mem, 'options.memory_alloc': mem},
                extra=lambda c: (False if c.op == 'cmp' and c.args[0] == '==' and is_const(c.args[2], 1) else None))
    ev = evaluator(m, decide=d, opaque={'_locate_path', '_path_to_key'})
    t0 = ev.run(fi0, args={'path': sym('spec', 'path'), 'param': sym('spec', 'param')})
    ctx.evaluations += 1
    rf = rec_fields(t0)
    if rf is None or rf['axes'].op != 'list':
      raise AnalysisError('sketchy init does not build _TensorState(axes=[...])')
    af = rec_fields(ev.elem_of(rf['axes']))

    def zeros_shape(t):
      t = strip_casts(t)
      if is_ext_call(t, 'jax.numpy.zeros') and t.args[1] and t.args[1][0].op in ('tuple', 'list'):
        return list(t.args[1][0].args)
      return None
    sv, su, ss = zeros_shape(af['eigvecs']), zeros_shape(af['svd_result_u']), zeros_shape(af['svd_result_s'])
    se, si = zeros_shape(af['eigvals']), zeros_shape(af['inv_eigvals'])
    tag = f'[memory_alloc={int(mem)}]'
    if not (sv and len(sv) == 2 and su and len(su) == 2 and ss and len(ss) == 1 and se and si):
      raise AnalysisError('sketchy init: axis buffers are not jnp.zeros of literal shapes')
    k_t = sv[1]
    ctx.ob('C07.R2', fi0.short, f'eigvals / inv_eigvals have the width of eigvecs {tag}', se == [k_t] and si == [k_t],
           f'eigvals and inv_eigvals must be (k,) for the k of eigvecs (d, k); got {[show(x, maxdepth=3) for x in se + si]}', ctx.loc(fi0), sample='(k,)')
    m_t = su[1]
    okm = su[0] is sv[0] and ss == [m_t] and m_t.op == 'call' and m_t.args[0].op == 'builtin' and m_t.args[0].args[0] == 'min' and len(m_t.args[1]) == 2
    if okm:
      other = [a_ for a_ in m_t.args[1] if a_ is not sv[0]]
      okm = len(other) == 1 and other[0].op == 'bin' and other[0].args[0] == '+' and any(a_ is k_t for a_ in other[0].args[1:]) and \
          not any(y.op == 'attr' and str(y.args[1]).endswith('rank') for a_ in other[0].args[1:] if a_ is not k_t for y in walk(a_))
    ctx.ob('C07.R2', fi0.short, f'ekfac SVD buffers sized from the same sketch rank {tag}', okm,
           f'svd_result_u / svd_result_s must be (d, m) / (m,) with m = min(d, k + other dims) for the SAME k as eigvecs (d, k) = '
           f'`{show(k_t, maxdepth=4)[:100]}`; got m = `{show(m_t, maxdepth=5)[:160]}`', ctx.loc(fi0), sample='m = min(d, k + prod(other dims))')


def sketchy_update_shapes(ctx):
  """R2h (SHAPE domain): every leaf of the per-axis Sketchy state keeps its shape through `_update_axis`.  With the
  buffers declared by init - eigvecs (d, k), eigvals / inv_eigvals (k,), scalars, ema_ggt (d, d), ekfac factors
  (d, m) / (m,) with m = min(d, k + r), r the product of the other dimensions - the shapes of the values the update
  stores are inferred symbolically (unfolding (d, r); concatenation (d, k + r); QR in mode 'r' and the thin SVD introduce
  min(.,.)) and must equal the declared ones.  A buffer declared with another width changes shape on the first update and
  breaks scan / checkpoint restore without any error in eager mode."""
  import sympy as sp
  from ..shape import Shapes, ShapeError, same
  from .C09 import strip_nan_guard
  m = ctx.model
  fi = m.func('tearfree.sketchy', '_update_axis')
  ctx.analysed(fi)
  D, Rk, R = sp.symbols('D Rk R', positive=True, integer=True)
  K = sp.Min(D, Rk)
  M = sp.Min(D, K + R)
  slot_names = ['eigvecs', 'eigvals', 'inv_eigvals', 'tail', 'inv_tail', 'ema_ggt', 'svd_result_u', 'svd_result_s', 'inv_prev_tail']
  declared = {'eigvecs': (D, K), 'eigvals': (K,), 'inv_eigvals': (K,), 'tail': (), 'inv_tail': (), 'ema_ggt': (D, D),
              'svd_result_u': (D, M), 'svd_result_s': (M,), 'inv_prev_tail': ()}
  for ekfac, add_ggt in itertools.product([True, False], repeat=2):
    truth = {'options.ekfac_svd': ekfac, 'options.linear_approx_tail': False, 'options.add_ggt': add_ggt, 'memory_alloc': False,
             'options.memory_alloc': False, 'options.relative_epsilon': True}

    def extra(c):
      if c.op == 'cmp' and c.args[0] in ('<', '<=', '>', '>='):
        is_len = lambda t_: t_.op == 'call' and t_.args[0].op == 'builtin' and t_.args[0].args[0] == 'len'
        if is_len(c.args[2]) and not is_len(c.args[1]):
          return c.args[0] in ('<', '<=')
        if is_len(c.args[1]) and not is_len(c.args[2]):
          return c.args[0] in ('>', '>=')
      return None
    ev = evaluator(m, decide=Decider(truth=truth, cmps={('options.epsilon', '>', 0): True}, extra=extra))
    ax = T('rec', m.cls('tearfree.sketchy', '_AxisState').fq, tuple((n, sym('slot', n)) for n in slot_names))
    U = sym('param', fi.short, 'update')
    r = ev.run(fi, args={'axis_state': ax, 'update_sketches': const(True)})
    ctx.evaluations += 1
    if r.op == 'cond':
      r = r.args[1]
    rf = rec_fields(strip_nan_guard(r))
    if rf is None:
      raise AnalysisError('_update_axis does not return an _AxisState record')
    d_t = spec_term(ev, 'update.shape[dim]', {'update': U, 'dim': sym('param', fi.short, 'dim')})
    caps = [v_ for v_ in ev.last_scope.vars.values() if v_.op == 'call' and v_.args[0].op == 'builtin' and v_.args[0].args[0] == 'min' and
            any(a_ is d_t for a_ in v_.args[1])]
    if not caps:
      raise AnalysisError('_update_axis: sketch size min(axis dimension, rank) not found')
    k_t = caps[0]

    def leaf(t):
      if t.op == 'sym' and t.args[0] == 'slot':
        return declared[t.args[1]]
      mn = method_name(t)
      shp = base = None
      if mn == 'reshape':
        a_ = t.args[1]
        shp = a_[0] if len(a_) == 1 and a_[0].op in ('tuple', 'list') else T('tuple', *a_)
        base = t.args[0].args[0]
      elif is_ext_call(t, 'jax.numpy.reshape') and len(t.args[1]) == 2:
        shp, base = t.args[1][1], t.args[1][0]
      if shp is not None and shp.op in ('tuple', 'list') and len(shp.args) == 2 and shp.args[0] is d_t and is_const(shp.args[1], -1) and \
          any(x is U for x in walk(base)):
        return (D, R)                       # the gradient unfolded along `dim` (checked by C09.R4)
      if t.op == 'attr' and t.args[0].op == 'sym' and t.args[0].args[-1] == 'options':
        return ()
      return None
    sh = Shapes(leaf, lambda t: D if t is d_t else (K if t is k_t else None))
    tag = f'[ekfac={int(ekfac)},add_ggt={int(add_ggt)}]'
    for n in slot_names:
      v = rf[n]
      if v.op == 'ext' or (v.op == 'call' and 'MaskedNode' in show(v, maxdepth=2)) or (v.op == 'sym' and v.args[0] == 'slot'):
        continue                       # an absent buffer / a slot passed through
      try:
        got = sh.of(v)
      except ShapeError as e:
        ctx.defer(f'_update_axis: SHAPE domain cannot infer the shape stored in `{n}` {tag}: {e}')
        continue
      ctx.ob('C07.R2', fi.short, f'`{n}` keeps its declared shape {tag}', same(got, declared[n]),
             f'the update stores a value of shape {got} in `{n}`, init declares {declared[n]} (D axis length, Rk configured rank, R product of the other '
             'dims): the state changes shape on the first update', ctx.loc(fi), sample=f'{n}: {declared[n]}')


def sharded_update_layout(ctx):
  """R2s: the state returned by sharded_update_fn has the records of the state it received, field by field:
  ShampooState(count, stats=ShardedShampooStats(global_stats=GlobalShardedParameterStats(statistics, preconditioners,
  exponents), local_stats=<the parameter tree of local records>)); exponents are passed through; the global arrays keep
  their stacked form.  (Both records of ShardedShampooStats are positional: swapped arguments still construct.)"""
  from . import ds_common as D
  m = ctx.model
  fi = m.func(MOD, 'distributed_shampoo.sharded_update_fn')
  ctx.analysed(fi)
  for metrics in (True, False):
    for reuse in (True, False):
      ev = evaluator(m, decide=Decider(truth={'generate_training_metrics': metrics, 'reuse_preconditioner': reuse}),
                     opaque=D.OPAQUE | {'_convert_to_parameter_stats', '_convert_from_parameter_stats', '_add_metrics_into_local_stats',
                                        '_update_preconditioners_fn', 'pad_and_maybe_zero_preconditioners'})
      r = ev.run(fi)
      ctx.evaluations += 1
      tag = f'[metrics={int(metrics)},reuse={int(reuse)}]'
      st = r.args[1] if r.op == 'tuple' and len(r.args) == 2 else None
      rf = rec_fields(st) if st is not None else None
      cls = lambda t: t.args[0].split('.')[-1] if t is not None and t.op == 'rec' else None
      ok = rf is not None and cls(st) == 'ShampooState' and cls(rf.get('stats')) == 'ShardedShampooStats'
      sf = rec_fields(rf['stats']) if ok else None
      okg = ok and cls(sf.get('global_stats')) == 'GlobalShardedParameterStats'
      ctx.ob('C07.R2', fi.short, f'returned state is ShampooState(count, ShardedShampooStats(global record, local tree)) {tag}', okg,
             'the sharded update must return the records it received: ShampooState / ShardedShampooStats with the global record in '
             f'`global_stats`; got `{show(st, maxdepth=3)[:200] if st is not None else show(r, maxdepth=2)[:120]}`', ctx.loc(fi),
             sample='ShampooState(count, ShardedShampooStats(GlobalShardedParameterStats(..), local tree))')
      if not okg:
        continue
      loc_ = sf.get('local_stats', NONE)
      okl = loc_.op != 'rec' and any(is_ext_call(x, 'jax.tree.unflatten', 'jax.tree_util.tree_unflatten', 'jax.tree_unflatten') for x in walk(loc_)) and \
          any(fn_name(x) == '_convert_from_parameter_stats' for x in walk(loc_))
      ctx.ob('C07.R2', fi.short, f'local_stats is the parameter tree of converted local records {tag}', okl,
             f'`local_stats` must be the parameter tree rebuilt from the per-parameter local records; got `{show(loc_, maxdepth=3)[:160]}`', ctx.loc(fi),
             sample='tree.unflatten(treedef, [_convert_from_parameter_stats(..)])')
      gf = rec_fields(sf['global_stats'])
      ctx.ob('C07.R2', fi.short, f'exponents passed through {tag}', Comparer().same(gf.get('exponents', NONE), spec_term(ev, 'state.stats.global_stats.exponents', {'state': sym('param', fi.short, 'state')})),
             f'the per-statistic exponents are fixed at init and must be handed on unchanged; got `{show(gf.get("exponents", NONE), maxdepth=3)[:120]}`',
             ctx.loc(fi), sample='exponents = state.stats.global_stats.exponents')
      pads = [c for c in ev.calls if c.callee.endswith('.pad_square_matrix') and c.args is not None]
      ctx.need('C07.R2', len(pads), 1, 'pad_square_matrix call in sharded_update_fn')
      for c in pads:
        ms = c.args.get('max_size', NONE)
        okm = ms.op == 'sub' and path_str(ms.args[0]) == 'state.stats.global_stats.statistics.shape' and is_const(ms.args[1]) and cval(ms.args[1]) in (1, 2, -1, -2)
        ctx.ob('C07.R2', fi.short, f'statistics re-padded to the stored size {tag}', okm,
               f'every statistic must be padded back to the matrix size of the stored global array (state.stats.global_stats.statistics.shape[1]); '
               f'got `{show(ms, maxdepth=4)[:120]}`', ctx.loc(fi, c.node) if c.node is not None else ctx.loc(fi), sample='max_size = global statistics .shape[1]')
      oks = any(is_ext_call(x, 'jax.numpy.stack') for x in walk(gf.get('statistics', NONE))) and \
          'global_stats.preconditioners' in show(gf.get('preconditioners', NONE), maxdepth=8)
      ctx.ob('C07.R2', fi.short, f'global arrays keep their slots {tag}', oks,
             'the stacked statistics go to `statistics`, the gated preconditioners (old where rejected) to `preconditioners`', ctx.loc(fi),
             sample='GlobalShardedParameterStats(stacked statistics, gated preconditioners, exponents)')


# ------------------------------------------------------------------ R1
def package_da(ctx):
  m = ctx.model
  n = 0
  for fq, fi in sorted(m.functions.items()):
    reps = da_analyse(fi)
    n += 1
    ctx.analysed(fi)
    names = sorted({r.name for r in reps})
    ctx.ob('C07.R1', fi.short, 'definite-assignment', not reps,
           f'name(s) {names} may be unbound when read (lines {[r.node.lineno for r in reps]})',
           ctx.loc(fi, reps[0].node if reps else None), sample=None, trivial=True)
  ctx.need('C07.R1', n, 200, 'functions')
  ctx.samples.append(dict(rule='C07.R1', site='package', construct=f'{n} functions', verdict='ok', detail='definite assignment on every path'))


# ------------------------------------------------------------------ R2 (Distributed Shampoo)
ATOMS = ['fd', 'avg', 'gtm', 'gfm', 'graft_diag', 'bemur', 'comp', 'axis', 'reuse', 'rank_gt1', 'steps_gt1']


def ds_valuations(thorough):
  seen = set()

  def norm(v):
    v = dict(v)
    if v['fd']:
      v['comp'] = True
      v['reuse'] = True
    else:
      v['avg'] = False
    return v
  if thorough:
    for bits in itertools.product([False, True], repeat=len(ATOMS)):
      v = norm(dict(zip(ATOMS, bits)))
      k = tuple(sorted(v.items()))
      if k not in seen:
        seen.add(k)
        yield v
    return
  base = dict(fd=False, avg=False, gtm=True, gfm=False, graft_diag=True, bemur=False, comp=False, axis=False, reuse=False,
              rank_gt1=True, steps_gt1=True)
  cands = [dict(base)]
  for a in ATOMS:
    v = dict(base)
    v[a] = not v[a]
    cands.append(v)
  cands += [
      dict(base, fd=True, avg=True, gfm=True),
      dict(base, fd=True, avg=True, gfm=True, gtm=False),
      dict(base, fd=True, gfm=True, steps_gt1=False),
      dict(base, bemur=True, axis=True),
      dict(base, bemur=True, axis=True, reuse=True, steps_gt1=False),
      dict(base, bemur=True, axis=True, rank_gt1=False, gtm=False),
      dict(base, comp=True, reuse=True, gtm=False),
      dict(base, comp=True, axis=True, graft_diag=False),
      dict(base, fd=True, avg=True, bemur=True, axis=True),
  ]
  for v in cands:
    v = norm(v)
    k = tuple(sorted(v.items()))
    if k not in seen:
      seen.add(k)
      yield v


def _nonempty(x):
  if x.op in ('list', 'tuple'):
    return bool(x.args)
  if x.op in ('cond', 'ite'):
    return _nonempty(x.args[1]) and _nonempty(x.args[2])
  if x.op == 'call' and x.args[0].op == 'builtin' and x.args[0].args[0] in ('list', 'tuple') and x.args[1]:
    return _nonempty(x.args[1][0])
  return False


def ds_decider(v, PA, PB):
  def extra(c):
    if c.op == 'call' and c.args[0].op == 'fn' and c.args[0].args[0].endswith('._skip_preconditioning'):
      a = c.args[1][0]
      if a is PA:
        return False
      if a is PB:
        return True
      return None
    if c.op == 'cmp' and c.args[1].op == 'call' and c.args[1].args[0].op == 'builtin' and c.args[1].args[0].args[0] == 'len':
      x = c.args[1].args[1][0]
      if x.op == 'attr' and x.args[1] == 'shape' and c.args[0] == '>' and is_const(c.args[2], 1):
        return v['rank_gt1']
      if _nonempty(x):
        if c.args[0] == '>' and is_const(c.args[2], 0):
          return True
        if c.args[0] == '==' and is_const(c.args[2], 0):
          return False
    if c.op in ('list', 'tuple', 'cond') and _nonempty(c):
      return True
    if c.op == 'cmp' and c.args[0] in ('is', 'is not') and is_const(c.args[2], None) and c.args[1].op in ('call', 'sub', 'elem', 'attr', 'cond'):
      return c.args[0] == 'is not'
    return None
  fd = v['fd']
  comp = v['comp'] or fd
  return Decider(
      truth={'frequent_directions': fd, 'average_grad': v['avg'] and fd, 'generate_training_metrics': v['gtm'],
             'generate_fd_metrics': v['gfm'], 'best_effort_memory_usage_reduction': v['bemur'],
             'reset_preconditioner': False, 'compression_rank': comp, 'batch_axis_name': v['axis'],
             'reuse_preconditioner': v['reuse'] or fd, 'shard_optimizer_states': False,
             'decay_preconditioning_compute_steps': False, 'eigh': False, 'relative_matrix_epsilon': True,
             'clip_by_scaled_gradient_norm': False, 'decoupled_learning_rate': True, 'nesterov': True,
             'moving_average_for_momentum': False, 'decoupled_weight_decay': False},
      cmps={('compression_rank', '!=', 0): comp, ('compression_rank', '<=', 0): not comp, ('compression_rank', '<', 0): False,
            ('statistics_compute_steps', '>', 1): v['steps_gt1'], ('preconditioning_compute_steps', '==', 1): not v['steps_gt1'],
            ('steps', '==', 1): not v['steps_gt1'], ('weight_decay', '!=', 0): False, ('lobpcg_topk_precondition', '>', 0): False,
            ('exponent_override', '==', 0): True, ('reset_frequency', 'is', None): True, ('rank', '>', 0): True,
            ('padding_start', 'is not', None): True},
      calls={('callable', 'learning_rate'): False}, extra=extra)


def _vtag(v):
  return ','.join(k for k in ATOMS if v[k]) or 'base'


def ds_layout(ctx):
  m = ctx.model
  ev0 = evaluator(m)
  finit = m.func(MOD, F + '.init_fn')
  fcs = m.func(MOD, F + '._compute_stats')
  fcp = m.func(MOD, F + '._compute_preconditioners')
  ftg = m.func(MOD, F + '._transform_grad')
  ctx.analysed(finit, fcs, fcp, ftg, m.func(MOD, F + '._pmap_compute_preconditioners'),
               m.func(MOD, F + '._pmap_quantized_compute_preconditioners'), m.func(MOD, 'matrix_inverse_pth_root'),
               m.func(MOD, '_fd_update_root'), m.func(MOD, '_low_rank_root'))
  n = 0
  for v in ds_valuations(ctx.thorough):
    g = enum_member(ev0, m, MOD, 'GraftingType', 'RMSPROP' if v['graft_diag'] else 'SGD')
    PA, PB = sym('spec', 'param_a'), sym('spec', 'param_b')
    d = ds_decider(v, PA, PB)
    ev = evaluator(m, factory_cfg={'graft_type': g}, decide=d,
                   opaque={'_skip_preconditioning', 'merge_small_dims', 'power_iteration', 'mat_power'},
                   summaries={'efficient_cond': econd_summary}, max_depth=16)
    sk = Skel(m)
    vt = _vtag(v)
    G, STEP = sym('spec', 'grad'), sym('spec', 'step')
    try:
      s0 = [per_param_init(ev, finit, P) for P in (PA, PB)]
      s1 = [ev.run(fcs, args={'grad': G, 'state': s, 'param': P, 'step': STEP}) for s, P in zip(s0, (PA, PB))]
      r2 = ev.run(fcp, args={'states': T('list', *s1), 'params': T('list', PA, PB), 'step': STEP})
    except RecursionError:
      raise AnalysisError(f'recursion limit while evaluating the update path under [{vt}]')
    ctx.evaluations += 1
    if r2.op != 'list' or len(r2.args) != 2 or any(x.op == 'star' for x in r2.args):
      raise AnalysisError(f'_compute_preconditioners did not evaluate to one state per parameter under [{vt}]: {show(r2, maxdepth=3)[:200]}')
    s2 = list(r2.args)
    s3 = []
    for s, P in zip(s2, (PA, PB)):
      r = ev.run(ftg, args={'grad': G, 'state': s, 'param': P, 'step': STEP})
      if r.op != 'tuple' or len(r.args) != 2:
        raise AnalysisError('_transform_grad does not return (update, state)')
      s3.append(r.args[1])
    seen_conds = set()
    for ct, cfq, cnode in ev.cond_log:
      if ct in seen_conds:
        continue
      seen_conds.add(ct)
      ka, kb = sk.sk(ct.args[1]), sk.sk(ct.args[2])
      dfs = flatten_diff(ka, kb)
      cfi = m.functions.get(cfq)
      fname = cfi.short if cfi else cfq.split('.')[-1]
      if dfs:
        pth, a_, b_ = dfs[0]
        ctx.ob('C07.R2', fname, f'cond arms agree at {pth}', False,
               f'[{vt}] the two arms of a lax.cond/efficient_cond in {fname} return different pytrees at `{pth}`: {short(a_)} vs {short(b_)} '
               '(jax: "branch outputs must have the same pytree structure")', ctx.loc(cfi, cnode) if cfi else '')
      else:
        ctx.ob('C07.R2', fname, 'cond arms agree', True, '', '', sample=None, trivial=True)
    stages = [('_compute_stats', fcs, s1), ('_compute_preconditioners', fcp, s2), ('_transform_grad', ftg, s3)]
    for pi, pname in enumerate(('preconditioned', 'skipped')):
      k0 = sk.sk(s0[pi])
      _report_bad(ctx, finit, k0, f'init[{pname}]', vt)
      for sname, fi, sts in stages:
        k = sk.sk(sts[pi])
        diffs = flatten_diff(k0, k)
        n += 1
        msg = ''
        if diffs:
          pth, a, b = diffs[0]
          msg = (f'[{vt}] after {sname} the state of a {pname} parameter has a different tree layout than the initial state at '
                 f'`{pth}`: init {short(a)} vs {short(b)}')
        ctx.ob('C07.R2', fi.short, f'layout fixed point ({pname})' + (f' {diffs[0][0]}' if diffs else ''), not diffs, msg, ctx.loc(fi),
               sample=(f'[{vt}] {pname}: skeleton(init) == skeleton(after {sname})' if n <= 6 else None), trivial=n > 30)
        _report_bad(ctx, fi, k, f'{sname}[{pname}]', vt)
  ctx.need('C07.R2', n, 60, 'layout fixed-point obligations')


def _report_bad(ctx, fi, k, where, vt):
  """cond-mismatch / undecided-ite nodes inside a skeleton."""
  def rec(x, path):
    if isinstance(x, tuple):
      if x and x[0] == 'cond-mismatch':
        d = flatten_diff(x[1], x[2])
        p2, a, b = d[0] if d else ('', x[1], x[2])
        ctx.ob('C07.R2', fi.short, f'cond arms agree {path}{p2}', False,
               f'[{vt}] the two arms of a lax.cond/efficient_cond feeding `{path}` build different pytrees at `{p2}`: {short(a)} vs {short(b)} '
               '(jax raises "branch outputs must have the same pytree structure")', ctx.loc(fi))
        return
      if x and x[0] == 'rec':
        for kf, vf in x[2]:
          rec(vf, path + '.' + kf)
        return
      if x and x[0] in ('list',):
        for i, y in enumerate(x[1]):
          rec(y, f'{path}[{i}]')
        return
      if x and x[0] == 'list*':
        rec(x[1], path + '[*]')
        return
      if x and x[0] == 'ite':
        rec(x[2], path)
        rec(x[3], path)
  rec(k, where)


# ------------------------------------------------------------------ R2 (SM3, Tearfree)
def _rank_witness(nd):
  """oracle: comparisons of `<x>.ndim` / len(<x>.shape) with an integer constant are folded for tensor rank `nd`"""
  import operator as _op
  OPS = {'<': _op.lt, '<=': _op.le, '>': _op.gt, '>=': _op.ge, '==': _op.eq, '!=': _op.ne}

  def oracle(c):
    if c.op == 'cmp' and c.args[0] in OPS and is_const(c.args[2]) and isinstance(cval(c.args[2]), int) and not isinstance(cval(c.args[2]), bool):
      l = strip_casts(c.args[1])
      is_rank = (l.op == 'attr' and l.args[1] == 'ndim') or \
          (l.op == 'call' and l.args[0].op == 'builtin' and l.args[0].args[0] == 'len' and l.args[1] and l.args[1][0].op == 'attr' and l.args[1][0].args[1] == 'shape')
      if is_rank:
        return bool(OPS[c.args[0]](nd, cval(c.args[2])))
    return None
  return oracle


def other_layouts(ctx):
  m = ctx.model
  # SM3
  fi0 = m.func('sm3', 'sm3.init_fn')
  fu = m.func('sm3', 'sm3.update_fn')
  ctx.analysed(fi0, fu)
  for rank1 in (False, True):
    d = Decider(truth={'normalize_grads': False}, cmps={('weight_decay', '>', 0.0): False},
                calls={('callable', 'learning_rate'): False},
                extra=_rank_witness(1 if rank1 else 2))
    ev = evaluator(m, decide=d)
    P = sym('spec', 'param')
    s0 = per_param_init(ev, fi0, P)
    state = T('rec', m.cls('sm3', 'SM3State').fq, (('count', sym('spec', 'count')), ('stats', s0)))
    n_before = len(ev.calls)
    r = ev.run(fu, args={'updates': sym('spec', 'g'), 'state': state, 'params': P})
    cons = [c for c in ev.calls[n_before:] if c.via == 'construct' and c.callee == 'precondition.sm3.ParameterStats']
    ctx.need('C07.R2', len(cons), 1, 'sm3 ParameterStats constructor in update_fn')
    sk = Skel(m)
    k0 = sk.sk(s0)
    for c in cons:
      k = sk.sk(c.result)
      # SM3 keeps one accumulator per tensor axis: under the rank-1 witness per-axis lists have exactly one entry
      diffs = flatten_diff(k0, k, star_len=1 if rank1 else None)
      ctx.ob('C07.R2', fu.short, f'sm3 layout fixed point [rank1={rank1}]', not diffs,
             f'SM3 per-parameter state changes layout after an update: {[(p, short(a), short(b)) for p, a, b in diffs[:2]]}', ctx.loc(fu),
             sample='sm3: skeleton(init) == skeleton(update)')
  # Tearfree Shampoo
  fi0 = m.func('tearfree.shampoo', '_init.make_blocks')
  fs = m.func('tearfree.shampoo', '_update_block_stats')
  fp = m.func('tearfree.shampoo', '_update_block_precond')
  ctx.analysed(fi0, fs, fp)
  ev = evaluator(m, decide=Decider(extra=lambda c: False if c.op in ('call', 'cmp', 'bool') and 'shape' in show(c, maxdepth=6) and c.op != 'rec' else None),
                 opaque={'_blocks_metadata', '_pth_inv_root', '_ema_update'})
  P = sym('spec', 'param')
  s0 = ev.run(fi0, args={'path': sym('spec', 'path'), 'param': P})
  sk = Skel(m)
  k0 = sk.sk(s0)
  ok0 = isinstance(k0, tuple) and k0[0] == 'rec'
  ctx.ob('C07.R2', fi0.short, 'tearfree shampoo init builds _AxesBlocks', ok0, f'init leaf is {short(k0)}', ctx.loc(fi0), sample=short(k0)[:160])
  meta = sym('spec', 'meta')
  s1 = ev.run(fs, args={'second_moment_decay': sym('spec', 'decay'), 'update': sym('spec', 'u'), 'block': s0, 'meta': meta})
  s2 = ev.run(fp, args={'block': s1, 'meta': meta})
  for nm, fi, s in (('_update_block_stats', fs, s1), ('_update_block_precond', fp, s2)):
    diffs = flatten_diff(k0, sk.sk(s))
    ctx.ob('C07.R2', fi.short, 'tearfree shampoo layout fixed point', not diffs,
           f'_AxesBlocks layout changes in {nm}: {[(p, short(a), short(b)) for p, a, b in diffs[:2]]}', ctx.loc(fi),
           sample='_AxesBlocks(stats=[arr...], roots=[arr...]) preserved')
  # Tearfree Sketchy
  fi0 = m.func('tearfree.sketchy', '_init._tensor_state')
  fa = m.func('tearfree.sketchy', '_update_axis')
  ctx.analysed(fi0, fa)
  for add_ggt, ekfac, lin in itertools.product([False, True], repeat=3):
    truth = {'options.add_ggt': add_ggt, 'options.ekfac_svd': ekfac, 'options.linear_approx_tail': lin, 'add_ggt': add_ggt, 'ekfac': ekfac,
             'memory_alloc': False, 'options.memory_alloc': False, 'options.relative_epsilon': True}
    d = Decider(truth=truth, cmps={('options.epsilon', '>', 0): True},
                extra=lambda c: (True if (c.op == 'cmp' and c.args[0] in ('>', '<') and ('shape' in show(c, maxdepth=5) or 'builtin' in show(c, maxdepth=3))) else
                                 (False if c.op == 'cmp' and c.args[0] == '==' and is_const(c.args[2], 1) else None)))
    ev = evaluator(m, decide=d, opaque={'_safe_svd', '_locate_path', '_path_to_key'})
    P = sym('spec', 'param')
    t0 = ev.run(fi0, args={'path': sym('spec', 'path'), 'param': P})
    rf = rec_fields(t0)
    if rf is None or rf['axes'].op != 'list':
      raise AnalysisError('sketchy init does not build _TensorState(axes=[...])')
    ax0 = ev.elem_of(rf['axes'])
    sk = Skel(m)
    k0 = sk.sk(ax0)
    r = ev.run(fa, args={'options': sym('param', fa.short, 'options'), 'dim': sym('spec', 'dim'), 'path': sym('spec', 'path'),
                         'update': sym('spec', 'u'), 'axis_state': ax0, 'update_sketches': sym('spec', 'flag')})
    k = sk.sk(r)
    vt = f'add_ggt={int(add_ggt)},ekfac={int(ekfac)},linear_tail={int(lin)}'
    diffs = flatten_diff(k0, k)
    ctx.ob('C07.R2', fa.short, f'sketchy layout fixed point [{vt}]' + (f' {diffs[0][0]}' if diffs else ''), not diffs,
           f'[{vt}] _AxisState layout after _update_axis differs from init: {[(p, short(a), short(b)) for p, a, b in diffs[:2]]}', ctx.loc(fa),
           sample=f'[{vt}] 9 slots preserved')
    _report_bad(ctx, fa, k, '_update_axis', vt)


# ------------------------------------------------------------------ R3
def sharded_triple(ctx):
  m = ctx.model
  names = ['sharded_init_fn', 'sharded_init_shape_and_dtype_fn', 'sharded_init_partition_spec_fn']
  fis = [m.func(MOD, F + '.' + q) for q in names]
  ctx.analysed(*fis)
  ev0 = evaluator(m)
  # frequent directions with and without gradient averaging are different layouts (avg_grad is an array only with both)
  for (fd_avg, avg_), gtm, gfm, quant in itertools.product([(False, False), (True, True), (True, False)], [False, True], [False, True], [False, True]):
    if gfm and not (fd_avg and gtm):
      continue
    recs = {}
    guards = {}
    evs = {}
    for fi in fis:
      def extra(c, quant=quant):
        if c.op == 'cmp' and c.args[0] == '>' and is_const(c.args[2], 1) and 'shape' in show(c, maxdepth=5):
          return quant
        if c.op in ('sym',) and c.args[-1] in ('params_flat', 'param_pspec_flat'):
          return True
        return None
      d = Decider(truth={'frequent_directions': fd_avg, 'average_grad': avg_, 'generate_training_metrics': gtm, 'generate_fd_metrics': gfm,
                         'best_effort_memory_usage_reduction': quant, 'reset_preconditioner': False, 'compression_rank': fd_avg,
                         'reuse_preconditioner': fd_avg},
                  cmps={('compression_rank', '!=', 0): fd_avg, ('compression_rank', '<=', 0): not fd_avg, ('exponent_override', '==', 0): True},
                  extra=extra)
      g = enum_member(ev0, m, MOD, 'GraftingType', 'SGD')
      ev = evaluator(m, factory_cfg={'graft_type': g}, decide=d,
                     opaque={'_skip_preconditioning', 'preconditioner_from_params', 'shapes_for_preconditioners', 'exponent_for_preconditioner',
                             'precond_dim', '_max_statistics_size_from_params', '_remove_leading_sharding_annotation'})
      ev.run(fi)
      evs[fi] = ev
      cons = [c for c in ev.calls if c.via == 'construct' and c.callee.endswith('.LocalShardedParameterStats') and c.caller == fi.fq]
      if len(cons) != 1:
        raise AnalysisError(f'{fi.short}: expected one LocalShardedParameterStats constructor, found {len(cons)}')
      recs[fi] = cons[0]
    vt = f'fd={int(fd_avg)},avg={int(avg_)},metrics={int(gtm)},fd_metrics={int(gfm)},quant_momentum={int(quant)}'
    base = recs[fis[0]]
    k0 = _decl_skeleton(m, base.result)
    for fi in fis[1:]:
      k = _decl_skeleton(m, recs[fi].result)
      diffs = flatten_diff(k0, k)
      ctx.ob('C07.R3', fi.short, f'local record agrees with sharded_init_fn' + (f' at {diffs[0][0]}' if diffs else ''), not diffs,
             f'[{vt}] {fi.short} declares a different local state tree than sharded_init_fn builds: '
             f'{[(p, short(a), short(b)) for p, a, b in diffs[:2]]}', ctx.loc(fi), sample=f'[{vt}] skeleton equal')
    # statistics counter guard and sizes
    for fi in fis:
      ev = evs[fi]
      c = recs[fi]
      sizes = c.args.get('sizes')
      idx = c.args.get('index_start')
      oks = sizes is not None and _sizes_form(sizes)
      ctx.ob('C07.R3', fi.short, 'sizes = first dims of the announced shapes iff not skipped', oks,
             f'`sizes` must be [s[0] for s in shapes] for preconditioned parameters and [] for skipped ones; got `{show(sizes, maxdepth=5)[:160]}`',
             ctx.loc(fi), sample='sizes = [] | [s[0] for s in shapes]', trivial=True)
      sem = _counter_semantic(m, fi, d.truth, d.cmps, extra)
      okg = sem if sem is not None else (idx is not None and _counter_guarded(idx, ev.last_scope))
      ctx.ob('C07.R3', fi.short, 'statistics counted only for preconditioned parameters', okg,
             f'index_start must count the statistics of preceding parameters that are NOT skipped (guard `not _skip_preconditioning(param)`); got `{show(idx, maxdepth=6)[:200]}`',
             ctx.loc(fi), sample='index_start advances by len(shapes) under `not skip`')
  # leading dimension / max size / dtypes
  _leading_dim(ctx, fis)
  _dtypes(ctx, fis)


def _decl_skeleton(m, t):
  """Skeleton where `[shape, dtype]` declarations and partition specs count as array leaves."""
  class S(Skel):
    def _sk(self, x):
      if x.op == 'list' and len(x.args) == 2 and not any(e.op == 'star' for e in x.args):
        a, b = x.args
        if (a.op in ('list', 'call', 'sub', 'attr')) and (b.op in ('ext', 'attr', 'sym', 'ite') or path_str(b)):
          return 'arr'
      if x.op == 'sym':
        return 'arr'
      r = super()._sk(x)
      if isinstance(r, tuple) and r[0] == 'slot':
        return 'arr'
      return r
  sk = S(m)
  k = sk.sk(t)
  # static fields of the local record itself are compared by the dedicated rules
  if isinstance(k, tuple) and k[0] == 'rec':
    k = ('rec', k[1], k[2], tuple((a, b) for a, b in k[3] if a not in ('index_start', 'sizes')))
  return k


def _sizes_form(t):
  if t.op == 'list' and len(t.args) == 1 and t.args[0].op == 'star' and t.args[0].args[1].op == 'guarded':
    g = t.args[0].args[1].args[0]
    e = t.args[0].args[0]
    return g.op == 'un' and g.args[0] == 'not' and '_skip_preconditioning' in show(g, maxdepth=4) and \
        e.op == 'sub' and is_const(e.args[1], 0) and 'shapes_for_preconditioners' in show(e, maxdepth=5)
  if t.op == 'ite':
    c, a, b = t.args
    txt = show(c, maxdepth=5)
    if '_skip_preconditioning' not in txt:
      return False
    pos, neg = (a, b) if c.op == 'un' and c.args[0] == 'not' else (b, a)
    ok_neg = neg.op == 'list' and not neg.args
    ok_pos = pos.op == 'list' and len(pos.args) == 1 and pos.args[0].op == 'star' and \
        pos.args[0].args[0].op == 'sub' and is_const(pos.args[0].args[0].args[1], 0)
    return ok_neg and ok_pos
  return False


def _counter_semantic(m, fi, truth, cmps, extra0):
  """Decide the statistics counter by evaluating the function twice, once with `_skip_preconditioning(param)` decided
  true and once false: a skipped parameter must leave the running counter unchanged and declare no sizes; a
  preconditioned one must advance it by the number of announced shapes.  Returns None when the counter is not a
  running loop value (the structural rule applies then)."""
  cmpr = Comparer()
  out = []
  for skip in (True, False):
    def extra(c, skip=skip):
      if c.op == 'call' and fn_name(c) == '_skip_preconditioning':
        return skip
      return extra0(c)
    g = enum_member(evaluator(m), m, MOD, 'GraftingType', 'SGD')
    ev = evaluator(m, factory_cfg={'graft_type': g}, decide=Decider(truth=dict(truth), cmps=dict(cmps), extra=extra),
                   opaque={'_skip_preconditioning', 'preconditioner_from_params', 'shapes_for_preconditioners', 'exponent_for_preconditioner',
                           'precond_dim', '_max_statistics_size_from_params', '_remove_leading_sharding_annotation'})
    ev.run(fi)
    cons = [c for c in ev.calls if c.via == 'construct' and c.callee.endswith('.LocalShardedParameterStats') and c.caller == fi.fq]
    if len(cons) != 1:
      return None
    idx = cons[0].args.get('index_start')
    if idx is None or idx.op != 'phi':
      return None
    name = idx.args[1]
    final = ev.last_scope.vars.get(name)
    loops = list(dict.fromkeys(x for x in walk(final) if x.op == 'loop' and x.args[1] == name and x.args[0] == idx.args[0])) if final is not None else []
    if skip and not loops and final is not None:
      out.append(True)              # the loop leaves the counter alone: the evaluator folded it to its initial value
      continue
    if len(loops) != 1:
      return None
    body = loops[0].args[3]
    if skip:
      out.append(cmpr.same(body, idx))
    else:
      ok = False
      if body.op == 'bin' and body.args[0] == '+' and any(a is idx for a in body.args[1:]):
        inc = [a for a in body.args[1:] if a is not idx]
        inc = inc[0] if inc else idx
        if inc.op == 'call' and inc.args[0].op == 'builtin' and inc.args[0].args[0] == 'len' and len(inc.args[1]) == 1:
          lst = inc.args[1][0]
          if lst.op == 'list' and len(lst.args) == 1 and lst.args[0].op == 'star' and lst.args[0].args[1].op == 'compdom' and \
              len(lst.args[0].args[1].args) == 1:
            lst = lst.args[0].args[1].args[0]        # len([f(s) for s in X]) is len(X)
          ok = lst.op == 'call' and 'shapes_for_preconditioners' in show(lst.args[0], maxdepth=4)
      out.append(ok)
  return all(out)


def _counter_guarded(idx, scope):
  """idx = phi/loop counter whose increment is ite(not skip, phi + len(shapes), phi) or len(list extended under not skip)."""
  name = None
  label = None
  for x in walk(idx):
    if x.op == 'phi':
      name = x.args[1]
    if x.op == 'loopacc':
      label, name = x.args[0], x.args[1]
  if name is not None and name in scope.vars:
    final = scope.vars[name]
    loops = [x for x in walk(final) if x.op == 'loop' and x.args[1] == name]
    if loops:
      body = loops[0].args[3]
      if body.op == 'ite' and '_skip_preconditioning' in show(body.args[0], maxdepth=5):
        c, a, b = body.args
        pos, neg_ = (a, b) if (c.op == 'un' and c.args[0] == 'not') else (b, a)
        return pos.op == 'bin' and pos.args[0] == '+' and pos.args[1].op == 'phi' and neg_.op == 'phi' and 'len' in show(pos.args[2], maxdepth=4)
      return False
    if final.op == 'list':
      stars = [e for e in final.args if e.op == 'star' and e.args[1].op in ('loopdom', 'guarded')]

      def loop_of(dom):
        while dom.op == 'guarded' and len(dom.args) > 1:
          dom = dom.args[1]
        return dom.args[0] if dom.op == 'loopdom' else None
      if label is not None:
        # what a LATER loop appends (the device padding) is not seen by the counter read inside loop `label`
        stars = [e for e in stars if loop_of(e.args[1]) in (label, None)]
      if not stars:
        return False
      for e in stars:
        dom = e.args[1]
        guards = []
        while dom.op == 'guarded':
          guards.append(dom.args[0])
          dom = dom.args[1] if len(dom.args) > 1 else NONE
        if dom.op == 'loopdom' and len(dom.args) > 2:
          guards.extend(dom.args[2])
        if not any(g.op == 'un' and g.args[0] == 'not' and '_skip_preconditioning' in show(g, maxdepth=5) for g in guards):
          return False
      return True
    return False
  txt = show(idx, maxdepth=12)
  if idx.op == 'call' and idx.args[0].op == 'builtin' and idx.args[0].args[0] == 'len':
    lst = idx.args[1][0]
    # list extended inside the loop; every star element must carry the `not skip` guard
    for x in walk(lst):
      if x.op == 'star' and x.args[1].op == 'loopdom':
        guards = x.args[1].args[2] if len(x.args[1].args) > 2 else ()
        if not any('_skip_preconditioning' in show(g, maxdepth=5) and g.op == 'un' and g.args[0] == 'not' for g in guards):
          return False
    return any(x.op == 'star' for x in walk(lst)) or lst.op == 'phi'
  for x in walk(idx):
    if x.op == 'ite' and '_skip_preconditioning' in show(x.args[0], maxdepth=5):
      c, a, b = x.args
      pos, neg = (a, b) if c.op == 'un' and c.args[0] == 'not' else (b, a)
      if pos.op == 'bin' and pos.args[0] == '+' and neg.op == 'phi' and pos.args[1] is neg and 'len' in show(pos.args[2], maxdepth=4):
        return True
  if idx.op == 'phi':
    # value inside the loop; the loop term carries the increment
    return True
  return False


def _leading_dim(ctx, fis):
  m = ctx.model
  cmpr = Comparer()
  forms = {}
  for fi in fis[:2]:
    ev = evaluator(m, opaque={'_skip_preconditioning', 'preconditioner_from_params', 'shapes_for_preconditioners', 'exponent_for_preconditioner',
                              'precond_dim', '_max_statistics_size_from_params', '_quantize_momentum', '_quantize_diagonal_statistics',
                              'init_avg_grad', 'init_training_metrics', 'init_avg_grad_shape', 'init_training_metrics_shapes'})
    ev.run(fi)
    sc = ev.last_scope
    # the pad count is found by its shape: a `%` by the declared device count, anywhere in the function's values
    cands = list(dict.fromkeys(x for v_ in sc.vars.values() for x in walk(v_)
                               if x.op == 'bin' and x.args[0] == '%' and x.args[2].op == 'sym' and x.args[2].args[-1] == 'num_devices_for_pjit'))
    if not cands:
      raise AnalysisError(f'{fi.short}: no `<count> % num_devices_for_pjit` expression found')
    tp = cands[0]
    ok = False
    for x in cands:
      a, b = x.args[1], x.args[2]
      if a.op == 'un' and a.args[0] == '-' and b.op == 'sym' and b.args[-1] == 'num_devices_for_pjit':
        ok = True
    ctx.ob('C07.R3', fi.short, 'pad count = -N % num_devices_for_pjit', ok,
           f'leading dimension must be padded by (-N) mod D; got `{show(tp, maxdepth=6)[:200]}`', ctx.loc(fi), sample='to_pad = -N % D')
    # N == 0 special case uses D rows of size block_size
    txt = show(tp, maxdepth=8)
    ok0 = 'num_devices_for_pjit' in txt
    forms[fi] = tp
  # max statistic size: both count only non-skipped parameters
  f_init = fis[0]
  f_max = m.func(MOD, F + '._max_statistics_size_from_params')
  ctx.analysed(f_max)
  for fi in (f_init, f_max):
    ev = evaluator(m, opaque={'_skip_preconditioning', 'preconditioner_from_params', 'shapes_for_preconditioners', 'exponent_for_preconditioner',
                              'precond_dim', '_quantize_momentum', '_quantize_diagonal_statistics', 'init_avg_grad', 'init_training_metrics'})
    ev.run(fi)
    sc = ev.last_scope
    # the running maximum over statistic sizes (found by shape: a loop value folding builtin max into itself)
    accs = []
    for v_ in sc.vars.values():
      for x in walk(v_):
        if x.op == 'loop' and x not in accs and any(y.op == 'call' and y.args[0].op == 'builtin' and y.args[0].args[0] == 'max' and
                                                   any(z.op == 'phi' and z.args[0] == x.args[0] for z in y.args[1]) for y in walk(x.args[3])):
          accs.append(x)
    if not accs:
      raise AnalysisError(f'{fi.short}: running maximum of statistic sizes not found')
    for x in accs:
      body = x.args[3]
      phi_ = [z for z in walk(body) if z.op == 'phi' and z.args[0] == x.args[0]][0]
      ok = body.op == 'ite' and fn_name(body.args[0]) == '_skip_preconditioning' and body.args[1] is phi_ and \
          body.args[2].op == 'call' and body.args[2].args[0].op == 'builtin' and body.args[2].args[0].args[0] == 'max' and is_const(x.args[2], 0)
      ctx.ob('C07.R3', fi.short, 'max statistic size over preconditioned parameters only', ok,
             f'the maximal statistic size must be taken over parameters that are not skipped and start at 0; got `{show(x, maxdepth=4)[:200]}`; '
             'init and declaration otherwise disagree on the padded size', ctx.loc(fi), sample='if not _skip_preconditioning(param): max_size = max(...)')


def _dtype_of(t):
  """dtype class of a constructing expression / declaration."""
  t0 = t
  if t.op == 'list' and len(t.args) == 2:
    return _dtype_name(t.args[1])
  n = ext_name(t)
  if n in ('jax.numpy.zeros', 'jax.numpy.ones', 'jax.numpy.eye', 'jax.numpy.array', 'jax.numpy.full'):
    kw = dict(t.args[2])
    if 'dtype' in kw:
      return _dtype_name(kw['dtype'])
    for a in t.args[1][1:]:
      if a.op == 'ext' and a.args[0].startswith('jax.numpy.'):
        return _dtype_name(a)
    return 'float32'
  if n == 'jax.numpy.pad' and t.args[1]:
    return _dtype_of(t.args[1][0])                  # padding keeps the dtype
  if n == 'jax.numpy.asarray' and t.args[1]:
    kw = dict(t.args[2])
    dt_ = kw.get('dtype', t.args[1][1] if len(t.args[1]) > 1 else None)
    if dt_ is not None:
      return _dtype_name(dt_)
    return _dtype_of(T('call', T('ext', 'jax.numpy.stack'), (t.args[1][0],), ()))
  if n == 'jax.numpy.stack' and t.args[1]:
    lst = t.args[1][0]
    es = [(_dtype_of(e.args[0]) if e.op == 'star' else _dtype_of(e)) for e in lst.args] if lst.op == 'list' else []
    es = [e for e in es if e and not e.startswith('dtype-of')]
    if es and all(e == es[0] for e in es):
      return es[0]
    return None
  if t.op == 'bin' and t.args[0] == '*':
    return _dtype_of(t.args[1]) or _dtype_of(t.args[2])
  if t.op == 'ite':
    a, b = _dtype_of(t.args[1]), _dtype_of(t.args[2])
    return a if a == b else None
  if t.op == 'const' and isinstance(cval(t), int) and not isinstance(cval(t), bool):
    return 'int32'
  return None


def _dtype_name(t):
  if t.op == 'ext':
    return t.args[0].split('.')[-1]
  if t.op == 'ite':
    a, b = _dtype_name(t.args[1]), _dtype_name(t.args[2])
    if a and b and (a == b or b.startswith('dtype-of') or a.startswith('dtype-of')):
      return a if not a.startswith('dtype-of') else b
    return None
  if t.op == 'attr' and t.args[1] == 'dtype':
    return 'dtype-of:' + (path_str(t.args[0]) or '?')
  return None


def _dtypes(ctx, fis):
  m = ctx.model
  f_init, f_shape = fis[0], fis[1]
  res = {}
  for fi in (f_init, f_shape):
    ev = evaluator(m, decide=Decider(truth={'best_effort_memory_usage_reduction': False}),
                   opaque={'_skip_preconditioning', 'preconditioner_from_params', 'shapes_for_preconditioners', 'exponent_for_preconditioner',
                           'precond_dim', '_max_statistics_size_from_params', '_quantize_momentum', '_quantize_diagonal_statistics',
                           'init_avg_grad', 'init_training_metrics', 'init_avg_grad_shape', 'init_training_metrics_shapes'})
    ev.run(fi)
    ss = [c for c in ev.calls if c.via == 'construct' and c.callee.endswith('.ShampooState') and c.caller == fi.fq]
    gs = [c for c in ev.calls if c.via == 'construct' and c.callee.endswith('.GlobalShardedParameterStats') and c.caller == fi.fq]
    if not ss or not gs:
      raise AnalysisError(f'{fi.short}: ShampooState / GlobalShardedParameterStats constructors not found')
    res[fi] = dict(count=_dtype_of(ss[0].args['count']), statistics=_dtype_of(gs[0].args['statistics']),
                   preconditioners=_dtype_of(gs[0].args['preconditioners']), exponents=_dtype_of(gs[0].args['exponents']))
  for k in ('count', 'statistics', 'preconditioners', 'exponents'):
    a, b = res[f_init][k], res[f_shape][k]
    if a is None or b is None:
      raise AnalysisError(f'dtype of `{k}` not derivable (init {a}, declared {b})')
    ctx.ob('C07.R3', f_shape.short, f'declared dtype of {k}', a == b,
           f'sharded_init_fn builds `{k}` as {a} but the shape/dtype function declares {b}', ctx.loc(f_shape), sample=f'{k}: {a}')
  # quantized momentum declaration: payload in the quantized dtype, scale in float
  ev = evaluator(m, decide=Decider(truth={'best_effort_memory_usage_reduction': True},
                                   extra=lambda c: True if (c.op == 'cmp' and c.args[0] == '>' and is_const(c.args[2], 1)) else None),
                 opaque={'_skip_preconditioning', 'preconditioner_from_params', 'shapes_for_preconditioners', 'precond_dim', '_max_statistics_size_from_params',
                         'init_avg_grad_shape', 'init_training_metrics_shapes'})
  ev.run(f_shape)
  # the momentum declarations are the QuantizedValue records stored in the two momentum fields of the per-parameter
  # state (wherever they are built: inline or in a local helper)
  lsp = [c for c in ev.calls if c.via == 'construct' and c.callee.endswith('.LocalShardedParameterStats') and
         (c.caller == f_shape.fq or c.caller.startswith(f_shape.fq + '.'))]
  ctx.need('C07.R3', len(lsp), 1, 'LocalShardedParameterStats declarations in the shape/dtype function')
  qrec = {id(c.result): c for c in ev.calls if c.via == 'construct' and c.callee.endswith('.QuantizedValue')}
  qv = []
  for l_ in lsp:
    for fld in ('diagonal_momentum', 'momentum'):
      v_ = l_.args.get(fld)
      if v_ is None or id(v_) not in qrec:
        raise AnalysisError(f'{f_shape.short}: field `{fld}` of LocalShardedParameterStats is not declared by a QuantizedValue constructor')
      qv.append(qrec[id(v_)])
  ctx.need('C07.R3', len(qv), 2, 'quantized momentum declarations in the shape/dtype function')
  for c in qv:
    pay = _dtype_of(c.args['quantized']) if c.args['quantized'].op == 'list' else None
    sc = _dtype_of(c.args['bucket_size']) if c.args['bucket_size'].op == 'list' and c.args['bucket_size'].args else None
    qd = _dtype_name(c.args['quantized_dtype'])
    ok = pay == qd and sc is not None and sc != qd
    ctx.ob('C07.R3', f_shape.short, 'quantized momentum declaration (payload in quantized dtype, scale in float)', ok,
           f'with int8 momentum, payload is built as {qd} and bucket sizes as float; declared payload {pay}, scale {sc}', ctx.loc(f_shape),
           sample=f'payload {qd}, scale float')


# ------------------------------------------------------------------ R5
_SQUEEZE_FIXTURE = """
import jax.numpy as xp
def f(v):
  a = xp.squeeze(v)
  b = xp.squeeze(v, axis=0)
  c = v.squeeze()
  d = v.squeeze(0)
  return a, b, c, d
"""


def _squeeze_sites(tree, aliases):
  """(call node, has_axis) for every numpy-style or method-style squeeze in `tree`."""
  out = []
  for node in ast.walk(tree):
    if not (isinstance(node, ast.Call) and isinstance(node.func, ast.Attribute) and node.func.attr == 'squeeze'):
      continue
    root = node.func.value
    while isinstance(root, ast.Attribute):
      root = root.value
    dotted = aliases.get(root.id, '') if isinstance(root, ast.Name) else ''
    is_module_fn = dotted.split('.')[0] in ('jax', 'numpy') and isinstance(node.func.value, (ast.Name, ast.Attribute)) and \
        (isinstance(root, ast.Name) and root.id in aliases)
    if is_module_fn:
      has_axis = any(k.arg == 'axis' for k in node.keywords) or len(node.args) >= 2
    else:
      has_axis = any(k.arg == 'axis' for k in node.keywords) or len(node.args) >= 1
    out.append((node, has_axis))
  return out


def squeeze_lint(ctx):
  m = ctx.model
  # the rule must recognise all four spellings on a fixture, on every run
  ft = ast.parse(_SQUEEZE_FIXTURE)
  got = [h for _, h in _squeeze_sites(ft, module_aliases(ft))]
  if got != [False, True, False, True]:
    raise AnalysisError(f'squeeze lint does not recognise its fixture: {got}')
  n = 0
  for fq, fi in sorted(m.functions.items()):
    if any(fi.short == u or fi.short.startswith(u + '.') for u in UNREACHABLE):
      continue
    if fi.module.name.startswith('precondition.oco'):
      continue
    al = module_aliases(fi.module.tree)
    for node, has_axis in _squeeze_sites(fi.node, al):
      own = _innermost(m, fi, node)
      if own is not fi:
        continue
      n += 1
      ctx.ob('C07.R5', fi.short, f'squeeze: {norm_src(node)[:80]}', has_axis,
             'axis-less squeeze also removes size-1 data dimensions (1x1 statistics collapse to 0-d and break the caller\'s slicing)',
             ctx.loc(fi, node), sample=norm_src(node)[:80])
  ctx.need('C07.R5', n, 1, 'squeeze call sites')
  ctx.exclusions.append({k: v for k, v in UNREACHABLE.items()})


def _innermost(m, fi, node):
  best = fi
  for child in fi.children.values():
    if child.node.lineno <= node.lineno <= getattr(child.node, 'end_lineno', child.node.lineno):
      return _innermost(m, child, node)
  return best


# ------------------------------------------------------------------ R8
def transformation_wiring(ctx):
  """R8: every GradientTransformation / ShardedGradientTransformation built in the package hands the state constructor to
  `init`, the step function to `update` (and the spec function to `init_partition_spec`): decided by the shape of what is
  passed - a function of one parameter is an init / spec function, a function of two or three an update function; an
  attribute of another transformation must be its `.init` / `.update` / `.init_partition_spec`."""
  m = ctx.model
  n = 0
  FIELDS = ('init', 'update', 'init_partition_spec')
  for fq, fi in sorted(m.functions.items()):
    if fi.module.name.endswith('_test'):
      continue
    al = module_aliases(fi.module.tree)
    nested = {}

    def collect(f):
      for c in f.children.values():
        nested.setdefault(c.node.name, c.node)
        collect(c)
    top = fi
    while top.parent is not None:
      top = top.parent
    collect(top)
    for node in ast.walk(fi.node):
      if not isinstance(node, ast.Call) or _innermost(m, fi, node) is not fi:
        continue
      fsrc = ast.unparse(node.func)
      head = fsrc.split('.')[0]
      full = (al.get(head, head) + fsrc[len(head):]) if head in al else fsrc
      if not full.split('.')[-1] in ('GradientTransformation', 'ShardedGradientTransformation'):
        continue
      if any(isinstance(a, ast.Starred) for a in node.args):
        continue
      bound = {}
      for i, a in enumerate(node.args[:3]):
        bound[FIELDS[i]] = a
      for kw in node.keywords:
        if kw.arg in FIELDS:
          bound[kw.arg] = kw.value
      n += 1
      for fld, a in bound.items():
        arity = None
        if isinstance(a, ast.Lambda):
          arity = len(a.args.args)
        elif isinstance(a, ast.Name) and a.id in nested:
          fn = nested[a.id]
          arity = len(fn.args.args)
          required = arity - len(fn.args.defaults)
        if isinstance(a, ast.Lambda):
          required = arity - len(a.args.defaults)
        if arity is not None:
          ok = (required <= 1 <= arity) if fld in ('init', 'init_partition_spec') else (required <= 3 and arity >= 2)
          what = f'a function of {arity} parameter(s)'
        elif isinstance(a, ast.Attribute) and a.attr in FIELDS:
          ok = a.attr == fld
          what = f'`{ast.unparse(a)}`'
        else:
          continue
        ctx.ob('C07.R8', fi.short, f'{full.split(".")[-1]}.{fld} <- {ast.unparse(a)[:40]}', ok,
               f'`{fld}` of the transformation receives {what}: init / init_partition_spec take one tree (params), update takes (updates, state[, params]) - '
               'swapped arguments make the optimizer unusable', ctx.loc(fi, node), sample=f'{fld}={ast.unparse(a)[:30]}', trivial=True)
  ctx.need('C07.R8', n, 8, 'GradientTransformation construction sites')


# ------------------------------------------------------------------ R6
def validation(ctx):
  """Configuration-only assertions on the update path hold for every accepted configuration."""
  m = ctx.model
  ev0 = evaluator(m)
  fcp = m.func(MOD, F + '._compute_preconditioners')
  finit = m.func(MOD, F + '.init_fn')
  fcs = m.func(MOD, F + '._compute_stats')
  ffac = m.func(MOD, F)
  atoms = ['fd', 'reuse', 'comp', 'avg', 'gfm', 'gtm']
  n = 0
  for bits in itertools.product([False, True], repeat=len(atoms)):
    v0 = dict(zip(atoms, bits))
    # constructor acceptance under this valuation
    truth = {'frequent_directions': v0['fd'], 'reuse_preconditioner': v0['reuse'], 'compression_rank': v0['comp'],
             'average_grad': v0['avg'], 'generate_fd_metrics': v0['gfm'], 'generate_training_metrics': v0['gtm'],
             'reset_preconditioner': False, 'shard_optimizer_states': False, 'best_effort_memory_usage_reduction': False,
             'batch_axis_name': False}
    cm = {('compression_rank', '<=', 0): not v0['comp'], ('compression_rank', '!=', 0): v0['comp'], ('compression_rank', '<', 0): False,
          ('statistics_compute_steps', '!=', 'preconditioning_compute_steps'): False}
    d = Decider(truth=truth, cmps=cm, extra=lambda c: False if (c.op == 'cmp' and c.args[0] == '!=' and 'statistics_compute_steps' in show(c, maxdepth=3)) else None)
    ev = evaluator(m, decide=d)
    ev.closure_env(finit)
    rejected = [r for r in ev.raises if r[2] == ffac.fq and all(x.op == 'inloop' or False for x in r[1])]
    rejected = [r for r in ev.raises if r[2] == ffac.fq and not r[1]]
    vt = ','.join(k for k in atoms if v0[k]) or 'none'
    if rejected:
      ctx.samples.append(dict(rule='C07.R6', site=ffac.short, construct=f'[{vt}] rejected by the constructor', verdict='ok',
                              detail=show(rejected[0][0], maxdepth=4)[:120])) if len(ctx.samples) < 60 else None
      continue
    # accepted: run the update path and look for assertions that fold to False
    v = dict(fd=v0['fd'], avg=v0['avg'], gtm=v0['gtm'], gfm=v0['gfm'], graft_diag=False, bemur=False, comp=v0['comp'], axis=False,
             reuse=v0['reuse'], rank_gt1=True, steps_gt1=True)
    PA, PB = sym('spec', 'param_a'), sym('spec', 'param_b')
    d2 = ds_decider_raw(v, PA, PB)
    g = enum_member(ev0, m, MOD, 'GraftingType', 'SGD')
    ev = evaluator(m, factory_cfg={'graft_type': g}, decide=d2,
                   opaque={'_skip_preconditioning', 'merge_small_dims', 'power_iteration', 'mat_power'},
                   summaries={'efficient_cond': econd_summary}, max_depth=16)
    G, STEP = sym('spec', 'grad'), sym('spec', 'step')
    s0 = [per_param_init(ev, finit, P) for P in (PA, PB)]
    s1 = [ev.run(fcs, args={'grad': G, 'state': s, 'param': P, 'step': STEP}) for s, P in zip(s0, (PA, PB))]
    ev.asserts.clear()
    ev.run(fcp, args={'states': T('list', *s1), 'params': T('list', PA, PB), 'step': STEP})
    ctx.evaluations += 1
    failing = []
    for cnd, path, fq, node in ev.asserts:
      dd = ev.decide(cnd)
      if dd is False:
        failing.append((fq, node, cnd))
    n += 1
    seen = set()
    for fq, node, cnd in failing:
      key = (fq, norm_src(node))
      if key in seen:
        continue
      seen.add(key)
      fi = m.functions.get(fq)
      ctx.ob('C07.R6', fi.short if fi else fq, f'assert holds: {norm_src(node)[:80]}', False,
             f'configuration [{vt}] is accepted by the constructor but `{norm_src(node)[:100]}` fails on the update path '
             '(an internal AssertionError instead of an explanatory rejection)', ctx.loc(fi, node) if fi else '')
    if not failing:
      ctx.ob('C07.R6', fcp.short, f'no failing config-only assertion [{vt}]', True, '', ctx.loc(fcp),
             sample=f'[{vt}] accepted; {len(ev.asserts)} assertions met, none folds to False', trivial=n > 8)
  ctx.need('C07.R6', n, 8, 'accepted configuration valuations')


def ds_decider_raw(v, PA, PB):
  """Like ds_decider but does not force fd => comp/reuse (validation explores what the constructor accepts)."""
  d = ds_decider(dict(v, fd=False), PA, PB)
  fd = v['fd']
  d.truth.update({'frequent_directions': fd, 'average_grad': v['avg'], 'compression_rank': v['comp'], 'reuse_preconditioner': v['reuse']})
  d.cmps.update({('compression_rank', '!=', 0): v['comp'], ('compression_rank', '<=', 0): not v['comp']})
  return d


# ------------------------------------------------------------------ R7
def dead_stores(ctx):
  m = ctx.model
  n = 0
  for fq, fi in sorted(m.functions.items()):
    if fi.module.name.startswith('precondition.oco'):
      continue

    def scan(stmts):
      nonlocal n
      for i, s in enumerate(stmts):
        for fld in ('body', 'orelse', 'finalbody'):
          sub = getattr(s, fld, None)
          if isinstance(sub, list) and sub and isinstance(sub[0], ast.stmt) and not isinstance(s, (ast.FunctionDef, ast.ClassDef)):
            scan(sub)
        if isinstance(s, ast.Assign) and len(s.targets) == 1 and isinstance(s.targets[0], ast.Name) and \
            any(isinstance(x, ast.Call) for x in ast.walk(s.value)):
          name = s.targets[0].id
          if i + 1 < len(stmts):
            nxt = stmts[i + 1]
            if isinstance(nxt, ast.Assign) and len(nxt.targets) == 1 and isinstance(nxt.targets[0], ast.Name) and nxt.targets[0].id == name:
              reads = [x for x in ast.walk(nxt.value) if isinstance(x, ast.Name) and x.id == name]
              n += 1
              ctx.ob('C07.R7', fi.short, f'dead store `{name}`', bool(reads),
                     f'`{norm_src(s)[:90]}` is overwritten by the next statement without being read (a computed value is discarded)',
                     ctx.loc(fi, s), sample=f'{name} re-assigned from itself', trivial=True)
    scan(fi.node.body)
  ctx.notes.append(f'C07.R7 inspected {n} consecutive re-assignments')
