"""C10 - packed low-rank preconditioner: writer/reader agreement and application.

Decided statically:
  R1  slot table: every field written by `_fd_low_rank_pack` (precond.at[I, J].set(v)) is read back by
      `_fd_low_rank_unpack` (preconditioner[I, J]) from the same region; regions (intervals with
      endpoints linear in the dimension d and rank r, negative indices resolved against the
      (d, r+2) buffer) are pairwise disjoint for all r >= 1, d >= r + 3; the wrappers
      `_low_rank_pack` / `_low_rank_unpack` route (eigvecs, inverse-root values, const, flag) to the
      matching fields and positions; the buffer is (d, |r|+2) without a pinned narrower dtype;
  R2  predicate agreement: `_precond_dim(r, d) < d`  <=>  `_should_compress(r, d)` on every abstract
      state (r == 0?, |r|+2 <,=,> d); the configured (signed) rank reaches `_should_compress`,
      `_low_rank_root` and `_fd_update_root` unchanged;
  R3  application: in `_precondition_block` the compressed branch computes
      const * (g - (g V) V^T) + ((g V) e) V^T along the rolled axis and the unpacked flag alone selects
      the unchanged (rolled) gradient on true;
  R4  `_low_rank_root`: inverse-root values where(e == 0, 0, max(e, ridge)^(-1/p)); negative rank rolls
      the padding zeros to the back (smallest retained), positive rank flips (largest retained); the first
      |r| values / vectors are kept and the rest replaced by their mean over the unpadded dimensions.
Not decided: equality with the dense matrix to tolerance; correctness of the eigendecomposition.
"""
from __future__ import annotations

import itertools

import sympy as sp

from ..lib import (evaluator, Decider, rec_fields, show, walk, strip_casts, is_ext_call, fn_name, method_name,
                   path_str, ext_name, select_arms)
from ..spec import spec_term, Comparer
from ..terms import T, sym, const, is_const, cval, NONE
from ..model import AnalysisError

MOD = 'distributed_shampoo'
F = 'distributed_shampoo'

ASSUMPTIONS = ['numpy indexing semantics for negative indices and slices', 'abs(rank) >= 1 and d >= |rank| + 3 whenever the packed form is used (asserted by the code)']

D_, R_ = sp.Symbol('d', integer=True), sp.Symbol('r', integer=True)


def _interval(idx, size):
  """index term -> (lo, hi) sympy forms; size = dimension length (sympy)."""
  idx = strip_casts(idx)
  if idx.op == 'slice':
    lo, hi, st = idx.args
    if not is_const(st, None):
      raise AnalysisError('strided slice in the packed layout')
    def bound(b, default):
      if is_const(b, None):
        return default
      e = _lin(b)
      return e if not _is_negative(b) else size + e
    return bound(lo, sp.Integer(0)), bound(hi, size)
  e = _lin(idx)
  if _is_negative(idx):
    e = size + e
  return e, e + 1


def _is_negative(t):
  t = strip_casts(t)
  if is_const(t) and isinstance(cval(t), int):
    return cval(t) < 0
  if t.op == 'un' and t.args[0] == '-':
    return True
  return False


def _lin(t):
  t = strip_casts(t)
  if is_const(t) and isinstance(cval(t), int):
    return sp.Integer(cval(t))
  if t.op == 'un' and t.args[0] == '-':
    return -_lin(t.args[1])
  if t.op == 'sym' and str(t.args[-1]) in ('rank', 'r'):
    return R_
  if t.op == 'call' and t.args[0].op == 'builtin' and t.args[0].args[0] == 'abs':
    return R_
  if t.op == 'sub' and is_const(t.args[1]) and cval(t.args[1]) in (0, 1) and t.args[0].op == 'attr' and t.args[0].args[1] == 'shape' and \
      t.args[0].args[0].op == 'sym' and str(t.args[0].args[0].args[-1]) in ('eigvecs', 'preconditioner'):
    # eigvecs is (d, r); the packed preconditioner is (d, r + 2) (the buffer shape is checked separately)
    if cval(t.args[1]) == 0:
      return D_
    return R_ if str(t.args[0].args[0].args[-1]) == 'eigvecs' else R_ + 2
  if fn_name(t) == '_precond_dim':
    return R_ + 2                 # in the compressed regime (asserted by both functions, decided by R2)
  if t.op == 'bin' and t.args[0] in ('+', '-'):
    a, b = _lin(t.args[1]), _lin(t.args[2])
    return a + b if t.args[0] == '+' else a - b
  raise AnalysisError(f'index expression not linear in (d, r): {show(t, maxdepth=3)}')


def _region(index_term):
  """(rows interval, cols interval) of a 2-d index term."""
  if index_term.op != 'tuple' or len(index_term.args) != 2:
    raise AnalysisError(f'packed layout index is not 2-d: {show(index_term, maxdepth=3)}')
  return _interval(index_term.args[0], D_), _interval(index_term.args[1], R_ + 2)


def _nonneg_on_cone(e):
  """e >= 0 for all r = 1 + s, d = r + 3 + t, s, t >= 0 (linear e)."""
  s_, t_ = sp.symbols('s_ t_', nonnegative=True)
  f = sp.expand(e.subs({D_: R_ + 3 + t_}).subs({R_: 1 + s_}))
  p = sp.Poly(f, s_, t_)
  if p.total_degree() > 1:
    return False
  return all(c >= 0 for c in p.coeffs())


def _disjoint(a, b):
  (ar, ac), (br, bc) = a, b
  for (l1, h1), (l2, h2) in ((ar, br), (ac, bc)):
    if _nonneg_on_cone(l2 - h1) or _nonneg_on_cone(l1 - h2):
      return True
  return False


def _same(a, b):
  return all(sp.simplify(x - y) == 0 for x, y in zip(a[0] + a[1], b[0] + b[1]))


def _fmt(reg):
  return f'rows [{reg[0][0]}, {reg[0][1]}) x cols [{reg[1][0]}, {reg[1][1]})'


def run(ctx):
  slot_table(ctx)
  wrappers(ctx)
  predicates(ctx)
  rank_flow(ctx)
  predicate_call_sites(ctx)
  application(ctx)
  low_rank_root(ctx)
  # the packed root must be the root of the UNPADDED statistic: mask prologue / cast-back shared with the dense routines
  from . import C01
  C01.siblings(ctx)
  # ... which needs the statistic's own size as padding start in every mode, and the packed root cut back to its own
  # announced shape (rows [:d], all pd columns) before it is stored
  from . import C13
  C13.parallel_lists(ctx)
  C13.slice_back(ctx)


def slot_table(ctx):
  m = ctx.model
  fw = m.func(MOD, '_fd_low_rank_pack')
  fr = m.func(MOD, '_fd_low_rank_unpack')
  ctx.analysed(fw, fr)
  ev = evaluator(m, opaque={'_precond_dim'})
  params = ['eigvecs', 'deflated_eigs', 'inverted_eigs', 'new_const', 'new_tail', 'has_zeros']
  w = ev.run(fw)
  # unwind precond.at[I].set(v) chain
  writes = {}
  t = w
  buf = None
  while method_name(t) == 'set':
    recv = t.args[0].args[0]
    if not (recv.op == 'sub' and recv.args[0].op == 'attr' and recv.args[0].args[1] == 'at'):
      raise AnalysisError('_fd_low_rank_pack: unexpected .set receiver')
    val = t.args[1][0]
    src = [p for p in params if any(x.op == 'sym' and x.args[-1] == p for x in walk(val))]
    if len(src) != 1:
      raise AnalysisError(f'_fd_low_rank_pack: cannot attribute written value `{show(val, maxdepth=3)}` to one parameter')
    writes.setdefault(src[0], []).append(_region(recv.args[1]))
    t = recv.args[0].args[0]
  buf = t
  ctx.need('C10.R1', len(writes), 6, 'fields written by _fd_low_rank_pack')
  okb = is_ext_call(buf, 'jax.numpy.zeros') and buf.args[1] and buf.args[1][0].op == 'tuple' and len(buf.args[1][0].args) == 2
  dt_ok = True
  if okb:
    shp = buf.args[1][0].args
    okb = path_str(strip_casts(shp[0])) in ('eigvecs.shape',) or 'shape' in show(shp[0], maxdepth=4)
    try:
      okb = okb and sp.simplify(_lin(shp[1]) - (R_ + 2)) == 0
    except AnalysisError:
      okb = False
    kw = dict(buf.args[2])
    if 'dtype' in kw or len(buf.args[1]) > 1:
      dt = kw.get('dtype', buf.args[1][1] if len(buf.args[1]) > 1 else NONE)
      dt_ok = not (dt.op == 'ext')        # a fixed dtype narrows float64 inputs; a dtype taken from the inputs is fine
  ctx.ob('C10.R1', fw.short, 'buffer is zeros((d, |r| + 2))', okb, f'the packed buffer must be zeros((d, rank + 2)); got `{show(buf, maxdepth=4)[:120]}`',
         ctx.loc(fw), sample='zeros((d, r + 2))')
  ctx.ob('C10.R1', fw.short, 'buffer dtype not pinned', dt_ok,
         'the packed buffer pins a fixed dtype: float64 fields are silently rounded when packed (pack/unpack no longer inverse)', ctx.loc(fw),
         sample='default dtype (follows x64 mode)')
  r = ev.run(fr)
  if r.op != 'tuple' or len(r.args) != 6:
    raise AnalysisError('_fd_low_rank_unpack does not return a 6-tuple')
  reads = {}
  order = ['eigvecs', 'deflated_eigs', 'inverted_eigs', 'new_const', 'new_tail', 'has_zeros']
  names_r = ['eigvecs', 'eigvals', 'inverted_eigvals', 'const', 'tail', 'has_zeros']
  for nm, comp in zip(order, r.args):
    c = strip_casts(comp)
    is_p = lambda t_: t_.op == 'sym' and t_.args[-1] == 'preconditioner'
    if c.op == 'sub' and is_p(c.args[0]):
      reads[nm] = _region(c.args[1])
    elif c.op == 'sub' and c.args[0].op == 'sub' and is_p(c.args[0].args[0]) and c.args[0].args[1].op == 'tuple' and len(c.args[0].args[1].args) == 2 and \
        c.args[0].args[1].args[0].op == 'slice' and all(is_const(x, None) for x in c.args[0].args[1].args[0].args) and c.args[0].args[1].args[1].op != 'slice':
      # a whole column first, then rows of it: p[:, k][rows]
      reads[nm] = (_interval(c.args[1], D_), _interval(c.args[0].args[1].args[1], R_ + 2))
    else:
      raise AnalysisError(f'_fd_low_rank_unpack: component for {nm} is not an index into the preconditioner: {show(comp, maxdepth=3)}')
  for nm, rn in zip(order, names_r):
    ws = writes.get(nm, [])
    ok = len(ws) == 1 and _same(ws[0], reads[nm])
    ctx.ob('C10.R1', fr.short, f'{rn}: read region == written region', ok,
           f'field `{rn}` is written at {", ".join(_fmt(x) for x in ws) or "nowhere"} but read from {_fmt(reads[nm])}', ctx.loc(fr),
           sample=f'{rn}: {_fmt(reads[nm])}')
  for a, b in itertools.combinations(order, 2):
    ra, rb = writes[a][0], writes[b][0]
    ctx.ob('C10.R1', fw.short, f'{a} / {b} disjoint', _disjoint(ra, rb),
           f'fields `{a}` ({_fmt(ra)}) and `{b}` ({_fmt(rb)}) overlap for some admissible (d, r): one overwrites the other', ctx.loc(fw),
           sample=None, trivial=True)
  # R1b: the replicated path pads packed preconditioners at the END to the common size and slices them back with
  # p[:rows, :cols]; a field whose rows are anchored at the end of the buffer does not survive that round trip.
  for nm, rn in zip(order, names_r):
    rows = writes[nm][0][0]
    full = sp.simplify(rows[0]) == 0 and sp.simplify(rows[1] - D_) == 0
    anchored_start = not (rows[0].has(D_) or rows[1].has(D_))
    ctx.ob('C10.R1', fw.short, f'{rn}: rows anchored at the start', full or anchored_start,
           f'field `{rn}` is stored in rows [{rows[0]}, {rows[1]}) - relative to the END of the (padded) buffer; the replicated update pads preconditioners '
           'at the end to the largest statistic and slices them back to their own size, which drops this field for every statistic smaller than the largest '
           '(pack/unpack are not inverse under padding)', ctx.loc(fw), sample=f'{rn}: rows [{rows[0]}, {rows[1]})')
  hz_w = [x for x in walk(w) if method_name(x) == 'astype' and any(y.op == 'sym' and y.args[-1] == 'has_zeros' for y in walk(x))]
  hz_r = r.args[5]
  ctx.ob('C10.R1', fr.short, 'flag decoded as bool', method_name(hz_r) == 'astype' and hz_r.args[1] and hz_r.args[1][0].op == 'builtin' and hz_r.args[1][0].args[0] == 'bool' and bool(hz_w),
         'the has_zeros flag is stored as a float and must be read back with astype(bool)', ctx.loc(fr), sample='float(flag) <-> astype(bool)')
  # both normalise the rank with abs()
  for fi in (fw, fr):
    src = [x for x in walk(ev.run(fi)) if x.op == 'call' and x.args[0].op == 'builtin' and x.args[0].args[0] == 'abs']
    ctx.ob('C10.R1', fi.short, 'rank normalised with abs()', bool(src), 'negative ranks must be normalised with abs() before indexing', ctx.loc(fi),
           sample='rank = abs(rank)')


def wrappers(ctx):
  m = ctx.model
  fp = m.func(MOD, '_low_rank_pack')
  fu = m.func(MOD, '_low_rank_unpack')
  ctx.analysed(fp, fu)
  ev = evaluator(m, opaque={'_fd_low_rank_pack', '_fd_low_rank_unpack'})
  ev.run(fp)
  c = [c for c in ev.calls if c.callee.endswith('._fd_low_rank_pack')]
  ctx.need('C10.R1', len(c), 1, 'call to _fd_low_rank_pack in _low_rank_pack')
  a = c[0].args
  P = lambda nm: sym('param', fp.short, nm)
  ok = a['eigvecs'] is P('eigvecs') and a['inverted_eigs'] is P('eigvals') and a['new_const'] is P('const') and a['rank'] is P('compression_rank') \
      and is_ext_call(a['deflated_eigs'], 'jax.numpy.zeros_like') and is_const(strip_casts(a['new_tail']), 0, 0.0) and is_const(a['has_zeros'], False)
  ctx.ob('C10.R1', fp.short, 'inverse-root values go to the inverted-eigenvalue field', ok,
         '_low_rank_pack must store (eigvecs, zeros, eigvals -> inverted_eigs, const, tail 0, flag False)', ctx.loc(fp),
         sample='_fd_low_rank_pack(V, 0, e, c, 0.0, False, r)')
  r = ev.run(fu)
  uc = [c for c in ev.calls if c.callee.endswith('._fd_low_rank_unpack')]
  ok = r.op == 'tuple' and len(r.args) == 4 and bool(uc)
  if ok:
    res = uc[0].result
    want = [0, 2, 3, 5]
    ok = all(x.op == 'sub' and x.args[0] is res and is_const(x.args[1], k) for x, k in zip(r.args, want))
  ctx.ob('C10.R1', fu.short, 'returns (eigvecs, inverted_eigvals, const, has_zeros)', ok,
         '_low_rank_unpack must return components 0, 2, 3, 5 of the full unpack in that order', ctx.loc(fu),
         sample='(V, inv_e, c, flag)')


def predicates(ctx):
  """R2: `_precond_dim(r, d) < d` <=> `_should_compress(r, d)` for all integers r, d >= 1, and the compressed width is |r| + 2.
  Both one-line integer functions are interpreted abstractly (pvstatic.imp) over the atoms |r| and d; the equivalence is
  decided by entailment in the zone domain, path by path."""
  import sympy as sp
  from ..imp import Interp, Facts
  m = ctx.model
  fd = m.func(MOD, '_precond_dim')
  fs = m.func(MOD, '_should_compress')
  ctx.analysed(fd, fs)
  r = sp.Symbol('r', integer=True)
  d = sp.Symbol('d', integer=True, positive=True)
  pd_paths = Interp(fd.node, params={'compression_rank': r, 'dim': d}).run()
  sc_paths = Interp(fs.node, params={'compression_rank': r, 'dim': d}).run()
  if not pd_paths or not sc_paths:
    raise AnalysisError('_precond_dim / _should_compress: no path returns')
  ip = Interp(fs.node)
  n = 0
  for p1, v1 in pd_paths:
    if not isinstance(v1, sp.Basic):
      raise AnalysisError('_precond_dim does not return a number')
    for p2, v2 in sc_paths:
      rel = ip.truth(v2)
      base = Facts(p1.facts.items + [it for it in p2.facts.items if it not in p1.facts.items])
      # r == 0  <=>  |r| == 0 (the zone domain treats |r| as an atom)
      for zero in (True, False):
        f0 = base.copy()
        if zero:
          f0.add('eq', r)
          f0.add('eq', sp.Abs(r))
        else:
          f0.add('ne', r)
          f0.add('le', 1 - sp.Abs(r))
        if f0.infeasible():
          continue
        for holds in (True, False):
          for f in f0.assume(rel if holds else Facts.negate(rel)):
            n += 1
            less = sp.Lt(v1, d, evaluate=False) if v1 != d else sp.false
            want_less = f.entails(less) if holds else f.entails(Facts.negate(less)) if less is not sp.false else True
            if holds and less is sp.false:
              want_less = False
            ctx.ob('C10.R2', fs.short, f'_should_compress {"true" if holds else "false"} => _precond_dim {"<" if holds else "=="} d [r==0:{zero}]', bool(want_less),
                   f'on a path where _should_compress(r, d) is {holds} (facts {[(k, str(e)) for k, e in f.items][-3:]}), _precond_dim returns `{v1}`, '
                   f'which is {"not known to be smaller than d" if holds else "not known to equal d"}: the packed buffer width and the compression decision disagree',
                   ctx.loc(fs), sample=f'compress={holds}: width {v1}')
    if v1 != d:
      ctx.ob('C10.R2', fd.short, 'compressed width |r| + 2', sp.expand(v1 - sp.Abs(r) - 2) == 0, f'compressed width must be |r| + 2; got `{v1}`', ctx.loc(fd), sample='|r| + 2')
  ctx.need('C10.R2', n, 3, 'feasible (width path, decision) combinations')


def rank_flow(ctx):
  """The configured signed rank reaches the predicate and both special roots unchanged."""
  m = ctx.model
  fi = m.func(MOD, F + '.new_mi_pth_root')
  ctx.analysed(fi)
  cr = sym('cfg', F, 'compression_rank')
  for fd in (True, False):
    ev = evaluator(m, decide=Decider(truth={'frequent_directions': fd, 'reset_preconditioner': False, 'compression_rank': True},
                                     cmps={('compression_rank', '!=', 0): True, ('compression_rank', '<=', 0): False}),
                   opaque={'_should_compress', '_fd_update_root', '_low_rank_root', 'small_mi_pth_root'})
    r = ev.run(fi)
    sc = [c for c in ev.calls if c.callee.endswith('._should_compress')]
    ctx.need('C10.R2', len(sc), 1, 'call to _should_compress in new_mi_pth_root')
    a = sc[0].args
    ok = a.get('compression_rank') is cr and a.get('dim', NONE).op == 'sym' and a['dim'].args[-1] == 'padding_start'
    ctx.ob('C10.R2', fi.short, f'_should_compress(compression_rank, padding_start) [fd={fd}]', ok,
           f'the compression predicate must be evaluated on the configured rank and the unpadded dimension; got `{show(a.get("compression_rank", NONE), maxdepth=3)}`, `{show(a.get("dim", NONE), maxdepth=3)}`',
           ctx.loc(fi), sample='_should_compress(compression_rank, padding_start)')
    name = '_fd_update_root' if fd else '_low_rank_root'
    kwname = 'rank' if fd else 'compression_rank'
    recs = [rc for rc in ev.calls if rc.callee.endswith('.' + name) and rc.args is not None]
    ok = bool(recs) and all(rc.args.get(kwname) is cr for rc in recs)
    # every option of the special root is bound to the optimizer's own configuration value / the caller's argument
    cfg_ = lambda nm: sym('cfg', F, nm)
    par_ = lambda nm: sym('param', fi.short, nm)
    want_opts = {'ridge_epsilon': cfg_('matrix_epsilon'), 'relative_matrix_epsilon': cfg_('relative_matrix_epsilon'),
                 'padding_start': par_('padding_start'), 'prev': par_('prev')}
    if fd:
      want_opts.update({'decay': cfg_('beta2')})
    for rc in recs:
      for opt, want_t in want_opts.items():
        got_t = rc.args.get(opt)
        ctx.ob('C10.R2', fi.short, f'{name}({opt}=...) [fd={fd}]', got_t is want_t,
               f'{name} must be configured with {opt}={show(want_t)}; got `{show(got_t, maxdepth=3) if got_t is not None else "<default>"}` '
               '(a dropped option silently falls back to the callee\'s default, e.g. decay=1.0: the sketch is never discounted)', ctx.loc(fi),
               sample=f'{opt}={show(want_t)}', trivial=True)
    ctx.ob('C10.R2', fi.short, f'{name}({kwname}=compression_rank) [fd={fd}]', ok,
           f'{name} must receive the configured (signed) compression_rank: a negative rank selects the smallest eigen-directions', ctx.loc(fi),
           sample=f'{name}({kwname}=compression_rank)')
    # lax.cond(should_compress, special_root, small_root): compress on the TRUE arm
    ok = r.op == 'cond' and fn_name(r.args[0]) == '_should_compress' and fn_name(r.args[1]) == name and fn_name(r.args[2]) == 'small_mi_pth_root'
    ctx.ob('C10.R2', fi.short, f'compressed root on the true arm [fd={fd}]', ok,
           'lax.cond(should_compress, special_root, small_root): the packed root must be produced exactly when _should_compress holds', ctx.loc(fi),
           sample='cond(should_compress, special, small)')


def predicate_call_sites(ctx):
  """R2b: every call of `_should_compress` / `_precond_dim` anywhere in the module passes a rank-valued first argument
  (a parameter / configuration value / object field whose API name ends in `rank`, possibly through abs()) and a
  dimension-valued second one.  Both parameters are integers, so a swapped pair type-checks and - for the usual
  |rank| + 2 < dim - silently answers "do not compress"."""
  import ast as _ast
  m = ctx.model
  mod = m.modules[[k for k in m.modules if k.endswith(MOD)][0]]
  targets = {'_should_compress', '_precond_dim'}
  owners = {}
  for fq, fi in m.functions.items():
    if fi.module is not mod or fi.node.name in targets:
      continue
    inner = {id(x) for ch in fi.children.values() for x in _ast.walk(ch.node)}
    for n in _ast.walk(fi.node):
      if id(n) in inner or not isinstance(n, _ast.Call):
        continue
      f = n.func
      nm = f.id if isinstance(f, _ast.Name) else (f.attr if isinstance(f, _ast.Attribute) else None)
      if nm in targets:
        owners.setdefault(fq, (fi, 0))
        owners[fq] = (fi, owners[fq][1] + 1)
  ctx.need('C10.R2', len(owners), 6, 'functions calling _should_compress / _precond_dim')

  def is_rank(t):
    t = strip_casts(t)
    while t.op == 'call' and t.args[0].op == 'builtin' and t.args[0].args[0] == 'abs' and len(t.args[1]) == 1:
      t = strip_casts(t.args[1][0])
    if t.op == 'sym':
      return str(t.args[-1]).endswith('rank')
    if t.op == 'attr':
      return str(t.args[1]).endswith('rank')
    return False
  for fq, (fi, n_sites) in sorted(owners.items()):
    ctx.analysed(fi)
    ev = evaluator(m, opaque=targets | {'_fd_low_rank_unpack', '_fd_low_rank_pack', 'matrix_inverse_pth_root', 'frequent_directions_update',
                                        'gram_weighted_update'})
    args = {'self': sym('param', fi.short, 'self')} if fi.node.args.args and fi.node.args.args[0].arg == 'self' else {}
    ev.run(fi, args=args)
    recs = [c for c in ev.calls if c.callee.split('.')[-1] in targets and c.caller == fi.fq and c.args is not None]
    ctx.need('C10.R2', len(recs), 1, f'evaluated calls of the compression predicates in {fi.short}')
    for c in recs:
      r_, d_ = c.args.get('compression_rank', NONE), c.args.get('dim', NONE)
      ok = is_rank(r_) and not is_rank(d_) and not is_const(d_)
      ctx.ob('C10.R2', fi.short, f'{c.callee.split(".")[-1]}(rank, dim) argument roles', ok,
             f'the compression predicate must be asked with (rank, dimension): got rank=`{show(r_, maxdepth=3)[:80]}`, dim=`{show(d_, maxdepth=3)[:80]}` '
             '(swapped integers type-check and silently answer "not compressed")', ctx.loc(fi, c.node) if c.node is not None else ctx.loc(fi),
             sample='(compression rank, dimension)')


def application(ctx):
  m = ctx.model
  fi = m.func(MOD, 'Preconditioner._precondition_block')
  ctx.analysed(fi)
  cmpr = Comparer(leaf=_rank_leaf)
  ev = evaluator(m, decide=Decider(extra=lambda c: True if (c.op == 'cmp' and c.args[0] == '!=' and 'shape' in show(c, maxdepth=6)) else None),
                 opaque={'_low_rank_unpack'})
  g = sym('spec', 'g')
  pre = T('list', sym('spec', 'P0'))
  r = ev.run(fi, args={'g': g, 'should_precondition_dim': T('list', const(True)), 'preconditioners': pre})
  uc = [c for c in ev.calls if c.callee.endswith('._low_rank_unpack')]
  ctx.need('C10.R3', len(uc), 1, 'call to _low_rank_unpack in _precondition_block')
  res = uc[0].result
  V, E, C, FLAG = [T('sub', res, const(i)) for i in range(4)]
  sa = select_arms(r)
  ok = sa is not None and sa[0] == 'where'
  ctx.ob('C10.R3', fi.short, 'compressed branch ends in a select on the flag', ok, f'got `{show(r, maxdepth=4)[:160]}`', ctx.loc(fi), sample='where(skip, old_g, new_g)')
  if not ok:
    return
  _, pred, t_arm, f_arm = sa
  ctx.ob('C10.R3', fi.short, 'select predicate is the unpacked has_zeros flag', strip_casts(pred) is FLAG,
         f'a preconditioner flagged as containing zeros must leave the gradient unchanged - the predicate must be the unpacked flag alone; got `{show(pred, maxdepth=4)[:160]}`',
         ctx.loc(fi), sample='skip = unpacked has_zeros')
  env = {'g': g, 'V': V, 'e': E, 'c': C}
  roll = 'tuple(range(1, len(g.shape))) + (0,)'
  exp_old = spec_term(ev, f'jnp.transpose(g, axes={roll})', env)
  ctx.ob('C10.R3', fi.short, 'flagged: gradient unchanged (rolled)', cmpr.same(t_arm, exp_old),
         f'on the flagged arm the gradient must only be rolled; got `{cmpr.fmt(t_arm)[:200]}`', ctx.loc(fi), sample='old_g = transpose(g, roll)')
  basis = 'jnp.tensordot(g, V, axes=[[0], [0]])'
  last = 'len(g.shape) - 1'
  exp_new = spec_term(ev, f'c * (jnp.transpose(g, axes={roll}) - jnp.tensordot({basis}, V, axes=[[{last}], [1]])) + jnp.tensordot({basis} * e, V, axes=[[{last}], [1]])', env)
  ctx.ob('C10.R3', fi.short, 'applies c (I - V V^T) + V diag(e) V^T', cmpr.same(f_arm, exp_new),
         f'compressed application must be c*(g - (g V) V^T) + ((g V) e) V^T along the first axis; got `{cmpr.fmt(f_arm)[:300]}`', ctx.loc(fi),
         sample='c (g - gVV^T) + (gV e) V^T')
  a = uc[0].args
  okr = a.get('preconditioner') is pre.args[0] and 'compression_rank' in show(a.get('compression_rank', NONE), maxdepth=4)
  ctx.ob('C10.R3', fi.short, 'unpacks this axis\'s preconditioner with the configured rank', okr,
         '_low_rank_unpack must be given preconditioners[j] and the configured compression rank', ctx.loc(fi), sample='_low_rank_unpack(preconditioners[j], |rank|)')


def _rank_leaf(t):
  if t.op == 'call' and t.args[0].op == 'builtin' and t.args[0].args[0] == 'len' and t.args[1] and \
      t.args[1][0].op == 'attr' and t.args[1][0].args[1] == 'shape':
    return sp.Symbol('RANK')
  if t.op == 'attr' and t.args[1] == 'ndim':
    return sp.Symbol('RANK')
  return None


def low_rank_root(ctx):
  m = ctx.model
  fi = m.func(MOD, '_low_rank_root')
  ctx.analysed(fi)
  cmpr = Comparer()
  for neg, pad in itertools.product([True, False], [True, False]):
    def extra(c, neg=neg, pad=pad):
      if c.op == 'cmp':
        o, a, b = c.args
        if a.op == 'sym' and a.args[-1] == 'compression_rank' and is_const(b, 0):
          if o in ('<', '<='):
            return neg
          if o in ('>=', '>'):
            return not neg
          if o in ('!=', '=='):
            return o == '!='          # the rank is non-zero on this path (compression is on)
        if a.op == 'sym' and a.args[-1] == 'padding_start' and is_const(b, None):
          return pad if o == 'is not' else (not pad)
      if c.op == 'sym' and c.args[-1] == 'relative_matrix_epsilon':
        return True
      return None
    ev = evaluator(m, decide=Decider(extra=extra), opaque={'power_iteration', '_low_rank_pack'})
    r = ev.run(fi)
    ctx.evaluations += 1
    pk = [c for c in ev.calls if c.callee.endswith('._low_rank_pack')]
    ctx.need('C10.R4', len(pk), 1, 'call to _low_rank_pack in _low_rank_root')
    a = pk[0].args
    tag = f'[negative={neg},padded={pad}]'
    eg = [x for x in walk(a['eigvals']) if is_ext_call(x, 'jax.numpy.linalg.eigh')]
    ctx.need('C10.R4', len(eg), 1, 'eigh in _low_rank_root')
    E = eg[0]
    e0, u = T('sub', E, const(0)), T('sub', E, const(1))
    P = lambda nm: sym('param', fi.short, nm)
    env = {'e0': e0, 'u': u, 'r': P('compression_rank'), 'p': P('p'), 'ps': P('padding_start'), 'd': spec_term(ev, 'matrix.shape[0]', {'matrix': P('matrix')})}
    mx = [x for x in walk(a['eigvals']) if is_ext_call(x, 'jax.numpy.maximum')]
    ridge = None
    for x in mx:
      if len(x.args[1]) == 2 and any(y is e0 for y in walk(x.args[1][0])):
        ridge = x.args[1][1]
    if ridge is None:
      ctx.ob('C10.R4', fi.short, f'clamp {tag}', False, 'eigenvalues must be clamped from below by the ridge before the power', ctx.loc(fi))
      continue
    env['ridge'] = ridge
    if pad:
      fl = [x for x in walk(a['eigvals']) if is_ext_call(x, 'jax.numpy.flip') and 'arange' in show(x, maxdepth=6)]
      if not fl:
        ctx.ob('C10.R4', fi.short, f'eigenvalue mask {tag}', False, 'with padding, eigenvalues must be zeroed by the flipped mask', ctx.loc(fi))
        continue
      env['mask'] = fl[0]
      e_src = '(e0 * mask)'
    else:
      e_src = 'e0'
    # inv_e = where(<zero guard>, 0, max(e, ridge)^(-1/p)): the power by formula, the guard by point evaluation (shared with C01.E1)
    from .C01 import _guarded_inverse_power, clamp_is_added_ridge
    clamp_is_added_ridge(ctx, 'C10.R4', ev, fi, ridge, True, tag, cmpr)
    pw_exp = spec_term(ev, f'jnp.power(jnp.maximum({e_src}, ridge), -1.0 / p)', env)
    W = _guarded_inverse_power(ctx, fi, a['eigvals'], pw_exp, spec_term(ev, e_src, env), ridge, tag, cmpr)
    if W is None:
      continue
    env['W'] = W
    inv = 'W'
    if neg:
      inv_o = f'jnp.roll({inv}, -(d - ps))'
      u_o = 'jnp.roll(u, -(d - ps), axis=1)'
    else:
      inv_o = f'jnp.flip({inv})'
      u_o = 'jnp.flip(u, axis=1)'
    k = 'abs(r)'
    ctx.ob('C10.R4', fi.short, f'kept values {tag}', cmpr.same(a['eigvals'], spec_term(ev, f'{inv_o}[:{k}]', env)),
           f'kept inverse-root values must be the first |r| of the {"rolled (smallest first)" if neg else "flipped (largest first)"} spectrum; got `{cmpr.fmt(a["eigvals"])[:240]}`',
           ctx.loc(fi), sample=f'{"roll" if neg else "flip"}(inv_e)[:|r|]')
    ctx.ob('C10.R4', fi.short, f'kept vectors {tag}', cmpr.same(a['eigvecs'], spec_term(ev, f'{u_o}[:, :{k}]', env)),
           f'kept eigenvectors must be ordered like the kept values; got `{cmpr.fmt(a["eigvecs"])[:200]}`', ctx.loc(fi), sample=f'{"roll" if neg else "flip"}(u)[:, :|r|]')
    real = 'ps' if pad else 'd'
    n = f'({real} - {k})'
    ctx.ob('C10.R4', fi.short, f'constant = mean of the elided values over the unpadded dims {tag}',
           cmpr.same(a['const'], spec_term(ev, f'jnp.sum({inv_o}[{k}:]) / jnp.where({n} > 0, {n}, 1.0)', env)),
           f'the constant must be sum(elided inverse-root values) / (real_dim - |r|); got `{cmpr.fmt(a["const"])[:240]}`', ctx.loc(fi),
           sample='const = sum(inv_e[|r|:]) / (real_dim - |r|)')
    ctx.ob('C10.R4', fi.short, f'packs with the signed rank {tag}', a['compression_rank'] is P('compression_rank'),
           '_low_rank_pack must receive compression_rank', ctx.loc(fi), sample='_low_rank_pack(u_keep, keep_e, const, compression_rank)', trivial=True)
