"""C11 - quantized optimizer state: structural clauses decided statically.

For `QuantizedValue.quantize` / `to_float` / `from_float_value` under every (dtype, extract_diagonal) valuation:
  Q1  bucket count is 2^(bits-1) - 1 (127 for int8, 32767 for int16): the most-negative integer is unused;
  Q2  the value cast to the integer dtype is produced by round-to-nearest of  x / bucket  where the
      numerator is the input itself (minus its extracted diagonal) - not a product (no overflow before
      the division) - and the divisor is the zero-guarded bucket size where(b > 0, b, 1);
  Q3  bucket = max|x| over axis 0 divided by the bucket count, expanded back on axis 0 in both
      `quantize` and `to_float`; dequantisation is integer * bucket (+ diag);
  Q4  diagonal: writer stores diag(x) unquantised and removes exactly it (x - diag(diag(x))); reader adds
      back exactly diag(stored diagonal) under the same flag;
  Q5  dispatch agreement: `quantize` and `to_float` handle the same dtype set (float32 identity,
      bfloat16 cast pair, integer pair, anything else rejected by the writer); `from_float_value`
      records (payload, diagonal, bucket, dtype, flag, list(shape)) and the empty-list case; Distributed
      Shampoo re-wraps raw leaves with the same extract_diagonal flag it quantised them with.
Not decided: the half-bucket bound and idempotence over all float32 magnitudes (subnormal bucket sizes
flush to zero on some backends - a floating-point effect).
"""
from __future__ import annotations

import itertools

from ..lib import (evaluator, Decider, rec_fields, show, walk, strip_casts, is_ext_call, fn_name, method_name,
                   path_str, ext_name)
from ..spec import spec_term, Comparer
from ..terms import T, sym, const, is_const, cval, NONE, ext
from ..model import AnalysisError

QM = 'quantization_utils'
MOD = 'distributed_shampoo'

ASSUMPTIONS = ['jnp.round is round-half-to-even to the nearest integer; astype(int) of an integral float is exact within range']

INT = {'int8': 127.0, 'int16': 32767.0}


def _decider():
  def extra(c):
    s = show(c, maxdepth=5)
    if c.op == 'cmp' and 'ndim' in s:
      return False
    return None
  return Decider(extra=extra)


def quantized_root_wrapper(ctx):
  """Q6: the quantized inverse-root wrapper of Distributed Shampoo dequantizes the statistic from ITS three parts,
  re-quantizes the new root once, and returns the three parts of that ONE quantized value (payload, extracted diagonal,
  bucket sizes) in the documented order - a part taken from the input statistic, or parts of two different values, still
  has the right shape and dtype."""
  m = ctx.model
  F_ = 'distributed_shampoo'
  fi = m.func(F_, F_ + '._quantized_matrix_inverse_pth_root_vmap.matrix_inverse_pth_root_wrapper')
  ctx.analysed(fi)
  ev = evaluator(m, opaque={'small_mi_pth_root', 'new_mi_pth_root', 'from_float_value', 'to_float'})
  r = ev.run(fi)
  ctx.evaluations += 1
  P = lambda n: sym('param', fi.short, n)
  ok_shape = r.op == 'tuple' and len(r.args) == 4
  ctx.ob('C11.Q5', fi.short, 'wrapper returns (payload, diagonal, bucket sizes, metrics)', ok_shape,
         f'got `{show(r, maxdepth=3)[:160]}`', ctx.loc(fi), sample='(qp.quantized, qp.diagonal, qp.bucket_size, metrics)')
  if not ok_shape:
    return
  parts = r.args[:3]
  bases = [x.args[0] if x.op == 'attr' else None for x in parts]
  names = [x.args[1] if x.op == 'attr' else None for x in parts]
  one = bases[0] is not None and all(b is bases[0] for b in bases) and fn_name(bases[0]) == 'from_float_value'
  ctx.ob('C11.Q5', fi.short, 'the three returned parts belong to one re-quantized value, in order', one and names == ['quantized', 'diagonal', 'bucket_size'],
         f'the wrapper must return qp.quantized, qp.diagonal, qp.bucket_size of the single QuantizedValue built from the new root; got '
         f'`{[show(x, maxdepth=2)[:50] for x in parts]}`', ctx.loc(fi), sample='parts of one from_float_value(root, dtype, True)')
  if one:
    c = [c for c in ev.calls if c.callee.endswith('.from_float_value') and c.result is bases[0]]
    a = c[0].args if c else {}
    fv = a.get('fvalue', NONE)
    okq = any(fn_name(x) in ('small_mi_pth_root', 'new_mi_pth_root') for x in walk(fv)) and is_const(a.get('extract_diagonal', NONE), True) and \
        path_str(a.get('quantized_dtype', NONE)) == 'qx.dtype'
    ctx.ob('C11.Q5', fi.short, 'the new root is re-quantized in the storage dtype with its diagonal extracted', okq,
           f'from_float_value must be given the computed root, qx.dtype and extract_diagonal=True; got `{show(fv, maxdepth=3)[:80]}`, '
           f'`{show(a.get("quantized_dtype", NONE), maxdepth=2)}`, `{show(a.get("extract_diagonal", NONE))}`', ctx.loc(fi),
           sample='from_float_value(root, qx.dtype, True)')
  qv = [c for c in ev.calls if c.via == 'construct' and c.callee.endswith('.QuantizedValue') and c.caller.startswith(fi.fq.rsplit('.', 1)[0])]
  ctx.need('C11.Q5', len(qv), 1, 'QuantizedValue constructions in the quantized root wrapper')
  mine = [c for c in qv if any(c.args.get(k) is P(n) for k, n in (('quantized', 'qx'), ('diagonal', 'qd'), ('bucket_size', 'qb'))) or
          any(v_ is P('qx') or v_ is P('qd') or v_ is P('qb') for v_ in c.args.values())]
  ctx.need('C11.Q5', len(mine), 1, 'dequantization of the statistic in the quantized root wrapper')
  first = mine[0].args
  okd = first.get('quantized') is P('qx') and first.get('diagonal') is P('qd') and first.get('bucket_size') is P('qb') and is_const(first.get('extract_diagonal', NONE), True)
  ctx.ob('C11.Q5', fi.short, 'the statistic is dequantized from its own three parts', okd,
         f'QuantizedValue(qx, qd, qb, qx.dtype, True, shape) expected; got quantized=`{show(first.get("quantized", NONE), maxdepth=2)}`, '
         f'diagonal=`{show(first.get("diagonal", NONE), maxdepth=2)}`, bucket_size=`{show(first.get("bucket_size", NONE), maxdepth=2)}`', ctx.loc(fi),
         sample='QuantizedValue(qx, qd, qb, ...).to_float()')


def run(ctx):
  quantized_root_wrapper(ctx)
  # "state that is carried but not updated does not drift": what a rejected / non-refresh step keeps is every part of the
  # old quantized value under one predicate (the gate rules of C03, quantized mode included)
  from . import C03
  C03.run_gate(ctx)
  m = ctx.model
  fq = m.func(QM, 'QuantizedValue.quantize')
  ft = m.func(QM, 'QuantizedValue.to_float')
  ff = m.func(QM, 'QuantizedValue.from_float_value')
  ctx.analysed(fq, ft, ff)
  cmpr = Comparer()
  X = sym('param', fq.short, 'fvalue')
  for dt, ed in itertools.product(['float32', 'bfloat16', 'int8', 'int16'], [False, True]):
    ev = evaluator(m, decide=_decider())
    dtt = ext('jax.numpy.' + dt)
    r = ev.run(fq, args={'quantized_dtype': dtt, 'extract_diagonal': const(ed)})
    ctx.evaluations += 1
    tag = f'[{dt},diag={ed}]'
    if r.op != 'tuple' or len(r.args) != 3:
      raise AnalysisError(f'quantize {tag} does not return a 3-tuple: {show(r, maxdepth=3)[:160]}')
    q, dg, bs = r.args
    if dt == 'float32':
      ctx.ob('C11.Q5', fq.short, f'float32 identity {tag}', q is X and dg.op == 'list' and not dg.args and bs.op == 'list' and not bs.args,
             'float32 "quantization" must return the value itself with empty diagonal and bucket', ctx.loc(fq), sample='(x, [], [])')
      continue
    if dt == 'bfloat16':
      ok = method_name(q) == 'astype' and q.args[0].args[0] is X and q.args[1] and q.args[1][0] is dtt and not dg.args and not bs.args
      ctx.ob('C11.Q5', fq.short, f'bfloat16 cast {tag}', ok, 'bfloat16 quantization must be a plain cast with empty diagonal and bucket', ctx.loc(fq),
             sample='(x.astype(bfloat16), [], [])')
      continue
    nb = INT[dt]
    env = {'x': X}
    x_src = '(x - jnp.diag(jnp.diag(x)))' if ed else 'x'
    # Q4 writer
    if ed:
      ctx.ob('C11.Q4', fq.short, f'stored diagonal is diag(x) {tag}', cmpr.same(dg, spec_term(ev, 'jnp.diag(x)', env)),
             f'with extract_diagonal the diagonal field must be diag(x), unquantised; got `{cmpr.fmt(dg)}`', ctx.loc(fq), sample='diagonal = diag(x)')
    else:
      ctx.ob('C11.Q4', fq.short, f'no diagonal stored {tag}', dg.op == 'list' and not dg.args, 'without extract_diagonal the diagonal field must be []', ctx.loc(fq),
             sample='diagonal = []', trivial=True)
    # Q3 bucket
    b_exp = spec_term(ev, f'jnp.max(jnp.abs({x_src}), axis=0) / NB', dict(env, NB=const(nb)))
    ctx.ob('C11.Q3', fq.short, f'bucket = max|x| over axis 0 / {int(nb)} {tag}', cmpr.same(bs, b_exp),
           f'bucket size must be max(abs(x{" - diag" if ed else ""}), axis=0) / {int(nb)}; got `{cmpr.fmt(bs)[:200]}`', ctx.loc(fq),
           sample=f'bucket = max|x| (axis 0) / {int(nb)}')
    nbs = [y for y in walk(bs) if is_const(y) and isinstance(cval(y), float) and cval(y) > 1]
    ctx.ob('C11.Q1', fq.short, f'bucket count {tag}', any(cval(y) == nb for y in nbs) and all(cval(y) == nb for y in nbs),
           f'the bucket count for {dt} must be {int(nb)} = 2^(bits-1) - 1 (max column value maps to the largest positive integer, the most-negative integer stays unused); got {[cval(y) for y in nbs]}',
           ctx.loc(fq), sample=f'num_buckets = {int(nb)}')
    # Q2 rounding and operand order
    ok_cast = method_name(q) == 'astype' and q.args[1] and q.args[1][0] is dtt
    inner = q.args[0].args[0] if ok_cast else q
    ok_round = is_ext_call(inner, 'jax.numpy.round', 'jax.numpy.rint', 'jax.numpy.around') and len(inner.args[1]) == 1 and not dict(inner.args[2])
    ctx.ob('C11.Q2', fq.short, f'cast of a round-to-nearest value {tag}', ok_cast and ok_round,
           f'the value cast to {dt} must be jnp.round(ratio): a bare cast truncates toward zero (up to a whole bucket of error, drift on re-quantisation); got `{show(q, maxdepth=4)[:160]}`',
           ctx.loc(fq), sample=f'round(ratio).astype({dt})')
    if ok_cast and ok_round:
      ratio = inner.args[1][0]
      guard = spec_term(ev, 'jnp.where(B[jnp.newaxis, ...] > 0.0, B[jnp.newaxis, ...], jnp.ones_like(B[jnp.newaxis, ...]))', {'B': bs})
      ok_div = ratio.op == 'bin' and ratio.args[0] == '/'
      if ok_div:
        num, den = ratio.args[1], ratio.args[2]
        ok_num = cmpr.same(num, spec_term(ev, x_src, env)) and not (num.op == 'bin' and num.args[0] == '*')
        ok_den = cmpr.same(den, guard)
        ctx.ob('C11.Q2', fq.short, f'ratio = x / guarded bucket {tag}', ok_num and ok_den,
               f'the rounded ratio must be (x{" - diag" if ed else ""}) / where(bucket > 0, bucket, 1) with the bucket expanded on axis 0 - scaling x before the division overflows for large magnitudes; '
               f'numerator `{cmpr.fmt(num)[:120]}`, denominator `{cmpr.fmt(den)[:160]}`', ctx.loc(fq), sample='x / where(b > 0, b, 1)')
      else:
        ctx.ob('C11.Q2', fq.short, f'ratio is a division {tag}', False, f'the rounded value must be a division by the guarded bucket; got `{show(ratio, maxdepth=3)[:120]}`', ctx.loc(fq))
  # unsupported dtype rejected
  ev = evaluator(m, decide=_decider())
  r = ev.run(fq, args={'quantized_dtype': ext('jax.numpy.int32'), 'extract_diagonal': const(False)})
  rej = [x for x in ev.raises if x[2] == fq.fq and not x[1]]
  ctx.ob('C11.Q5', fq.short, 'other dtypes rejected', bool(rej), 'an unsupported quantized dtype must raise ValueError', ctx.loc(fq), sample='raise ValueError')

  # to_float
  for dt, ed in itertools.product(['float32', 'bfloat16', 'int8', 'int16'], [False, True]):
    tag = f'[{dt},diag={ed}]'
    selfrec = T('rec', m.cls(QM, 'QuantizedValue').fq,
                (('quantized', sym('spec', 'Q')), ('diagonal', sym('spec', 'D')), ('bucket_size', sym('spec', 'B')),
                 ('quantized_dtype', ext('jax.numpy.' + dt)), ('extract_diagonal', const(ed)), ('shape', sym('spec', 'S'))))
    ev = evaluator(m, decide=Decider(extra=lambda c: False if (c.op == 'call' and c.args[0].op == 'builtin' and c.args[0].args[0] == 'isinstance') else None))
    r = ev.run(ft, args={'self': selfrec})
    env = {'Q': sym('spec', 'Q'), 'D': sym('spec', 'D'), 'B': sym('spec', 'B')}
    if dt == 'float32':
      exp = env['Q']
      ok = r is exp
    elif dt == 'bfloat16':
      ok = method_name(r) == 'astype' and r.args[0].args[0] is env['Q'] and r.args[1][0] is ext('jax.numpy.float32')
    else:
      src = 'Q * B[jnp.newaxis, ...]' + (' + jnp.diag(D)' if ed else '')
      ok = cmpr.same(r, spec_term(ev, src, env))
      if ed:
        dd = [x for x in walk(r) if is_ext_call(x, 'jax.numpy.diag')]
        ok = ok and len(dd) == 1 and dd[0].args[1][0] is env['D']
    ctx.ob('C11.Q3' if dt.startswith('int') else 'C11.Q5', ft.short, f'dequantise {tag}', ok,
           f'to_float {tag} must be ' + ('the payload' if dt == 'float32' else 'payload.astype(float32)' if dt == 'bfloat16' else
                                         'payload * bucket[newaxis]' + (' + diag(stored diagonal) exactly' if ed else '')) + f'; got `{show(r, maxdepth=4)[:160]}`',
           ctx.loc(ft), sample=f'to_float {tag}')
  # empty-list passthrough in to_float / from_float_value
  ev = evaluator(m)
  selfrec = T('rec', m.cls(QM, 'QuantizedValue').fq,
              (('quantized', T('list')), ('diagonal', T('list')), ('bucket_size', T('list')),
               ('quantized_dtype', ext('jax.numpy.float32')), ('extract_diagonal', const(False)), ('shape', T('list'))))
  r = ev.run(ft, args={'self': selfrec})
  ctx.ob('C11.Q5', ft.short, 'empty payload passes through', r.op == 'list' and not r.args, 'to_float of an empty QuantizedValue must return []', ctx.loc(ft), sample='[] -> []', trivial=True)
  # the same for an integer dtype (where the non-empty path would multiply by the bucket), and a non-empty payload must NOT take the shortcut
  for dtn in ('int8', 'int16', 'bfloat16'):
    rec_e = T('rec', m.cls(QM, 'QuantizedValue').fq,
              (('quantized', T('list')), ('diagonal', T('list')), ('bucket_size', T('list')),
               ('quantized_dtype', ext('jax.numpy.' + dtn)), ('extract_diagonal', const(False)), ('shape', T('list'))))
    r = evaluator(m).run(ft, args={'self': rec_e})
    ctx.ob('C11.Q5', ft.short, f'empty payload passes through [{dtn}]', r.op == 'list' and not r.args,
           f'to_float of an empty QuantizedValue ({dtn}) must return [] (statistics-free parameters carry empty quantized values); got `{show(r, maxdepth=3)[:100]}`',
           ctx.loc(ft), sample='[] -> []')
  # from_float_value([]) is the all-empty record - decided on the witness input, not left as an undecided branch
  for ed in (False, True):
    r = evaluator(m, opaque={'quantize'}).run(ff, args={'fvalue': T('list'), 'quantized_dtype': ext('jax.numpy.int8'), 'extract_diagonal': const(ed)})
    fe = rec_fields(r)
    ok = fe is not None and all(fe[k].op == 'list' and not fe[k].args for k in ('quantized', 'diagonal', 'bucket_size', 'shape'))
    ctx.ob('C11.Q5', ff.short, f'from_float_value([]) is the empty record [diag={ed}]', ok,
           f'an empty list must map to QuantizedValue([], [], [], dtype, flag, []) without calling quantize; got `{show(r, maxdepth=3)[:120]}`', ctx.loc(ff),
           sample='[] -> QuantizedValue([], [], [], ...)')
  # validation rejects exactly the invalid inputs (witness ranks): extract_diagonal needs rank 2, anything needs rank >= 1
  import operator as _op
  OPS = {'<': _op.lt, '<=': _op.le, '>': _op.gt, '>=': _op.ge, '==': _op.eq, '!=': _op.ne}
  for ed, nd, must_raise in [(True, 2, False), (True, 1, True), (True, 3, True), (False, 1, False), (False, 2, False), (False, 3, False), (False, 0, True)]:
    def oracle(c, nd=nd):
      if c.op == 'cmp' and c.args[0] in OPS:
        l, r_ = c.args[1], c.args[2]
        if l.op == 'attr' and l.args[1] == 'ndim' and is_const(r_) and isinstance(cval(r_), int):
          return bool(OPS[c.args[0]](nd, cval(r_)))
      return None
    evv = evaluator(m, decide=Decider(extra=oracle))
    evv.run(fq, args={'quantized_dtype': ext('jax.numpy.int8'), 'extract_diagonal': const(ed)})
    raised = any(fq_ == fq.fq and all(pc.op in ('inloop',) for pc in path) for e_, path, fq_, node in evv.raises)
    ctx.ob('C11.Q5', fq.short, f'validation [extract_diagonal={ed}, rank={nd}]', raised == must_raise,
           f'quantize(extract_diagonal={ed}) on a rank-{nd} input {"must be rejected" if must_raise else "is valid and must not be rejected"}; '
           f'the code {"raises" if raised else "does not raise"}', ctx.loc(fq), sample=f'rank {nd}, diag={ed}: {"ValueError" if must_raise else "ok"}')

  # from_float_value
  for dt, ed, ndim_cmp in itertools.product(['float32', 'int8'], [False, True], [False, True]):
    # (any test on the rank of the input is decided both ways: the value quantized is the input itself for every rank)
    ev = evaluator(m, decide=Decider(extra=lambda c, v=ndim_cmp: v if (c.op == 'cmp' and 'ndim' in show(c, maxdepth=5)) else None), opaque={'quantize'})
    V = sym('param', ff.short, 'fvalue')
    r = ev.run(ff, args={'quantized_dtype': ext('jax.numpy.' + dt), 'extract_diagonal': const(ed)})
    # isinstance(fvalue, list) undecided -> ite(empty case, normal case)
    recs = [x for x in walk(r) if x.op == 'rec']
    norm = [x for x in recs if rec_fields(x)['quantized'].op != 'list']
    empt = [x for x in recs if rec_fields(x)['quantized'].op == 'list']
    ok = len(norm) == 1 and len(empt) == 1
    if ok:
      f = rec_fields(norm[0])
      qc = [c for c in ev.calls if c.callee.endswith('.quantize')]
      ok = bool(qc) and qc[0].args.get('fvalue') is V and qc[0].args.get('quantized_dtype') is ext('jax.numpy.' + dt) and is_const(qc[0].args.get('extract_diagonal', NONE), ed)
      res = qc[0].result if qc else NONE
      ok = ok and all(f[k].op == 'sub' and f[k].args[0] is res and is_const(f[k].args[1], i) for i, k in enumerate(('quantized', 'diagonal', 'bucket_size')))
      ok = ok and f['quantized_dtype'] is ext('jax.numpy.' + dt) and is_const(f['extract_diagonal'], ed)
      shp = f['shape']
      ok = ok and shp.op == 'call' and shp.args[0].op == 'builtin' and shp.args[0].args[0] == 'list' and path_str(shp.args[1][0]) is None and 'shape' in show(shp, maxdepth=4)
      fe = rec_fields(empt[0])
      ok = ok and all(fe[k].op == 'list' and not fe[k].args for k in ('quantized', 'diagonal', 'bucket_size', 'shape'))
    ctx.ob('C11.Q5', ff.short, f'from_float_value record [{dt},diag={ed},rank test={int(ndim_cmp)}]', ok,
           'from_float_value must record quantize(fvalue, dtype, flag) as (payload, diagonal, bucket), the dtype, the flag and list(payload.shape); [] maps to an all-empty record',
           ctx.loc(ff), sample='QuantizedValue(q, d, b, dtype, flag, list(q.shape))')

  rewrap_sites(ctx)
  statistics_callbacks(ctx)


def statistics_callbacks(ctx):
  """Q7: the dequantize / re-quantize callbacks `_compute_stats` hands to the statistics update are the plain conversions:
  `to_float(q)` is the dequantized value of q and `from_float(x)` quantizes x ITSELF (a callback that adds a ridge, symmetrises
  or rescales before quantizing is applied again on every dequantize - update - quantize cycle: carried state drifts)."""
  from ..lib import method_name, econd_summary
  m = ctx.model
  fi = m.func(MOD, 'distributed_shampoo._compute_stats')
  ctx.analysed(fi)
  for qstat in (True, False):
    ev = evaluator(m, decide=Decider(calls={('_skip_preconditioning',): False}, extra=lambda c, q=qstat: (q if (c.op == 'cmp' and c.args[0] in ('!=', '==') and
                   'float32' in show(c, maxdepth=4)) and c.args[0] == '!=' else ((not q) if (c.op == 'cmp' and c.args[0] == '==' and 'float32' in show(c, maxdepth=4)) else None))),
                   opaque={'preconditioner_from_params', '_skip_preconditioning', '_maybe_quantize_statistics', '_to_float', '_maybe_quantize_matrices_with_dtype'},
                   summaries={'efficient_cond': econd_summary})
    r = ev.run(fi)
    ctx.evaluations += 1
    calls = list(dict.fromkeys(x for x in walk(r) if x.op == 'call' and method_name(x) == 'updated_statistics_from_grad'))
    ctx.need('C11.Q7', len(calls), 1, 'statistics update call in _compute_stats')
    X = sym('spec', 'matrix')
    for c in calls:
      kw = dict(c.args[2])
      ff_, tf_ = kw.get('from_float'), kw.get('to_float')
      okf = False
      got = NONE
      if ff_ is not None and ff_.op in ('closure', 'partial', 'bound', 'fn'):
        got = ev.call(ff_, [X], {}, None, None)
        # quantize([x])[0]
        okf = got.op == 'sub' and is_const(got.args[1], 0) and got.args[0].op == 'call' and fn_name(got.args[0]) in ('_maybe_quantize_statistics', '_maybe_quantize_matrices_with_dtype') and \
            got.args[0].args[1] and got.args[0].args[1][0].op == 'list' and len(got.args[0].args[1][0].args) == 1 and got.args[0].args[1][0].args[0] is X
      ctx.ob('C11.Q7', fi.short, f'from_float(x) quantizes x itself [quantized statistics={int(qstat)}]', okf,
             f'the re-quantize callback of the statistics update must be x -> _maybe_quantize_statistics([x])[0]; applied to x it gives `{show(got, maxdepth=5)[:200]}`',
             ctx.loc(fi), sample='from_float = lambda x: _maybe_quantize_statistics([x])[0]')
      okt = False
      gott = NONE
      if tf_ is not None:
        gott = ev.call(tf_, [X], {}, None, None) if tf_.op in ('closure', 'partial', 'bound', 'fn') else NONE
        okt = gott.op == 'call' and fn_name(gott) == '_to_float' and len(gott.args[1]) == 1 and gott.args[1][0] is X
      ctx.ob('C11.Q7', fi.short, f'to_float(q) is the plain dequantization [quantized statistics={int(qstat)}]', okt,
             f'the dequantize callback of the statistics update must be _to_float; applied to q it gives `{show(gott, maxdepth=5)[:160]}`', ctx.loc(fi), sample='to_float = _to_float')


def rewrap_sites(ctx):
  """Distributed Shampoo re-wraps raw (payload, diagonal, bucket) leaves with the flag it quantised them with.

  Decided on the constructor records of the quantized refresh path: every QuantizedValue built directly from three
  raw leaves (not by from_float_value) must carry quantized_dtype = <payload>.dtype, shape = list(<payload>.shape)
  and the same extract_diagonal flag that every from_float_value call of that path passes."""
  from . import ds_common as D
  from ..lib import econd_summary
  m = ctx.model
  v = dict(scheduled=False, steps1=False, reuse=True, metrics=True)
  n = 0
  flags_q = set()
  wraps = []
  for q in ('_quantized_matrix_inverse_pth_root_vmap', '_pmap_quantized_compute_preconditioners'):
    fi = m.func(D.MOD, D.F + '.' + q)
    ctx.analysed(fi)
    ev = evaluator(m, opaque=D.OPAQUE | {'mi_pth_root'}, decide=D.make_decider(v, {'batch_axis_name': True}), summaries={'efficient_cond': econd_summary})
    ev.run(fi)
    for c in ev.calls:
      if c.callee.endswith('QuantizedValue.from_float_value'):
        flags_q.add(c.args.get('extract_diagonal'))
      if c.callee.endswith('.QuantizedValue') and c.via == 'construct' and not c.caller.endswith('from_float_value'):
        wraps.append((fi, c))
  flags_ok = len(flags_q) == 1 and all(f is not None and is_const(f) for f in flags_q)
  for fi, c in wraps:
    a = c.args
    pay = a.get('quantized', NONE)
    n += 1
    ok = flags_ok and a.get('extract_diagonal') in flags_q
    okd = a.get('quantized_dtype', NONE).op == 'attr' and a['quantized_dtype'].args[0] is pay and a['quantized_dtype'].args[1] == 'dtype'
    shp = a.get('shape', NONE)
    oks = shp.op == 'call' and shp.args[0].op == 'builtin' and shp.args[0].args[0] == 'list' and len(shp.args[1]) == 1 and \
        shp.args[1][0].op == 'attr' and shp.args[1][0].args[0] is pay and shp.args[1][0].args[1] == 'shape'
    ctx.ob('C11.Q5', fi.short, f're-wrap of {show(pay, maxdepth=1)[-40:]}', ok and okd and oks,
           f'raw quantised leaves must be re-wrapped as QuantizedValue(q, d, b, q.dtype, <flag used when quantising>, list(q.shape)); flags used when quantising: '
           f'{[show(f) if f is not None else None for f in flags_q]}; got flag={show(a.get("extract_diagonal", NONE))}, dtype=`{show(a.get("quantized_dtype", NONE), maxdepth=2)}`, shape=`{show(shp, maxdepth=3)}`',
           ctx.loc(fi, c.node) if c.node is not None else ctx.loc(fi), sample='QuantizedValue(q, d, b, q.dtype, True, list(q.shape))')
  ctx.need('C11.Q5', n, 2, 'QuantizedValue re-wrap sites in distributed_shampoo')
