"""C06 - merging, blocking, blockifying and padding are lossless and self-consistent.

Decided statically:
  S1  BlockPartitioner: `partition` walks the split table forward calling split(axis=i, indices);
      `merge_partitions` walks it in reverse, concatenating groups of len(indices)+1 along the same
      axis with stride equal to the group size; the split table holds (axis, indices) with
      nsplit = (d-1)//B, indices = (arange(nsplit)+1)*B, last size d - indices[-1], guard 0 < B < d;
  S2  reshape pairing: statistics and preconditioning both enter through reshape(., transformed shape)
      and the preconditioned gradient leaves through reshape(., original shape); Tearfree merge pads
      (0, p-m) at the end and unmerge slices [0:m] of the same `_derive_shapes` result, reshaping to
      merged / original shapes; padding rounds up to the next block multiple;
  S3  sibling dispatch: the three Preconditioner methods that branch on the preconditioner type
      agree, for every (type, rank <= 1?) state, on which dims carry a preconditioner;
  S5  slot arithmetic: preconditioned_grad hands block i the slice [i*k, (i+1)*k) with
      k = number of preconditioned dims; shapes are announced block-major (itertools.product);
  S6  merge_small_dims only merges under the guard product*d <= max_dim (size limit);
  S7  Tearfree `_deblockify(_blockify(x)) == x` and every block is a contiguous sub-tensor, decided
      by an index-map algebra over reshape/transpose chains obtained by partially evaluating the
      shape code for every structural case (rank <= 3 quick / 4 thorough, <= 2 large axes);
  S8  the notion of a "large" axis (dim >= block_size) is the same in Tearfree Shampoo's metadata,
      its init-time rejections and the reshaper's padding rule; init rejects unit dims, > 2 large
      dims and indivisible large dims (what `//` in the metadata relies on).
Not decided: element order of BlockPartitioner for every shape (numpy split semantics trusted).
"""
from __future__ import annotations

import itertools

from ..lib import (evaluator, Decider, enum_member, rec_fields, show, walk, strip_casts, is_ext_call,
                   fn_name, method_name, path_str, dep_names, ext_name, leaves, cmp_oriented)
from ..spec import spec_term, Comparer
from ..terms import T, sym, const, is_const, cval, NONE
from ..model import AnalysisError
from .. import layout as L

MOD = 'distributed_shampoo'

ASSUMPTIONS = [
    'jnp.split / jnp.concatenate / reshape / transpose have numpy semantics',
    'the permutation logic of _blockify/_deblockify depends on which axes are large, not on the particular sizes (cases enumerated with representative sizes)',
]


def run(ctx):
  block_partitioner(ctx)
  reshape_pairing(ctx)
  sibling_dispatch(ctx)
  slot_arithmetic(ctx)
  merge_small_dims(ctx)
  blockify_inverse(ctx)
  large_axis_predicate(ctx)
  reshaper(ctx)
  # announced statistics (count / sizes / padded size) of the sharded declaration agree with what init builds
  from . import C07
  C07.sharded_triple(ctx)
  # the blocks produced, the statistics slots they use and the roots applied to them line up: block-major running
  # index of the statistics, per-block contraction / axis rotation of the preconditioned gradient
  from . import C02
  C02.statistics(ctx)
  C02.block_contraction(ctx)
  # ... also through the device batching of the refresh: `unbatch(batch(x))` is the identity on positions, and each
  # parameter gets back its own slice of the flat list of roots (a permuted list hands block k another block's root)
  from . import C13
  C13.batch_unbatch(ctx)
  C13.redistribution(ctx)


# ------------------------------------------------------------------ S1
def block_partitioner(ctx):
  m = ctx.model
  fp = m.func(MOD, 'BlockPartitioner.partition')
  fm = m.func(MOD, 'BlockPartitioner.merge_partitions')
  fi = m.func(MOD, 'BlockPartitioner.__init__')
  ctx.analysed(fp, fm, fi)
  selfp = lambda f: sym('param', f.short, 'self')
  # partition
  ev = evaluator(m)
  r = ev.run(fp)
  splits = [x for x in walk(r) if is_ext_call(x, 'jax.numpy.split', 'jax.numpy.array_split')]
  ctx.need('C06.S1', len(splits), 1, 'jnp.split call in partition')
  for s in splits:
    kw = dict(s.args[2])
    pos = list(s.args[1])
    ind = kw.get('indices_or_sections', pos[1] if len(pos) > 1 else NONE)
    ax = kw.get('axis', pos[2] if len(pos) > 2 else NONE)
    okf = _elem_component(ax, 0, reversed_=False, owner='self._splits') and _elem_component(ind, 1, reversed_=False, owner='self._splits')
    ctx.ob('C06.S1', fp.short, 'split(axis=i, indices) over the split table, forward', okf,
           f'partition must split along each recorded (axis, indices) in table order; got axis=`{show(ax, maxdepth=4)}` indices=`{show(ind, maxdepth=4)}`',
           ctx.loc(fp), sample='for (i, indices) in self._splits: split(t, indices, axis=i)')
  # merge
  ev = evaluator(m)
  r = ev.run(fm)
  cats = [x for x in walk(r) if is_ext_call(x, 'jax.numpy.concatenate')]
  sc = ev.last_scope
  ctx.need('C06.S1', len(cats), 1, 'jnp.concatenate call in merge_partitions')
  for c in cats:
    kw = dict(c.args[2])
    pos = list(c.args[1])
    ax = kw.get('axis', pos[1] if len(pos) > 1 else NONE)
    okr = _elem_component(ax, 0, reversed_=True, owner='self._splits')
    ctx.ob('C06.S1', fm.short, 'concatenate(axis=i) over the split table, REVERSED', okr,
           f'merge_partitions must undo the splits in reverse order along the same axis; got axis=`{show(ax, maxdepth=5)}`',
           ctx.loc(fm), sample='for (i, indices) in reversed(self._splits): concatenate(..., axis=i)')
    grp = pos[0] if pos else NONE
    cmpr = Comparer()
    okw = False
    why = show(grp, maxdepth=5)[:160]
    sl = None
    if grp.op == 'list' and len(grp.args) == 1 and grp.args[0].op == 'star' and grp.args[0].args[1].op == 'sliceof':
      sl = grp.args[0].args[1].args[1]
    elif grp.op == 'sub' and grp.args[1].op == 'slice':
      sl = grp.args[1]
    if sl is not None:
      if True:
        lo, hi = sl.args[0], sl.args[1]
        width = spec_term(ev, 'hi - lo', {'hi': hi, 'lo': lo})
        n_t = sc.vars.get('n')
        # n = len(indices) + 1
        okn = False
        for x in walk(hi):
          if x.op == 'bin' and x.args[0] == '+':
            for cand in (x.args[1], x.args[2]):
              if cand.op == 'bin' and cand.args[0] == '+' and any(is_const(y, 1) for y in cand.args[1:]) and \
                  any(y.op == 'call' and y.args[0].op == 'builtin' and y.args[0].args[0] == 'len' and
                      _elem_component(y.args[1][0], 1, reversed_=True, owner='self._splits') for y in cand.args[1:]):
                okn = True
                width_t = cand
        if okn:
          okw = cmpr.same(width, width_t)
          # stride: the group start begins at 0 and advances by the same amount (a counter stepped in a while loop, or a range with that step)
          oks = False
          if lo.op == 'rangevar':
            ra = [a_ for a_ in lo.args if a_.op != 'depth']
            oks = len(ra) == 3 and is_const(ra[0], 0) and cmpr.same(ra[2], width_t) and \
                ra[1].op == 'call' and ra[1].args[0].op == 'builtin' and ra[1].args[0].args[0] == 'len'
          elif lo.op == 'phi' and is_const(lo.args[2], 0):
            for v_ in sc.vars.values():
              for x in walk(v_):
                if x.op == 'loop' and x.args[0] == lo.args[0] and is_const(x.args[2], 0) and x.args[3].op == 'bin' and x.args[3].args[0] == '+' and \
                    ((x.args[3].args[1] is lo and cmpr.same(x.args[3].args[2], width_t)) or (x.args[3].args[2] is lo and cmpr.same(x.args[3].args[1], width_t))):
                  oks = True
          okw = okw and oks
    ctx.ob('C06.S1', fm.short, 'group size len(indices)+1 = slice width = stride', okw,
           f'each concatenation must take len(indices)+1 consecutive partitions and advance by the same amount; got `{why}`',
           ctx.loc(fm), sample='partitions[ind:ind+n], ind += n, n = len(indices) + 1')
  # __init__ arithmetic (values are found by their shape in the local scope, whatever they are called).
  # The guard is decided by witness: comparisons between block_size, the dimension d and constants are folded for
  # chosen (block_size, d) pairs, and the split branch must be taken exactly for 0 < block_size < d.
  bs = sym('param', fi.short, 'block_size')
  selft = sym('param', fi.short, 'self')
  import operator as _op
  OPS = {'<': _op.lt, '<=': _op.le, '>': _op.gt, '>=': _op.ge, '==': _op.eq, '!=': _op.ne}

  def witness(bv, dv):
    def val(t):
      t = strip_casts(t)
      if t is bs:
        return bv
      if is_const(t) and isinstance(cval(t), (int, float)) and not isinstance(cval(t), bool):
        return cval(t)
      if t.op == 'elem' and path_str(t.args[0]) in ('param.shape', 'self._shape'):
        return dv
      if t.op == 'sub' and t.args[0].op == 'elem' and is_const(t.args[1], 1) and 'enumerate' in show(t.args[0], maxdepth=3):
        return dv
      if t.op == 'sub' and t.args[1].op == 'rangevar' and path_str(t.args[0]) in ('param.shape', 'self._shape'):
        return dv          # shape[i] for a loop index i
      return None

    def oracle(c):
      if c.op == 'cmp' and c.args[0] in OPS:
        l, r_ = val(c.args[1]), val(c.args[2])
        if l is not None and r_ is not None:
          return bool(OPS[c.args[0]](l, r_))
      return None
    return oracle

  def run_with(bv, dv):
    ev_ = evaluator(m, decide=Decider(extra=witness(bv, dv)))
    ev_.run(fi, args={'self': selft})
    allv_ = [x for v_ in ev_.last_scope.vars.values() for x in walk(v_)]
    return ev_, allv_
  for bv, dv, want in [(2, 5, True), (4, 5, True), (1, 2, True), (5, 5, False), (7, 5, False), (0, 5, False), (-1, 5, False)]:
    ev_, allv_ = run_with(bv, dv)
    took = any(x.op == 'bin' and x.args[0] == '//' and x.args[2] is bs for x in allv_)
    ctx.ob('C06.S1', fi.short, f'split only when 0 < block_size < d [block_size={bv}, d={dv}]', took == want,
           f'a dimension must be split iff 0 < block_size < d: with block_size={bv}, d={dv} the split branch is {"taken" if took else "not taken"}',
           ctx.loc(fi), sample=f'block_size={bv}, d={dv}: {"split" if want else "whole"}')
  ev, allv = run_with(2, 5)
  cmpr = Comparer()
  cands = [x for x in allv if x.op == 'bin' and x.args[0] == '//' and x.args[2] is bs]
  if cands:
    e = cands[0]
    okn = e.args[1].op == 'bin' and e.args[1].args[0] == '-' and is_const(e.args[1].args[2], 1)
    ctx.ob('C06.S1', fi.short, 'nsplit = (d - 1) // block_size', okn,
           f'number of split points must be (d-1)//block_size (d//block_size yields an empty block at exact multiples); got `{show(e, maxdepth=4)}`',
           ctx.loc(fi), sample='nsplit = (d - 1) // block_size')
    dd = e.args[1].args[1] if okn else None
    if okn:
      exp = spec_term(ev, '(np.arange(ns, dtype=np.int32) + 1) * bs', {'ns': e, 'bs': bs})
      base_ind = [x for x in allv if x.op == 'bin' and x.args[0] == '*']
      ctx.ob('C06.S1', fi.short, 'indices = (arange(nsplit)+1) * block_size', any(cmpr.same(x, exp) for x in base_ind),
             'split indices must be block_size, 2*block_size, ...', ctx.loc(fi),
             sample='indices = (arange(nsplit) + 1) * block_size')
      stores = [x for x in allv if x.op == 'store' and is_const(x.args[1], -1)]
      oks = False
      okb = False
      exp_sizes = spec_term(ev, 'np.ones(ns + 1, dtype=np.int32) * bs', {'ns': e, 'bs': bs})
      for st_ in stores:
        val_ = st_.args[2]
        if val_.op == 'bin' and val_.args[0] == '-' and val_.args[1] is dd and val_.args[2].op == 'sub' and is_const(val_.args[2].args[1], -1):
          oks = True
          okb = cmpr.same(st_.args[0], exp_sizes)
      ctx.ob('C06.S1', fi.short, 'announced sizes = nsplit + 1 blocks of block_size (last one overwritten)', okb,
             'the announced block sizes must be ones(nsplit + 1) * block_size with the last entry replaced by the remainder '
             '(one size per block that jnp.split produces)', ctx.loc(fi), sample='sizes = ones(nsplit + 1) * block_size')
      ctx.ob('C06.S1', fi.short, 'last block size = d - indices[-1]', oks,
             'the last block must take the remainder d - indices[-1]', ctx.loc(fi),
             sample='sizes[-1] = d - indices[-1]')
  else:
    ctx.ob('C06.S1', fi.short, 'nsplit', False, 'split arithmetic not found', ctx.loc(fi))


def _elem_component(t, k, reversed_, owner):
  """t == elem(<owner> or reversed(<owner>))[k]"""
  if t.op != 'sub' or not is_const(t.args[1], k):
    return False
  e = t.args[0]
  if e.op != 'elem':
    return False
  it = e.args[0]
  def unwrap(x):
    while x.op == 'call' and x.args[0].op == 'builtin' and x.args[0].args[0] in ('list', 'tuple') and len(x.args[1]) == 1:
      x = x.args[1][0]
    return x
  it = unwrap(it)
  if reversed_:
    if it.op == 'call' and it.args[0].op == 'builtin' and it.args[0].args[0] == 'reversed':
      it = unwrap(it.args[1][0])
    elif it.op == 'sub' and it.args[1].op == 'slice' and is_const(it.args[1].args[0], None) and is_const(it.args[1].args[1], None) and \
        is_const(it.args[1].args[2], -1):
      it = unwrap(it.args[0])          # x[::-1]
    else:
      return False
  else:
    if it.op == 'call':
      return False
  p = path_str(it)
  return p == owner


# ------------------------------------------------------------------ S2
def reshape_pairing(ctx):
  m = ctx.model
  fg = m.func(MOD, 'Preconditioner.preconditioned_grad')
  fs = m.func(MOD, 'Preconditioner.updated_statistics_from_grad')
  fi = m.func(MOD, 'Preconditioner.__init__')
  ctx.analysed(fg, fs, fi)
  ev = evaluator(m, opaque={'partition', 'merge_partitions', '_precondition_block', '_preconds_for_grad', 'should_precondition_dims',
                            'gram_weighted_update', 'frequent_directions_update'})
  r = ev.run(fg)
  selfp = sym('param', fg.short, 'self')
  ok_out = is_ext_call(r, 'jax.numpy.reshape') and len(r.args[1]) == 2 and path_str(r.args[1][1]) == 'self._original_shape' and \
      (method_name(r.args[1][0]) == 'merge_partitions' or fn_name(r.args[1][0]) == 'merge_partitions')
  ctx.ob('C06.S2', fg.short, 'leaves through reshape(merged, original shape)', ok_out,
         f'the preconditioned gradient must be merge_partitions(...) reshaped to the original shape; got `{show(r, maxdepth=4)[:160]}`',
         ctx.loc(fg), sample='reshape(merge_partitions(...), self._original_shape)')
  for f, rr in ((fg, r), (fs, None)):
    if rr is None:
      evs = evaluator(m, decide=Decider(truth={'frequent_directions': False}, cmps={('to_float', 'is not', None): True, ('from_float', 'is not', None): True}),
                      opaque={'partition', 'gram_weighted_update', 'frequent_directions_update', 'should_precondition_dims'})
      rr = evs.run(f)
      evx = evs
    else:
      evx = ev
    parts = [x for x in walk(rr) if method_name(x) == 'partition' or fn_name(x) == 'partition']
    ok_in = bool(parts)
    for c in parts:
      t = c.args[1][-1] if c.args[1] else NONE
      ok_in = ok_in and is_ext_call(t, 'jax.numpy.reshape') and path_str(t.args[1][1]) == 'self._transformed_shape' and \
          t.args[1][0].op == 'sym' and t.args[1][0].args[-1] == 'grad'
    ctx.ob('C06.S2', f.short, 'enters through reshape(grad, transformed shape)', ok_in,
           'the gradient must be reshaped to the transformed (merged) shape before partitioning', ctx.loc(f),
           sample='partition(reshape(grad, self._transformed_shape))')
  # __init__: transformed shape = merge_small_dims(original) iff best effort
  for be in (True, False):
    ev = evaluator(m, decide=Decider(truth={'best_effort_shape_interpretation': be}), opaque={'merge_small_dims', 'BlockPartitioner'})
    selft = sym('param', fi.short, 'self')
    ev.run(fi, args={'self': T('obj', m.cls(MOD, 'Preconditioner').fq, 'chk')})
    o = ev.heap.get(('chk', '_original_shape'))
    t = ev.heap.get(('chk', '_transformed_shape'))
    oko = o is not None and path_str(o) == 'param.shape'
    if be:
      okt = t is not None and fn_name(t) == 'merge_small_dims' and t.args[1][0] is o and \
          t.args[1][1].op == 'sym' and t.args[1][1].args[-1] == 'merge_small_dims_block_size'
    else:
      okt = t is o
    ctx.ob('C06.S2', fi.short, f'transformed shape [best_effort={be}]', oko and okt,
           'transformed shape must be merge_small_dims(param.shape, merge_small_dims_block_size) iff best-effort, else param.shape',
           ctx.loc(fi), sample='merge_small_dims(original, limit) | original')
    part = ev.heap.get(('chk', '_partitioner'))
    okp = part is not None and part.op in ('call', 'obj')
    if part is not None and part.op == 'call':
      a = part.args[1]
      okp = len(a) >= 2 and is_ext_call(a[0], 'jax.numpy.reshape') and a[0].args[1][1] is t and a[1].op == 'sym' and a[1].args[-1] == 'block_size'
    ctx.ob('C06.S2', fi.short, f'partitioner built on the transformed shape [best_effort={be}]', okp,
           'BlockPartitioner must be built from the parameter reshaped to the transformed shape and block_size', ctx.loc(fi),
           sample='BlockPartitioner(reshape(param, transformed), block_size)')


# ------------------------------------------------------------------ S3
def sibling_dispatch(ctx):
  m = ctx.model
  ev0 = evaluator(m)
  labels = {}
  methods = ['should_precondition_dims', 'shapes_for_preconditioners', '_preconds_for_grad']
  for meth in methods:
    fi = m.func(MOD, 'Preconditioner.' + meth)
    ctx.analysed(fi)
    for ty in ('ALL', 'INPUT', 'OUTPUT'):
      for small in (True, False):
        tyt = enum_member(ev0, m, MOD, 'PreconditionerType', ty)

        def hook(ev_, base, name, tyt=tyt):
          if name == '_preconditioner_type' and base.op in ('sym', 'obj'):
            return tyt
          return None
        d = Decider(cmps={('rank', '<=', 1): small},
                    extra=lambda c, small=small: small if (c.op == 'cmp' and c.args[0] == '<=' and is_const(c.args[2], 1)) else None)
        ev = evaluator(m, decide=d, opaque={'_preconditioner_shape', 'split_sizes'})
        ev.attr_hook = _with_ndim(hook)
        r = ev.run(fi)
        ctx.evaluations += 1
        labels[(meth, ty, small)] = _dispatch_label(meth, r)
  for ty in ('ALL', 'INPUT', 'OUTPUT'):
    for small in (True, False):
      want = 'all' if (ty == 'ALL' or small) else ('but_last' if ty == 'INPUT' else 'last_only')
      for meth in methods:
        got = labels[(meth, ty, small)]
        fi = m.func(MOD, 'Preconditioner.' + meth)
        ctx.ob('C06.S3', fi.short, f'{ty}, rank<=1={small}', got == want,
               f'for preconditioner type {ty} and rank<=1={small} `{meth}` treats the dims as `{got}`; its siblings and the documentation say `{want}`',
               ctx.loc(fi), sample=f'{meth}: {ty}/{small} -> {want}')


def _dispatch_label(meth, r):
  s = show(r, maxdepth=12)
  if meth == 'should_precondition_dims':
    if r.op == 'list':
      vals = []
      for e in r.args:
        v = e.args[0] if e.op == 'star' else e
        vals.append(cval(v) if is_const(v) else None)
      if vals and all(v is True for v in vals):
        return 'all'
      if len(vals) == 2 and vals == [True, False]:
        return 'but_last'
      if len(vals) == 2 and vals == [False, True]:
        return 'last_only'
    return 'unknown:' + s[:60]
  if meth == 'shapes_for_preconditioners':
    # element of the result: map(shape, t[...])
    slices = [x for x in walk(r) if x.op == 'sub' and x.args[1].op == 'slice']
    # the per-block shapes: map(shape, t[...]) or the comprehension [shape(d) for d in t[...]] (one value-graph form)
    maps = [x for x in walk(r) if x.op in ('mapdom', 'compdom') and x.args and
            (x.args[0].op == 'elem' or (x.args[0].op == 'sub' and x.args[0].args[0].op == 'elem'))]
    if not maps:
      return 'unknown:' + s[:60]
    dom = maps[0].args[0]
    if dom.op == 'elem' or (dom.op == 'call'):
      if dom.op == 'elem':
        return 'all'
    if dom.op == 'sub' and dom.args[1].op == 'slice':
      lo, hi, _ = dom.args[1].args
      if is_const(lo, None) and is_const(hi, -1):
        return 'but_last'
      if is_const(lo, -1) and is_const(hi, None):
        return 'last_only'
    return 'unknown:' + s[:60]
  if meth == '_preconds_for_grad':
    if r.op == 'sub' and r.args[1].op == 'slice':
      return 'all'
    if r.op == 'list':
      elts = list(r.args)
      none_idx = [i for i, e in enumerate(elts) if (e.op == 'star' and is_const(e.args[0], None)) or is_const(e, None)]
      data_idx = [i for i, e in enumerate(elts) if i not in none_idx]
      if not none_idx:
        return 'all'
      if none_idx and data_idx and max(data_idx) < min(none_idx):
        return 'but_last'
      if none_idx and data_idx and max(none_idx) < min(data_idx):
        return 'last_only'
    if r.op == 'bin' and r.args[0] == '+':
      a, b = r.args[1], r.args[2]
      isn = lambda t: t.op == 'list' and t.args and all((e.op == 'star' and is_const(e.args[0], None)) or is_const(e, None) for e in t.args)
      if isn(b) and not isn(a):
        return 'but_last'
      if isn(a) and not isn(b):
        return 'last_only'
    return 'unknown:' + s[:60]
  return 'unknown'


# ------------------------------------------------------------------ S5
def _slots_by_witness(m, fg):
  """however the walk over the blocks is written: with three concrete blocks and dims (True, False, True) - k = 2, rank 3 -
  block j must be preconditioned with the slice [2j, 2j + 2) and rank 3, in block order"""
  blocks = [sym('spec', f'block{j}') for j in range(3)]
  dims = [True, False, True]
  ev = evaluator(m, opaque={'merge_partitions', '_precondition_block', '_preconds_for_grad'},
                 summaries={'partition': (lambda e_, b_, r_: T('list', *blocks)),
                            'should_precondition_dims': (lambda e_, b_, r_: T('list', *[const(x_) for x_ in dims]))})
  try:
    ev.run(fg)
  except Exception:
    return False
  pc = [c for c in ev.calls if c.callee.endswith('._preconds_for_grad')]
  pb = [c for c in ev.calls if c.callee.endswith('._precondition_block')]
  if len(pc) != 3 or len(pb) != 3:
    return False
  for j, (c, b) in enumerate(zip(pc, pb)):
    a = c.args
    if not (is_const(a.get('start', NONE), 2 * j) and is_const(a.get('end', NONE), 2 * j + 2) and is_const(a.get('rank', NONE), 3)):
      return False
    vals = list(b.args.values())
    if not (any(v is blocks[j] for v in vals) and any(v is c.result for v in vals)):
      return False
  return True


def slot_arithmetic(ctx):
  m = ctx.model
  fg = m.func(MOD, 'Preconditioner.preconditioned_grad')
  ev = evaluator(m, opaque={'partition', 'merge_partitions', '_precondition_block', '_preconds_for_grad', 'should_precondition_dims'})
  ev.run(fg)
  calls = [c for c in ev.calls if c.callee.endswith('._preconds_for_grad')]
  ctx.need('C06.S5', len(calls), 1, 'call to _preconds_for_grad')
  cmpr = Comparer()
  for c in calls:
    st, en, rk = c.args.get('start', NONE), c.args.get('end', NONE), c.args.get('rank', NONE)
    dims = [x for x in walk(st) if fn_name(x) == 'should_precondition_dims' or method_name(x) == 'should_precondition_dims']
    ok = bool(dims)
    if ok:
      dm = dims[0]
      idx = [x for x in walk(st) if x.op == 'index']
      i_t = idx[0] if idx else None
      ok = i_t is not None
      if ok:
        env = {'i': i_t, 'dims': dm}
        ok = cmpr.same(st, spec_term(ev, 'i * sum(dims)', env)) and cmpr.same(en, spec_term(ev, '(i + 1) * sum(dims)', env)) and \
            cmpr.same(rk, spec_term(ev, 'len(dims)', env))
        ok = ok and 'partition' in show(i_t, maxdepth=6)
    if not ok:
      ok = _slots_by_witness(m, fg)
    dims_en = [x for x in walk(en) if fn_name(x) == 'should_precondition_dims' or method_name(x) == 'should_precondition_dims']
    if not ok and dims_en:
      dims = dims_en
      # a running offset instead of i * k: `start` is a loop-carried variable that is 0 at entry and becomes `end` =
      # start + k at the end of every iteration, and the blocks are taken from the front of the partitioner's list one by one
      dm = dims[0] if dims else None
      k_t = spec_term(ev, 'sum(dims)', {'dims': dm})
      if st.op == 'phi' and is_const(st.args[2], 0) and cmpr.same(en, T('bin', '+', st, k_t)) and cmpr.same(rk, spec_term(ev, 'len(dims)', {'dims': dm})):
        final = ev.last_scope.vars.get(st.args[1])
        carried = final is not None and final.op == 'loop' and final.args[0] == st.args[0] and final.args[1] == st.args[1] and is_const(final.args[2], 0) and \
            cmpr.same(final.args[3], en)
        pb = [c2 for c2 in ev.calls if c2.callee.endswith('._precondition_block')]
        front = bool(pb) and all(any(method_name(v_) == 'pop' and v_.args[1] and is_const(v_.args[1][0], 0) and 'partition' in show(v_, maxdepth=6) for v_ in c2.args.values()) or
                                 any(v_.op == 'elem' and 'partition' in show(v_, maxdepth=6) for v_ in c2.args.values()) for c2 in pb)
        ok = carried and front
    ctx.ob('C06.S5', fg.short, 'block i gets preconditioners [i*k, (i+1)*k)', ok,
           f'block i must receive the slice [i*k, (i+1)*k) with k = number of preconditioned dims and rank = len(dims); got start=`{cmpr.fmt(st)}` end=`{cmpr.fmt(en)}` rank=`{cmpr.fmt(rk)}`',
           ctx.loc(fg), sample='start=i*k, end=(i+1)*k, rank=len(dims)')
    pre = c.args.get('preconditioners', NONE)
    ctx.ob('C06.S5', fg.short, 'slices the caller\'s list', pre.op == 'sym' and pre.args[-1] == 'preconditioners',
           'the slice must be taken from the preconditioners argument', ctx.loc(fg), sample='preconditioners[start:end]')
  fsh = m.func(MOD, 'Preconditioner.shapes_for_preconditioners')
  evs = evaluator(m, opaque={'_preconditioner_shape', 'split_sizes'})
  r = evs.run(fsh)
  prod = [x for x in walk(r) if is_ext_call(x, 'itertools.product')]
  ok = bool(prod) and any(a.op == 'starred' and (fn_name(a.args[0]) == 'split_sizes' or method_name(a.args[0]) == 'split_sizes') for a in prod[0].args[1])
  ctx.ob('C06.S5', fsh.short, 'shapes announced block-major', ok,
         'preconditioner shapes must be announced per block in itertools.product(*split_sizes) order (the order partition produces blocks)',
         ctx.loc(fsh), sample='for t in itertools.product(*split_sizes)')


# ------------------------------------------------------------------ S6
def merge_small_dims(ctx):
  m = ctx.model
  fi = m.func(MOD, 'merge_small_dims')
  ctx.analysed(fi)
  ev = evaluator(m, decide=Decider(extra=lambda c: False if (c.op == 'bool' and 'shape_to_merge' in show(c)) else None))
  r = ev.run(fi)
  sc = ev.last_scope
  # Every value that can flow into the result is 1, an input dimension, an earlier stored value (induction over the
  # loop), or a product that was tested `<= max_dim` on the very path that stores it.
  cmpr = Comparer()
  md = sym('param', fi.short, 'max_dim')
  dim = ev.elem_of(sym('param', fi.short, 'shape_to_merge'))
  bad, unknown = [], []
  seen = set()

  def tested(p, facts):
    for pos, c in facts:
      c = strip_casts(c)
      if c.op == 'un' and c.args[0] == 'not':
        c, pos = c.args[1], not pos
      oc = cmp_oriented(c, lambda t_: t_ is md) if c.op == 'cmp' else None
      if oc is None:
        continue
      o, a_, _ = oc              # a_ <o> max_dim
      if ((pos and o in ('<=', '<')) or ((not pos) and o in ('>', '>='))) and cmpr.same(a_, p):
        return True
    return False

  def flow(t, facts):
    key = (t, tuple(facts))
    if key in seen:
      return
    seen.add(key)
    t0 = strip_casts(t)
    if t0.op == 'const' or t0 is dim or t0.op in ('phi', 'loopacc', 'unbound'):
      return
    if t0.op in ('list', 'tuple', 'oneof'):
      for e in t0.args:
        flow(e, facts)
      return
    if t0.op == 'star':
      f2 = list(facts)
      d_ = t0.args[1]
      while d_.op == 'guarded':
        f2.append((True, d_.args[0]))
        d_ = d_.args[1] if len(d_.args) > 1 else NONE
      if d_.op == 'loopdom' and len(d_.args) > 2:
        f2.extend((True, g_) for g_ in d_.args[2])
      if d_.op == 'compdom':
        for g_ in d_.args[1:]:
          f2.append((True, g_))
        flow(d_.args[0], facts)          # a comprehension over a list: its elements flow through
      flow(t0.args[0], f2)
      return
    if t0.op == 'ite':
      flow(t0.args[1], facts + [(True, t0.args[0])])
      flow(t0.args[2], facts + [(False, t0.args[0])])
      return
    if t0.op == 'store':
      flow(t0.args[0], facts)
      flow(t0.args[2], facts)
      return
    if t0.op in ('elem', 'sub'):
      if t0.op == 'elem' and t0.args[0] is sym('param', fi.short, 'shape_to_merge'):
        return
      flow(t0.args[0], facts)
      return
    if t0.op == 'loop':
      flow(t0.args[2], facts)
      flow(t0.args[3], facts)
      return
    if t0.op == 'bin' and t0.args[0] == '*':
      if not tested(t0, facts):
        bad.append(t0)
      return
    unknown.append(t0)
  res0 = r
  while res0.op == 'ite' and not any(e.op == 'star' for e in walk(res0.args[1])):
    res0 = res0.args[2]                  # the all-ones special case returns [1]
  flow(res0, [])
  if unknown:
    raise AnalysisError(f'merge_small_dims: value flowing into the result not understood: `{show(unknown[0], maxdepth=4)[:120]}`')
  ctx.ob('C06.S6', fi.short, 'merge only under product*d <= max_dim', not bad,
         f'dimensions may be merged only when the merged size stays within max_dim: the product `{show(bad[0], maxdepth=4)[:120] if bad else ""}` '
         'reaches the result on a path that did not test it against max_dim', ctx.loc(fi), sample='if product * d <= max_dim: product *= d')
  res = r
  while res.op == 'ite':        # the all-ones special case returns [1]
    res = res.args[2] if any(e.op == 'star' for e in walk(res.args[2])) else res.args[1]
  oka = res is not None and any(e.op == 'star' for e in walk(res))
  ctx.ob('C06.S6', fi.short, 'every closed group is emitted', oka,
         'each completed group (and the last one) must be appended to the result', ctx.loc(fi), sample='resulting_shape.append(product)')


def _with_ndim(hook):
  """x.ndim of a value whose static shape the hook knows is len(x.shape)"""
  def h(ev_, base, name):
    if name == 'ndim':
      s_ = hook(ev_, base, 'shape')
      if s_ is not None and s_.op in ('tuple', 'list') and not any(e.op == 'star' for e in s_.args):
        return const(len(s_.args))
      return None
    return hook(ev_, base, name)
  return h


# ------------------------------------------------------------------ S7
def _chain_layout(t, leaf_layouts):
  """Interpret a reshape/transpose/expand_dims/squeeze chain."""
  if t in leaf_layouts:
    return leaf_layouts[t]
  m_ = method_name(t)
  n_ = ext_name(t)
  if m_ == 'reshape':
    base = _chain_layout(t.args[0].args[0], leaf_layouts)
    a = t.args[1]
    shp = a[0] if len(a) == 1 and a[0].op in ('list', 'tuple') else T('list', *a)
    return L.reshape(base, _ints(shp))
  if n_ == 'jax.numpy.reshape':
    base = _chain_layout(t.args[1][0], leaf_layouts)
    return L.reshape(base, _ints(t.args[1][1]))
  if n_ == 'jax.numpy.transpose' or m_ == 'transpose':
    if n_:
      base = _chain_layout(t.args[1][0], leaf_layouts)
      perm = t.args[1][1] if len(t.args[1]) > 1 else dict(t.args[2]).get('axes')
    else:
      base = _chain_layout(t.args[0].args[0], leaf_layouts)
      perm = t.args[1][0]
    return L.transpose(base, _ints(perm))
  if n_ == 'jax.numpy.moveaxis' and len(t.args[1]) == 3:
    base = _chain_layout(t.args[1][0], leaf_layouts)
    return L.moveaxis(base, cval(t.args[1][1]), cval(t.args[1][2]))
  if n_ == 'jax.numpy.swapaxes' and len(t.args[1]) == 3:
    base = _chain_layout(t.args[1][0], leaf_layouts)
    return L.swapaxes(base, cval(t.args[1][1]), cval(t.args[1][2]))
  if t.op == 'attr' and t.args[1] == 'T':
    base = _chain_layout(t.args[0], leaf_layouts)
    return L.transpose(base, list(reversed(range(len(base)))))
  if n_ == 'jax.numpy.expand_dims':
    base = _chain_layout(t.args[1][0], leaf_layouts)
    ax = t.args[1][1] if len(t.args[1]) > 1 else dict(t.args[2]).get('axis')
    return L.expand_dims(base, cval(ax))
  if n_ == 'jax.numpy.squeeze':
    base = _chain_layout(t.args[1][0], leaf_layouts)
    ax = t.args[1][1] if len(t.args[1]) > 1 else dict(t.args[2]).get('axis')
    if ax is None:
      raise L.LayoutError('axis-less squeeze')
    return L.squeeze(base, cval(ax))
  if t.op == 'sub':
    from ..symb import _newaxis_position
    k = _newaxis_position(t.args[1])          # x[:, :, None] / x[None]: a unit axis inserted at position k
    if k is not None:
      base_ = _chain_layout(t.args[0], leaf_layouts)
      return L.expand_dims(base_, k if k >= 0 else len(base_) + 1 + k)
  raise L.LayoutError(f'unrecognised shape op: {show(t, maxdepth=3)[:100]}')


def _ints(t):
  if t.op not in ('list', 'tuple') or not all(is_const(x) for x in t.args):
    raise L.LayoutError(f'shape/permutation not static: {show(t, maxdepth=3)[:100]}')
  return [cval(x) for x in t.args]


def blockify_inverse(ctx):
  m = ctx.model
  fb = m.func('tearfree.shampoo', '_blockify')
  fd = m.func('tearfree.shampoo', '_deblockify')
  fm = m.func('tearfree.shampoo', '_blocks_metadata')
  ctx.analysed(fb, fd, fm)
  B = 4
  pool = [2, 3, 4, 8, 12]
  max_rank = 4 if ctx.thorough else 3
  cases = []
  for rank in range(1, max_rank + 1):
    for shp in itertools.product(pool, repeat=rank):
      large = [s for s in shp if s >= B]
      if len(large) > 2:
        continue
      cases.append(shp)
  n = 0
  bad = 0
  for shp in cases:
    X = sym('spec', 'X')
    Y = sym('spec', 'Y')
    cur = {'Y': None}

    def hook(ev_, base, name):
      if name == 'shape' and base is X:
        return T('tuple', *[const(v) for v in shp])
      if name == 'shape' and base is Y and cur['Y'] is not None:
        return T('tuple', *[const(v) for v in cur['Y']])
      if name == 'shape' and base.op == 'call':
        if method_name(base) == 'reshape':
          a = base.args[1]
          return a[0] if len(a) == 1 and a[0].op in ('list', 'tuple') else T('tuple', *a)
        if ext_name(base) == 'jax.numpy.reshape':
          return base.args[1][1]
      return None
    ev = evaluator(m)
    ev.attr_hook = _with_ndim(hook)
    opts = T('rec', m.cls('tearfree.shampoo', 'Options').fq, (('block_size', const(B)),))
    meta = ev.run(fm, args={'options': opts, 'param_shape': T('tuple', *[const(v) for v in shp]), 'debug': const('case')})
    tb = ev.run(fb, args={'x': X, 'meta': meta})
    ctx.evaluations += 1
    tag = 'x'.join(str(s) for s in shp)
    try:
      lb = _chain_layout(tb, {X: L.fresh(shp)})
    except L.LayoutError as e:
      if 'not static' in str(e) or 'unrecognised shape op' in str(e):
        raise AnalysisError(f'_blockify({shp}): {e}')
      bad += 1
      ctx.ob('C06.S7', fb.short, f'blockify {tag}', False, f'_blockify({shp}) is not a consistent reshape/transpose chain: {e}', ctx.loc(fb))
      continue
    mf = rec_fields(meta)
    if mf is None or not all(is_const(mf[k]) or mf[k].op == 'list' for k in ('blocks_axis', 'num_blocks', 'block_sizes', 'large_axes', 'blocks_per_large_axis')):
      raise AnalysisError(f'_blocks_metadata({shp}) did not fold to concrete metadata')
    want_large = [i for i, s_ in enumerate(shp) if s_ >= B]
    want = dict(block_sizes=[min(s_, B) for s_ in shp], large_axes=want_large,
                blocks_per_large_axis=[shp[i] // B for i in want_large], blocks_axis=min(want_large, default=0))
    want['num_blocks'] = 1
    for b_ in want['blocks_per_large_axis']:
      want['num_blocks'] *= b_
    got = {k: ([cval(x) for x in mf[k].args] if mf[k].op == 'list' else cval(mf[k])) for k in want}
    ctx.ob('C06.S8', fm.short, f'metadata {tag}', got == want,
           f'_blocks_metadata({shp}, block {B}) = {got}, expected {want}', ctx.loc(fm),
           sample=f'{shp}: {want}' if n < 3 else None, trivial=n > 6)
    blocks_axis = cval(mf['blocks_axis'])
    nblocks = cval(mf['num_blocks'])
    # contiguity: the blocks axis holds only the high halves of the large axes, in order; every other
    # dim is a whole small axis or the low (within-block) half of a large axis
    shp_b = L.shape_of(lb)
    okc = shp_b[blocks_axis] == nblocks and all(nm.endswith('.h') for nm, _ in lb[blocks_axis])
    hs = [nm for nm, _ in lb[blocks_axis]]
    okc = okc and hs == sorted(hs)
    for i, dfac in enumerate(lb):
      if i == blocks_axis:
        continue
      if len(dfac) != 1:
        okc = False
        continue
      nm, sz = dfac[0]
      if nm.endswith('.l'):
        okc = okc and sz == B
      elif '.' in nm:
        okc = False
    order = [L._base(nm) for i, dfac in enumerate(lb) if i != blocks_axis for nm, _ in dfac]
    okc = okc and order == sorted(order)
    n += 1
    ctx.ob('C06.S7', fb.short, f'blocks contiguous {tag}', okc,
           f'_blockify({shp}, block {B}): blocks are not contiguous sub-tensors in original axis order (layout {lb}, blocks axis {blocks_axis})',
           ctx.loc(fb), sample=f'{shp} -> {shp_b}: blocks axis {blocks_axis} = block indices, other dims within-block' if n <= 6 else None,
           trivial=n > 12)
    cur['Y'] = shp_b
    td = ev.run(fd, args={'blocked_x': Y, 'meta': meta})
    try:
      ld = _chain_layout(td, {Y: lb})
      ok = L.same(ld, L.fresh(shp))
      why = f'composition layout {L.normalise(ld)}'
    except L.LayoutError as e:
      if 'not static' in str(e) or 'unrecognised shape op' in str(e):
        raise AnalysisError(f'_deblockify({shp}): {e}')
      ok = False
      why = str(e)
    ctx.ob('C06.S7', fd.short, f'deblockify(blockify(x)) == x for {tag}', ok,
           f'_deblockify does not invert _blockify for shape {shp} with block size {B}: {why}', ctx.loc(fd),
           sample=f'{shp}: identity' if n <= 6 else None, trivial=n > 12)
  ctx.need('C06.S7', n, 60, 'blockify structural cases')


# ------------------------------------------------------------------ S8
def large_axis_predicate(ctx):
  """Every comparison of a dimension with the block size says `dim >= block_size` (or its negation)."""
  m = ctx.model
  sites = [('tearfree.shampoo', '_blocks_metadata'), ('tearfree.shampoo', '_init.make_blocks'),
           ('tearfree.reshaper', '_derive_shapes')]
  MIRROR = {'>=': '<=', '<=': '>=', '<': '>', '>': '<', '==': '==', '!=': '!='}

  def is_block_size(t):
    ps = path_str(strip_casts(t))
    return ps is not None and ps.split('.')[-1] == 'block_size'

  for mod, q in sites:
    fi = m.func(mod, q)
    ctx.analysed(fi)
    ev = evaluator(m, opaque={'merge_small_dims'} | ({'_blocks_metadata'} if q.endswith('make_blocks') else set()))
    r = ev.run(fi)
    terms = [r] + [p for e, path, fq, node in ev.raises for p in path] + [e for e, path, fq, node in ev.raises] + \
        [c for c, path, fq, node in getattr(ev, 'asserts', [])]
    seen, n = set(), 0
    for t in terms:
      for x in walk(t):
        if x.op != 'cmp' or x in seen or len(x.args) != 3:
          continue
        seen.add(x)
        op, l, rr = x.args
        if is_block_size(l) and not is_block_size(rr):
          op, l, rr = MIRROR.get(op, op), rr, l
        elif not (is_block_size(rr) and not is_block_size(l)):
          continue
        if is_const(l) or (l.op == 'bin' and l.args[0] == '%') or any(is_block_size(y) for y in walk(l)):
          continue          # block_size == 0, dim % block_size ...: not a large-axis test
        n += 1
        ctx.ob('C06.S8', fi.short, f'large-axis test `{show(l, maxdepth=2)[:40]} {op} block_size`', op in ('>=', '<'),
               f'an axis is "large" iff dim >= block_size everywhere (metadata, init rejections, padding); here the test is `{show(x, maxdepth=4)[:120]}`',
               ctx.loc(fi), sample=f'{show(x, maxdepth=3)[:100]}')
    ctx.need('C06.S8', n, 1, f'dimension/block-size comparisons in {q}')
  # init rejections
  fi = m.func('tearfree.shampoo', '_init.make_blocks')
  ev = evaluator(m, opaque={'_blocks_metadata'})
  ev.run(fi)
  msgs = [show(e, maxdepth=6) for e, _, fq, _ in ev.raises if fq == fi.fq]
  want = {'unit dimensions': 'unit', '>2 large dims': '>2 large', 'indivisible': 'indivisible'}
  for label, needle in want.items():
    ctx.ob('C06.S8', fi.short, f'init rejects {label}', any(needle in s for s in msgs),
           f'init must reject parameters with {label} (the block arithmetic relies on it)', ctx.loc(fi),
           sample=f'raise ValueError(... {needle} ...)')
  # conditions of those raises
  conds = {}
  for e, path, fq, node in ev.raises:
    if fq == fi.fq:
      conds[show(e, maxdepth=6)] = path
  for s, path in conds.items():
    if 'indivisible' in s:
      txt = ' '.join(show(p, maxdepth=8) for p in path)
      ok = '%' in txt and 'block_size' in txt and '!= 0' in txt
      ctx.ob('C06.S8', fi.short, 'indivisible test is dim % block_size != 0', ok,
             f'large dims must be rejected when dim % block_size != 0; got `{txt[:160]}`', ctx.loc(fi), sample='dim % block_size != 0')
    if '>2 large' in s:
      txt = ' '.join(show(p, maxdepth=8) for p in path)
      ok = '> 2' in txt and 'sum' in txt
      ctx.ob('C06.S8', fi.short, 'more than two large dims rejected', ok,
             f'parameters with more than two large dims must be rejected; got `{txt[:160]}`', ctx.loc(fi), sample='sum(dim >= B) > 2')


def reshaper(ctx):
  m = ctx.model
  fd = m.func('tearfree.reshaper', '_derive_shapes')
  fmrg = m.func('tearfree.reshaper', 'merge._merge')
  fun = m.func('tearfree.reshaper', 'unmerge._unmerge')
  ctx.analysed(fd, fmrg, fun)
  # padding rule
  for blk in (True, False):
    ev = evaluator(m, decide=Decider(cmps={('options.block_size', '==', 0): not blk},
                                     extra=lambda c: False if (c.op == 'cmp' and c.args[0] == '==' and fn_name(c.args[1]) == 'merge_small_dims') else None),
                   opaque={'merge_small_dims'})
    r = rec_fields(ev.run(fd))
    if r is None:
      raise AnalysisError('_derive_shapes does not return _Shapes')
    mg = r['merged_shape']
    pd = r['padded_shape']
    ctx.ob('C06.S2', fd.short, f'merged shape from merge_small_dims [blocked={blk}]',
           fn_name(mg) == 'merge_small_dims' and path_str(mg.args[1][0]) == 'param.shape' and path_str(mg.args[1][1]) == 'options.merge_dims',
           'merged shape must be merge_small_dims(param.shape, options.merge_dims)', ctx.loc(fd), sample='merge_small_dims(param.shape, merge_dims)')
    if not blk:
      ctx.ob('C06.S2', fd.short, 'no padding without blocking', pd is mg, 'with block_size == 0 the padded shape is the merged shape', ctx.loc(fd),
             sample='padded = merged')
    else:
      cmpr = Comparer()
      ok = False
      if pd.op == 'list' and len(pd.args) == 1 and pd.args[0].op == 'star':
        e = pd.args[0].args[0]
        # ite(s >= B, ceil(s/B)*B, s)
        oc = cmp_oriented(e.args[0], lambda t: (path_str(strip_casts(t)) or '').split('.')[-1] == 'block_size') if e.op == 'ite' else None
        if oc is not None:
          s_ = oc[1]
          env = {'s': s_, 'B': ev.attr(sym('param', fd.short, 'options'), 'block_size')}
          ok = cmpr.same(e.args[0], spec_term(ev, 's >= B', env)) and cmpr.same(e.args[1], spec_term(ev, '((s + B - 1) // B) * B', env)) and e.args[2] is s_
      ctx.ob('C06.S2', fd.short, 'pad large dims to the next block multiple', ok,
             f'padded dim must be ceil(s/B)*B for s >= B and s otherwise; got `{show(pd, maxdepth=6)[:200]}`', ctx.loc(fd),
             sample='s >= B ? ((s + B - 1) // B) * B : s')
  # merge pads at the end, unmerge slices from 0, same shapes object
  ev = evaluator(m, decide=Decider(cmps={('options.block_size', '>', 0): True, ('options.block_size', '==', 0): False},
                                   extra=lambda c: True if c.op == 'list' and c.args else None))
  r = ev.run(fmrg)
  pads = [x for x in walk(r) if is_ext_call(x, 'jax.numpy.pad')]
  ok = bool(pads)
  if ok:
    p = pads[0]
    arr, padding = p.args[1][0], p.args[1][1]
    ok = method_name(arr) == 'reshape' and path_str(arr.args[1][0]) == 'shapes.merged_shape'
    okp = padding.op == 'list' and len(padding.args) == 1 and padding.args[0].op == 'star'
    if okp:
      e = padding.args[0].args[0]
      okp = e.op == 'tuple' and is_const(e.args[0], 0) and e.args[1].op == 'bin' and e.args[1].args[0] == '-'
      if okp:
        dom = padding.args[0].args[1]
        okp = 'padded_shape' in show(dom, maxdepth=5) and 'merged_shape' in show(dom, maxdepth=5)
        z = e.args[1]
        okp = okp and 'padded_shape' in show(z.args[1], maxdepth=4) and 'merged_shape' in show(z.args[2], maxdepth=4) \
            and 'merged_shape' not in show(z.args[1], maxdepth=4)
    ok = ok and okp
  ctx.ob('C06.S2', fmrg.short, 'merge: reshape to merged shape, pad (0, p - m) at the end', ok,
         f'_merge must reshape to merged_shape and pad each dim by (0, padded - merged); got `{show(r, maxdepth=6)[:200]}`', ctx.loc(fmrg),
         sample='pad(update.reshape(merged), [(0, p - m) ...])')
  r = ev.run(fun)
  ok = method_name(r) == 'reshape' and path_str(r.args[1][0]) == 'shapes.original_shape'
  if ok:
    inner = r.args[0].args[0]
    ok = inner.op == 'sub' and inner.args[0].op == 'sym' and inner.args[0].args[-1] == 'update'
    if ok:
      idx = inner.args[1]
      # every index is a slice starting at 0 (canonical: no lower bound) and ending at the merged dimension
      sl = [x for x in walk(idx) if x.op == 'slice']
      ok = bool(sl) and all(is_const(x.args[0], None) and is_const(x.args[2], None) and 'merged_shape' in show(x.args[1], maxdepth=5) for x in sl)
  ctx.ob('C06.S2', fun.short, 'unmerge: slice [0:m] then reshape to the original shape', ok,
         f'_unmerge must take update[0:m, ...] for the merged dims and reshape to original_shape; got `{show(r, maxdepth=6)[:200]}`', ctx.loc(fun),
         sample='update[tuple(slice(0, m) ...)].reshape(original)')
  # both updates derive shapes with the same function and options
  for q in ('merge.update', 'unmerge.update'):
    fu = m.func('tearfree.reshaper', q)
    ctx.analysed(fu)
    evu = evaluator(m, opaque={'_derive_shapes', '_merge', '_unmerge'})
    r = evu.run(fu)
    sc = evu.closure_env(fu)
    opts = evu.lookup('options', sc)
    part = [x for x in walk(r) if x.op == 'call' and x.args[0].op == 'fn' and x.args[0].args[0].endswith('._derive_shapes')]
    ok = bool(part) and all(x.args[1][0] is opts and 'params' in show(x.args[1][1], maxdepth=4) for x in part)
    ctx.ob('C06.S2', fu.short, 'shapes derived from (options, params)', ok,
           'merge and unmerge must derive their shapes with _derive_shapes(options, param) of the same options', ctx.loc(fu),
           sample='tree.map(partial(_derive_shapes, options), params)')
