"""C02 - Distributed Shampoo's per-parameter update is the documented computation.

Decided statically (value graph of the current source vs. an independent restatement of the
documented math, compared by algebraic normal form for every valuation of the configuration
atoms of `_transform_grad`: graft type (7) x skip x lr coupling x lr schedule x weight decay
(0 / !=0) x wd coupling x moving-average momentum x nesterov x clipping):
  R1  returned update, new diagonal statistics, new Shampoo momentum and new graft momentum
      equal the documented formulas (graft step -> coupled lr -> preconditioned gradient ->
      layer-wise graft rescale -> coupled weight decay -> momentum (EMA or trace) ->
      warm-up blend -> Nesterov -> decoupled weight decay -> -lr); statistics,
      preconditioners, avg_grad and metrics pass through unchanged;
  R2  exponent = 2 x (number of preconditioned dims) unless overridden, same at both consumers;
  R4  statistics update: w1 = beta2, w2 = where(beta2 == 1, beta2, 1 - beta2), Gram update
      w1*old + w2*G_axis^T G_axis over all-but-one axes, one statistic per (block, preconditioned
      axis) in block-major order with the weights passed in order;
  R5  preconditioning a block contracts each preconditioned axis with its matrix in axis order
      and rolls skipped axes.
  (R3, the refresh ordering, is decided with C04.K4.)
Not decided: numeric equality with a float64 reference; correctness of the roots (C01).
"""
from __future__ import annotations

import itertools

from ..lib import (evaluator, Decider, enum_member, rec_fields, show, walk, strip_casts, is_ext_call,
                   fn_name, method_name, path_str, dep_names)
from ..spec import spec_term, spec_block, Comparer
from ..terms import T, sym, const, is_const, cval, NONE
from ..model import AnalysisError

MOD = 'distributed_shampoo'
F = 'distributed_shampoo'

ASSUMPTIONS = [
    'momentum/diagonal-statistics quantisation wrappers and dtype casts are value-transparent (C11 covers quantisation)',
    'Preconditioner.preconditioned_grad is an uninterpreted function of (gradient, preconditioners) here; R5 covers its block contraction',
]

GRAFTS = ['NONE', 'SGD', 'ADAGRAD', 'RMSPROP', 'RMSPROP_NORMALIZED', 'SQRT_N', 'ADAGRAD_NORMALIZED']

# Independent restatement of the documented per-parameter computation (docstring of
# distributed_shampoo + arXiv:2002.09018 sec. 4: grafting, momentum, weight decay, learning rate).
SPEC = '''
G = grad
S = state.diagonal_statistics
new_S = S
if graft_type in (GraftingType.ADAGRAD, GraftingType.ADAGRAD_NORMALIZED):
  sg = G / (jnp.linalg.norm(G) + EPS) if graft_type == GraftingType.ADAGRAD_NORMALIZED else G
  new_S = S + sg * sg
  graft_step = sg / (jnp.sqrt(new_S) + diagonal_epsilon)
elif graft_type in (GraftingType.RMSPROP, GraftingType.RMSPROP_NORMALIZED):
  sg = G / (jnp.linalg.norm(G) + EPS) if graft_type == GraftingType.RMSPROP_NORMALIZED else G
  new_S = beta2 * S + jnp.where(beta2 == 1.0, beta2, 1.0 - beta2) * (sg * sg)
  graft_step = sg / (jnp.sqrt(new_S) + diagonal_epsilon)
  if clip_by_scaled_gradient_norm:
    graft_step = graft_step / jnp.maximum(
        1.0, (jnp.linalg.norm(graft_step) / jnp.sqrt(float(graft_step.size))) / clip_by_scaled_gradient_norm)
elif graft_type == GraftingType.SQRT_N:
  graft_step = jnp.ones_like(G) * jnp.sign(G)
else:
  graft_step = G

lr = learning_rate(step) if callable(learning_rate) else learning_rate
coupled_lr = 1.0 if decoupled_learning_rate else lr
graft = graft_step * coupled_lr

if _skip_preconditioning(param):
  precond = graft
else:
  precond = preconditioner_from_params(param).preconditioned_grad(G, state.preconditioners)
  if graft_type == GraftingType.NONE:
    precond = precond * coupled_lr

if graft_type == GraftingType.NONE:
  shampoo = precond
else:
  shampoo = precond * (jnp.linalg.norm(graft) / (jnp.linalg.norm(precond) + EPS))

if weight_decay != 0 and not decoupled_weight_decay:
  shampoo = shampoo + weight_decay * param
  graft = graft + weight_decay * param

w = (1.0 - beta1) if moving_average_for_momentum else 1.0
new_momentum = beta1 * state.momentum + w * shampoo
new_diagonal_momentum = beta1 * state.diagonal_momentum + w * graft

run = (step >= start_preconditioning_step)
momentum_update = run * new_momentum + (1.0 - run) * new_diagonal_momentum
pre_momentum = run * shampoo + (1.0 - run) * graft
out = (w * pre_momentum + beta1 * momentum_update) if nesterov else momentum_update
if weight_decay != 0 and decoupled_weight_decay:
  out = out + (1.0 if decoupled_learning_rate else lr) * weight_decay * param
update = -1.0 * (lr if decoupled_learning_rate else 1.0) * out
'''

CFG_NAMES = ['graft_type', 'learning_rate', 'decoupled_learning_rate', 'weight_decay', 'decoupled_weight_decay',
             'beta1', 'beta2', 'diagonal_epsilon', 'moving_average_for_momentum', 'nesterov',
             'start_preconditioning_step', 'clip_by_scaled_gradient_norm']

OPAQUE = {'preconditioner_from_params', '_skip_preconditioning', '_quantize_momentum',
          '_quantize_diagonal_statistics', '_maybe_dequantize_preconditioners'}
TRANSPARENT = {'_quantize_momentum', '_quantize_diagonal_statistics', '_maybe_dequantize_preconditioners'}


def valuations(thorough, seed=0):
  atoms = ['skip', 'dec_lr', 'callable_lr', 'wd', 'dec_wd', 'mavg', 'nesterov', 'clip']
  if thorough:
    for g in GRAFTS:
      for bits in itertools.product([False, True], repeat=len(atoms)):
        yield g, dict(zip(atoms, bits))
    return
  # covering set: for each graft type, all-false, all-true, each atom flipped from a mixed base, plus pairs on lr/wd coupling
  for gi, g in enumerate(GRAFTS):
    seen = set()
    base = dict(skip=False, dec_lr=True, callable_lr=False, wd=True, dec_wd=False, mavg=False, nesterov=True, clip=True)
    cands = [dict(base), {k: False for k in atoms}, {k: True for k in atoms}]
    for a in atoms:
      v = dict(base)
      v[a] = not v[a]
      cands.append(v)
    for x, y in itertools.product([False, True], repeat=2):
      v = dict(base)
      v.update(dec_lr=x, dec_wd=y, wd=True, skip=(gi % 2 == 0) ^ x)
      cands.append(v)
    for v in cands:
      key = tuple(sorted(v.items()))
      if key not in seen:
        seen.add(key)
        yield g, v


def make_decider(v):
  return Decider(
      truth={'reset_preconditioner': False, 'decoupled_learning_rate': v['dec_lr'], 'decoupled_weight_decay': v['dec_wd'],
             'moving_average_for_momentum': v['mavg'], 'nesterov': v['nesterov'],
             'clip_by_scaled_gradient_norm': v['clip']},
      cmps={('weight_decay', '!=', 0): v['wd']},
      calls={('callable', 'learning_rate'): v['callable_lr'], ('_skip_preconditioning',): v['skip']})


def run(ctx):
  transform_grad(ctx)
  exponent(ctx)
  statistics(ctx)
  block_contraction(ctx)
  initial_values(ctx)
  # R3: which preconditioner the documented update uses - this step's accepted root (replicated) or the previous
  # refresh (sharded); a rejected / placeholder root must never be applied (gate + sentinel + refresh order)
  from . import C03, C04
  C03.run_gate(ctx)
  C04.ds_step_threading(ctx)
  C04.sharded_root_operands(ctx)   # ... also in sharded mode (roots of this step's statistics)
  C04.ds_guards(ctx)          # the roots applied are those of the last scheduled refresh: refresh guard is exactly count % interval == 0
  # "inverse 2k-th roots of the ridge-regularised statistics": the configured ridge / variant options reach the root routine
  from . import C01
  C01.forwarding(ctx)
  # which parameters are preconditioned at all
  from . import C05
  C05.ds_excluded_parameters(ctx)
  # "applied along every preconditioned axis" of every block: the blocks are put back where they were taken from
  from . import C06
  C06.block_partitioner(ctx)
  # "in the sharded variant the same holds": the per-parameter view of the sharded state is complete in both directions
  from . import C07
  C07.sharded_record_conversion(ctx)
  # "roots of the ridge-regularised statistics": each statistic meets ITS padding start (the ridge is relative to the
  # largest eigenvalue of the unpadded block), exponent and previous root in all three modes
  from . import C13
  C13.parallel_lists(ctx)


def initial_values(ctx):
  """R7: the history the documented recursion starts from: every statistic is matrix_epsilon * I, every dense
  preconditioner the identity (a packed low-rank one zero), in the replicated and in the sharded initial state."""
  from ..lib import per_param_init
  m = ctx.model
  cmpr = Comparer()
  eps = sym('cfg', F, 'matrix_epsilon')
  OP = {'preconditioner_from_params', 'shapes_for_preconditioners', '_skip_preconditioning', '_quantize_momentum', '_quantize_diagonal_statistics',
        '_maybe_quantize_statistics', '_maybe_quantize_preconditioners', 'init_avg_grad', 'init_training_metrics'}

  def first_star(t):
    lst = t.args[1][0] if (t.op == 'call' and t.args[1]) else t
    stars = [e for e in lst.args if e.op == 'star'] if lst.op in ('list', 'tuple') else []
    return stars[0] if stars else None
  # replicated
  fi = m.func(MOD, F + '.init_fn')
  ctx.analysed(fi)
  ev = evaluator(m, decide=Decider(calls={('_skip_preconditioning',): False}), opaque=OP)
  rf = rec_fields(per_param_init(ev, fi, sym('spec', 'param')))
  if rf is None:
    raise AnalysisError('init_fn does not build a ParameterStats record per parameter')
  for slot, src in (('statistics', 'eps * jnp.eye(s[0])'), ('preconditioners', 'jnp.eye(s[0], s[1]) * (s[0] == s[1])')):
    st = first_star(rf[slot])
    it = None
    if st is not None:
      dom = st.args[1]
      if dom.op == 'compdom' and len(dom.args) == 1:
        it = dom.args[0]                                   # [f(s) for s in shapes]
      elif dom.op == 'loopdom' and not (len(dom.args) > 2 and dom.args[2]) and (len(dom.args) <= 3 or is_const(dom.args[3], None)):
        it = dom.args[1]                                   # for s in shapes: out.append(f(s))
    ok = it is not None
    if ok:
      s_ = ev.elem_of(it)
      ok = 'shapes_for_preconditioners' in show(it, maxdepth=4) and cmpr.same(st.args[0], spec_term(ev, src, {'eps': eps, 's': s_}))
    ctx.ob('C02.R7', fi.short, f'initial {slot}', ok,
           f'the initial {slot} must be `{src}` for every announced shape s (eps = matrix_epsilon); got `{show(rf[slot], maxdepth=6)[:200]}`',
           ctx.loc(fi), sample=f'{slot}[i] = {src}')
  # sharded
  fs = m.func(MOD, F + '.sharded_init_fn')
  ctx.analysed(fs)
  ev = evaluator(m, decide=Decider(calls={('_skip_preconditioning',): False}, truth={'best_effort_memory_usage_reduction': False}),
                 opaque=OP | {'_max_statistics_size_from_params', 'precond_dim', 'exponent_for_preconditioner'})
  ev.run(fs)
  gs = [c for c in ev.calls if c.via == 'construct' and c.callee.endswith('.GlobalShardedParameterStats')]
  ctx.need('C02.R7', len(gs), 1, 'GlobalShardedParameterStats constructor in sharded_init_fn')
  sst, spr = first_star(gs[0].args['statistics']), first_star(gs[0].args['preconditioners'])
  oks = okp = False
  if sst is not None and spr is not None:
    eyes = [x for x in walk(sst.args[0]) if is_ext_call(x, 'jax.numpy.eye')]
    if eyes and eyes[0].args[1]:
      M = eyes[0].args[1][0]
      oks = cmpr.same(sst.args[0], spec_term(ev, 'eps * jnp.eye(M)', {'eps': eps, 'M': M})) and 'max' in show(M, maxdepth=4)
      pds = [x for x in walk(spr.args[0]) if fn_name(x) == 'precond_dim']
      okp = bool(pds) and pds[0].args[1] and pds[0].args[1][0] is M and \
          cmpr.same(spr.args[0], spec_term(ev, 'jnp.eye(M, pd) * (pd == M)', {'M': M, 'pd': pds[0]}))
  ctx.ob('C02.R7', fs.short, 'initial statistics (sharded)', oks,
         f'the sharded initial statistics must be matrix_epsilon * eye(max_size) per announced shape; got `{show(gs[0].args["statistics"], maxdepth=5)[:200]}`',
         ctx.loc(fs), sample='matrix_epsilon * eye(max_size)')
  ctx.ob('C02.R7', fs.short, 'initial preconditioners (sharded)', okp,
         f'the sharded initial preconditioners must be eye(max_size, pd) * (pd == max_size) with pd = precond_dim(max_size); got '
         f'`{show(gs[0].args["preconditioners"], maxdepth=5)[:200]}`', ctx.loc(fs), sample='eye(max_size, pd) * (pd == max_size)')


def transform_grad(ctx):
  m = ctx.model
  fi = m.func(MOD, F + '._transform_grad')
  ctx.analysed(fi)
  ev0 = evaluator(m)
  gt_cls = T('class', m.cls(MOD, 'GraftingType').fq)
  n = 0
  for g, v in valuations(ctx.thorough, ctx.seed):
    gterm = enum_member(ev0, m, MOD, 'GraftingType', g)
    d = make_decider(v)
    ev = evaluator(m, factory_cfg={'graft_type': gterm}, decide=d, opaque=OPAQUE)
    r = ev.run(fi)
    ctx.evaluations += 1
    if r.op != 'tuple' or len(r.args) != 2 or rec_fields(r.args[1]) is None:
      raise AnalysisError('_transform_grad does not return (update, ParameterStats)')
    got_upd, got_state = r.args[0], rec_fields(r.args[1])
    P = lambda nm: sym('param', fi.short, nm)
    csc = ev.closure_env(fi)
    env = {nm: ev.lookup(nm, csc) for nm in CFG_NAMES}
    for nm, val in env.items():
      if val.op in ('unknown', 'unbound'):
        raise AnalysisError(f'configuration name {nm!r} not visible from _transform_grad')
    env['graft_type'] = gterm
    env.update(grad=P('grad'), state=P('state'), param=P('param'), step=P('step'),
               GraftingType=gt_cls, EPS=ev.lookup('_EPSILON', ev.module_scope(fi.module.name)),
               _skip_preconditioning=T('fn', m.func(MOD, F + '._skip_preconditioning').fq),
               preconditioner_from_params=T('fn', m.func(MOD, F + '.preconditioner_from_params').fq))
    sv = spec_block(ev, SPEC, env)
    cmpr = Comparer(transparent_calls=TRANSPARENT)
    vtag = g + ':' + ''.join(k[0].upper() if b else k[0] for k, b in v.items())
    vdesc = g + ',' + ','.join(f'{k}={int(b)}' for k, b in v.items())
    pairs = [
        ('update', got_upd, sv['update']),
        ('diagonal_statistics', got_state['diagonal_statistics'], sv['new_S']),
        ('momentum', got_state['momentum'], sv['new_momentum']),
        ('diagonal_momentum', got_state['diagonal_momentum'], sv['new_diagonal_momentum']),
    ]
    for nm, got, exp in pairs:
      ok = cmpr.same(got, exp)
      n += 1
      ctx.ob('C02.R1', fi.short, f'{nm}', ok,
             f'[{vdesc}] `{nm}` is not the documented value: derived `{cmpr.fmt(got)[:300]}` vs documented `{cmpr.fmt(exp)[:300]}`',
             ctx.loc(fi), sample=f'{nm} == documented formula [{vdesc}]' if n <= 8 else None,
             trivial=n > 40)
    for slot in ('statistics', 'preconditioners', 'avg_grad', 'training_metrics'):
      ok = path_str(got_state[slot]) == 'state.' + slot
      ctx.ob('C02.R1', fi.short, f'{slot} pass-through', ok,
             f'_transform_grad must not change `{slot}`', ctx.loc(fi), trivial=True, sample=None)
  ctx.need('C02.R1', n, 100, 'formula obligations')


def exponent(ctx):
  m = ctx.model
  fi = m.func(MOD, 'Preconditioner.exponent_for_preconditioner')
  ctx.analysed(fi)
  ev = evaluator(m, opaque={'should_precondition_dims'})
  r = ev.run(fi)
  cmpr = Comparer()
  selfp = T('obj', fi.cls.fq, 'self')
  exp = spec_term(ev, '2 * sum(self.should_precondition_dims())', {'self': selfp})
  # the opaque method call has the receiver as first positional argument
  got = r
  ok = cmpr.same(got, exp) or _exp_alt(ev, got, cmpr, selfp)
  if not ok:
    # however it is written: on concrete answers of should_precondition_dims() the function must fold to 2 x (number of True)
    wit = [[True], [False], [True, True], [True, False], [False, True, True], [True, False, True, True], []]
    folded = []
    for w_ in wit:
      evw = evaluator(m, summaries={'should_precondition_dims': (lambda e_, b_, r_, w_=w_: T('list', *[const(x_) for x_ in w_]))})
      try:
        rw = evw.run(fi)
      except Exception:
        rw = NONE
      folded.append(is_const(rw) and not isinstance(cval(rw), bool) and cval(rw) == 2 * sum(w_))
    ok = all(folded)
  ctx.ob('C02.R2', fi.short, 'exponent', ok,
         f'exponent must be 2 x (number of preconditioned dims); got `{cmpr.fmt(got)}`', ctx.loc(fi),
         sample='2 * sum(should_precondition_dims())')
  # consumers
  n = 0
  for q in ('sharded_init_fn', '_compute_preconditioners'):
    f2 = m.func(MOD, F + '.' + q)
    ctx.analysed(f2)
    ev2 = evaluator(m, opaque={'preconditioner_from_params', '_skip_preconditioning', 'exponent_for_preconditioner',
                               '_pmap_compute_preconditioners', '_pmap_quantized_compute_preconditioners',
                               '_pjit_compute_preconditioners', 'shapes_for_preconditioners', 'precond_dim',
                               '_quantize_momentum', '_quantize_diagonal_statistics', 'init_training_metrics', 'init_avg_grad'})
    ev2.run(f2)
    # look for the chosen exponent in list-append / extend arguments: any ite on exponent_override
    found = []
    for sc in ev2.scopes.values():
      if getattr(sc, 'label', '') == f2.fq:
        for name, val in sc.vars.items():
          for x in walk(val):
            if x.op == 'ite' and any(l.op == 'sym' and l.args[-1] == 'exponent_override' for l in walk(x.args[0])):
              found.append(x)
    found = list(dict.fromkeys(found))
    if not found:
      raise AnalysisError(f'{q}: exponent selection (override vs derived) not found')
    for x in found:
      c, a, b = x.args
      okc = c.op == 'cmp' and c.args[0] in ('==', '!=') and is_const(c.args[2], 0)
      derived, over = (a, b) if c.args[0] == '==' else (b, a)
      okd = any(method_name(t) == 'exponent_for_preconditioner' or fn_name(t) == 'exponent_for_preconditioner' for t in walk(derived))
      oko = over.op == 'sym' and over.args[-1] == 'exponent_override'
      n += 1
      ctx.ob('C02.R2', f2.short, 'exponent override', okc and okd and oko,
             f'exponent must be `override if override != 0 else exponent_for_preconditioner()`; got `{show(x, maxdepth=4)[:200]}`',
             ctx.loc(f2), sample='exponent_override == 0 ? derived : override')
  ctx.need('C02.R2', n, 2, 'exponent consumers')


def _exp_alt(ev, got, cmpr, selfp):
  try:
    if got.op == 'bin' and got.args[0] == '*':
      a, b = got.args[1], got.args[2]
      if is_const(b, 2):
        a, b = b, a
      if is_const(a, 2) and b.op == 'call' and b.args[0].op == 'builtin' and b.args[0].args[0] == 'sum':
        inner = b.args[1][0]
        return fn_name(inner) == 'should_precondition_dims' or method_name(inner) == 'should_precondition_dims'
  except Exception:
    pass
  return False


def statistics(ctx):
  m = ctx.model
  # weights and arguments in _compute_stats
  fi = m.func(MOD, F + '._compute_stats')
  ctx.analysed(fi)
  for steps_gt1 in (False, True):
    d = Decider(truth={'frequent_directions': False, 'average_grad': False, 'reset_preconditioner': False},
                cmps={('statistics_compute_steps', '>', 1): steps_gt1}, calls={('_skip_preconditioning',): False})
    from ..lib import econd_summary
    ev = evaluator(m, decide=d, opaque={'preconditioner_from_params', '_skip_preconditioning', 'updated_statistics_from_grad', '_to_float'},
                   summaries={'efficient_cond': econd_summary})
    rr = ev.run(fi)
    mcalls = [x for x in walk(rr) if method_name(x) == 'updated_statistics_from_grad']
    ctx.need('C02.R4', len(mcalls), 1, 'call to updated_statistics_from_grad')
    cmpr = Comparer()
    b2 = sym('cfg', F, 'beta2')
    pnames = ['stats', 'grad', 'w1', 'w2', 'to_float', 'from_float', 'precision', 'frequent_directions']
    for x in mcalls:
      a = dict(zip(pnames, x.args[1]))
      a.update(dict(x.args[2]))
      ok_stats = path_str(a.get('stats', NONE)) == 'state.statistics'
      ok_grad = a.get('grad', NONE).op == 'sym' and a['grad'].args[-1] == 'grad'
      ok_w1 = cmpr.same(a.get('w1', NONE), spec_term(ev, 'beta2', {'beta2': b2}))
      ok_w2 = cmpr.same(a.get('w2', NONE), spec_term(ev, 'jnp.where(beta2 == 1.0, beta2, 1.0 - beta2)', {'beta2': b2}))
      ctx.ob('C02.R4', fi.short, f'statistics inputs [steps>1={steps_gt1}]', ok_stats and ok_grad,
             'the statistics update must read the incoming state.statistics and this step\'s gradient', ctx.loc(fi),
             sample='updated_statistics_from_grad(state.statistics, grad, ...)')
      ctx.ob('C02.R4', fi.short, f'w1 [steps>1={steps_gt1}]', ok_w1, f'old-statistics weight must be beta2; got `{cmpr.fmt(a.get("w1", NONE))}`', ctx.loc(fi),
             sample='w1 = beta2')
      ctx.ob('C02.R4', fi.short, f'w2 [steps>1={steps_gt1}]', ok_w2,
             f'new-gram weight must be where(beta2 == 1, beta2, 1 - beta2); got `{cmpr.fmt(a.get("w2", NONE))}`', ctx.loc(fi),
             sample='w2 = where(beta2 == 1, beta2, 1 - beta2)')
  # gram update formula
  fg = m.func(MOD, 'gram_weighted_update')
  ctx.analysed(fg)
  ev = evaluator(m)
  r = ev.run(fg)
  cmpr = Comparer()
  P = lambda nm: sym('param', fg.short, nm)
  env = {nm: P(nm) for nm in ['old_stats', 'g', 'axis', 'w1', 'w2', 'precision']}
  exp = spec_term(ev, 'w1 * old_stats + w2 * jnp.tensordot(g, g, axes=([i for i in range(g.ndim) if i != axis], [i for i in range(g.ndim) if i != axis]), precision=precision)', env)
  ctx.ob('C02.R4', fg.short, 'gram update', cmpr.same(r, exp),
         f'Gram update must be w1*old + w2*tensordot(g, g, all axes but `axis`); got `{cmpr.fmt(r)[:300]}`', ctx.loc(fg),
         sample='w1 * R + w2 * G_axis^T G_axis')
  # per-block / per-axis loop of updated_statistics_from_grad
  fu = m.func(MOD, 'Preconditioner.updated_statistics_from_grad')
  ctx.analysed(fu)
  # which update a (block, axis) pair gets is decided by that pair alone: the function applied inside the loop must not be a
  # value carried over from an earlier iteration (a sketch update chosen for one block would stick to the blocks after it)
  for fd in (True, False):
    dd = Decider(truth={'frequent_directions': fd}, cmps={('to_float', 'is not', None): True, ('from_float', 'is not', None): True})
    evf = evaluator(m, decide=dd, opaque={'gram_weighted_update', 'frequent_directions_update', 'should_precondition_dims', 'partition', '_should_compress'})
    rf_ = evf.run(fu)
    applied = list(dict.fromkeys(x for x in walk(rf_) if x.op == 'call' and
                                 (any(fn_name(y) in ('gram_weighted_update', 'frequent_directions_update') or
                                      (y.op in ('closure', 'partial', 'fn') and ('gram_weighted_update' in show(y, maxdepth=3) or 'frequent_directions_update' in show(y, maxdepth=3)))
                                      for y in walk(x.args[0])) or any(y.op == 'phi' and y.args[1] == 'update' for y in walk(x.args[0])))))
    carried = [x for x in applied if any(y.op == 'phi' for y in walk(x.args[0]))]
    ctx.ob('C02.R4', fu.short, f'the statistics update of a (block, axis) pair is chosen by that pair [frequent_directions={int(fd)}]', not carried,
           f'the function applied to a block\'s statistic is a value carried over from the previous loop iteration: `{show(carried[0].args[0], maxdepth=4)[:200] if carried else ""}`',
           ctx.loc(fu), sample='update chosen inside the (block, axis) loop')
  d = Decider(truth={'frequent_directions': False}, cmps={('to_float', 'is not', None): True, ('from_float', 'is not', None): True})
  ev = evaluator(m, decide=d, opaque={'gram_weighted_update', 'frequent_directions_update', 'should_precondition_dims', 'partition'})
  r = ev.run(fu)
  calls = [c for c in ev.calls if c.callee.endswith('.gram_weighted_update')]
  ctx.need('C02.R4', len(calls), 1, 'call to gram_weighted_update in updated_statistics_from_grad')
  for c in calls:
    a = c.args
    okw = a.get('w1', NONE).op == 'sym' and a['w1'].args[-1] == 'w1' and a.get('w2', NONE).op == 'sym' and a['w2'].args[-1] == 'w2'
    ctx.ob('C02.R4', fu.short, 'weights passed in order', okw,
           f'gram_weighted_update must receive (w1, w2) in that order; got w1=`{show(a.get("w1", NONE), maxdepth=2)}` w2=`{show(a.get("w2", NONE), maxdepth=2)}`',
           ctx.loc(fu), sample='update(stats[index], g, axis, w1, w2)')
    old = a.get('old_stats', NONE)
    ax = a.get('axis', NONE)
    g_ = a.get('g', NONE)
    subs_ = [x for x in walk(old) if x.op == 'sub' and any(l.op == 'sym' and l.args[-1] == 'stats' for l in walk(x.args[0]))]
    idx_ok, step_ok, why = False, False, 'statistic is not read from `stats` by position'
    if subs_:
      ix = subs_[0].args[1]
      if ix.op == 'phi':
        # a counter threaded through the (block, axis) loops: starts at 0, +1 per pair, unconditionally
        idx_ok = True
        lids = []
        t_ = ix
        while t_.op == 'phi':
          lids.append(t_.args[0])
          t_ = t_.args[2]
        idx_ok = is_const(t_, 0)
        why = 'the running index must start at 0'
        inner_lid = lids[0]
        enclosing = [p_.args[0] for p_ in c.path if p_.op == 'inloop']
        if not enclosing or enclosing[-1] != inner_lid:
          idx_ok = False
          why = 'the running index is not advanced in the innermost loop that reads the statistic (several pairs would read the same slot)'
        for v_ in ev.last_scope.vars.values():
          for x in walk(v_):
            if x.op == 'loop' and x.args[0] == inner_lid and x.args[3].op == 'bin' and x.args[3].args[0] == '+' and \
                x.args[3].args[1] is ix and is_const(x.args[3].args[2], 1):
              step_ok = True
      elif ix.op == 'index' and is_ext_call(ix.args[0], 'itertools.product') and len(ix.args[0].args[1]) == 2:
        # position in enumerate(product(blocks, preconditioned dims)): block-major by construction
        prod = ix.args[0]
        e_ = ev.elem_of(prod)
        idx_ok = g_ is T('sub', e_, const(0)) or (g_.op == 'sub' and g_.args[0] is e_ and is_const(g_.args[1], 0))
        idx_ok = idx_ok and ax.op == 'sub' and ax.args[0] is e_ and is_const(ax.args[1], 1)
        why = 'with enumerate(product(blocks, dims)) the block must be component 0 and the axis component 1 of the same pair'
        step_ok = idx_ok
        blocks_ = prod.args[1][0]
        idx_ok = idx_ok and method_name(blocks_) == 'partition'
    ctx.ob('C02.R4', fu.short, 'running statistic index', idx_ok,
           f'each (block, axis) pair must consume stats[position of the pair in block-major order]: {why}; got `{show(old, maxdepth=4)[:160]}`', ctx.loc(fu),
           sample='stats[index]; index += 1')
    ctx.ob('C02.R4', fu.short, 'axis from preconditioned dims', ax.op in ('elem', 'rangevar', 'oneof', 'index', 'sub') or 'should_precondition_dims' in show(ax, maxdepth=8),
           f'the statistic axis must iterate over the preconditioned dims; got `{show(ax, maxdepth=4)[:120]}`', ctx.loc(fu),
           sample='for axis in preconditioned_dims')
    ctx.ob('C02.R4', fu.short, 'index += 1', step_ok, 'the statistic index must advance by exactly one per (block, axis), unconditionally',
           ctx.loc(fu), sample='index += 1')


def block_contraction(ctx):
  """R5: _precondition_block contracts preconditioned axes in order and rolls skipped ones."""
  m = ctx.model
  fi = m.func(MOD, 'Preconditioner._precondition_block')
  ctx.analysed(fi)
  import sympy as sp

  def rank_leaf(t):
    # every array in this function has the rank of the block (roll and [[0],[0]]-tensordot keep it)
    if t.op == 'call' and t.args[0].op == 'builtin' and t.args[0].args[0] == 'len' and t.args[1] and \
        t.args[1][0].op == 'attr' and t.args[1][0].args[1] == 'shape':
      return sp.Symbol('RANK')
    if t.op == 'attr' and t.args[1] == 'ndim':
      return sp.Symbol('RANK')
    return None
  cmpr = Comparer(leaf=rank_leaf)
  cases = [[True, True], [True, False], [False, True], [True, True, True], [True, True, False], [False, False, True], [True]]
  for dims in cases:
    rank = len(dims)
    d = Decider(extra=lambda c: (False if (c.op == 'cmp' and c.args[0] == '!=' and 'shape' in show(c, maxdepth=6)) else None))
    ev = evaluator(m, decide=d)
    g = sym('spec', 'g')
    pre = T('list', *[sym('spec', f'P{j}') for j in range(rank)])
    dl = T('list', *[const(b) for b in dims])
    # len(g.shape) must fold: give g.shape as a concrete tuple through a record-like leaf
    gshape = T('tuple', *[sym('spec', f'd{j}') for j in range(rank)])

    def leaf_shape(ev_, bound, rec):
      return None
    r = ev.run(fi, args={'self': sym('spec', 'self'), 'g': g, 'should_precondition_dim': dl, 'preconditioners': pre})
    # expected
    src = 'g'
    roll = tuple(range(1, rank)) + (0,)
    env = {'g': g}
    for j, b in enumerate(dims):
      env[f'P{j}'] = sym('spec', f'P{j}')
      if b:
        src = f'jnp.tensordot({src}, P{j}, axes=[[0], [0]])'
      else:
        src = f'jnp.transpose({src}, axes=ROLL)'
    env['ROLL'] = None
    # the code computes roll from len(g.shape); compare modulo that expression by substituting it
    rolls = [x for x in walk(r) if is_ext_call(x, 'jax.numpy.transpose')]
    roll_t = None
    for x in rolls:
      if len(x.args[1]) > 1:      # canonical form: transpose(a, axes)
        roll_t = x.args[1][1]
    env['ROLL'] = roll_t if roll_t is not None else const(0)
    exp = spec_term(ev, src, env)
    ok = cmpr.same(r, exp)
    ctx.ob('C02.R5', fi.short, f'contraction {dims}', ok,
           f'block preconditioning for dims {dims} must be `{src}`; got `{cmpr.fmt(r)[:300]}`', ctx.loc(fi),
           sample=f'{dims}: {src}')
    if roll_t is not None:
      exp_roll = spec_term(ev, 'tuple(range(1, len(g.shape))) + (0,)', {'g': g})
      ctx.ob('C02.R5', fi.short, f'roll permutation {dims}', cmpr.same(roll_t, exp_roll),
             f'skipped axes must be rolled by (1, ..., rank-1, 0); got `{cmpr.fmt(roll_t)}`', ctx.loc(fi), sample='roll = (1..rank-1, 0)')
