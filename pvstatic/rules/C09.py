"""C09 - frequent-directions sketches: structural clauses decided statically.

For the three implementations (Distributed Shampoo `_fd_update_root`, Tearfree Sketchy `_update_axis`,
OCO `_fd_update_fn`):
  R1  decay homogeneity (DEG domain): with the gradient of degree 1 and unknown degrees for the state
      slots, the update equations must be solvable (sums / concatenations / selects join equal
      degrees), the new slot has the old slot's degree, and the pure-history part of every stored
      quantity carries beta^(degree/2): sketch rows beta^1/2, eigenvalues and escaped mass beta^1 -
      equivalently a zero-gradient step discounts V diag(l) V' and t by the same beta;
  R2  cut-off agreement: retained singular values / vectors are the first k of the same SVD and the
      cut-off is singular value k (OCO: last row replaced, rho = s[-1], all rows deflated by rho);
      t' = beta t + cutoff^2; deflated = (s - c)(s + c);
  R3  stored inverse roots are (l' + t' [+eps])^(-1/p) with l', t' the new (pre-clamp) eigenvalues and
      escaped mass of the same step, exponent -1/p (Tearfree: -1/(2 ndim)); clamps make l, t >= 0 and
      zeroed directions get zero roots; the tail constant is t'^(-1/p);
  R4  the sketched matrix is the unfolding of the gradient along the preconditioned axis (axis moved
      first, rest flattened) and the history part of the factor is sqrt(beta) * V sqrt(l [+ridge]).
Not decided: the PSD bracket itself, orthonormality, exact tracking of low-rank histories (numerical
linear algebra).  Valuation `linear_approx_tail` (a fitted heuristic) is typed only for its untouched slots.
"""
from __future__ import annotations

import sympy as sp

from ..deg import Deg, DegError, Mismatch, NOHIST, ZERO, solve
from ..lib import (evaluator, Decider, enum_member, rec_fields, show, walk, strip_casts, is_ext_call,
                   fn_name, method_name, path_str, ext_name, select_arms)
from ..spec import spec_term, Comparer
from ..ideal import Point, Unknown as IdealUnknown, Indeterminate
from ..symb import Symb, equal
from ..terms import T, sym, const, is_const, cval, NONE, subst
from ..model import AnalysisError

MOD = 'distributed_shampoo'

ASSUMPTIONS = [
    'singular values / eigenvalues are positively homogeneous of degree 1 in their argument, singular vectors of degree 0',
    'boolean masks and epsilon-like addends have degree 0',
]


def run(ctx):
  ds_fd(ctx)
  tearfree_sketchy(ctx)
  oco_fd(ctx)
  unfoldings(ctx)
  thin_svd(ctx)
  # the sketch refresh of Distributed Shampoo is configured with the optimizer's own decay / ridge / padding (a dropped
  # `decay=beta2` leaves the sketch undiscounted)
  from . import C10
  C10.rank_flow(ctx)
  # ... and the statistics are accumulated as a sketch factor exactly for the dimensions whose root is a sketch
  C10.predicate_call_sites(ctx)
  # the sketch starts empty (a packed preconditioner is initialised to zero, not to a truncated identity) and the escaped
  # mass is frozen with the rest of the sketch on steps that do not refresh it
  from . import C02, C04
  C02.initial_values(ctx)
  C04.tearfree_sketchy(ctx)
  averaging_window(ctx)
  # the FD root of Distributed Shampoo continues the sketch of ITS statistic: statistic, exponent, padding start and
  # previous sketch are taken from the same replica slot and the same list position
  from . import C13
  C13.axis_names(ctx)


def averaging_window(ctx):
  """R5 (Distributed Shampoo, frequent directions with average_grad): the sketch is fed, every k = statistics_compute_steps
  steps, the MEAN of the k gradients since the last refresh: the accumulator restarts (takes the gradient itself) exactly
  on the first step of a window - step % k == 1, and on every step when k == 1 - and otherwise adds the gradient; what
  goes into the sketch is accumulator / k.  The restart test is decided by evaluating it on a grid of (k, step): a test
  that never fires for k == 1 feeds the sketch the running SUM of all gradients."""
  from ..ideal import Point
  from ..lib import rec_fields, select_arms, econd_summary
  m = ctx.model
  fi = m.func('distributed_shampoo', 'distributed_shampoo._compute_stats')
  ctx.analysed(fi)
  d = Decider(truth={'frequent_directions': True, 'average_grad': True}, calls={('_skip_preconditioning',): False})
  ev = evaluator(m, decide=d, opaque={'preconditioner_from_params', 'updated_statistics_from_grad', '_skip_preconditioning'},
                 summaries={'efficient_cond': econd_summary})
  r = ev.run(fi)
  ctx.evaluations += 1
  def rec_arms(t):
    return rec_arms(t.args[1]) + rec_arms(t.args[2]) if t.op in ('ite', 'cond') else [t]
  arms = [rec_fields(a_) for a_ in rec_arms(r)]
  if not arms or any(a_ is None or 'avg_grad' not in a_ for a_ in arms):
    raise AnalysisError('_compute_stats does not return a ParameterStats record with avg_grad')
  for rf in arms:
    _averaging_window_arm(ctx, fi, ev, rf)


def _averaging_window_arm(ctx, fi, ev, rf):
  from ..ideal import Point
  from ..lib import select_arms
  G = sym('param', fi.short, 'grad')
  ST = sym('param', fi.short, 'state')
  STEP = sym('param', fi.short, 'step')
  K = sym('cfg', 'distributed_shampoo', 'statistics_compute_steps')
  acc = strip_casts(rf['avg_grad'])
  sa = select_arms(acc)
  cmpr = Comparer()
  summed = spec_term(ev, 'state.avg_grad + grad', {'state': ST, 'grad': G})
  ok_form = sa is not None and ((sa[2] is G and cmpr.same(sa[3], summed)) or (sa[3] is G and cmpr.same(sa[2], summed)))
  ctx.ob('C09.R5', fi.short, 'gradient accumulator = select(restart, grad, accumulator + grad)', ok_form,
         f'with average_grad the accumulator must be either the gradient (window restart) or accumulator + gradient; got `{show(acc, maxdepth=4)[:200]}`', ctx.loc(fi),
         sample='where(restart, grad, avg_grad + grad)')
  if ok_form:
    restart_on_true = sa[2] is G
    bad = []
    undecided = None
    for k in (1, 2, 3, 5):
      for step in range(0, 11):
        pt = Point(lambda t, k=k, step=step: ('num', k) if t is K else (('num', step) if t is STEP else None))
        v = pt.ival(sa[1])
        if v is None or v == 'indet':
          undecided = (k, step)
          break
        fires = bool(v[1]) == restart_on_true
        want = (k == 1) or (step % k == 1)
        if fires != want:
          bad.append((k, step, fires))
      if undecided:
        break
    if undecided:
      ctx.defer(f'C09.R5: the restart test of the gradient accumulator could not be evaluated at (k, step) = {undecided}')
    else:
      ctx.ob('C09.R5', fi.short, 'the accumulator restarts exactly on the first step of each window', not bad,
             f'the restart test must hold iff statistics_compute_steps == 1 or step % statistics_compute_steps == 1; at (k, step, restarts) it gives {bad[:4]}',
             ctx.loc(fi), sample='restart iff k == 1 or step % k == 1')
  # what the sketch is fed: accumulator / k
  from ..lib import method_name
  calls = list(dict.fromkeys(x for x in walk(rf['statistics']) if x.op == 'call' and method_name(x) == 'updated_statistics_from_grad'))
  ctx.need('C09.R5', len(calls), 1, 'statistics update call in _compute_stats')
  for c in calls:
    g_in = dict(c.args[2]).get('grad', c.args[1][1] if len(c.args[1]) > 1 else NONE)
    ctx.ob('C09.R5', fi.short, 'the sketch is fed accumulator / statistics_compute_steps', cmpr.same(g_in, spec_term(ev, 'a / k', {'a': rf['avg_grad'], 'k': K})),
           f'with average_grad the gradient handed to the statistics update must be new_avg_grad / statistics_compute_steps; got `{show(g_in, maxdepth=4)[:160]}`',
           ctx.loc(fi), sample='grad = new_avg_grad / statistics_compute_steps')


def thin_svd(ctx):
  """R2b: every sketch refresh uses the THIN singular value decomposition (full_matrices=False): the retained directions
  are then the first k columns / rows of a factor whose second dimension is min(d, m); with the full decomposition the
  factor shapes - and what `[:k]` / the cut-off index select - change."""
  from ..lib import kwarg
  m = ctx.model
  n = 0
  for mod, q in ((MOD, '_fd_update_root'), ('tearfree.sketchy', '_update_axis'), ('oco.algorithms', '_fd_update_fn')):
    fi = m.func(mod, q)
    ev = evaluator(m)
    r = ev.run(fi)
    svds = {x for x in walk(r) if is_ext_call(x, 'jax.numpy.linalg.svd')}
    for sc_ in ev.scopes.values():
      for v_ in sc_.vars.values():
        svds |= {x for x in walk(v_) if is_ext_call(x, 'jax.numpy.linalg.svd')}
    ctx.need('C09.R2', len(svds), 1, f'svd call in {q}')
    for S in svds:
      fm = kwarg(S, 'full_matrices')
      n += 1
      ctx.ob('C09.R2', fi.short, 'thin SVD', fm is not None and is_const(fm, False),
             'the sketch must be refreshed from the thin SVD (full_matrices=False)', ctx.loc(fi), sample='svd(x, full_matrices=False)')


# ------------------------------------------------------------------ helpers
def is_mask(t):
  t = strip_casts(t)
  if t.op == 'cmp':
    return True
  if t.op == 'sub':
    return is_mask(t.args[0])
  if t.op == 'bin' and t.args[0] in ('&', '|'):
    return is_mask(t.args[1]) and is_mask(t.args[2])
  if t.op == 'bin' and t.args[0] == '-' and is_const(t.args[1], 1, 1.0):
    return is_mask(t.args[2])
  if t.op == 'un' and t.args[0] in ('~', 'not'):
    return is_mask(t.args[1])
  if is_ext_call(t, 'jax.numpy.logical_and', 'jax.numpy.logical_or', 'jax.numpy.logical_not'):
    return True
  if is_ext_call(t, 'jax.numpy.expand_dims', 'jax.numpy.reshape', 'jax.numpy.squeeze', 'jax.numpy.flip') and t.args[1]:
    return is_mask(t.args[1][0])           # a mask under a shape-only operation
  return False


def strip_clamps(t, memo=None):
  """Remove clamps / masks: where(c, 0, x) -> x, x * mask -> x, maximum(x, 0) -> x."""
  if memo is None:
    memo = {}

  def rec_arg(a):
    if isinstance(a, T):
      return rec(a)
    if isinstance(a, tuple):
      return tuple(rec_arg(x) for x in a)
    return a

  def rec(x):
    if x in memo:
      return memo[x]
    r = None
    if is_ext_call(x, 'jax.numpy.where') and len(x.args[1]) == 3:
      c, a, b = x.args[1]
      if is_const(strip_casts(a), 0, 0.0):
        r = rec(b)
      elif is_const(strip_casts(b), 0, 0.0):
        r = rec(a)
    if r is None and is_ext_call(x, 'jax.numpy.maximum') and len(x.args[1]) == 2:
      a, b = x.args[1]
      if is_const(strip_casts(a), 0, 0.0):
        r = rec(b)
      elif is_const(strip_casts(b), 0, 0.0):
        r = rec(a)
    if r is None and x.op == 'bin' and x.args[0] == '*':
      if is_mask(x.args[1]):
        r = rec(x.args[2])
      elif is_mask(x.args[2]):
        r = rec(x.args[1])
    if r is None:
      args = tuple(rec_arg(a) for a in x.args)
      r = x if all(n is o for n, o in zip(args, x.args)) else T(x.op, *args)
    memo[x] = r
    return r
  return rec(t)


def power_parts(t):
  """t == base ** expo (through where-clamps) -> (base, expo) else None."""
  t = strip_casts(strip_clamps(t))
  if t.op == 'bin' and t.args[0] == '**':
    return t.args[1], strip_casts(t.args[2])
  if is_ext_call(t, 'jax.numpy.power') and len(t.args[1]) == 2:
    return t.args[1][0], strip_casts(t.args[1][1])
  return None


def raw_power(t):
  """t == base ** expo exactly (no clamps read through) -> (base, expo) else None"""
  t = strip_casts(t)
  if t.op == 'bin' and t.args[0] == '**':
    return t.args[1], strip_casts(t.args[2])
  if is_ext_call(t, 'jax.numpy.power') and len(t.args[1]) == 2:
    return t.args[1][0], strip_casts(t.args[1][1])
  return None


def _deg_pass(ctx, rule, fi, what, term, mode, leaf, tag=''):
  d = Deg(mode, leaf)
  try:
    r = d.deg(term)
  except DegError as e:
    raise AnalysisError(f'{fi.short}: DEG cannot type `{what}` ({mode}): {e}')
  return d, r


# ------------------------------------------------------------------ Distributed Shampoo
def _unpack_summary(ev, bound, rec):
  return T('tuple', *[sym('slot', n) for n in ['eigvecs', 'eigvals', 'inv_eigvals', 'const', 'tail', 'has_zeros']])


def _increasing(t, x):
  """t is x, or an increasing function of x > 0 built from squares, positive powers, square roots and positive factors"""
  t = strip_casts(t)
  if t is x:
    return True
  if t.op == 'bin' and t.args[0] == '**' and is_const(t.args[2]) and isinstance(cval(t.args[2]), (int, float)) and cval(t.args[2]) > 0:
    return _increasing(t.args[1], x)
  if is_ext_call(t, 'jax.numpy.square', 'jax.numpy.sqrt') and len(t.args[1]) == 1:
    return _increasing(t.args[1][0], x)
  if is_ext_call(t, 'jax.numpy.maximum') and len(t.args[1]) == 2 and any(is_const(strip_casts(y), 0, 0.0) for y in t.args[1]):
    return any(_increasing(y, x) for y in t.args[1] if not is_const(strip_casts(y), 0, 0.0))       # identity on positives
  if t.op == 'bin' and t.args[0] == '*':
    a_, b_ = t.args[1], t.args[2]
    if a_ is b_:
      return _increasing(a_, x)
    for u_, v_ in ((a_, b_), (b_, a_)):
      if is_const(strip_casts(v_)) and isinstance(cval(strip_casts(v_)), (int, float)) and cval(strip_casts(v_)) > 0:
        return _increasing(u_, x)
  return False


def _fd_guard_obligations(ctx, fi, ev, cmpr, tag, a, ideal, pt, leaf, env, env_raw, uk_raw):
  l_id, t_id = ideal['deflated_eigs'], ideal['new_tail']
  ctx.ob('C09.R3', fi.short, f'guards leave l\' unchanged on a healthy direction {tag}',
         cmpr.same(l_id, spec_term(ev, '(s[:rank] - s[rank]) * (s[:rank] + s[rank])', env_raw)),
         f'a clamp or mask on the stored eigenvalues is not the identity for a retained direction with positive eigenvalue, unit norm '
         f'and no padding mass: the field evaluates to `{cmpr.fmt(l_id)[:160]}` there', ctx.loc(fi), sample='masks are 1 at the reference point')
  ctx.ob('C09.R3', fi.short, f'guards leave t\' unchanged {tag}', cmpr.same(t_id, spec_term(ev, 'tail * decay + s[rank] ** 2', env_raw)),
         f'a clamp on the escaped mass is not the identity for positive mass: the field evaluates to `{cmpr.fmt(t_id)[:160]}`', ctx.loc(fi),
         sample='clamp is the identity for t > 0')
  ctx.ob('C09.R3', fi.short, f'guards leave V\' = u[:, :k] on a healthy direction {tag}', ideal['eigvecs'] is uk_raw or cmpr.same(ideal['eigvecs'], uk_raw),
         f'masks / normalisation applied to the retained directions are not the identity for a unit-norm direction with positive eigenvalue '
         f'and no padding mass (orthonormal-or-zero columns): the field evaluates to `{cmpr.fmt(ideal["eigvecs"])[:160]}`', ctx.loc(fi),
         sample='V\' = u[:, :k] at the reference point')
  ppi = raw_power(ideal['inverted_eigs'])
  # the inverse roots use the discounted *previous* mass plus this step's full top eigenvalue: s^2 + b t = l' + t'
  oki = ppi is not None and cmpr.same(ppi[0], spec_term(ev, 'l + t', {'l': l_id, 't': t_id})) and cmpr.same(ppi[1], spec_term(ev, '-1.0 / p', env))
  ctx.ob('C09.R3', fi.short, f'guards leave the inverse roots (l\' + t\')^(-1/p) {tag}', oki,
         f'a clamp or mask on the stored inverse roots is not the identity on a healthy direction: the field evaluates to '
         f'`{cmpr.fmt(ideal["inverted_eigs"])[:200]}`', ctx.loc(fi), sample='inverse roots unchanged at the reference point')
  pci = raw_power(ideal['new_const'])
  ctx.ob('C09.R3', fi.short, f'guards leave the tail constant t\'^(-1/p) {tag}',
         pci is not None and cmpr.same(pci[0], t_id) and cmpr.same(pci[1], spec_term(ev, '-1.0 / p', env)),
         f'a clamp on the tail constant is not the identity for positive mass: the field evaluates to `{cmpr.fmt(ideal["new_const"])[:160]}`',
         ctx.loc(fi), sample='c unchanged at the reference point')
  for nm in ('inverted_eigs', 'new_const'):
    n_guard = 0
    for g, c, x1, x2 in pt.guards(a[nm], is_mask):
      for zero_arm, pow_arm in ((x1, x2), (x2, x1)):
        if not is_const(strip_casts(zero_arm), 0, 0.0):
          continue
        rp_ = raw_power(pow_arm)
        if rp_ is None:
          continue
        base_ = rp_[0]
        n_guard += 1
        v0 = Point(leaf, override={base_: ('num', 0)}).ival(c)
        picks_zero = v0 is not None and v0[0] in ('bool', 'num') and (bool(v0[1]) == (zero_arm is x1))
        ctx.ob('C09.R3', fi.short, f'{nm}: zero base maps to a zero root {tag}', picks_zero,
               f'the guard of the inverse power `{show(pow_arm, maxdepth=3)[:80]}` does not select 0 when the base is exactly 0 '
               f'(0 ** (-1/p) is inf: a dead direction would get an infinite root); guard `{show(c, maxdepth=4)[:100]}`', ctx.loc(fi),
               sample='where(base <= 0, 0, base ** alpha)')
    ctx.need('C09.R3', n_guard, 1, f'zero guard of the inverse power in `{nm}`')
  # "orthonormal-or-ZERO columns, l >= 0": at each degenerate point the direction must be dropped entirely
  norms = list({x for x in walk(a['eigvecs']) if is_ext_call(x, 'jax.numpy.linalg.norm')})
  unit = [x for x in norms if pt.ival(x) == ('num', 1)]
  mass = [x for x in norms if pt.ival(x) == ('num', 0)]
  if not unit:
    ctx.defer('C09.R3: no unit-norm test of the retained directions found in _fd_update_root (anchor moved or construct not recognised)')
  # a column whose norm is off is not orthonormal: it must be dropped; a column with mass on padding rows may be
  # dropped or kept whole - anything else (a rescaled column) is neither orthonormal nor zero
  points = [(f'column norm {v}', {x: ('num', v)}, False) for x in unit for v in (0.5, 2.0)]
  points += [('mass on padding rows', {x: ('num', 1.0)}, True) for x in mass]
  for what, ov, may_keep in points:
    q = Point(leaf, override=ov)
    v_, l_ = q.ival(a['eigvecs']), q.ival(a['deflated_eigs'])
    z = lambda v: v is not None and v != 'pos' and v != 'orth' and v[0] in ('num', 'bool') and not v[1]
    okp = (z(v_) and z(l_)) or (may_keep and v_ == 'orth')
    ctx.ob('C09.R3', fi.short, f'direction dropped at the degenerate point `{what}` {tag}', okp,
           f'a retained direction with {what} must be zeroed together with its eigenvalue (orthonormal-or-zero columns); there the stored '
           f'direction evaluates to {v_} and its eigenvalue to {l_} (None: neither a definite zero nor the unchanged column)', ctx.loc(fi),
           sample=f'V\' = 0 and l\' = 0 when {what}')
  hz = a.get('has_zeros')
  if hz is not None:
    # a flagged preconditioner is not applied at all (C10): on a healthy sketch the flag must be clear
    flag_pts = [('healthy sketch', {}, False)]
    for what, ov, want in flag_pts:
      v_ = Point(leaf, override=ov).ival(hz)
      ctx.ob('C09.R3', fi.short, f'zero flag at `{what}` {tag}', v_ is not None and v_ != 'pos' and v_[0] in ('bool', 'num') and bool(v_[1]) == want,
             f'the packed has_zeros flag must be {want} for a {what} (a flagged preconditioner is not applied at all); it evaluates to {v_}',
             ctx.loc(fi), sample=f'has_zeros == {want} at {what}')


def ds_fd(ctx):
  m = ctx.model
  fi = m.func(MOD, '_fd_update_root')
  ctx.analysed(fi)
  cmpr = Comparer()
  for rel in (True, False):
    d = Decider(truth={'relative_matrix_epsilon': rel, 'generate_training_metrics': False, 'generate_fd_metrics': False},
                cmps={('padding_start', 'is not', None): True})
    ev = evaluator(m, decide=d, summaries={'_fd_low_rank_unpack': _unpack_summary}, opaque={'_fd_low_rank_pack', '_precond_dim'})
    ev.run(fi)
    ctx.evaluations += 1
    packs = [c for c in ev.calls if c.callee.endswith('._fd_low_rank_pack')]
    ctx.need('C09.R1', len(packs), 1, 'call to _fd_low_rank_pack in _fd_update_root')
    a = packs[0].args
    P = lambda nm: sym('param', fi.short, nm)
    tag = f'[rel={rel}]'
    # padding masks: an index i is active iff i < padding_start (the statistic is padded with an IDENTITY block, so a mask
    # that lets index padding_start through feeds a spurious unit direction into every SVD)
    masks = set()
    for sc_ in ev.scopes.values():
      for v_ in sc_.vars.values():
        for x in walk(v_):
          if x.op == 'cmp' and len(x.args) == 3 and x.args[0] in ('<', '<=', '>', '>='):
            l_, r_ = strip_casts(x.args[1]), strip_casts(x.args[2])
            if (l_ is P('padding_start') and is_ext_call(r_, 'jax.numpy.arange')) or (r_ is P('padding_start') and is_ext_call(l_, 'jax.numpy.arange')):
              masks.add(x)
    ctx.need('C09.R3', len(masks), 1, 'padding masks in _fd_update_root')
    for x in masks:
      ar = [y for y in walk(x) if is_ext_call(y, 'jax.numpy.arange')][0]
      env_m = {'idx': ar, 'ps': P('padding_start')}
      okm = cmpr.same(x, spec_term(ev, 'idx < ps', env_m)) or cmpr.same(x, spec_term(ev, 'idx >= ps', env_m))
      ctx.ob('C09.R3', fi.short, f'padding mask {cmpr.fmt(x)[:60]} {tag}', okm,
             f'padding masks must be `arange(n) < padding_start` (active) or `arange(n) >= padding_start` (padding); got `{show(x, maxdepth=4)[:120]}`',
             ctx.loc(fi), sample='padding_start > arange(n)')
    xe, xt = sp.Symbol('x_eigvals'), sp.Symbol('x_tail')

    def gleaf(t):
      if t.op == 'sym' and t.args[0] == 'slot':
        return {'eigvecs': sp.Integer(0), 'eigvals': xe, 'tail': xt}.get(t.args[1], sp.Integer(0))
      if t is P('new_grad'):
        return sp.Integer(1)
      return None

    def hleaf(t):
      if t.op == 'sym' and t.args[0] == 'slot':
        return sp.Integer(0)
      if t is P('new_grad'):
        return NOHIST
      if t is P('decay'):
        return sp.Integer(1)
      return None
    _typed_slots(ctx, fi, tag,
                 slots=[('deflated_eigs', a['deflated_eigs'], xe, 1), ('new_tail', a['new_tail'], xt, 1), ('eigvecs', a['eigvecs'], sp.Integer(0), 0)],
                 gleaf=gleaf, hleaf=hleaf, unknowns=[xe, xt], expect={xe: 2, xt: 2})
    # stored roots
    l_new = strip_clamps(a['deflated_eigs'])
    t_new = strip_clamps(a['new_tail'])
    svds = [x for x in walk(l_new) if is_ext_call(x, 'jax.numpy.linalg.svd')]
    ctx.need('C09.R2', len(set(svds)), 1, 'svd in _fd_update_root')
    S = svds[0]
    s_ = T('sub', S, const(1))
    u_ = T('sub', S, const(0))
    rk = P('rank')
    env = {'s': s_, 'u': u_, 'rank': rk, 'tail': sym('slot', 'tail'), 'decay': P('decay'), 'p': P('p')}
    ctx.ob('C09.R2', fi.short, f'deflated = (s[:k]-s[k])(s[:k]+s[k]) {tag}',
           cmpr.same(l_new, spec_term(ev, '(s[:rank] - s[rank]) * (s[:rank] + s[rank])', env)),
           f'deflated eigenvalues must be (top - cutoff)(top + cutoff) with top = s[:rank], cutoff = s[rank] of one SVD; got `{cmpr.fmt(l_new)[:200]}`',
           ctx.loc(fi), sample='l\' = (s[:k] - s[k]) (s[:k] + s[k])')
    ctx.ob('C09.R2', fi.short, f't\' = decay * t + s[k]^2 {tag}',
           cmpr.same(t_new, spec_term(ev, 'tail * decay + s[rank] ** 2', env)),
           f'escaped mass must obey t\' = decay*t + cutoff^2; got `{cmpr.fmt(t_new)[:200]}`', ctx.loc(fi), sample='t\' = b t + s[k]^2')
    ev_t = strip_clamps(a['eigvecs'])
    # eigvecs: u[:, :rank] (normalised): the retained directions are the first k left singular vectors
    uk = spec_term(ev, 'u[:, :rank]', env)
    ev_s = strip_clamps(a['eigvecs'])
    ctx.ob('C09.R2', fi.short, f'retained directions are u[:, :k] {tag}', any(x is uk for x in walk(ev_s)) and
           not any(x.op == 'sub' and x.args[0] is u_ and x is not uk for x in walk(ev_s)),
           'retained directions must be the first `rank` left singular vectors of the same SVD', ctx.loc(fi), sample='V\' = u[:, :k]')
    pp = power_parts(a['inverted_eigs'])
    ok = pp is not None
    if ok:
      base, expo = pp
      lt = spec_term(ev, 'l + t', {'l': l_new, 't': t_new})
      okb = cmpr.same(strip_clamps(base), lt)
      oke = cmpr.same(expo, spec_term(ev, '-1.0 / p', env))
      ctx.ob('C09.R3', fi.short, f'stored inverse roots are (l\' + t\')^(-1/p) {tag}', okb and oke,
             f'inverse roots must be (l\' + t\')^(-1/p) with the new eigenvalues and escaped mass of this step; base `{cmpr.fmt(strip_clamps(base))[:160]}` '
             f'vs l\'+t\' `{cmpr.fmt(lt)[:160]}`, exponent `{cmpr.fmt(expo)}`', ctx.loc(fi), sample='(l\' + t\')^(-1/p)')
    else:
      ctx.ob('C09.R3', fi.short, f'stored inverse roots are a power {tag}', False,
             f'inverted eigenvalues are not of the form base ** exponent: `{show(a["inverted_eigs"], maxdepth=4)[:160]}`', ctx.loc(fi))
    pc = power_parts(a['new_const'])
    okc = pc is not None and cmpr.same(strip_clamps(pc[0]), t_new) and cmpr.same(pc[1], spec_term(ev, '-1.0 / p', env))
    ctx.ob('C09.R3', fi.short, f'tail constant is t\'^(-1/p) {tag}', okc,
           f'the constant applied outside the sketch must be t\'^(-1/p); got `{show(a["new_const"], maxdepth=4)[:160]}`', ctx.loc(fi), sample='c = t\'^(-1/p)')
    # clamps: l, t >= 0; zeroed directions get zero roots
    for nm in ('deflated_eigs', 'new_tail', 'inverted_eigs', 'new_const'):
      # canonical form of `where(x <= 0, 0, x)` (and of its other spellings): where(0 >= x, 0, x)
      w = [x for x in walk(a[nm]) if is_ext_call(x, 'jax.numpy.where', 'jax.lax.select') and is_const(strip_casts(x.args[1][1]), 0, 0.0) and
           x.args[1][0].op == 'cmp' and x.args[1][0].args[0] == '>=' and is_const(x.args[1][0].args[1], 0, 0.0)]
      ctx.ob('C09.R3', fi.short, f'{nm} clamped at 0 {tag}', bool(w),
             f'`{nm}` must pass through where(x <= 0, 0, x) so that l, t >= 0 and dead directions get zero roots', ctx.loc(fi), sample=f'where({nm} <= 0, 0, .)')
    # guards are read through only where they are the identity: at the reference point of a healthy retained direction
    # (exact arithmetic: singular values positive and distinct, unit column norms, no mass on padding rows, active index)
    # every clamp / mask / safe division on the value spine of the packed fields must leave the documented formula
    # unchanged; at the degenerate point (base = 0) the guard of an inverse power must select the zero arm
    raw = list({x for x in walk(a['deflated_eigs']) if is_ext_call(x, 'jax.numpy.linalg.svd')})
    ctx.need('C09.R3', len(raw), 1, 'svd feeding the packed eigenvalues')
    env_raw = dict(env, s=T('sub', raw[0], const(1)), u=T('sub', raw[0], const(0)))
    s_raw = env_raw['s']
    top_t, cut_t, uk_raw = spec_term(ev, 's[:rank]', env_raw), spec_term(ev, 's[rank]', env_raw), spec_term(ev, 'u[:, :rank]', env_raw)
    mask_val = {}
    for x in masks:
      ar = [y for y in walk(x) if is_ext_call(y, 'jax.numpy.arange')][0]
      env_m = {'idx': ar, 'ps': P('padding_start')}
      if cmpr.same(x, spec_term(ev, 'idx < ps', env_m)):
        mask_val[x] = ('bool', True)
      elif cmpr.same(x, spec_term(ev, 'idx >= ps', env_m)):
        mask_val[x] = ('bool', False)
    pos_syms = {P('decay'), P('ridge_epsilon'), P('error_tolerance'), sym('slot', 'tail'), sym('slot', 'eigvals'), s_raw}

    def leaf(t):
      if t is uk_raw:
        return 'orth'
      if t in pos_syms or (t.op == 'sub' and t.args[0] is s_raw):
        return 'pos'
      if t in mask_val:
        return mask_val[t]
      if t.op == 'bin' and t.args[0] == '-' and _increasing(t.args[1], top_t) and subst(t.args[1], {top_t: cut_t}) is t.args[2]:
        return 'pos'                 # singular values come sorted: f(s[:k]) > f(s[k]) for increasing f and a retained direction
      return None
    pt = Point(leaf, atom=lambda t: t is uk_raw or t in pos_syms or t in mask_val or (t.op == 'sub' and t.args[0] is s_raw))
    try:
      ideal = {nm: pt.strip(a[nm], is_mask) for nm in ('eigvecs', 'deflated_eigs', 'inverted_eigs', 'new_const', 'new_tail')}
    except IdealUnknown as e:
      ctx.defer(f'_fd_update_root: {e.why}: `{show(e.term, maxdepth=4)[:160]}`')
      ideal = None
    except Indeterminate as e:
      ctx.ob('C09.R3', fi.short, f'guards are the identity on healthy values {tag}', False,
             f'the guard `{show(e.cond, maxdepth=4)[:120]}` compares a positive quantity of arbitrary magnitude with a positive threshold: it is not '
             f'the identity for every healthy value, so the stored fields do not follow the documented formulas for small values', ctx.loc(fi))
      ideal = None
    if ideal is not None:
      _fd_guard_obligations(ctx, fi, ev, cmpr, tag, a, ideal, pt, leaf, env, env_raw, uk_raw)
    # history factor: sqrt(decay) * sketch * sqrt(eigvals [+ ridge])
    cat = S.args[1][0]
    if not is_ext_call(cat, 'jax.numpy.concatenate'):
      raise AnalysisError('_fd_update_root: SVD argument is not a concatenation')
    parts = cat.args[1][0]
    ok4 = parts.op in ('list', 'tuple') and len(parts.args) == 2
    if ok4:
      hist, fresh = parts.args
      hs = strip_clamps(hist)
      exp_h = spec_term(ev, 'jnp.sqrt(decay) * (sk * jnp.sqrt(ev_))', {'decay': P('decay'), 'sk': sym('slot', 'eigvecs'), 'ev_': sym('slot', 'eigvals')})
      hs_noridge = _drop_ridge(hs)
      ok4 = cmpr.same(hs_noridge, exp_h) and strip_clamps(fresh) is P('new_grad')
      ax = dict(cat.args[2]).get('axis')
      ok4 = ok4 and ax is not None and is_const(ax, 1)
    ctx.ob('C09.R4', fi.short, f'sketched matrix = [sqrt(b) V sqrt(l), G] {tag}', ok4,
           f'the SVD input must be concatenate([sqrt(decay) * V * sqrt(l [+ridge]), grad factor], axis=1); got `{show(cat, maxdepth=5)[:200]}`',
           ctx.loc(fi), sample='[sqrt(b) V sqrt(l), R]')


def _drop_ridge(t):
  """(x + ridge-like) -> x for additive epsilon terms."""
  def is_ridge(x):
    x = strip_casts(x)
    return any(y.op == 'sym' and 'epsilon' in str(y.args[-1]) for y in walk(x))
  memo = {}

  def rec(x):
    if x in memo:
      return memo[x]
    if x.op == 'bin' and x.args[0] == '+':
      if is_ridge(x.args[2]) and not is_ridge(x.args[1]):
        r = rec(x.args[1])
        memo[x] = r
        return r
    args = tuple(rec(a) if isinstance(a, T) else (tuple(rec(y) if isinstance(y, T) else y for y in a) if isinstance(a, tuple) else a) for a in x.args)
    r = x if all(n is o for n, o in zip(args, x.args)) else T(x.op, *args)
    memo[x] = r
    return r
  return rec(t)


def _typed_slots(ctx, fi, tag, slots, gleaf, hleaf, unknowns, expect, hist_scale=None):
  """slots: [(name, new_term, old_degree, expected H-degree multiplier)].
  G pass: solve unknowns; new degree == old degree.  H pass: pure-history part carries beta^(G-degree/2)."""
  g = Deg('G', gleaf)
  gd = {}
  try:
    for nm, term, old, _ in slots:
      gd[nm] = g.deg(term)
  except DegError as e:
    raise AnalysisError(f'{fi.short}: DEG (gradient scale) cannot type the update {tag}: {e}')
  cons = list(g.constraints)
  for nm, term, old, _ in slots:
    if gd[nm] is not ZERO and gd[nm] is not NOHIST:
      cons.append((sp.expand(gd[nm] - old), term, f'new `{nm}` must have the degree of the old slot'))
  sol, residual = solve(cons, unknowns)
  ok = sol is not None and not residual
  detail = ''
  if not ok:
    bad = residual[0] if residual else (cons[0] if cons else None)
    detail = (f'the update equations are not homogeneous in the gradient scale: {bad[2]} at `{show(bad[1], maxdepth=3)[:120]}` '
              f'(constraint {bad[0]} = 0 unsatisfiable)') if bad else 'inconsistent degrees'
  else:
    for u, want in expect.items():
      got = sol.get(u, u)
      if sp.simplify(got - want) != 0:
        ok = False
        detail = f'slot degree {u} solves to {got}, documented {want} (eigenvalues / escaped mass are covariance-level, sketch roots root-level)'
  ctx.ob('C09.R1', fi.short, f'gradient-scale homogeneity {tag}', ok, detail, ctx.loc(fi),
         sample=f'degrees {{{", ".join(f"{k}: {v}" for k, v in (sol or {}).items())}}}')
  if not ok:
    return
  h = Deg('H', hleaf)
  for nm, term, old, mult in slots:
    try:
      hd = h.deg(term)
    except DegError as e:
      raise AnalysisError(f'{fi.short}: DEG (history) cannot type `{nm}` {tag}: {e}')
    gdeg = sp.simplify(old.subs(sol)) if hasattr(old, 'subs') else old
    want = sp.Rational(1, 2) * gdeg
    okh = True
    why = ''
    if h.mismatches:
      mm = h.mismatches[0]
      okh = False
      why = (f'history parts combined in `{show(mm.term, maxdepth=3)[:120]}` carry different powers of the decay '
             f'(beta^{mm.a} vs beta^{mm.b}): a zero-gradient step would not discount the sketch uniformly')
      h.mismatches.clear()
    elif hd is NOHIST or hd is ZERO:
      okh = (gdeg == 0)
      why = f'`{nm}` has no history part'
    else:
      okh = sp.simplify(hd - want) == 0
      why = f'the history part of `{nm}` (gradient degree {gdeg}) is discounted by beta^{hd}, must be beta^{want}'
    ctx.ob('C09.R1', fi.short, f'decay homogeneity of {nm} {tag}', okh, why, ctx.loc(fi),
           sample=f'{nm}: G^{gdeg}, history x beta^{want}')


# ------------------------------------------------------------------ Tearfree Sketchy
def _svd_summary(ev, bound, rec):
  x = bound.get('x')
  svd = T('call', T('ext', 'jax.numpy.linalg.svd'), (x,), (('full_matrices', const(False)),))
  return T('tuple', T('sub', svd, const(0)), T('sub', svd, const(1)))


def _is_nan_fill(t):
  """a value made only of jnp.full(shape, nan) arrays (the placeholder returned instead of running an SVD on
  non-finite input)"""
  if t.op in ('tuple', 'list'):
    return bool(t.args) and all(_is_nan_fill(a) for a in t.args)
  if is_ext_call(t, 'jax.numpy.full') and len(t.args[1]) >= 2:
    v = strip_casts(t.args[1][1])
    return (v.op == 'ext' and v.args[0].endswith('.nan')) or (is_const(v) and isinstance(cval(v), float) and cval(v) != cval(v))
  return False


def strip_nan_guard(t):
  """cond(finite?, F(x), nan-fill) -> F(x): the formulas are checked on the arm that computes something"""
  mp = {}
  for x in walk(t):
    if x.op == 'cond' and len(x.args) == 3:
      if _is_nan_fill(x.args[2]):
        mp[x] = x.args[1]
      elif _is_nan_fill(x.args[1]):
        mp[x] = x.args[2]
  from ..terms import subst
  return subst(t, mp) if mp else t


def _tf_guard_obligations(ctx, fi, ev, cmpr, tag, rf, env, beta, eps_t, ekfac, alpha_exp):
  """Tearfree Sketchy: every clamp / mask on the stored fields is the identity at the reference point of a healthy
  direction, and at the all-zero point (no history, zero gradient, epsilon 0) every inverse power is guarded to 0."""
  raw = list({x for x in walk(rf['eigvals']) if is_ext_call(x, 'jax.numpy.linalg.svd')})
  ctx.need('C09.R3', len(raw), 1, 'svd feeding the stored eigenvalues')
  s_raw, u_raw = T('sub', raw[0], const(1)), T('sub', raw[0], const(0))
  env_raw = dict(env, s=s_raw, u=u_raw)
  top_t, cut_t, uk_raw = spec_term(ev, 's[:k]', env_raw), spec_term(ev, 's[k]', env_raw), spec_term(ev, 'u[:, :k]', env_raw)
  pos_syms = {beta, eps_t, sym('slot', 'tail'), sym('slot', 'eigvals'), s_raw}

  def leaf(t):
    if t is uk_raw:
      return 'orth'
    if t in pos_syms or (t.op == 'sub' and t.args[0] is s_raw):
      return 'pos'
    if t.op == 'bin' and t.args[0] == '-' and _increasing(t.args[1], top_t) and subst(t.args[1], {top_t: cut_t}) is t.args[2]:
      return 'pos'
    return None

  def zleaf(t):
    if t is beta:
      return 'pos'
    if t is eps_t or t is s_raw or (t.op == 'sub' and t.args[0] is s_raw) or (t.op == 'sym' and t.args[0] == 'slot' and t.args[1] in ('tail', 'eigvals')):
      return ('num', 0)
    return None
  names = ['eigvecs', 'eigvals', 'tail', 'inv_eigvals', 'inv_tail'] + (['svd_result_s'] if ekfac else [])
  pt = Point(leaf, atom=lambda t: t is uk_raw or t in pos_syms or (t.op == 'sub' and t.args[0] is s_raw))
  ideal = None
  try:
    ideal = {nm: pt.strip(rf[nm], is_mask) for nm in names}
  except IdealUnknown as e:
    ctx.defer(f'_update_axis: {e.why}: `{show(e.term, maxdepth=4)[:160]}`')
  except Indeterminate as e:
    ctx.ob('C09.R3', fi.short, f'guards are the identity on healthy values {tag}', False,
           f'the guard `{show(e.cond, maxdepth=4)[:120]}` compares a positive quantity of arbitrary magnitude with a positive threshold: it is not '
           f'the identity for every healthy value', ctx.loc(fi))
  if ideal is not None:
    l_exp = spec_term(ev, 'jnp.sqrt(s[:k] - s[k]) * jnp.sqrt(s[:k] + s[k])', env_raw)
    t_exp = spec_term(ev, 'tail * beta + s[k] ** 2', env_raw)
    checks = [('V\' = u[:, :k]', ideal['eigvecs'] is uk_raw or cmpr.same(ideal['eigvecs'], uk_raw), ideal['eigvecs']),
              ('l\'', cmpr.same(ideal['eigvals'], l_exp), ideal['eigvals']),
              ('t\'', cmpr.same(ideal['tail'], t_exp), ideal['tail'])]
    pi_ = raw_power(ideal['inv_eigvals'])
    checks.append(('inverse roots (l\'^2 + t\' + eps)^a', pi_ is not None and cmpr.same(_drop_eps(pi_[0]), spec_term(ev, 's[:k] ** 2 + tail * beta', env_raw)) and
                   cmpr.same(pi_[1], alpha_exp), ideal['inv_eigvals']))
    pt_ = raw_power(ideal['inv_tail'])
    checks.append(('inverse tail (t\' + eps)^a', pt_ is not None and cmpr.same(_drop_eps(pt_[0]), t_exp) and cmpr.same(pt_[1], alpha_exp), ideal['inv_tail']))
    if ekfac:
      pe_ = raw_power(ideal['svd_result_s'])
      checks.append(('ekfac roots (s^2 + b t + eps)^a', pe_ is not None and cmpr.same(_drop_eps(pe_[0]), spec_term(ev, 's ** 2 + tail * beta', env_raw)) and
                     cmpr.same(pe_[1], alpha_exp), ideal['svd_result_s']))
    for what, ok_, got in checks:
      ctx.ob('C09.R3', fi.short, f'guards leave {what} unchanged on a healthy direction {tag}', ok_,
             f'a clamp or mask is not the identity for a retained direction with positive eigenvalue: `{what}` evaluates to `{cmpr.fmt(got)[:200]}` there',
             ctx.loc(fi), sample='clamps and masks are the identity at the reference point')
  q = Point(zleaf)
  for nm in names[3:]:
    n_guard = 0
    for g, c, x1, x2 in q.guards(rf[nm], is_mask):
      for zero_arm, pow_arm in ((x1, x2), (x2, x1)):
        if not is_const(strip_casts(zero_arm), 0, 0.0) or raw_power(pow_arm) is None:
          continue
        n_guard += 1
        v0 = q.ival(c)
        picks_zero = v0 is not None and v0 not in ('pos', 'orth', 'indet') and v0[0] in ('bool', 'num') and (bool(v0[1]) == (zero_arm is x1))
        ctx.ob('C09.R3', fi.short, f'{nm}: no inverse power of zero {tag}', picks_zero,
               f'with no history, a zero gradient and epsilon 0 the guard `{show(c, maxdepth=4)[:100]}` does not select 0: the stored value would be '
               f'0 ** (negative) = inf', ctx.loc(fi), sample='where(x > 0, (x + eps) ** alpha, 0)')
    ctx.need('C09.R3', n_guard, 1, f'zero guard of the inverse power in `{nm}`')


def tearfree_sketchy(ctx):
  m = ctx.model
  fi = m.func('tearfree.sketchy', '_update_axis')
  ctx.analysed(fi)
  cmpr = Comparer()
  slot_names = ['eigvecs', 'eigvals', 'inv_eigvals', 'tail', 'inv_tail', 'ema_ggt', 'svd_result_u', 'svd_result_s', 'inv_prev_tail']
  for ekfac in (False, True):
    for rel in (True, False):
      truth = {'options.ekfac_svd': ekfac, 'options.linear_approx_tail': False, 'options.add_ggt': False,
               'memory_alloc': False, 'options.memory_alloc': False, 'options.relative_epsilon': rel}
      def extra(c):
        # the sketch size is smaller than the number of singular values: `k < len(s)` holds (in whatever spelling)
        if c.op == 'cmp' and c.args[0] in ('<', '<=', '>', '>='):
          is_len = lambda t_: t_.op == 'call' and t_.args[0].op == 'builtin' and t_.args[0].args[0] == 'len'
          if is_len(c.args[2]) and not is_len(c.args[1]):
            return c.args[0] in ('<', '<=')
          if is_len(c.args[1]) and not is_len(c.args[2]):
            return c.args[0] in ('>', '>=')
        return None
      d = Decider(truth=truth, cmps={('options.epsilon', '>', 0): True}, extra=extra)
      ev = evaluator(m, decide=d)
      ax = T('rec', m.cls('tearfree.sketchy', '_AxisState').fq, tuple((n, sym('slot', n)) for n in slot_names))
      U = sym('param', fi.short, 'update')
      r = ev.run(fi, args={'axis_state': ax, 'update_sketches': const(True)})
      ctx.evaluations += 1
      if r.op == 'cond':
        r = r.args[1]
      r = strip_nan_guard(r)
      rf = rec_fields(r)
      if rf is None:
        raise AnalysisError('_update_axis does not return an _AxisState record')
      tag = f'[ekfac={ekfac},rel={rel}]'
      opts = sym('param', fi.short, 'options')
      beta = ev.attr(opts, 'second_moment_decay')
      xe, xt = sp.Symbol('x_eigvals'), sp.Symbol('x_tail')

      def gleaf(t):
        if t.op == 'sym' and t.args[0] == 'slot':
          return {'eigvecs': sp.Integer(0), 'eigvals': xe, 'tail': xt}.get(t.args[1], sp.Integer(0))
        if t is U:
          return sp.Integer(1)
        return None

      def hleaf(t):
        if t.op == 'sym' and t.args[0] == 'slot':
          return sp.Integer(0)
        if t is U:
          return NOHIST
        if t is beta:
          return sp.Integer(1)
        return None
      slots = [('eigvals', rf['eigvals'], xe, 1), ('tail', rf['tail'], xt, 1), ('eigvecs', rf['eigvecs'], sp.Integer(0), 0)]
      _typed_slots(ctx, fi, tag, slots=slots, gleaf=gleaf, hleaf=hleaf, unknowns=[xe, xt], expect={xe: 1, xt: 2})
      svds = [x for x in walk(rf['eigvals']) if is_ext_call(x, 'jax.numpy.linalg.svd')]
      ctx.need('C09.R2', len(set(svds)), 1, 'svd in _update_axis')
      S = svds[0]
      s_, u_ = T('sub', S, const(1)), T('sub', S, const(0))
      # the sketch size: the local value that caps a configured rank by the axis dimension, min(update.shape[dim], ...)
      d_t = spec_term(ev, 'update.shape[dim]', {'update': U, 'dim': sym('param', fi.short, 'dim')})

      def _is_cap(v_):
        if v_.op == 'ite':
          return _is_cap(v_.args[1]) and _is_cap(v_.args[2])
        return v_.op == 'call' and v_.args[0].op == 'builtin' and v_.args[0].args[0] == 'min' and any(a_ is d_t for a_ in v_.args[1])
      caps = [v_ for v_ in ev.last_scope.vars.values() if _is_cap(v_)]
      if not caps:
        raise AnalysisError('_update_axis: sketch size (min(axis dimension, configured rank)) not found')
      k_t = caps[0]
      env = {'s': s_, 'u': u_, 'k': k_t, 'tail': sym('slot', 'tail'), 'beta': beta, 'update': U}
      l_new = strip_clamps(rf['eigvals'])
      t_new = strip_clamps(rf['tail'])
      l_exp = spec_term(ev, 'jnp.sqrt(s[:k] - s[k]) * jnp.sqrt(s[:k] + s[k])', env)
      ctx.ob('C09.R2', fi.short, f'eigvals = sqrt((s[:k]-s[k])(s[:k]+s[k])) {tag}', cmpr.same(l_new, l_exp),
             f'stored root-eigenvalues must be sqrt(top - cutoff) sqrt(top + cutoff) with top = s[:k], cutoff = s[k]; got `{cmpr.fmt(l_new)[:200]}`',
             ctx.loc(fi), sample='l\' = sqrt((s[:k]-s[k])(s[:k]+s[k]))')
      ctx.ob('C09.R2', fi.short, f'tail\' = beta * tail + s[k]^2 {tag}', cmpr.same(t_new, spec_term(ev, 'tail * beta + s[k] ** 2', env)),
             f'escaped mass must obey t\' = beta*t + cutoff^2; got `{cmpr.fmt(t_new)[:200]}`', ctx.loc(fi), sample='t\' = b t + s[k]^2')
      uk = spec_term(ev, 'u[:, :k]', env)
      ctx.ob('C09.R2', fi.short, f'retained directions are u[:, :k] {tag}', any(x is uk for x in walk(rf['eigvecs'])),
             'retained directions must be the first k left singular vectors of the same SVD', ctx.loc(fi), sample='V\' = u[:, :k]')
      alpha_exp = spec_term(ev, '-1.0 / (2 * update.ndim)', env)
      pp = power_parts(rf['inv_eigvals'])
      ok = pp is not None
      if ok:
        base, expo = pp
        lt = spec_term(ev, 'l * l + t', {'l': l_new, 't': t_new})
        okb = cmpr.same(_drop_eps(strip_clamps(base)), lt)
        oke = cmpr.same(expo, alpha_exp)
        ctx.ob('C09.R3', fi.short, f'inv_eigvals = (l\'^2 + t\' + eps)^(-1/(2 ndim)) {tag}', okb and oke,
               f'inverse roots must be (l\'^2 + t\' [+eps])^(-1/(2 ndim)); base `{cmpr.fmt(_drop_eps(strip_clamps(base)))[:160]}` vs `{cmpr.fmt(lt)[:160]}`, exponent `{cmpr.fmt(expo)}`',
               ctx.loc(fi), sample='(l\'^2 + t\' + eps)^(-1/(2 ndim))')
      else:
        ctx.ob('C09.R3', fi.short, f'inv_eigvals is a power {tag}', False, 'inv_eigvals is not base ** exponent', ctx.loc(fi))
      # the ridge inside the powers: options.epsilon, scaled - under relative_epsilon - by the largest retained
      # (undeflated) eigenvalue max(l'^2 + t'), the same quantity for all stored roots
      eps0 = ev.attr(opts, 'epsilon')
      want_eps = [eps0]
      if rel:
        want_eps = [spec_term(ev, src, dict(env, l=l_new, t=t_new, eps0=eps0))
                    for src in ('jnp.max(l * l + t) * eps0', 'jnp.max(s[:k] ** 2 + tail * beta) * eps0')]
      powers = [('inv_eigvals', pp), ('inv_tail', power_parts(rf['inv_tail']))] + ([('svd_result_s', power_parts(rf['svd_result_s']))] if ekfac else [])
      for nm, parts_ in powers:
        if parts_ is None:
          continue
        got_eps = _eps_of(strip_clamps(parts_[0]))
        ctx.ob('C09.R3', fi.short, f'ridge inside {nm} {tag}', got_eps is not None and any(cmpr.same(strip_clamps(got_eps), w_) for w_ in want_eps),
               f'the ridge added before the inverse power must be options.epsilon' + (' * max(l\'^2 + t\') (relative to the largest retained eigenvalue of the sketch)' if rel else '') +
               f'; got `{cmpr.fmt(got_eps)[:160] if got_eps is not None else None}`', ctx.loc(fi), sample='eps = epsilon * max(undeflated)' if rel else 'eps = epsilon')
      pt = power_parts(rf['inv_tail'])
      okt = pt is not None and cmpr.same(_drop_eps(strip_clamps(pt[0])), t_new) and cmpr.same(pt[1], alpha_exp)
      ctx.ob('C09.R3', fi.short, f'inv_tail = (t\' + eps)^(-1/(2 ndim)) {tag}', okt,
             f'inv_tail must be (t\' [+eps])^(-1/(2 ndim)); got `{show(rf["inv_tail"], maxdepth=4)[:160]}`', ctx.loc(fi), sample='(t\' + eps)^(-1/(2 ndim))')
      if ekfac:
        ps = power_parts(rf['svd_result_s'])
        oks = ps is not None and cmpr.same(_drop_eps(strip_clamps(ps[0])), spec_term(ev, 's ** 2 + tail * beta', env)) and cmpr.same(ps[1], alpha_exp)
        ctx.ob('C09.R3', fi.short, f'ekfac roots = (s^2 + beta * tail + eps)^(-1/(2 ndim)) {tag}', oks,
               f'ekfac roots must be (s^2 + beta*prev_tail [+eps])^(-1/(2 ndim)); got `{show(rf["svd_result_s"], maxdepth=4)[:160]}`', ctx.loc(fi),
               sample='(s^2 + b t + eps)^(-1/(2 ndim))')
        ctx.ob('C09.R3', fi.short, f'ekfac keeps the previous inverse tail {tag}', rf['inv_prev_tail'] is sym('slot', 'inv_tail') and rf['svd_result_u'] is u_,
               'with ekfac the preconditioner uses the full u and the previous inv_tail', ctx.loc(fi), sample='svd_result_u = u, inv_prev_tail = old inv_tail')
      _tf_guard_obligations(ctx, fi, ev, cmpr, tag, rf, env, beta, ev.attr(opts, 'epsilon'), ekfac, alpha_exp)
      # history factor and unfolding
      qr = [x for x in walk(S.args[1][0]) if is_ext_call(x, 'jax.numpy.linalg.qr')]
      cat = [x for x in walk(S.args[1][0]) if is_ext_call(x, 'jax.numpy.concatenate')]
      ok4 = bool(cat)
      if ok4:
        parts = cat[0].args[1][0]
        ok4 = parts.op in ('list', 'tuple') and len(parts.args) == 2
        if ok4:
          hist, fresh = parts.args
          exp_h = spec_term(ev, 'V * l[jnp.newaxis, :] * jnp.sqrt(beta)', {'V': sym('slot', 'eigvecs'), 'l': sym('slot', 'eigvals'), 'beta': beta})
          # the unfolding along `dim` (axis first, the others flattened in order) has two common spellings
          env_f = {'update': U, 'dim': sym('param', fi.short, 'dim'), 'd': d_t}
          exp_fs = [spec_term(ev, src_, env_f) for src_ in (
              'update.transpose([dim] + [i for i in range(update.ndim) if i != dim]).reshape(d, -1)',
              'jnp.reshape(jnp.moveaxis(update, dim, 0), (d, -1))')]
          ok4 = cmpr.same(hist, exp_h) and any(cmpr.same(fresh, e_) for e_ in exp_fs) and is_const(dict(cat[0].args[2]).get('axis', NONE), 1)
      ctx.ob('C09.R4', fi.short, f'sketched matrix = [sqrt(b) V l, unfold(G)] {tag}', ok4,
             f'the factored matrix must be concatenate([V * l * sqrt(beta), gradient unfolded along `dim` (axis first, rest flattened)], axis=1); got `{show(S.args[1][0], maxdepth=6)[:240]}`',
             ctx.loc(fi), sample='[sqrt(b) V l, G_(dim)]')


def _eps_of(t):
  """the eps-like summand of x + eps (None when there is none)"""
  rest = _drop_eps(t)
  if rest is t or t.op != 'bin':
    return None
  return t.args[2] if rest is t.args[1] else t.args[1]


def _drop_eps(t):
  """x + eps-like -> x"""
  def is_eps(x):
    x = strip_casts(x)
    s = show(x, maxdepth=6)
    return 'epsilon' in s or (x.op == 'sym' and 'eps' in str(x.args[-1]))
  if t.op == 'bin' and t.args[0] == '+':
    if is_eps(t.args[2]) and not (t.args[2].op == 'bin' and t.args[2].args[0] == '+'):
      return t.args[1]
    if is_eps(t.args[1]):
      return t.args[2]
  return t


# ------------------------------------------------------------------ OCO
def oco_fd(ctx):
  m = ctx.model
  fi = m.func('oco.algorithms', '_fd_update_fn')
  ctx.analysed(fi)
  ev0 = evaluator(m)
  cmpr = Comparer()
  for alg in ('S_ADA', 'ADA_FD', 'FD_SON', 'RFD_SON'):
    at = enum_member(ev0, m, 'oco.algorithms', 'Algorithm', alg)
    hp = T('rec', m.cls('oco.algorithms', 'HParams').fq,
           (('delta', sym('hp', 'delta')), ('lr', sym('hp', 'lr')), ('sketch_size', sym('hp', 'sketch_size')), ('algorithm', at)))
    ev = evaluator(m)
    st0 = sym('param', fi.short, 'state')
    G = sym('param', fi.short, 'grad')
    r = ev.run(fi, args={'hparams': hp})
    ctx.evaluations += 1
    new = {}
    for key in ('P', 'e', 'alpha', 'w', 't'):
      new[key] = ev.subscript(r, const(key))
    xe, xa = sp.Symbol('x_e'), sp.Symbol('x_alpha')

    def gleaf(t):
      if t.op == 'sub' and t.args[0] is st0 and is_const(t.args[1]):
        return {'P': sp.Integer(0), 'e': xe, 'alpha': xa, 't': sp.Integer(0), 'w': sp.Symbol('x_w')}.get(cval(t.args[1]), sp.Integer(0))
      if t is G:
        return sp.Integer(1)
      if t.op == 'sym' and t.args[0] == 'hp':
        return sp.Integer(0)
      return None
    g = Deg('G', gleaf)
    try:
      de = g.deg(new['e'])
      da = g.deg(new['alpha'])
      dp = g.deg(new['P'])
    except DegError as e:
      raise AnalysisError(f'_fd_update_fn[{alg}]: DEG cannot type the sketch update: {e}')
    cons = list(g.constraints) + [(sp.expand(de - xe), new['e'], 'new e has the degree of e')]
    if da is not ZERO:
      cons.append((sp.expand(da - xa), new['alpha'], 'new alpha has the degree of alpha'))
    # the preconditioner combines alpha with the deflated squared singular values: alpha is covariance-level
    inv_args = [x for x in walk(new['w']) if x.op == 'bin' and x.args[0] == '+' and any(y is new['alpha'] for y in (x.args[1], x.args[2]))]
    for x in inv_args:
      other = x.args[2] if x.args[1] is new['alpha'] else x.args[1]
      try:
        do = g.deg(other)
      except DegError:
        continue
      cons.append((sp.expand(do - xa), x, 'alpha is added to a covariance-level quantity'))
    sol, residual = solve(cons, [xe, xa])
    ok = sol is not None and not residual
    detail = ''
    if not ok:
      bad = residual[0] if residual else cons[0]
      detail = f'sketch bookkeeping is not homogeneous: {bad[2]} at `{show(bad[1], maxdepth=3)[:120]}`'
    elif alg != 'ADA_FD' and (sp.simplify(sol.get(xe, xe) - 1) != 0 or (xa in sol and sp.simplify(sol[xa] - 2) != 0)):
      ok = False
      detail = f'degrees {sol}: e must be root-level (1), alpha covariance-level (2)'
    ctx.ob('C09.R1', fi.short, f'homogeneity of (e, alpha) [{alg}]', ok, detail, ctx.loc(fi),
           sample=f'[{alg}] degrees {sol}')
    # last row / rho
    svds = [x for x in walk(new['e']) if is_ext_call(x, 'jax.numpy.linalg.svd')]
    ctx.need('C09.R2', len(set(svds)), 1, 'svd in _fd_update_fn')
    S = svds[0]
    s_ = T('sub', S, const(1))
    env = {'s': s_, 'state': st0}
    ctx.ob('C09.R2', fi.short, f'e = sqrt((s - s[-1])(s + s[-1])) [{alg}]', cmpr.same(new['e'], spec_term(ev, 'jnp.sqrt((s - s[-1]) * (s + s[-1]))', env)),
           f'new sketch singular values must be sqrt((s - rho)(s + rho)) with rho = s[-1]; got `{cmpr.fmt(new["e"])[:200]}`', ctx.loc(fi),
           sample='e\' = sqrt((s - s[-1])(s + s[-1]))')
    ctx.ob('C09.R2', fi.short, f'P = vt of the same SVD [{alg}]', new['P'] is T('sub', S, const(2)),
           'new directions must be the right singular vectors of the same SVD', ctx.loc(fi), sample='P\' = vt')
    B = S.args[1][0]
    okb = method_name(B) == 'set' and B.args[0].args[0].op == 'sub' and is_const(B.args[0].args[0].args[1], -1)
    if okb:
      base = B.args[0].args[0].args[0].args[0]
      okb = any(cmpr.same(base, spec_term(ev, src_, env)) for src_ in ("state['P'] * state['e'].reshape(-1, 1)", "state['P'] * state['e'][:, None]",
                                                                                 "state['P'] * jnp.expand_dims(state['e'], 1)")) and any(x is G for x in walk(B.args[1][0]))
    ctx.ob('C09.R2', fi.short, f'gradient replaces the last (zero) sketch row [{alg}]', okb,
           f'the sketch must be P * e with its LAST row replaced by the (scaled) gradient; got `{show(B, maxdepth=5)[:200]}`', ctx.loc(fi),
           sample='B = (P * e[:, None]).at[-1].set(g)')


def unfoldings(ctx):
  """R4 (Distributed Shampoo): the FD statistic is a square factor of the gradient unfolded along `axis`."""
  m = ctx.model
  fi = m.func(MOD, 'frequent_directions_update')
  ctx.analysed(fi)
  ev = evaluator(m)
  r = ev.run(fi)
  cmpr = Comparer()
  P = lambda nm: sym('param', fi.short, nm)
  env = {'g': P('g'), 'axis': P('axis')}
  x = 'jnp.reshape(jnp.moveaxis(g, axis, 0), (g.shape[axis], -1))'
  pads = [t for t in walk(r) if is_ext_call(t, 'jax.numpy.pad')]
  ok = bool(pads) and r is pads[0]
  if ok:
    inner = pads[0].args[1][0]
    exp = spec_term(ev, f'jnp.linalg.qr({x}.T, mode="r").T', env)
    ok = cmpr.same(inner, exp)
  ctx.ob('C09.R4', fi.short, 'FD statistic = R^T of qr(unfold(G)^T)', ok,
         f'the FD statistic must be the (padded) transpose of the R factor of the gradient unfolded along `axis` (axis moved first, rest flattened); got `{show(r, maxdepth=6)[:240]}`',
         ctx.loc(fi), sample='pad(qr(unfold(g, axis).T, mode="r").T)')
