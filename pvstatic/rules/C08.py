"""C08 - block-diagonal semantics: blocks and parameters do not influence each other.

Decided statically:
  R1  Tearfree Shampoo batch-axis non-interference (AXIS domain): statistics blocks are [N, d, d]
      (seeded from the shape literal in init); through `_update_block_stats` (vmap over the blocks
      axis), `_ema_update`, `_pth_inv_root` and `_update_block_precond` every value stays batched
      on the blocks axis - a reduction without axis / over the blocks axis, an einsum that drops or
      renames the block letter, or a contraction outside vmap is reported at the operation;
  R2  the einsum formula of `_precondition_blocks` (folded for every structural case: rank 1..3,
      every placement of <= 2 large axes) binds the blocks axis of the update, of every root and of
      the output to one letter, contracts each axis with its own root and keeps axis order;
  R3  Distributed Shampoo: between gathering the per-statistic matrices and the vmapped root call,
      and between its result and the per-parameter states, statistics / preconditioners / errors flow
      only through structure-preserving operations (padding, stacking, batching, gathering, slicing,
      selects) - no reduction, contraction or arithmetic mixes different statistics;
  R4  shared structural rules: BlockPartitioner pairing and per-block slot slices (C06.S1/S5), the
      eigh padding mask / all-padding epilogue (C01.E1, R4: a parameter padded to another parameter's
      size gets the same root), per-block statistics index (C02.R4).
Not decided: numerical independence from the common padding size; blocked == separate to tolerance.
"""
from __future__ import annotations

import itertools
import string

from ..axis import Axis, Val, MIXED, AxisError
from ..lib import (evaluator, Decider, econd_summary, rec_fields, show, walk, strip_casts, is_ext_call,
                   fn_name, method_name, path_str, ext_name, leaves, kwarg, axes_all_but)
from ..spec import spec_term, Comparer
from ..terms import T, sym, const, is_const, cval, NONE
from ..model import AnalysisError
from . import ds_common as D

TS = 'tearfree.shampoo'

ASSUMPTIONS = [
    'jax.vmap(f, in_axes=a, out_axes=0) applies f independently per index of the mapped axis',
    'jnp.linalg.eigh on [N, d, d] is batched over the leading axis',
]


def run(ctx):
  tearfree_axis(ctx)
  einsum_letters(ctx)
  ds_stat_flow(ctx)
  shared(ctx)
  # every per-statistic operand of the batched root computation (statistic, exponent, padding, previous root) is taken
  # from the same replica slot: a statistic must never meet another parameter's exponent
  from . import C13
  C13.axis_names(ctx)
  # ... and every parameter gets back its own slice of the flat result list
  C13.redistribution(ctx)
  # whether a statistic is compressed depends on ITS dimension (not on the size everything is padded to), and in
  # sharded mode every parameter reads its own window of the global arrays (index_start counts preconditioned statistics only)
  from . import C10, C07
  C10.rank_flow(ctx)
  C07.sharded_triple(ctx)
  # the flat per-statistic lists (statistic, exponent, padding start, previous root) stay aligned entry by entry: a
  # statistic must never be masked with another block's padding start
  C13.parallel_lists(ctx)
  # Tearfree: putting the blocks back is the inverse of cutting them out (a block written to another block's place
  # is one block's history driving another block's update)
  from . import C06
  C06.blockify_inverse(ctx)
  # ... and so is dealing the statistics out to the devices and collecting the roots again
  C13.batch_unbatch(ctx)
  # each (block, axis) statistic is updated from that block's own gradient, with the update chosen for that pair
  from . import C02
  C02.statistics(ctx)


def _letters_summary(ev, bound, rec):
  gid = ev.new_id('g')
  ev.gen_state[gid] = dict(items=[const(c) for c in string.ascii_letters], pos=0)
  return T('itergen', gid)


def tearfree_axis(ctx):
  m = ctx.model
  finit = m.func(TS, '_init.make_blocks')
  fstats = m.func(TS, '_update_block_stats')
  fema = m.func(TS, '_ema_update')
  froot = m.func(TS, '_pth_inv_root')
  fpre = m.func(TS, '_update_block_precond')
  ctx.analysed(finit, fstats, fema, froot, fpre)
  # seed: stats are zeros((n, d, d)) with n = meta.num_blocks
  ev = evaluator(m, decide=Decider(extra=lambda c: False if c.op in ('call', 'cmp', 'bool') else None), opaque={'_blocks_metadata'})
  s0 = rec_fields(ev.run(finit, args={'path': sym('spec', 'path'), 'param': sym('spec', 'param')}))
  if s0 is None:
    raise AnalysisError('tearfree shampoo init does not build _AxesBlocks')
  st = ev.elem_of(s0['stats'])
  ok = is_ext_call(st, 'jax.numpy.zeros') and st.args[1] and st.args[1][0].op == 'tuple' and len(st.args[1][0].args) == 3 and \
      'num_blocks' in show(st.args[1][0].args[0], maxdepth=4) and st.args[1][0].args[1] is st.args[1][0].args[2]
  ctx.ob('C08.R1', finit.short, 'statistics are [num_blocks, d, d]', ok,
         f'block statistics must be allocated as zeros((num_blocks, d, d)); got `{show(st, maxdepth=4)[:120]}`', ctx.loc(finit),
         sample='zeros((n, d, d)): blocks axis 0')
  rt = ev.elem_of(s0['roots'])
  okr = any(is_ext_call(x, 'jax.numpy.eye') for x in walk(rt)) and any(is_ext_call(x, 'jax.numpy.ones') for x in walk(rt))
  ctx.ob('C08.R1', finit.short, 'roots are [num_blocks, d, d] identities', okr,
         f'initial roots must be one identity per block; got `{show(rt, maxdepth=4)[:120]}`', ctx.loc(finit), sample='eye(d) * ones((n, 1, 1))')

  # _pth_inv_root
  for decay_one in (True, False):
    pass
  ev = evaluator(m)
  COV = sym('param', froot.short, 'cov')
  r = ev.run(froot)
  ax = Axis({COV: Val(3, 0)})
  _axis_ob(ctx, froot, ax, r, 'returned roots', want_rank=3)
  # _ema_update
  for one in (True, False):
    ev = evaluator(m, decide=Decider(cmps={('decay', '==', 1.0): one}))
    r = ev.run(fema)
    ax = Axis({sym('param', fema.short, 'old'): Val(3, 0), sym('param', fema.short, 'new'): Val(3, 0)})
    _axis_ob(ctx, fema, ax, r, f'ema [decay==1: {one}]', want_rank=3)
  # _update_block_stats: the new covariance is a vmap over the blocks axis of (update, update)
  ev = evaluator(m, opaque={'_ema_update'})
  r = rec_fields(ev.run(fstats))
  if r is None:
    raise AnalysisError('_update_block_stats does not return _AxesBlocks')
  calls = [c for c in ev.calls if c.callee.endswith('._ema_update')]
  ctx.need('C08.R1', len(calls), 1, '_ema_update application in _update_block_stats')
  for c in calls:
    new = c.args.get('new', NONE)
    old = c.args.get('old', NONE)
    okold = old.op in ('elem', 'sub') or 'stats' in show(old, maxdepth=4)
    ctx.ob('C08.R1', fstats.short, 'old statistic is this axis\'s own block stack', okold and 'block' in show(old, maxdepth=5),
           f'the EMA must update block.stats[axis]; got `{show(old, maxdepth=4)[:100]}`', ctx.loc(fstats), sample='cov from enumerate(block.stats)')
  # the vmapped tensordot: the value handed to the EMA as `new` is the result of a call made under
  # jax.vmap(in_axes=<blocks axis of the blocked update>, out_axes=0), applied to (update, update), and contracts
  # every axis of the block but the statistic's own
  U = sym('param', fstats.short, 'update')
  for c in calls:
    new = c.args.get('new', NONE)
    vm = [v for v in ev.vmap_log if v[2] is new]
    okv = False
    why = 'the new covariance is not computed under jax.vmap'
    if vm:
      wrapper, vargs = vm[0][0], vm[0][1]
      kw = dict(wrapper.args[1])
      ia = kw.get('in_axes', NONE)
      ia_ok = path_str(ia) == 'meta.blocks_axis' or (ia.op in ('tuple', 'list') and len(ia.args) == 2 and all(path_str(x_) == 'meta.blocks_axis' for x_ in ia.args))
      okv = ia_ok and is_const(kw.get('out_axes', const(0)), 0) and \
          len(vargs) == 2 and vargs[0] is U and vargs[1] is U
      why = f'vmap axes in={show(kw.get("in_axes", NONE), maxdepth=2)} out={show(kw.get("out_axes", NONE), maxdepth=2)}, operands {[show(a_, maxdepth=2) for a_ in vargs]}'
    ctx.ob('C08.R1', fstats.short, 'covariance via vmap(in_axes=blocks_axis, out_axes=0)', okv,
           f'the per-block covariance must be a vmap over the blocks axis of the blocked update (out_axes=0) applied to (update, update); {why}', ctx.loc(fstats),
           sample='jax.vmap(dot_all, in_axes=meta.blocks_axis, out_axes=0)(update, update)')
    okt = is_ext_call(new, 'jax.numpy.tensordot') and len(new.args[1]) == 2
    if okt:
      axes = kwarg(new, 'axes')
      okt = axes is not None and axes.op in ('tuple', 'list') and len(axes.args) == 2 and axes.args[0] is axes.args[1]
      if okt:
        nd_ = spec_term(ev, 'len(meta.param_shape)', {'meta': sym('param', fstats.short, 'meta')})
        own = axes_all_but(ev, Comparer(), axes.args[0], nd_)
        # the axis left out must be the position of this statistic in block.stats
        okt = own is not None and own.op == 'index' and path_str(own.args[0]) == 'block.stats'
    ctx.ob('C08.R1', fstats.short, 'contraction over all axes but the statistic\'s own', okt,
           f'inside the vmap the gradient block must be contracted with itself over all axes except `axis`; got `{show(kwarg(new, "axes") or NONE, maxdepth=5)[:200]}`', ctx.loc(fstats),
           sample='tensordot(axes=(all_axes, all_axes)), all_axes.remove(axis)')
  # _update_block_precond maps _pth_inv_root over block.stats with p = 2 * ndim
  ev = evaluator(m, opaque={'_pth_inv_root'})
  r = rec_fields(ev.run(fpre))
  roots = r['roots'] if r else NONE
  calls = [c for c in ev.calls if c.callee.endswith('._pth_inv_root')]
  ok = bool(calls) and all('block' in show(c.args.get('cov', NONE), maxdepth=5) and 'stats' in show(c.args.get('cov', NONE), maxdepth=5) for c in calls)
  ctx.ob('C08.R1', fpre.short, 'each root from its own statistic stack', ok,
         'new roots must be _pth_inv_root applied to each entry of block.stats', ctx.loc(fpre), sample='map(partial(_pth_inv_root, p), block.stats)')


def cmpr_same_range(ev, t):
  """t == list(range(len(meta.param_shape)))"""
  return Comparer().same(t, spec_term(ev, 'list(range(len(meta.param_shape)))', {'meta': sym('param', '_update_block_stats', 'meta')}))


def _axis_ob(ctx, fi, ax, term, what, want_rank):
  try:
    v = ax.val(term)
  except AxisError as e:
    raise AnalysisError(f'{fi.short}: AXIS domain cannot interpret {what}: {e}')
  if v.batch == MIXED:
    t, why = ax.events[0] if ax.events else (term, v.why)
    ctx.ob('C08.R1', fi.short, f'{what}: blocks stay independent', False,
           f'{why}: `{show(t, maxdepth=3)[:120]}` - the result for one block depends on the other blocks of the tensor', ctx.loc(fi))
    return
  ok = v.batch == 0 and v.rank == want_rank
  ctx.ob('C08.R1', fi.short, f'{what}: blocks stay independent', ok,
         f'{what} must be batched on axis 0 with rank {want_rank}; derived {v}', ctx.loc(fi),
         sample=f'{what}: rank {v.rank}, blocks axis {v.batch}, no mixing operation')


def einsum_letters(ctx):
  m = ctx.model
  fp = m.func(TS, '_precondition_blocks')
  fm = m.func(TS, '_blocks_metadata')
  fl = m.func(TS, '_einsum_letters')
  ctx.analysed(fp, fm, fl)
  # the letter generator yields pairwise distinct letters: it relays one of the stdlib letter constants, element by element
  import ast
  from ..lib import module_aliases
  al = module_aliases(fl.module.tree)
  DISTINCT = {'string.ascii_letters', 'string.ascii_lowercase', 'string.ascii_uppercase'}

  def resolves(n_):
    if isinstance(n_, ast.Attribute) and isinstance(n_.value, ast.Name):
      return f'{al.get(n_.value.id, n_.value.id)}.{n_.attr}'
    if isinstance(n_, ast.Name):
      return al.get(n_.id, n_.id)
    return None
  srcs = []
  for n_ in ast.walk(fl.node):
    if isinstance(n_, ast.YieldFrom):
      srcs.append(resolves(n_.value))
    elif isinstance(n_, ast.For) and len(n_.body) == 1 and isinstance(n_.body[0], ast.Expr) and isinstance(n_.body[0].value, ast.Yield) and \
        isinstance(n_.target, ast.Name) and isinstance(n_.body[0].value.value, ast.Name) and n_.body[0].value.value.id == n_.target.id:
      srcs.append(resolves(n_.iter))
  n_yields = sum(1 for n_ in ast.walk(fl.node) if isinstance(n_, (ast.Yield, ast.YieldFrom)))
  ok = len(srcs) == 1 and n_yields == 1 and srcs[0] in DISTINCT
  ctx.ob('C08.R2', fl.short, 'distinct letters', ok, f'_einsum_letters must yield each letter of a stdlib letter constant once; sources {srcs}, {n_yields} yield sites', ctx.loc(fl),
         sample='for c in string.ascii_letters: yield c')
  B = 4
  pool = [2, 3, 8]
  n = 0
  for rank in (1, 2, 3):
    for shp in itertools.product(pool, repeat=rank):
      if sum(1 for s in shp if s >= B) > 2:
        continue
      ev = evaluator(m, summaries={'_einsum_letters': _letters_summary})
      opts = T('rec', m.cls(TS, 'Options').fq, (('block_size', const(B)),))
      meta = ev.run(fm, args={'options': opts, 'param_shape': T('tuple', *[const(v) for v in shp]), 'debug': const('case')})
      mf = rec_fields(meta)
      U = sym('spec', 'U')
      roots = [sym('spec', f'R{i}') for i in range(rank)]
      blocks = T('rec', m.cls(TS, '_AxesBlocks').fq, (('stats', T('list')), ('roots', T('list', *roots))))
      ev.effects.clear()
      r = ev.run(fp, args={'update': U, 'blocks': blocks, 'meta': meta})
      ctx.evaluations += 1
      if not (is_ext_call(r, 'jax.numpy.einsum') and r.args[1] and is_const(r.args[1][0]) and isinstance(cval(r.args[1][0]), str)):
        raise AnalysisError(f'_precondition_blocks({shp}): einsum formula did not fold: {show(r, maxdepth=3)[:160]}')
      formula = cval(r.args[1][0])
      ops = list(r.args[1][1:])
      ba = cval(mf['blocks_axis'])
      ins, out = formula.split('->')
      ins = ins.split(',')
      ok = len(ins) == rank + 1 and ops[0] is U and ops[1:] == roots and len(ins[0]) == rank + 1 and len(out) == rank + 1
      why = ''
      if ok:
        b = ins[0][ba]
        data_in = ins[0][:ba] + ins[0][ba + 1:]
        data_out = out[:ba] + out[ba + 1:]
        ok = out[ba] == b and len(set(ins[0])) == rank + 1 and len(set(out)) == rank + 1
        for i in range(rank):
          spec = ins[1 + i]
          ok = ok and len(spec) == 3 and spec[0] == b and spec[2] == data_in[i] and spec[1] == data_out[i]
        ok = ok and b not in data_in and b not in data_out and not (set(data_out) & set(data_in))
      n += 1
      ctx.ob('C08.R2', fp.short, f'einsum {"x".join(map(str, shp))}', ok,
             f'_precondition_blocks({shp}, block {B}) builds `{formula}`: the blocks axis (position {ba}) of the update, of every root and of the '
             'output must share one letter, each axis be contracted with its own root, axis order kept',
             ctx.loc(fp), sample=f'{shp}: {formula}' if n <= 5 else None, trivial=n > 10)
      if any(e[0] == 'io-print' for e in ev.effects):
        pass
  ctx.need('C08.R2', n, 20, 'einsum structural cases')


# ------------------------------------------------------------------ R3
_MIXERS = {'jax.numpy.sum', 'jax.numpy.max', 'jax.numpy.min', 'jax.numpy.mean', 'jax.numpy.linalg.norm', 'jax.numpy.matmul',
           'jax.numpy.dot', 'jax.numpy.einsum', 'jax.numpy.tensordot', 'jax.numpy.prod', 'jax.numpy.amax', 'jax.numpy.amin',
           'jax.numpy.median', 'jax.numpy.cumsum', 'jax.numpy.average', 'jax.numpy.trace', 'jax.numpy.var', 'jax.numpy.std',
           'jax.numpy.nan_to_num', 'jax.numpy.clip', 'jax.numpy.maximum', 'jax.numpy.minimum', 'jax.numpy.sqrt', 'jax.numpy.abs'}


def ds_stat_flow(ctx):
  m = ctx.model
  n = 0
  for q, fixed, cls, slot in D.MODES:
    v = dict(scheduled=False, steps1=False, reuse=True, metrics=True)
    fi, ev, r = D.eval_mode(m, q, fixed, v)
    ctx.analysed(fi)
    ctx.evaluations += 1
    cons = D.constructor_calls(ev, cls, '.' + q)
    if not cons:
      raise AnalysisError(f'{q}: constructor of {cls} not found')
    terms = []
    for c in cons:
      for k in ('preconditioners', 'statistics', 'training_metrics'):
        if k in c.args:
          terms.append((k, c.args[k]))
    # root-call arguments
    for c in ev.calls:
      if c.callee.split('.')[-1] in D.ROOT_CALLS and c.args:
        for k, a in c.args.items():
          terms.append(('root-arg:' + k, a))
    bad = []
    seen = set()
    for k, t in terms:
      for x in walk(t):
        if x in seen:
          continue
        seen.add(x)
        if x.op == 'call' and x.args[0].op == 'fn' and x.args[0].args[0].split('.')[-1] in D.ROOT_CALLS:
          continue
        nm = ext_name(x)
        if nm in _MIXERS and _stat_tainted(x):
          bad.append((k, x, f'`{nm.split(".")[-1]}` applied to the stacked per-statistic values'))
        if x.op == 'bin' and x.args[0] in ('+', '-', '*', '/', '@', '**') and _stat_tainted(x.args[1]) and _stat_tainted(x.args[2]):
          bad.append((k, x, 'arithmetic between per-statistic values'))
        mm = method_name(x)
        if mm in ('sum', 'max', 'min', 'mean', 'dot', 'prod') and _stat_tainted(x.args[0].args[0]):
          bad.append((k, x, f'`.{mm}()` applied to the stacked per-statistic values'))
    n += 1
    ctx.ob('C08.R3', fi.short, 'per-statistic values only restructured, never combined', not bad,
           '; '.join(f'{why} in `{k}`: `{show(x, maxdepth=3)[:100]}`' for k, x, why in bad[:2]) +
           ' - statistics of different blocks/parameters must not influence each other outside the vmapped root call',
           ctx.loc(fi), sample='pad/stack/batch/all_gather/unbatch/slice/select only')
  ctx.need('C08.R3', n, 4, 'refresh functions')


_META_ATTRS = {'shape', 'ndim', 'sizes', 'index_start', 'dtype', 'size'}


def _stat_tainted(t, memo=None):
  """Array data derived from the per-statistic lists (statistics / preconditioners / root results);
  lengths, shapes and index metadata do not count."""
  if memo is None:
    memo = {}
  if t in memo:
    return memo[t]
  memo[t] = False
  r = False
  if t.op == 'sym':
    r = str(t.args[-1]) in ('statistics', 'prev_preconditioners', 'states', 'state')
  elif t.op == 'call' and t.args[0].op == 'builtin' and t.args[0].args[0] in ('len', 'int', 'range', 'max', 'min', 'abs', 'isinstance', 'bool'):
    r = False
  elif t.op == 'attr' and t.args[1] in _META_ATTRS:
    r = False
  elif t.op == 'call' and t.args[0].op == 'fn' and t.args[0].args[0].split('.')[-1] in D.ROOT_CALLS:
    r = True
  elif t.op in ('cmp',):
    r = False
  else:
    from ..terms import children
    r = any(_stat_tainted(c, memo) for c in children(t))
  memo[t] = r
  return r


def shared(ctx):
  from . import C06, C01, C02
  C06.block_partitioner(ctx)
  C06.slot_arithmetic(ctx)
  C01.eigh_routine(ctx)
  C01.siblings(ctx)
  C02.block_contraction(ctx)
