"""C12 - SM3 accumulators cover the exact second moment (inductive cover invariant, decided statically).

Ghost quantity: nu = exact per-entry accumulator, nu' = beta2 * nu + w * g^2 with the code's own beta2, w.
Hypothesis: accumulator i covers nu along axis i (acc_i[k] >= nu[..., k, ...]).  The rules check, on the value
graph of `sm3.update_fn`, exactly the facts the induction step needs:
  R1a accumulators are viewed through reshape(acc_i, one-hot shape i) (broadcast along the other axes);
  R1b they are combined by an elementwise minimum (or maximum) -> a pointwise upper bound of nu;
  R1c T = beta2 * combined + w * g^2 with w = (1 - beta2) if beta2 != 1 else 1 (non-negative weights, the
      SQUARED gradient) -> T >= nu';  rank < 2: T = beta2 * acc_0 + w * g^2 is exact;
  R1d new accumulator i = plain jnp.max of T over exactly the axes != i (no where= / initial= masks, no
      min / mean) -> covers nu' along axis i;  rank 1: accumulator 0 = T itself;
  R1e the gradient squared in T is the very gradient the preconditioner multiplies (normalisation included),
      the preconditioner is 1 / sqrt(T + eps) of the same T: the step never exceeds AdaGrad/RMSProp's;
  R2  beta2 == 1 gives w = 1 and coefficient 1 on the old accumulators: accumulators never decrease;
  R3  accumulators are allocated in the default float dtype (not the parameter's, which may be bfloat16);
      momentum, weight decay and learning rate are applied after preconditioning as documented.
`minimum -> maximum` in R1b does not break C12 as stated and is accepted.
Not decided: numeric equality with AdaGrad for rank 1 under int8 momentum quantisation.
"""
from __future__ import annotations

import itertools

from ..lib import (axes_all_but, per_param_init, evaluator, Decider, rec_fields, show, walk, strip_casts, is_ext_call, fn_name, method_name,
                   path_str, ext_name)
from ..spec import spec_term, Comparer
from ..terms import T, sym, const, is_const, cval, NONE, ext
from ..model import AnalysisError

ASSUMPTIONS = ['beta2 in (0, 1], weights beta2 and w are non-negative', 'jnp.max without where=/initial= is the true maximum']


def _rank_witness(nd):
  """oracle: comparisons of `<x>.ndim` / len(<x>.shape) with an integer constant are folded for tensor rank `nd`"""
  import operator as _op
  OPS = {'<': _op.lt, '<=': _op.le, '>': _op.gt, '>=': _op.ge, '==': _op.eq, '!=': _op.ne}

  def oracle(c):
    if c.op == 'cmp' and c.args[0] in OPS and is_const(c.args[2]) and isinstance(cval(c.args[2]), int) and not isinstance(cval(c.args[2]), bool):
      l = strip_casts(c.args[1])
      is_rank = (l.op == 'attr' and l.args[1] == 'ndim') or \
          (l.op == 'call' and l.args[0].op == 'builtin' and l.args[0].args[0] == 'len' and l.args[1] and l.args[1][0].op == 'attr' and l.args[1][0].args[1] == 'shape')
      if is_rank:
        return bool(OPS[c.args[0]](nd, cval(c.args[2])))
    return None
  return oracle


def run(ctx):
  m = ctx.model
  fu = m.func('sm3', 'sm3.update_fn')
  fi0 = m.func('sm3', 'sm3.init_fn')
  ctx.analysed(fu, fi0, m.func('sm3', 'sm3._moving_averages'), m.func('sm3', 'sm3._sketch_diagonal_statistics'),
               m.func('sm3', 'sm3._get_expanded_shape'), m.func('sm3', 'sm3._moving_averages_momentum'))
  cmpr = Comparer(transparent_calls={'_quantize_momentum'})
  for rank1, norm, b2one, wd, b1one in itertools.product([False, True], [False, True], [False, True], [False, True], [False, True]):
    if not ctx.thorough and sum([norm, wd, b1one]) > 1 and not (norm and wd and b1one):
      continue
    d = Decider(truth={'normalize_grads': norm}, cmps={('weight_decay', '>', 0.0): wd, ('beta2', '!=', 1.0): not b2one, ('beta1', '!=', 1.0): not b1one},
                calls={('callable', 'learning_rate'): False},
                extra=_rank_witness(1 if rank1 else 2))
    ev = evaluator(m, decide=d, opaque={'_quantize_momentum'})
    r = ev.run(fu)
    ctx.evaluations += 1
    tag = f'[rank1={int(rank1)},norm={int(norm)},beta2==1:{int(b2one)},wd={int(wd)},beta1==1:{int(b1one)}]'
    if r.op != 'tuple' or len(r.args) != 2:
      raise AnalysisError('sm3.update_fn does not return (updates, state)')
    upd = r.args[0].args[0] if r.args[0].op == 'tmap' else r.args[0]
    st = rec_fields(r.args[1])
    if st is None or st['stats'].op != 'tmap' or rec_fields(st['stats'].args[0]) is None:
      raise AnalysisError('sm3.update_fn: new state is not SM3State(count, tree of ParameterStats)')
    ps = rec_fields(st['stats'].args[0])
    acc_new = ps['diagonal_statistics']
    U = T('leaf', sym('param', fu.short, 'updates'))
    S = T('leaf', ev.attr(sym('param', fu.short, 'state'), 'stats'))
    ACC = ev.attr(S, 'diagonal_statistics')
    MOM = ev.attr(S, 'diagonal_momentum')
    cfg = lambda n: sym('cfg', 'sm3', n)
    env = {'u': U, 'acc': ACC, 'beta2': cfg('beta2'), 'beta1': cfg('beta1'), 'eps': cfg('diagonal_epsilon'), 'lr': cfg('learning_rate'),
           'wd': cfg('weight_decay'), 'mom': MOM, 'params': T('leaf', sym('param', fu.short, 'params'))}
    g_src = '(u / (jnp.linalg.norm(u) + 1e-16))' if norm else 'u'
    G = spec_term(ev, g_src, env)
    env['g'] = G
    # locate the statistic T: operand of the jnp.max calls / stored directly for rank 1
    if rank1:
      stores = [x for x in walk(acc_new) if x.op == 'store' and is_const(x.args[1], 0)]
      okf = bool(stores)
      Tt = stores[0].args[2] if stores else None
      if not okf and acc_new.op == 'list' and len(acc_new.args) == 1 and acc_new.args[0].op != 'star':
        # written directly as the one-entry list [T]
        okf, Tt = True, acc_new.args[0]
      ctx.ob('C12.R1d', fu.short, f'rank 1: accumulator 0 is the exact statistic {tag}', okf,
             f'for rank-1 tensors accumulator 0 must be set to the updated statistic itself; got `{show(acc_new, maxdepth=4)[:160]}`', ctx.loc(fu),
             sample='all_diagonal_statistics[0] = updated statistics')
      if not okf:
        continue
    else:
      if acc_new.op in ('ite', 'cond'):
        # a fast path next to the general one: every arm has to be a cover; the arm that is not a plain max is the one judged
        def arms_of(t):
          return arms_of(t.args[1]) + arms_of(t.args[2]) if t.op in ('ite', 'cond') else [t]
        arms = arms_of(acc_new)
        is_list = lambda a_: a_.op == 'list' and len(a_.args) == 1 and a_.args[0].op == 'star'
        if all(is_list(a_) for a_ in arms):
          bad = [a_ for a_ in arms if not is_ext_call(a_.args[0].args[0], 'jax.numpy.max', 'jax.numpy.amax')]
          acc_new = (bad or arms)[0]
      if not (acc_new.op == 'list' and len(acc_new.args) == 1 and acc_new.args[0].op == 'star'):
        raise AnalysisError(f'sm3 accumulators are not one list over the tensor axes: {show(acc_new, maxdepth=3)[:160]}')
      red = acc_new.args[0].args[0]
      okm = is_ext_call(red, 'jax.numpy.max', 'jax.numpy.amax') and len(red.args[1]) == 1
      kw = dict(red.args[2]) if red.op == 'call' else {}
      okkw = set(kw) == {'axis'}
      ctx.ob('C12.R1d', fu.short, f'sketch is a plain max {tag}', okm and okkw,
             f'new accumulator i must be jnp.max(T, axis=<all axes but i>) with no where=/initial= mask and not min/mean/sum - otherwise it is not an upper bound of the slice; got `{show(red, maxdepth=3)[:160]}`',
             ctx.loc(fu), sample='jnp.max(T, axis=others)')
      if not (okm and okkw):
        continue
      Tt = red.args[1][0]
      nd = spec_term(ev, 'g.ndim', env)
      own = axes_all_but(ev, cmpr, kw['axis'], nd)
      # the axis kept must be the variable of the enclosing iteration over range(ndim) (accumulator i keeps axis i)
      ok_ax = own is not None and own.op == 'rangevar' and not any(a_.op == 'depth' for a_ in own.args) and \
          len(own.args) == 1 and cmpr.same(own.args[0], nd)
      ctx.ob('C12.R1d', fu.short, f'max over exactly the axes != i {tag}', ok_ax,
             f'accumulator i must reduce over range(i) + range(i+1, ndim) for i in range(ndim); got axis=`{show(kw["axis"], maxdepth=5)[:200]}`', ctx.loc(fu),
             sample='axes = range(i) + range(i+1, ndim)')
    # T = beta2 * combined + w * g^2
    w_src = '1.0' if b2one else '(1.0 - beta2)'
    comb = None
    if rank1:
      cands = [x for x in walk(Tt) if x.op == 'sub' and is_const(x.args[1], 0) and x.args[0].op == 'list']
      comb = cands[0] if cands else None
      okc = comb is not None and _is_expanded_list(ev, cmpr, comb.args[0], env)
    else:
      cands = [x for x in walk(Tt) if x.op == 'reduce']
      comb = cands[0] if cands else None
      okc = comb is not None and comb.args[0].op == 'ext' and comb.args[0].args[0] in ('jax.numpy.minimum', 'jax.numpy.maximum') and \
          _is_expanded_list(ev, cmpr, comb.args[1], env)
    ctx.ob('C12.R1b', fu.short, f'accumulators combined by elementwise min/max of their broadcast views {tag}', bool(okc),
           f'the per-entry bound must be reduce(minimum|maximum) over reshape(acc_i, one-hot shape i) for every axis (rank 1: acc_0); got `{show(comb, maxdepth=5)[:200] if comb is not None else show(Tt, maxdepth=4)[:200]}`',
           ctx.loc(fu), sample='reduce(minimum, [reshape(acc_i, [1..,n_i,..1])])')
    if not okc:
      continue
    envT = dict(env, C=comb)
    expT = spec_term(ev, f'beta2 * C + {w_src} * g ** 2', envT)
    ctx.ob('C12.R1c', fu.short, f'T = beta2 * bound + w * g^2 {tag}', cmpr.same(Tt, expT),
           f'the updated statistic must be beta2 * bound + {w_src} * g**2 (squared gradient, non-negative weights); got `{cmpr.fmt(Tt)[:240]}`', ctx.loc(fu),
           sample=f'T = beta2 * bound + {w_src} * g^2')
    # step
    w1 = '1.0' if b1one else '(1.0 - beta1)'
    step = f'(beta1 * mom + {w1} * (g * (1.0 / jnp.sqrt(T + eps))))'
    if wd:
      step = f'({step} + wd * params)'
    exp_upd = spec_term(ev, f'-lr * {step}', dict(env, T=Tt))
    # the emitted step is the float momentum itself: for the STEP the quantizer is not transparent (a step read back from the
    # freshly quantized state is the int8 round trip of the momentum - up to half a bucket larger than AdaGrad's)
    ctx.ob('C12.R1e', fu.short, f'step = -lr (beta1 m + w1 g / sqrt(T + eps) [+ wd p]) {tag}', Comparer().same(upd, exp_upd),
           f'the update must precondition the SAME gradient that entered T by 1/sqrt(T + eps) of the same T, then momentum, weight decay, -lr; got `{cmpr.fmt(upd)[:300]}`',
           ctx.loc(fu), sample='-lr (b1 m + w1 g / sqrt(T + eps))')
    exp_m = spec_term(ev, f'beta1 * mom + {w1} * (g * (1.0 / jnp.sqrt(T + eps)))', dict(env, T=Tt))
    ctx.ob('C12.R1e', fu.short, f'stored momentum {tag}', cmpr.same(ps['diagonal_momentum'], exp_m),
           f'stored momentum must be beta1 m + w1 * preconditioned gradient (before weight decay); got `{cmpr.fmt(ps["diagonal_momentum"])[:240]}`', ctx.loc(fu),
           sample='m\' = b1 m + w1 g / sqrt(T + eps)')
    if b2one:
      ctx.ob('C12.R2', fu.short, f'beta2 == 1: accumulators cannot decrease {tag}', cmpr.same(Tt, spec_term(ev, 'beta2 * C + 1.0 * g ** 2', envT)),
             'with beta2 == 1 the statistic must be bound + g^2 (weight 1 on both)', ctx.loc(fu), sample='T = bound + g^2')
  # init
  ev = evaluator(m)
  s0 = rec_fields(per_param_init(ev, fi0, sym('spec', 'param')))
  if s0 is None:
    raise AnalysisError('sm3 init does not build ParameterStats')
  acc0 = s0['diagonal_statistics']
  ok = acc0.op == 'list' and len(acc0.args) == 1 and acc0.args[0].op == 'star'
  if ok:
    z = acc0.args[0].args[0]
    ok = is_ext_call(z, 'jax.numpy.zeros') and len(z.args[1]) == 1
    kw = dict(z.args[2]) if z.op == 'call' else {}
    ok_dt = not kw or (set(kw) == {'dtype'} and kw['dtype'].op == 'ext' and kw['dtype'].args[0] in ('jax.numpy.float32', 'jax.numpy.float64'))
    ok_shape = ok and 'param' in show(acc0.args[0].args[1], maxdepth=4) and 'shape' in show(acc0.args[0].args[1], maxdepth=4)
    ctx.ob('C12.R3', fi0.short, 'one zero accumulator per axis', ok and ok_shape, f'accumulators must be [zeros([s]) for s in param.shape]; got `{show(acc0, maxdepth=4)[:160]}`',
           ctx.loc(fi0), sample='[zeros([s]) for s in param.shape]')
    ctx.ob('C12.R3', fi0.short, 'accumulator dtype independent of the parameter dtype', ok_dt,
           'accumulators must be float32 (the default): in the parameter dtype (e.g. bfloat16) the running sum stalls below the exact sum and no longer covers it',
           ctx.loc(fi0), sample='float32 accumulators')
  else:
    ctx.ob('C12.R3', fi0.short, 'one zero accumulator per axis', False, f'got `{show(acc0, maxdepth=4)[:160]}`', ctx.loc(fi0))


def _is_range_ndim(cmpr, it, nd):
  while it.op == 'call' and it.args[0].op == 'builtin' and it.args[0].args[0] in ('list', 'tuple', 'iter') and len(it.args[1]) == 1:
    it = it.args[1][0]
  return it.op == 'call' and it.args[0].op == 'builtin' and it.args[0].args[0] == 'range' and len(it.args[1]) == 1 and cmpr.same(it.args[1][0], nd)


def _all_axes_but_i(ev, cmpr, ax, nd, outer_dom):
  """`ax` denotes {0..ndim-1} minus {i}, i being the variable of the enclosing iteration over range(ndim)."""
  def over_ndim(v):
    bounds = [a for a in v.args if a.op != 'depth']
    return v.op == 'rangevar' and len(bounds) == 1 and cmpr.same(bounds[0], nd)
  outer = [x for x in walk(ax) if x.op == 'rangevar' and not any(a.op == 'depth' for a in x.args) and over_ndim(x)]
  if not outer:
    return False
  iv = outer[0]
  # form A: range(i) + range(i + 1, ndim)
  if cmpr.same(ax, spec_term(ev, 'list(range(i)) + list(range(i + 1, n))', {'i': iv, 'n': nd})):
    return True
  # form B: [a for a in range(ndim) if a != i]
  a = ax
  while a.op == 'call' and a.args[0].op == 'builtin' and a.args[0].args[0] in ('list', 'tuple', 'sorted') and len(a.args[1]) == 1:
    a = a.args[1][0]
  if a.op in ('list', 'tuple') and len(a.args) == 1 and a.args[0].op == 'star':
    v, dom = a.args[0].args
    if dom.op == 'compdom' and len(dom.args) == 2 and over_ndim(v) and v is not iv and _is_range_ndim(cmpr, dom.args[0], nd):
      c = dom.args[1]
      neg = False
      if c.op == 'un' and c.args[0] == 'not':
        c, neg = c.args[1], True
      if c.op == 'cmp' and {c.args[1], c.args[2]} == {v, iv}:
        return (c.args[0] == '!=' and not neg) or (c.args[0] == '==' and neg)
  return False


def _is_expanded_list(ev, cmpr, lst, env):
  """lst == [reshape(acc[i], [1]*i + [g.shape[i]] + [1]*(rank - i - 1)) for i in range(g.ndim)]"""
  if not (lst.op == 'list' and len(lst.args) == 1 and lst.args[0].op == 'star'):
    return False
  e = lst.args[0].args[0]
  ivs = [x for x in walk(e) if x.op == 'rangevar']
  if not ivs:
    # `for i, _ in enumerate(g.shape)`: the position in g.shape runs over range(g.ndim) as well
    shp = spec_term(ev, 'g.shape', env)
    pos = [x for x in walk(e) if x.op == 'index' and x.args[0] is shp]
    if not pos:
      return False
    exp = spec_term(ev, 'jnp.reshape(acc[i], [1] * i + [g.shape[i]] + [1] * (len(g.shape) - i - 1))', dict(env, i=pos[0]))
    return cmpr.same(e, exp)
  iv = ivs[0]
  exp = spec_term(ev, 'jnp.reshape(acc[i], [1] * i + [g.shape[i]] + [1] * (len(g.shape) - i - 1))', dict(env, i=iv))
  nd = spec_term(ev, 'g.ndim', env)
  return cmpr.same(e, exp) and bool(iv.args) and cmpr.same(iv.args[0], nd)
