"""C14 - everything needed to continue training lives in the state pytree (resume is bit-identical).

Decided statically:
  R1  purity (EFF analysis) of every function of the optimizer modules (distributed_shampoo,
      quantization_utils, sm3, tearfree.{optimizer, second_order, shampoo, sketchy, grafting, momentum,
      reshaper, praxis_shim}): no `global` / `nonlocal`; no attribute store except on `self` inside
      `__init__`; no item store or mutating method call on a closure-captured / module-level object or
      on a parameter (exception table: list parameters that every caller creates freshly); no memoising
      decorator; no global RNG (np.random.<fn>, random.<fn>; a freshly constructed, constant-seeded
      generator is allowed); no wall-clock / environment reads.  A positive fixture with one instance of
      each effect must be matched on every run (the rule cannot pass vacuously);
  R2  state is data: every record class reachable from the states is a NamedTuple / flax struct
      dataclass / plain dataclass of configuration, and fields excluded from the pytree
      (pytree_node=False) have the same normal form at init and on every update path
      (KIND static-field constancy, via C07.R2);
  R3  a restored template from a fresh init has the layout the running state has (= C07.R2 layout
      fixed point for Distributed Shampoo, SM3, Tearfree Shampoo / Sketchy);
  R4  the step counter is int32 zeros at every init and advanced by +1 only (C04.K1).
Not decided: bit-identity of the msgpack round trip itself (runtime).
OCO and tearfree.reallocation are offline tools outside C14's list of optimizers (reported as excluded).
"""
from __future__ import annotations

import ast
import os

from ..lib import norm_src
from ..model import AnalysisError, Model, FuncInfo, ModuleInfo, _local_names

SCOPE = ['precondition.distributed_shampoo', 'precondition.quantization_utils', 'precondition.sm3',
         'precondition.tearfree.optimizer', 'precondition.tearfree.second_order', 'precondition.tearfree.shampoo',
         'precondition.tearfree.sketchy', 'precondition.tearfree.grafting', 'precondition.tearfree.momentum',
         'precondition.tearfree.reshaper', 'precondition.tearfree.praxis_shim']
EXCLUDED = {'precondition.oco.*': 'OCO experiment code is not one of the optimizers C14 lists (its state dict is mutated in place by design)',
            'precondition.tearfree.reallocation': 'offline checkpoint analysis tool, not part of init/update'}

MUTATORS = {'append', 'extend', 'insert', 'pop', 'remove', 'clear', 'update', 'setdefault', 'add', 'discard', 'sort', 'reverse', 'popitem'}

# (function short name, parameter) whose mutation is allowed: every call site passes a list created in the caller's own body
FRESH_LIST_PARAMS = {
    ('distributed_shampoo._pmap_compute_preconditioners', 'exponents'): '_compute_preconditioners builds `exponents = []` per call',
    ('distributed_shampoo._pmap_quantized_compute_preconditioners', 'exponents'): 'same caller',
    ('distributed_shampoo._pjit_compute_preconditioners', 'exponents'): 'same caller',
}

RNG_OK_CONSTRUCTORS = {'RandomState', 'default_rng', 'Generator', 'PRNGKey', 'key'}
CLOCK_CALLS = {'time.time', 'time.perf_counter', 'time.monotonic', 'datetime.now', 'datetime.datetime.now', 'os.getenv', 'os.getpid', 'uuid.uuid4'}
MEMO_DECORATORS = {'lru_cache', 'cache', 'cached_property', 'memoize'}

ASSUMPTIONS = ['effects are recognised syntactically on resolved names; aliasing of a captured object through a local name is followed one assignment deep']

FIXTURE = '''
import functools, time
import numpy as np
_CACHE = {}
def make():
  counter = 0
  seen = []
  def update(g, state, params):
    nonlocal counter
    counter += 1
    seen.append(g)
    _CACHE[g.shape] = g
    noise = np.random.uniform(size=3)
    t = time.time()
    state.count = counter
    params['w'] = g
    return g
  return update
@functools.lru_cache(maxsize=None)
def root(x):
  return x
'''
FIXTURE_EFFECTS = {'nonlocal', 'mutate-captured', 'store-captured', 'global-rng', 'clock', 'attr-store', 'store-param', 'memo-decorator'}


def _exports_closures(fn):
  """Does calling `fn` hand out a function that can still see fn's locals (returned / yielded / stored nested def or lambda)?"""
  own = []

  def collect(stmts):
    for st in stmts:
      if isinstance(st, (ast.FunctionDef, ast.AsyncFunctionDef, ast.ClassDef)):
        continue
      own.append(st)
      for fld in ('body', 'orelse', 'finalbody'):
        sub = getattr(st, fld, None)
        if isinstance(sub, list) and sub and isinstance(sub[0], ast.stmt):
          collect(sub)
      for h in getattr(st, 'handlers', []) or []:
        collect(h.body)
  collect(fn.body)
  tainted = {d.name for d in ast.walk(fn) if isinstance(d, (ast.FunctionDef, ast.AsyncFunctionDef)) and d is not fn}

  def mentions(e):
    for n in ast.walk(e):
      if isinstance(n, ast.Lambda):
        return True
      if isinstance(n, ast.Name) and n.id in tainted:
        return True
    return False
  for _ in range(3):
    for st in own:
      if isinstance(st, (ast.Assign, ast.AnnAssign)) and st.value is not None and mentions(st.value):
        for t in (st.targets if isinstance(st, ast.Assign) else [st.target]):
          for n in ast.walk(t):
            if isinstance(n, ast.Name):
              tainted.add(n.id)
  for st in own:
    if isinstance(st, ast.Return) and st.value is not None and mentions(st.value):
      return True
    if isinstance(st, ast.Expr) and isinstance(st.value, (ast.Yield, ast.YieldFrom)) and st.value.value is not None and mentions(st.value.value):
      return True
    if isinstance(st, ast.Assign) and any(isinstance(t, (ast.Attribute, ast.Subscript)) for t in st.targets) and mentions(st.value):
      return True
  return False


class Effects:
  def __init__(self, tree, modname):
    self.tree = tree
    self.modname = modname
    self.module_names = set()
    for s in tree.body:
      if isinstance(s, ast.Assign):
        for t in s.targets:
          if isinstance(t, ast.Name):
            self.module_names.add(t.id)
    self.imports = {}
    for s in ast.walk(tree):
      if isinstance(s, ast.Import):
        for al in s.names:
          self.imports[(al.asname or al.name).split('.')[0]] = al.name
      elif isinstance(s, ast.ImportFrom):
        for al in s.names:
          self.imports[al.asname or al.name] = (s.module or '') + '.' + al.name
    self.rng_names = set()   # names bound (at module level or in an enclosing scope) to an RNG generator object
    for s in ast.walk(tree):
      if isinstance(s, ast.Assign) and isinstance(s.value, ast.Call):
        nm = self._dotted(s.value.func) or ''
        head = nm.split('.')[0]
        full = (self.imports.get(head, head) + nm[len(head):]) if head in self.imports else nm
        if 'random' in full and full.split('.')[-1] in RNG_OK_CONSTRUCTORS:
          for t in s.targets:
            if isinstance(t, ast.Name):
              self.rng_names.add(t.id)
    self.found = []   # (kind, function qualname, node, detail)

  def run(self):
    self._funcs(self.tree.body, [], None)
    return self.found

  def _funcs(self, stmts, chain, cls):
    for s in stmts:
      if isinstance(s, (ast.FunctionDef, ast.AsyncFunctionDef)):
        self._function(s, chain, cls)
      elif isinstance(s, ast.ClassDef):
        self._funcs(s.body, chain + [(s.name, None, None)], s.name)
      elif isinstance(s, (ast.If, ast.For, ast.While, ast.With, ast.Try)):
        for fld in ('body', 'orelse', 'finalbody'):
          self._funcs(getattr(s, fld, []) or [], chain, cls)

  def _dotted(self, n):
    parts = []
    while isinstance(n, ast.Attribute):
      parts.append(n.attr)
      n = n.value
    if isinstance(n, ast.Name):
      parts.append(n.id)
      return '.'.join(reversed(parts))
    return None

  def _function(self, fn, chain, cls):
    qual = '.'.join([c[0] for c in chain] + [fn.name])
    locs = _local_names(fn)
    params = {a.arg for a in fn.args.posonlyargs + fn.args.args + fn.args.kwonlyargs}
    if fn.args.vararg:
      params.add(fn.args.vararg.arg)
    if fn.args.kwarg:
      params.add(fn.args.kwarg.arg)
    # locals of enclosing functions that outlive the enclosing call: only functions that hand a nested function /
    # lambda out (factories) keep their locals alive; a helper nested in a plain function shares locals that die with the call
    enclosing_locals = set()
    for c in chain:
      if c[1] is not None and (c[2] is None or _exports_closures(c[2])):
        enclosing_locals |= c[1]
    # decorators
    for d in fn.decorator_list:
      name = self._dotted(d.func if isinstance(d, ast.Call) else d) or ''
      if name.split('.')[-1] in MEMO_DECORATORS:
        self.found.append(('memo-decorator', qual, d, name))
    # one-level aliases of captured objects: x = captured
    alias = {}
    own_nodes = []

    def collect(stmts):
      for s in stmts:
        if isinstance(s, (ast.FunctionDef, ast.AsyncFunctionDef, ast.ClassDef)):
          continue
        own_nodes.append(s)
        for fld in ('body', 'orelse', 'finalbody'):
          sub = getattr(s, fld, None)
          if isinstance(sub, list) and sub and isinstance(sub[0], ast.stmt):
            collect(sub)
        for h in getattr(s, 'handlers', []) or []:
          collect(h.body)
    collect(fn.body)

    def origin(name, depth=0):
      """'local' | 'param' | 'captured' | 'module' | 'unknown'"""
      if name in params:
        return 'param'
      if name in locs:
        # one-level alias: x = <bare name> makes x share that object
        if depth < 2:
          for st_ in own_nodes:
            if isinstance(st_, ast.Assign) and isinstance(st_.value, ast.Name) and \
                any(isinstance(t_, ast.Name) and t_.id == name for t_ in st_.targets) and st_.value.id != name:
              o_ = origin(st_.value.id, depth + 1)
              if o_ in ('param', 'captured', 'module'):
                return o_
        return 'local'
      if name in enclosing_locals:
        return 'captured'
      if name in self.module_names:
        return 'module'
      return 'unknown'

    def walk_own(node):
      """ast.walk that does not enter nested function / class definitions (lambdas are entered)."""
      stack = [node]
      while stack:
        n = stack.pop()
        yield n
        for c in ast.iter_child_nodes(n):
          if isinstance(c, (ast.FunctionDef, ast.AsyncFunctionDef, ast.ClassDef)):
            continue
          stack.append(c)

    for s in own_nodes:
      if isinstance(s, ast.Nonlocal):
        self.found.append(('nonlocal', qual, s, ', '.join(s.names)))
      if isinstance(s, ast.Global):
        self.found.append(('global', qual, s, ', '.join(s.names)))
      targets = []
      if isinstance(s, ast.Assign):
        targets = s.targets
      elif isinstance(s, (ast.AugAssign, ast.AnnAssign)):
        targets = [s.target]
      for t in targets:
        for tt in (t.elts if isinstance(t, (ast.Tuple, ast.List)) else [t]):
          if isinstance(tt, ast.Attribute):
            base = tt.value
            while isinstance(base, (ast.Attribute, ast.Subscript)):
              base = base.value
            if isinstance(base, ast.Name):
              if base.id == 'self' and fn.name == '__init__':
                continue
              o = origin(base.id)
              if o == 'local':
                continue     # attribute of an object created in this call (e.g. a deepcopy)
              self.found.append(('attr-store', qual, s, f'{ast.unparse(tt)} ({o})'))
          elif isinstance(tt, ast.Subscript):
            base = tt.value
            while isinstance(base, (ast.Attribute, ast.Subscript)):
              base = base.value
            if isinstance(base, ast.Name):
              o = origin(base.id)
              if o in ('captured', 'module'):
                self.found.append(('store-captured', qual, s, f'{ast.unparse(tt)} ({o})'))
              elif o == 'param':
                self.found.append(('store-param', qual, s, f'{ast.unparse(tt)}'))
      # only the expression parts of this statement (nested statement bodies are own_nodes of their own)
      exprs = [c for c in ast.iter_child_nodes(s) if isinstance(c, ast.expr)]
      if isinstance(s, (ast.With, ast.AsyncWith)):
        exprs = [it.context_expr for it in s.items]
      for ex in exprs:
        for n in walk_own(ex):
          if isinstance(n, ast.Call):
            name = self._dotted(n.func) or ''
            head = name.split('.')[0]
            full = name
            if head in self.imports:
              full = self.imports[head] + name[len(head):]
            # RNG
            if '.random.' in '.' + full + '.' and (full.startswith('numpy.') or full.startswith('random.') or full.startswith('numpy.random')) or full.startswith('random.'):
              last = full.split('.')[-1]
              seeded = last in RNG_OK_CONSTRUCTORS and n.args and all(isinstance(a, ast.Constant) for a in n.args)
              if last in RNG_OK_CONSTRUCTORS and not seeded:
                self.found.append(('unseeded-rng', qual, n, full))
              elif last not in RNG_OK_CONSTRUCTORS:
                # method on a constructed generator is fine: np.random.RandomState(1).uniform -> func is Attribute(Call)
                self.found.append(('global-rng', qual, n, full))
            if isinstance(n.func, ast.Attribute) and isinstance(n.func.value, ast.Name) and n.func.value.id in self.rng_names and \
                origin(n.func.value.id) in ('module', 'captured'):
              self.found.append(('global-rng', qual, n, f'{n.func.value.id}.{n.func.attr} (generator shared across calls)'))
            if full in CLOCK_CALLS or name in CLOCK_CALLS:
              self.found.append(('clock', qual, n, full))
            # mutating method as a statement
            if isinstance(n.func, ast.Attribute) and n.func.attr in MUTATORS and isinstance(s, ast.Expr) and s.value is n:
              base = n.func.value
              while isinstance(base, (ast.Attribute, ast.Subscript)):
                base = base.value
              if isinstance(base, ast.Name):
                if base.id == 'self' and fn.name == '__init__':
                  continue
                o = origin(base.id)
                if o in ('captured', 'module'):
                  self.found.append(('mutate-captured', qual, n, f'{ast.unparse(n.func)} ({o})'))
                elif o == 'param':
                  self.found.append(('mutate-param', qual, n, f'{base.id}.{n.func.attr}'))
          if isinstance(n, ast.Attribute) and self._dotted(n) in ('os.environ',):
            self.found.append(('clock', qual, n, 'os.environ'))
    # nested
    self._funcs(fn.body, chain + [(fn.name, locs, fn)], None)


def run(ctx):
  m = ctx.model
  # fixture first: every effect kind must be recognised
  fx = Effects(ast.parse(FIXTURE), 'fixture').run()
  kinds = {k for k, *_ in fx}
  missing = FIXTURE_EFFECTS - kinds
  if missing:
    raise AnalysisError(f'C14.R1 positive fixture not matched for {sorted(missing)} (effect scanner broken)')
  ctx.ob('C14.R1', '<fixture>', 'positive fixture matched', True, '', '', sample=f'fixture effects recognised: {sorted(kinds)}')
  nfun = 0
  for mod in SCOPE:
    if mod not in m.modules:
      raise AnalysisError(f'anchor module missing: {mod}')
    mi = m.modules[mod]
    eff = Effects(mi.tree, mod)
    found = eff.run()
    by_fn = {}
    for k, q, node, detail in found:
      by_fn.setdefault(q, []).append((k, node, detail))
    for short, fi in sorted(mi.functions.items()):
      nfun += 1
      ctx.analysed(fi)
      bad = []
      for k, node, detail in by_fn.get(short, []):
        if k == 'mutate-param':
          pname = detail.split('.')[0]
          if (short, pname) in FRESH_LIST_PARAMS:
            continue
          # parameter mutated: allowed only for the table above
          bad.append((k, node, detail))
        else:
          bad.append((k, node, detail))
      if bad:
        for k, node, detail in bad:
          ctx.ob('C14.R1', short, f'{k}: {detail}'[:120], False,
                 _msg(k, detail), ctx.loc(fi, node))
      else:
        ctx.ob('C14.R1', short, 'pure', True, '', '', sample=None, trivial=True)
  ctx.need('C14.R1', nfun, 150, 'functions scanned for effects')
  ctx.samples.append(dict(rule='C14.R1', site='optimizer modules', construct=f'{nfun} functions', verdict='ok',
                          detail='no global/nonlocal, no captured-object mutation, no global RNG, no clock, no memoisation'))
  ctx.exclusions.append(EXCLUDED)
  for (fn, p), why in FRESH_LIST_PARAMS.items():
    ctx.notes.append(f'allowed parameter mutation {fn}({p}): {why}')
  fresh_list_callers(ctx)
  inplace_on_state(ctx)
  state_is_data(ctx)
  # R3 / R2 static-field constancy / R4
  from . import C07, C04, C12
  C07.ds_layout(ctx)
  C07.other_layouts(ctx)
  C07.sketchy_buffer_widths(ctx)
  C07.sketchy_update_shapes(ctx)    # leaf shapes of the Sketchy state are those a fresh init declares
  C07.sharded_triple(ctx)      # static fields (sizes, index_start) and declared layout of the sharded restore template
  C07.sharded_record_conversion(ctx)
  C07.sharded_update_layout(ctx)   # the sharded update hands back the records (and array sizes) the restore template has
  C12.run(ctx)                 # SM3 accumulators keep their init shape (plain max over the complementary axes)
  C04.counters(ctx)
  init_counters(ctx)


def _msg(k, detail):
  return {
      'nonlocal': f'`nonlocal {detail}`: a Python-side variable of the factory is updated by init/update - it is not part of the state pytree and is lost on restore',
      'global': f'`global {detail}`: module-level state is updated by init/update',
      'mutate-captured': f'`{detail}` mutates an object captured from the enclosing scope / module: hidden state outside the pytree',
      'store-captured': f'`{detail}` stores into an object captured from the enclosing scope / module: hidden state outside the pytree',
      'store-param': f'`{detail}` stores into a parameter (caller-visible mutation)',
      'mutate-param': f'`{detail}` mutates a parameter that callers may share',
      'attr-store': f'`{detail}`: attribute store outside a constructor',
      'global-rng': f'`{detail}` draws from the process-global RNG: a resumed run sees a different stream',
      'unseeded-rng': f'`{detail}` builds a generator without a constant seed',
      'clock': f'`{detail}` reads wall-clock / environment state',
      'memo-decorator': f'`@{detail}` memoises results across calls: state that is not in the pytree',
  }.get(k, detail)


def fresh_list_callers(ctx):
  """Every use of the functions in FRESH_LIST_PARAMS sits in `_compute_preconditioners`, and the value bound to
  the mutated parameter at each call is a list built in that very invocation (value graph: a list term, not a
  parameter, state field, captured or module-level object)."""
  from ..lib import evaluator, Decider, econd_summary, show
  from . import ds_common as D
  m = ctx.model
  mi = m.modules['precondition.distributed_shampoo']
  fc = m.func('distributed_shampoo', 'distributed_shampoo._compute_preconditioners')
  names = {k[0].split('.')[-1] for k in FRESH_LIST_PARAMS}
  uses = [node for node in ast.walk(mi.tree) if isinstance(node, ast.Name) and node.id in names and isinstance(node.ctx, ast.Load)]
  for node in uses:
    inside = fc.node.lineno <= node.lineno <= fc.node.end_lineno
    ctx.ob('C14.R1', fc.short, f'{node.id} used only by _compute_preconditioners', inside,
           f'{node.id} extends its `exponents` argument in place; it may only be called from _compute_preconditioners, which builds that list per call',
           ctx.loc(fc, node) if inside else f'precondition/distributed_shampoo.py:{node.lineno}', sample=None, trivial=True)
  ctx.need('C14.R1', len({u.id for u in uses}), 3, 'uses of the list-mutating refresh functions')
  ev = evaluator(m, opaque=D.OPAQUE | names | {'preconditioner_from_params'}, decide=Decider(), summaries={'efficient_cond': econd_summary})
  ev.run(fc)
  calls = [c for c in ev.calls if c.callee.split('.')[-1] in names and c.caller.startswith(fc.fq)]
  ctx.need('C14.R1', len({c.callee for c in calls}), 3, 'calls of the list-mutating refresh functions')
  for c in calls:
    short = c.callee.split('.')[-1]
    for (fn, pname) in FRESH_LIST_PARAMS:
      if fn.split('.')[-1] != short:
        continue
      a = c.args.get(pname)
      ok = a is not None and a.op == 'list'
      ctx.ob('C14.R1', fc.short, f'fresh list passed to {short}', ok,
             f'{short} extends its `{pname}` argument in place; every caller must pass a list it created itself (not state, not a captured object); got {show(a, maxdepth=2)[:80] if a is not None else None}',
             ctx.loc(fc, c.node) if c.node is not None else ctx.loc(fc), sample=f'{pname} = [] built in the caller')


STATE_CLASSES = [
    ('distributed_shampoo', ['ShampooState', 'ParameterStats', 'GlobalShardedParameterStats', 'LocalShardedParameterStats', 'ShardedShampooStats',
                             'TrainingMetrics', 'InversePthRootDiagnostics', 'LOBPCGDiagnostics', 'FDDiagnostics']),
    ('quantization_utils', ['QuantizedValue']),
    ('sm3', ['SM3State', 'ParameterStats']),
    ('tearfree.shampoo', ['_ShampooState', '_AxesBlocks']),
    ('tearfree.sketchy', ['_SketchyState', '_TensorState', '_AxisState']),
    ('tearfree.grafting', ['GraftingState', 'RMSPropAccumulator', '_GraftMask']),
]


def _state_class_closure(m):
  """STATE_CLASSES plus every class of the package that one of them names in a field annotation (transitively): a record
  nested in a state field is part of the state"""
  out, work = [], [(mod, nm) for mod, names in STATE_CLASSES for nm in names]
  seen = set(work)
  while work:
    mod, nm = work.pop(0)
    ci = m.cls(mod, nm)
    out.append((mod, nm))
    mi = ci.module
    for _, _, ann in ci.fields:
      if ann is None:
        continue
      for n in ast.walk(ann if isinstance(ann, ast.AST) else ast.parse(str(ann), mode='eval')):
        name = n.id if isinstance(n, ast.Name) else (n.value if isinstance(n, ast.Constant) and isinstance(n.value, str) else None)
        if name and name in mi.classes and not mi.classes[name].is_enum and (mod, name) not in seen:
          seen.add((mod, name))
          work.append((mod, name))
  return out


def state_is_data(ctx):
  m = ctx.model
  for mod, nm in _state_class_closure(m):
    if True:
      ci = m.cls(mod, nm)
      ok = ci.is_namedtuple or any('struct.dataclass' in d for d in ci.decorators)
      methods = [k for k in ci.methods if not k.startswith('__')]
      has_state_methods = any(k in ('__setattr__', '__getstate__', '__setstate__') for k in ci.methods)
      ctx.ob('C14.R2', ci.fq.split('.', 1)[1], 'pytree record', ok and not has_state_methods,
             f'state container `{nm}` must be a NamedTuple or flax struct.dataclass (pure data, registered pytree); bases {ci.bases} decorators {ci.decorators}',
             f'{os.path.relpath(ci.module.path, m.repo)}:{ci.node.lineno}', sample=f'{nm}: {"NamedTuple" if ci.is_namedtuple else "struct.dataclass"}', trivial=True)
      for fname, default, ann in ci.fields:
        if default is not None and isinstance(default, (ast.List, ast.Dict, ast.Set)):
          ctx.ob('C14.R2', ci.fq.split('.', 1)[1], f'mutable class-level default `{fname}`', False,
                 'a mutable default shared between instances is state outside the pytree', f'{os.path.relpath(ci.module.path, m.repo)}:{ci.node.lineno}')


INPLACE_FIXTURE = '''
def bad_alias(axis_state):
  v = axis_state.eigvecs
  v *= 2
  return v
def bad_loop(state):
  for s, t in zip(state.stats, state.roots):
    s += t
def bad_direct(state):
  state.stats[0] *= 2
def _scale(old, k):
  old *= k
  return old
def bad_call(block):
  for axis, cov in enumerate(block.stats):
    _scale(cov, 2)
def fine(axis_state):
  v = axis_state.eigvecs
  v = v * 2
  v *= 3
  n = axis_state.eigvecs.shape
  n += (1,)
  return v, n
'''
_NON_ARRAY_ATTRS = {'shape', 'dtype', 'ndim', 'size', 'itemsize', 'nbytes'}


def _pure_chain(e):
  """(root name, attribute names) of a Name / Attribute / Subscript chain; None for anything that builds a new value"""
  attrs = []
  while isinstance(e, (ast.Attribute, ast.Subscript)):
    if isinstance(e, ast.Attribute):
      attrs.append(e.attr)
    e = e.value
  return (e.id, attrs) if isinstance(e, ast.Name) else None


def inplace_params(fn):
  """parameters of `fn` that are updated by an augmented assignment while they still are the caller's object"""
  params = [a.arg for a in fn.args.posonlyargs + fn.args.args + fn.args.kwonlyargs]
  live = {p_: True for p_ in params}
  out = set()

  def visit(stmts):
    for st in stmts:
      if isinstance(st, (ast.FunctionDef, ast.AsyncFunctionDef, ast.ClassDef)):
        continue
      if isinstance(st, ast.AugAssign) and isinstance(st.target, ast.Name):
        if live.get(st.target.id) and not isinstance(st.value, (ast.Tuple, ast.List)):
          out.add(st.target.id)
        live[st.target.id] = False
      elif isinstance(st, (ast.Assign, ast.AnnAssign)):
        for t in (st.targets if isinstance(st, ast.Assign) else [st.target]):
          for n in ast.walk(t):
            if isinstance(n, ast.Name):
              live[n.id] = False
      elif isinstance(st, (ast.For, ast.AsyncFor)):
        for n in ast.walk(st.target):
          if isinstance(n, ast.Name):
            live[n.id] = False
      for fld in ('body', 'orelse', 'finalbody'):
        sub = getattr(st, fld, None)
        if isinstance(sub, list) and sub and isinstance(sub[0], ast.stmt):
          visit(sub)
      for h in getattr(st, 'handlers', []) or []:
        visit(h.body)
  visit(fn.body)
  return [(i, p_) for i, p_ in enumerate(params) if p_ in out]


def inplace_sites(fn, state_fields, callees=None):
  """AugAssign statements of function `fn` whose target is (an alias of) a value read out of a state record: a Name bound
  - by plain assignment, tuple unpacking or a for loop (also through zip / enumerate) - to a Name/Attribute/Subscript chain
  that goes through a state field, and not re-bound to a computed value since.  Statement order within the function."""
  out = []
  alias = {}

  def is_state_expr(e):
    ch = _pure_chain(e)
    if ch is None:
      return False
    root, attrs = ch
    if attrs and attrs[0] in _NON_ARRAY_ATTRS:      # outermost attribute: x.shape etc. are immutable values
      return False
    return any(a in state_fields for a in attrs) or alias.get(root, False)

  def bind(target, is_state):
    for n in ast.walk(target):
      if isinstance(n, ast.Name):
        alias[n.id] = is_state

  def iter_state(it):
    if isinstance(it, ast.Call) and isinstance(it.func, ast.Name) and it.func.id in ('zip', 'enumerate', 'reversed', 'list', 'tuple'):
      return any(iter_state(a) for a in it.args)
    return is_state_expr(it)

  def calls_of(st):
    """calls in the statement's own expressions (bodies of compound statements are visited on their own)"""
    exprs = []
    for fld, val in ast.iter_fields(st):
      if fld in ('body', 'orelse', 'finalbody', 'handlers'):
        continue
      vals = val if isinstance(val, list) else [val]
      exprs += [v_ for v_ in vals if isinstance(v_, ast.AST)]
    for e in exprs:
      for n in ast.walk(e):
        if isinstance(n, ast.Call) and isinstance(n.func, ast.Name):
          yield n

  def visit(stmts):
    for st in stmts:
      if isinstance(st, (ast.FunctionDef, ast.AsyncFunctionDef, ast.ClassDef)):
        continue
      if isinstance(st, (ast.For, ast.AsyncFor)):
        pass          # the header is looked at after the target is bound? no: the iterable is evaluated first
      for c in (calls_of(st) if callees else ()):
        for i, pname in callees.get(c.func.id, ()):
          arg = c.args[i] if i < len(c.args) and not any(isinstance(a_, ast.Starred) for a_ in c.args[:i + 1]) else \
              next((kw.value for kw in c.keywords if kw.arg == pname), None)
          if arg is not None and is_state_expr(arg):
            out.append((st, f'`{ast.unparse(c)}`: `{c.func.id}` updates its parameter `{pname}` in place, and the argument `{ast.unparse(arg)}` is a value read from the state record'))
      if isinstance(st, ast.Assign):
        v = is_state_expr(st.value) or (isinstance(st.value, (ast.Tuple, ast.List)) and False)
        for t in st.targets:
          if isinstance(t, (ast.Name, ast.Tuple, ast.List)):
            bind(t, v)
      elif isinstance(st, ast.AnnAssign) and st.value is not None and isinstance(st.target, ast.Name):
        bind(st.target, is_state_expr(st.value))
      elif isinstance(st, ast.AugAssign):
        t = st.target
        if isinstance(st.value, (ast.Tuple, ast.List)):
          pass        # `xs += (a,)`: sequence concatenation, the sequence is re-bound (tuple) or is the caller's business (C14.R1 mutate-param)
        elif isinstance(t, ast.Name):
          if alias.get(t.id, False):
            out.append((st, f'`{ast.unparse(st)}`: `{t.id}` still is the value read from the state record'))
          alias[t.id] = False
        elif is_state_expr(t):
          out.append((st, f'`{ast.unparse(st)}` updates a state field in place'))
      elif isinstance(st, (ast.For, ast.AsyncFor)):
        bind(st.target, iter_state(st.iter))
        visit(st.body)
        visit(st.orelse)
        continue
      for fld in ('body', 'orelse', 'finalbody'):
        sub = getattr(st, fld, None)
        if isinstance(sub, list) and sub and isinstance(sub[0], ast.stmt):
          visit(sub)
      for h in getattr(st, 'handlers', []) or []:
        visit(h.body)
  visit(fn.body)
  return out


def inplace_on_state(ctx):
  """R1b: no augmented assignment (`x *= ..`, `x += ..`) on a value that still IS a leaf read from a state record.  For a
  jax array `x *= y` rebinds a new array; for a numpy array - what flax.serialization.from_bytes puts into a restored
  state - it multiplies in place: the caller's state changes under its feet, or, for the read-only buffers of a restore,
  the first eager update raises.  (found F22.)"""
  m = ctx.model
  fx = ast.parse(INPLACE_FIXTURE)
  fx_callees = {f.name: inplace_params(f) for f in fx.body if isinstance(f, ast.FunctionDef) and inplace_params(f)}
  hits = {f.name: len(inplace_sites(f, {'eigvecs', 'stats', 'roots'}, fx_callees)) for f in fx.body if isinstance(f, ast.FunctionDef)}
  if hits != {'bad_alias': 1, 'bad_loop': 1, 'bad_direct': 1, '_scale': 0, 'bad_call': 1, 'fine': 0}:
    raise AnalysisError(f'C14.R1b positive fixture not matched ({hits})')
  fields = set()
  for mod, nm in _state_class_closure(m):
    fields |= {f for f, _, _ in m.cls(mod, nm).fields}
  if len(fields) < 20:
    raise AnalysisError(f'C14.R1b: only {len(fields)} state field names found')
  n = 0
  for mod in SCOPE:
    mi = m.modules[mod]
    # functions of this module (by simple name) that update a parameter in place while it is the caller's object
    callees = {}
    for short, fi in mi.functions.items():
      ip = inplace_params(fi.node)
      if ip:
        callees.setdefault(fi.node.name, []).extend(ip)
    for short, fi in sorted(mi.functions.items()):
      n += 1
      sites = inplace_sites(fi.node, fields, callees)
      for st, why in sites:
        ctx.ob('C14.R1', short, f'in-place update of a state leaf: {norm_src(st)}', False,
               f'{why}; with numpy leaves (a state restored by flax.serialization) this modifies the caller\'s state in place or raises "output array is read-only" - write `x = x * ...`',
               ctx.loc(fi, st))
      if not sites:
        ctx.ob('C14.R1', short, 'no in-place update of state leaves', True, '', '', sample=None, trivial=True)
  ctx.need('C14.R1', n, 150, 'functions scanned for in-place updates of state leaves')
  ctx.samples.append(dict(rule='C14.R1', site='optimizer modules', construct=f'{n} functions, {len(fields)} state field names', verdict='ok',
                          detail='no augmented assignment on a value aliased from a state record'))


def init_counters(ctx):
  """R4: every init creates count = zeros([], int32)."""
  m = ctx.model
  from ..lib import evaluator, is_ext_call, kwarg
  from ..terms import is_const
  sites = [('distributed_shampoo', 'distributed_shampoo.init_fn', 'ShampooState'), ('distributed_shampoo', 'distributed_shampoo.sharded_init_fn', 'ShampooState'),
           ('sm3', 'sm3.init_fn', 'SM3State'), ('tearfree.shampoo', '_init', '_ShampooState'), ('tearfree.sketchy', '_init', '_SketchyState'),
           ('tearfree.grafting', '_graft_with.init_fn', 'GraftingState')]
  for mod, q, cls in sites:
    fi = m.func(mod, q)
    ev = evaluator(m, opaque={'_init', '_tensor_state', 'make_blocks', '_mask_skipped', 'preconditioner_from_params', '_skip_preconditioning',
                              'shapes_for_preconditioners', 'precond_dim', '_quantize_momentum', '_quantize_diagonal_statistics',
                              'init_avg_grad', 'init_training_metrics', 'exponent_for_preconditioner'})
    ev.run(fi)
    cons = [c for c in ev.calls if c.via == 'construct' and c.callee.endswith('.' + cls) and c.caller == fi.fq]
    if not cons:
      raise AnalysisError(f'{q}: {cls} constructor not found at init')
    for c in cons:
      cnt = c.args.get('count')
      ok = cnt is not None and is_ext_call(cnt, 'jax.numpy.zeros') and len(cnt.args[1]) == 1 and cnt.args[1][0].op in ('list', 'tuple') and not cnt.args[1][0].args \
          and kwarg(cnt, 'dtype') is not None and kwarg(cnt, 'dtype').op == 'ext' and kwarg(cnt, 'dtype').args[0] == 'jax.numpy.int32'
      ctx.ob('C14.R4', fi.short, f'{cls}.count = zeros([], int32)', ok, 'the step counter must start as an int32 scalar zero', ctx.loc(fi), sample='count = jnp.zeros([], jnp.int32)')
