"""C01 - inverse p-th root routines: structural clauses decided statically.

Decided here (necessary conditions of C01, visible in the code's shape):
  R1  every path of the root routines binds every name it later reads (definite
      assignment; the size-1 branch included);
  N*  the coupled Newton iteration is the documented one (Higham eq. 7.18 as the
      docstring cites): alpha = -1/p, M_i = (1-alpha) I + alpha M, M' = M_i^p M,
      H' = H M_i, error = max|M' - I|, start z = (1+p)/(2 ||A_damped||), the
      stopping test, the retry loop damping ridge * 10^i, the convergence select,
      the 1x1 closed form, ridge = ridge_epsilon * max(max_ev, floor);
  MP  mat_power is binary exponentiation;
  PI  power_iteration returns a Rayleigh quotient of a normalised iterate of the
      (masked) matrix, start vector masked by padding_start;
  E*  eigh routine: inv_e = where(e == 0, 0, max(e, ridge)^alpha), X = (u sqrt(inv_e))(u sqrt(inv_e))^T,
      error = max|u^T A u - diag(e)| (masked);
  R2  the reported error and the returned matrix derive from the same iterate;
  R4  the four sibling routines agree on mask prologue / all-padding epilogue / cast back.
Not decided: numerical accuracy, residual bound, finiteness, symmetry (floating point).
"""
from __future__ import annotations

from ..da import analyse as da_analyse
from ..lib import (evaluator, ext_name, is_ext_call, strip_casts, find, find_ext_calls,
                   dep_names, method_name, fn_name, select_arms, rec_fields, kwarg)
from ..spec import spec_term, closure_values, abstract, Comparer
from ..terms import T, sym, tup, const, is_const, cval, walk, show, NONE, subst
from ..model import AnalysisError

MOD = 'distributed_shampoo'
ROOT_FUNCS = ['matrix_inverse_pth_root', 'matrix_inverse_pth_root_eigh', '_low_rank_root',
              '_fd_update_root', 'power_iteration', 'mat_power', '_pth_root_difference',
              'InversePthRootDiagnostics.create', 'LOBPCGDiagnostics.create']

ASSUMPTIONS = [
    'jax.numpy / jax.lax primitives are uninterpreted functions with their documented meaning',
    'dtype casts (astype / asarray) do not change values',
    'numerical accuracy of the iteration is not decided (floating point)',
]


def _decider(**facts):
  """facts: padding (bool: padding_start is not None), size1, rel, lobpcg, eigh"""
  def decide(c):
    s = show(c, maxdepth=8)
    if c.op == 'cmp':
      o, a, b = c.args
      if o in ('is not', 'is') and is_const(b, None) and a.op == 'sym' and a.args[-1] == 'padding_start':
        if 'padding' in facts:
          return facts['padding'] if o == 'is not' else not facts['padding']
      if o in ('is not', 'is') and is_const(b, None) and a.op in ('sub', 'call', 'bin'):
        return o == 'is not'
      if o == '==' and is_const(b, 1) and 'shape' in s and 'size1' in facts:
        return facts['size1']
      if o == '>' and a.op == 'sym' and a.args[-1] == 'lobpcg_topk_precondition' and 'lobpcg' in facts:
        return facts['lobpcg']
      if o == '<' and a.op == 'sym' and a.args[-1] == 'compression_rank' and 'negrank' in facts:
        return facts['negrank']
    if c.op == 'sym' and c.args[-1] == 'relative_matrix_epsilon' and 'rel' in facts:
      return facts['rel']
    if c.op == 'sym' and c.args[-1] == 'eigh' and 'eigh' in facts:
      return facts['eigh']
    if c.op == 'sym' and c.args[-1] in ('generate_training_metrics', 'generate_fd_metrics') and 'metrics' in facts:
      return facts['metrics']
    return None
  from ..lib import Decider
  return Decider(extra=decide)       # the Decider also tries the mirrored / negated spelling of every comparison


def run(ctx):
  m = ctx.model
  # ---------------------------------------------------------------- R1
  n = 0
  for q in ROOT_FUNCS:
    fi = m.func(MOD, q)
    group = [fi] + [f for f in m.functions.values() if f.fq.startswith(fi.fq + '.')]
    for f in group:
      ctx.analysed(f)
      reps = da_analyse(f)
      n += 1
      names = sorted({r.name for r in reps})
      ctx.ob('C01.R1', f.short, 'definite-assignment', not reps,
             f'name(s) {names} may be unbound when read (lines {[r.node.lineno for r in reps]})',
             ctx.loc(f, reps[0].node if reps else None),
             sample=f'all local reads dominated by a binding on every path')
      for r in reps[1:]:
        pass
  ctx.need('C01.R1', n, 12, 'root-routine functions')

  newton(ctx)
  regularised_input(ctx)
  lobpcg_path(ctx)
  diagnostics(ctx)
  mat_power(ctx)
  power_iter(ctx)
  eigh_routine(ctx)
  provenance(ctx)
  size1_error_honest(ctx)
  siblings(ctx)
  forwarding(ctx)



def _is_epilogue(sa):
  """sa = select_arms(t): the all-padding epilogue is exactly `where(padding_start == 0, 0, X)` (canonical polarity:
  a `!=` test arrives here as `==` with the arms swapped)"""
  z = strip_casts(sa[2]) if sa is not None else None
  if z is None or not (is_const(z, 0.0, 0) or is_ext_call(z, 'jax.numpy.zeros_like', 'jax.numpy.zeros')):
    return False
  c = strip_casts(sa[1])
  if c.op != 'cmp' or c.args[0] != '==':
    return False
  a, b = strip_casts(c.args[1]), strip_casts(c.args[2])
  is_ps = lambda t: t.op == 'sym' and t.args[-1] == 'padding_start'
  return (is_ps(a) and is_const(b, 0)) or (is_ps(b) and is_const(a, 0))


def _while_loops(m, outer):
  """[(enclosing FuncInfo, cond FuncInfo, body FuncInfo)] for every lax.while_loop(cond, body, init) call inside `outer`
  whose first two arguments name functions nested in `outer` (found by call shape, not by function name)."""
  import ast as _ast
  from ..lib import module_aliases
  al = module_aliases(outer.module.tree)

  def all_children(fi):
    out = {}
    for c in fi.children.values():
      out[c.node.name] = c
      out.update({k: v for k, v in all_children(c).items() if k not in out})
    return out
  kids = all_children(outer)

  def innermost(fi, node):
    for c in fi.children.values():
      if c.node.lineno <= node.lineno <= getattr(c.node, 'end_lineno', c.node.lineno):
        return innermost(c, node)
    return fi
  found = []
  for n in _ast.walk(outer.node):
    if isinstance(n, _ast.Call) and isinstance(n.func, _ast.Attribute) and n.func.attr == 'while_loop' and len(n.args) >= 2:
      root = n.func.value
      while isinstance(root, _ast.Attribute):
        root = root.value
      if not (isinstance(root, _ast.Name) and al.get(root.id, '').split('.')[0] == 'jax'):
        continue
      c_, b_ = n.args[0], n.args[1]
      if isinstance(c_, _ast.Name) and isinstance(b_, _ast.Name) and c_.id in kids and b_.id in kids:
        found.append((innermost(outer, n), kids[c_.id], kids[b_.id]))
  return found


def _free_locals(outer, fi):
  """names read by nested function `fi` that are plain local variables of an enclosing function of `outer`'s family
  (not parameters of `outer`, not module-level names, not nested function names)."""
  import ast as _ast
  params = {a.arg for a in outer.node.args.args + outer.node.args.kwonlyargs}
  own = {a.arg for a in fi.node.args.args + fi.node.args.kwonlyargs}
  assigned = {n.id for n in _ast.walk(fi.node) if isinstance(n, _ast.Name) and isinstance(n.ctx, _ast.Store)}
  loads = []
  for n in _ast.walk(fi.node):
    if isinstance(n, _ast.Name) and isinstance(n.ctx, _ast.Load) and n.id not in loads:
      loads.append(n.id)
  outer_assigned = {n.id for n in _ast.walk(outer.node) if isinstance(n, _ast.Name) and isinstance(n.ctx, _ast.Store)}
  nested = set()

  def rec(f):
    for c in f.children.values():
      nested.add(c.node.name)
      rec(c)
  rec(outer)
  # a parameter of `outer` that is re-bound in its body is a local like any other (e.g. `ridge_epsilon = ridge_epsilon * ...`)
  return [x for x in loads if x in outer_assigned and x not in own and x not in assigned and x not in nested]


def _role_values(ev, outer, fi, roles):
  """Resolve role names to the closure values nested function `fi` reads.  `roles` maps role -> predicate(value term);
  parameters of `outer` are looked up under their own names."""
  from ..spec import closure_values as _cv
  names = _free_locals(outer, fi)
  vals = _cv(ev, fi, names, required=False)
  out, used = {}, set()
  for role, pred in roles.items():
    hits = [n for n, v in vals.items() if n not in used and pred(v)]
    if len(hits) != 1:
      raise AnalysisError(f'{fi.short}: cannot identify the closure value playing the role `{role}` (candidates {hits} among {sorted(vals)})')
    out[role] = vals[hits[0]]
    used.add(hits[0])
  return out


def _has_eye(v):
  """v is the identity matrix, possibly cast and masked (eye(n) * mask ...): the eye call is on its product spine"""
  v = strip_casts(v)
  while v.op == 'ite' and any(a.op in ('unbound', 'unknown') for a in v.args[1:]):
    v = strip_casts([a for a in v.args[1:] if a.op not in ('unbound', 'unknown')][0])
  if is_ext_call(v, 'jax.numpy.eye'):
    return True
  if v.op == 'ite':
    return _has_eye(v.args[1]) and _has_eye(v.args[2])
  if v.op == 'bin' and v.args[0] == '*':
    return _has_eye(v.args[1]) or _has_eye(v.args[2])
  return False


def _is_scaled_ridge(v):
  """v derives from the ridge_epsilon parameter through a max(...) scaling (the ridge d actually used)"""
  return any(x.op == 'sym' and x.args[-1] == 'ridge_epsilon' for x in walk(v)) and any(is_ext_call(x, 'jax.numpy.maximum') for x in walk(v)) and \
      not _has_eye(v)


def _is_float_const(v):
  # the value may be bound on one arm of an undecided branch only (the other arm never reaches the reader)
  while v.op == 'ite' and any(a.op in ('unbound', 'unknown') for a in v.args[1:]):
    v = [a for a in v.args[1:] if a.op not in ('unbound', 'unknown')][0]
  return is_const(v) and isinstance(cval(v), float)

# -------------------------------------------------------------------- Newton
def newton(ctx):
  m = ctx.model
  ev = evaluator(m, opaque={'mat_power', 'power_iteration'})
  cmpr = Comparer()
  outer = m.func(MOD, 'matrix_inverse_pth_root')
  loops = _while_loops(m, outer)
  # the retry loop is the one whose body function encloses the other (Newton) loop; it may itself sit in a helper
  pairs = [(o, i) for o in loops for i in loops if i[0] is o[2]]
  inner, outerl = [p[1] for p in pairs], [p[0] for p in pairs]
  if len(pairs) != 1 or len(loops) != 2:
    raise AnalysisError(f'matrix_inverse_pth_root: expected a retry while_loop whose body runs the Newton while_loop; found {[(a.short, b.short, c.short) for a, b, c in loops]}')
  _, condf, body = inner[0]
  _, ocond, ob = outerl[0]
  ctx.analysed(outer, body, condf)

  st_names = ['i', 'M', 'H', 'oldH', 'err', 'ratio']
  st = tup(*[sym('spec', x) for x in st_names])
  pvals = closure_values(ev, body, ['p', 'precision', 'num_iters', 'error_tolerance'])
  vals = dict(pvals)
  vals.update(_role_values(ev, outer, body, {'identity': _has_eye, 'alpha': lambda v: not _has_eye(v)}))
  vals.update(_role_values(ev, outer, condf, {'max_error_ratio': _is_float_const}))
  env = {x: sym('spec', x) for x in st_names}

  def check(rule, fi, construct, got, spec_src, extra_env=None, what=''):
    g, named = abstract(got, vals)
    e = dict(env)
    e.update(named)
    if extra_env:
      e.update(extra_env)
    exp = spec_term(ev, spec_src, e)
    ok = cmpr.same(g, exp)
    ctx.ob(rule, fi.short, construct, ok,
           f'{what or construct}: derived `{cmpr.fmt(g)}` differs from documented `{cmpr.fmt(exp)}`',
           ctx.loc(fi), sample=f'{construct} == {spec_src.strip()}')
    return ok

  r = ev.run(body, args={'state': st})
  if r.op != 'tuple' or len(r.args) != 6:
    raise AnalysisError('Newton _iter_body does not return a 6-tuple')
  Mi = '((1 - alpha) * identity + alpha * M)'
  newM = f'jnp.matmul(mat_power({Mi}, p), M)'
  mp = {'mat_power': T('fn', m.func(MOD, 'mat_power').fq)}
  check('C01.N1', body, 'iter.count', r.args[0], 'i + 1')
  check('C01.N1', body, 'iter.M', r.args[1], newM, mp, 'new M = M_i^p M')
  check('C01.N1', body, 'iter.H', r.args[2], f'jnp.matmul(H, {Mi})', mp, 'new H = H M_i')
  check('C01.N1', body, 'iter.oldH', r.args[3], 'H')
  check('C01.N1', body, 'iter.error', r.args[4], f'jnp.max(jnp.abs({newM} - identity))', mp,
        'error = max|M - I| of the NEW iterate')
  check('C01.N1', body, 'iter.ratio', r.args[5], f'jnp.max(jnp.abs({newM} - identity)) / err', mp)

  rc = ev.run(condf, args={'state': st})
  check('C01.N2', condf, 'iter.condition', rc,
        'jnp.logical_and(i < num_iters, jnp.logical_and(err > error_tolerance, ratio < max_error_ratio))')

  # alpha = -1/p
  a = strip_casts(vals['alpha'])
  exp = spec_term(ev, '-1.0 / p', {'p': vals['p']})
  ctx.ob('C01.N4', outer.short, 'alpha', cmpr.same(a, exp),
         f'alpha is `{cmpr.fmt(a)}`, documented -1/p', ctx.loc(outer), sample='alpha == -1/p')
  mer = vals['max_error_ratio']
  ctx.ob('C01.N2', outer.short, 'max_error_ratio>1', is_const(mer) and cval(mer) > 1.0 and cval(mer) <= 2.0,
         f'max_error_ratio = {show(mer)} must allow only a bounded increase (1 < r <= 2)', ctx.loc(outer),
         sample=f'max_error_ratio = {show(mer)}')

  # outer retry body
  ctx.analysed(ob)
  ev2 = evaluator(m, opaque={'mat_power', 'power_iteration'})
  vals2 = closure_values(ev2, ob, ['p', 'matrix'])
  mer_v = vals['max_error_ratio']
  vals2.update(_role_values(ev2, outer, ob, {'identity': _has_eye, 'max_error_ratio': lambda v: v is mer_v,
                                             'retry_loop_error_threshold': lambda v: _is_float_const(v) and v is not mer_v,
                                             'ridge_epsilon': _is_scaled_ridge}))
  ost = tup(*[sym('spec', x) for x in ['oi', 'o1', 'o2', 'o3', 'o4', 'o5']])
  r = ev2.run(ob, args={'state': ost})
  if r.op != 'tuple' or len(r.args) != 6:
    raise AnalysisError('Newton _outer_body_fn does not return a 6-tuple')
  wl = [x for x in walk(r) if x.op == 'while']
  ctx.need('C01.N3', len(wl), 1, 'inner while_loop in the retry body')
  w = wl[0]
  init = w.args[1]
  g_init, named = abstract(init, vals2)
  e2 = dict(named)
  e2['oi'] = sym('spec', 'oi')
  damped = '(matrix + ridge_epsilon * 10 ** oi * identity)'
  z = f'((1 + p) / (2 * jnp.linalg.norm({damped})))'
  M0 = f'({damped} * {z})'
  H0 = f'(identity * jnp.power({z}, 1.0 / p))'
  exp_init = spec_term(ev2, f'(0, {M0}, {H0}, {H0}, jnp.max(jnp.abs({M0} - identity)), 1.0)', e2)
  if g_init.op == 'call' and g_init.args[0].op == 'builtin' and g_init.args[0].args[0] == 'tuple':
    g_init = g_init.args[1][0]
  if g_init.op == 'list':
    g_init = T('tuple', *g_init.args)
  names = ['i0', 'M0', 'H0', 'oldH0', 'err0', 'ratio0']
  if g_init.op != 'tuple' or len(g_init.args) != 6:
    raise AnalysisError('Newton inner loop initial state is not a 6-tuple')
  for nm, g, e in zip(names, g_init.args, exp_init.args):
    ctx.ob('C01.N3', ob.short, 'init.' + nm, cmpr.same(g, e),
           f'initial {nm}: derived `{cmpr.fmt(g)}` differs from documented `{cmpr.fmt(e)}`', ctx.loc(ob),
           sample=f'{nm} per Higham 7.18 start (z = (1+p)/(2||A||))')
  # results
  g = abstract(r, vals2)[0]
  wl2 = [x for x in walk(g) if x.op == 'while']
  w2 = [x for x in wl2 if not any(x is not o and x in set(walk(o)) for o in wl2)][0]
  wsub = lambda i: T('sub', w2, const(i))
  e3 = dict(named)
  e3.update(oi=sym('spec', 'oi'), mat_m=wsub(1), mat_h=wsub(2), old_mat_h=wsub(3), ratio=wsub(5), iters=wsub(0))
  exp = spec_term(ev2, '''(oi + 1,
      jnp.asarray(ratio < max_error_ratio, old_mat_h.dtype) * mat_h + (1 - jnp.asarray(ratio < max_error_ratio, old_mat_h.dtype)) * old_mat_h,
      jnp.max(jnp.abs(mat_m - identity)), iters, ratio,
      jnp.max(jnp.abs(mat_m - identity)) > retry_loop_error_threshold)''', e3)
  for nm, gg, ee in zip(['next_i', 'resultant', 'error', 'iters', 'ratio', 'retry'], g.args, exp.args):
    ctx.ob('C01.N3', ob.short, 'outer.' + nm, cmpr.same(gg, ee),
           f'retry body {nm}: derived `{cmpr.fmt(gg)}` differs from documented `{cmpr.fmt(ee)}`', ctx.loc(ob),
           sample=f'outer.{nm}')

  # whole function, size-1 branch and ridge scaling
  for rel in (True, False):
    for pad in (True, False):
      evw = evaluator(m, opaque={'mat_power', 'power_iteration'},
                      decide=_decider(padding=pad, size1=True, rel=rel, lobpcg=False, eigh=False))
      rw = evw.run(outer)
      ctx.evaluations += 1
      if rw.op != 'tuple' or len(rw.args) != 2:
        raise AnalysisError('matrix_inverse_pth_root does not return (matrix, metrics)')
      x = strip_casts(rw.args[0])
      sa = select_arms(x)
      if pad:
        ok = _is_epilogue(sa)
        ctx.ob('C01.R4', outer.short, f'epilogue.value[size1,rel={rel}]', ok,
               'all-padding epilogue where(padding_start == 0, 0, X) missing on the returned matrix',
               ctx.loc(outer), sample='where(padding_start == 0, 0, X)')
        x = sa[3] if sa else x
      # closed form (matrix + ridge) ** alpha
      pcalls = [c for c in evw.calls if c.callee.endswith('.power_iteration')]
      P = sym('param', 'matrix_inverse_pth_root', 'p')
      mat_leaf = None
      pw = x
      ok = pw.op == 'bin' and pw.args[0] == '**'
      if ok:
        expo = strip_casts(pw.args[2])
        ok = cmpr.same(expo, spec_term(evw, '-1.0 / p', {'p': P}))
        base = pw.args[1]
        ok = ok and base.op == 'bin' and base.args[0] == '+'
        if ok:
          ridge = base.args[2]
          floor_ok = False
          mx = [c for c in walk(ridge) if is_ext_call(c, 'jax.numpy.maximum')]
          if rel:
            ok = ok and len(pcalls) == 1 and bool(mx)
          else:
            ok = ok and not pcalls and bool(mx) and any(is_const(a, 1.0) for a in mx[0].args[1])
          if ok:
            # the exact formula: ridge_epsilon * max(max_ev, floor), floor a small positive constant
            env_r = {'ridge_epsilon': sym('param', outer.short, 'ridge_epsilon'),
                     'max_ev': evw.subscript(pcalls[0].result, const(1)) if rel else const(1.0)}
            floors = [strip_casts(a_) for c_ in mx for a_ in c_.args[1] if is_const(strip_casts(a_)) and isinstance(cval(strip_casts(a_)), float)
                      and 0.0 < cval(strip_casts(a_)) <= 1e-6]
            ok = any(cmpr.same(ridge, spec_term(evw, 'ridge_epsilon * jnp.maximum(max_ev, floor)', dict(env_r, floor=f_))) for f_ in floors)
      ctx.ob('C01.N4', outer.short, f'size1.closed_form[rel={rel},pad={pad}]', ok,
             f'1x1 branch must return (matrix + ridge_epsilon*max(max_ev, floor)) ** (-1/p); got `{cmpr.fmt(x)}`',
             ctx.loc(outer), sample='X = (a + ridge)^(-1/p) for n = 1')
      if rel:
        for c in pcalls:
          md = dep_names(c.args.get('matrix', NONE))
          pd = c.args.get('padding_start', NONE)
          okp = (pd.op == 'sym' and pd.args[-1] == 'padding_start')
          if pad:
            okp = okp and 'padding_start' in md
          ctx.ob('C01.PI', outer.short, f'power_iteration.args[pad={pad}]', okp,
                 'power iteration must run on the masked matrix with padding_start forwarded',
                 ctx.loc(outer), sample='power_iteration(matrix=masked, padding_start=padding_start)')


def mat_power(ctx):
  m = ctx.model
  fi = m.func(MOD, 'mat_power')
  ctx.analysed(fi)
  ev = evaluator(m)
  cmpr = Comparer()
  r = ev.run(fi)
  sub = r
  ok = sub.op == 'sub' and sub.args[0].op == 'while' and is_const(sub.args[1], 1)
  if not ok:
    ctx.ob('C01.MP', fi.short, 'result', False, f'mat_power must return the accumulated power of the loop state; got {show(r)[:200]}', ctx.loc(fi))
    return
  w = sub.args[0]
  wid = w.args[0]
  st = T('wstate', wid)
  e = {'i': T('sub', st, const(0)), 'power': T('sub', st, const(1)), 'mat': T('sub', st, const(2)),
       'p': sym('param', 'mat_power', 'p'), 'mat_m': sym('param', 'mat_power', 'mat_m')}
  init = w.args[1]
  exp_init = spec_term(ev, '(p, jnp.eye(mat_m.shape[0]), mat_m)', e)
  okinit = init.op == 'tuple' and len(init.args) == 3 and all(cmpr.same(a, b) for a, b in zip(init.args, exp_init.args))
  ctx.ob('C01.MP', fi.short, 'init', okinit, f'initial state must be (p, I, M); got `{cmpr.fmt(init)}`', ctx.loc(fi),
         sample='(p, eye, M)')
  body = w.args[2]
  exp_body = spec_term(ev, '(i // 2, lax.cond(i % 2 == 1, lambda: jnp.matmul(mat, power), lambda: power), jnp.matmul(mat, mat))', e)
  okb = body.op == 'tuple' and len(body.args) == 3 and all(cmpr.same(a, b) for a, b in zip(body.args, exp_body.args))
  ctx.ob('C01.MP', fi.short, 'body', okb,
         f'loop body must be binary exponentiation (i//2, odd ? mat@power : power, mat@mat); got `{cmpr.fmt(body)}`', ctx.loc(fi),
         sample='binary exponentiation step')
  c = w.args[3]
  ctx.ob('C01.MP', fi.short, 'condition', cmpr.same(c, spec_term(ev, 'i > 0', e)),
         f'loop must run while i > 0; got `{cmpr.fmt(c)}`', ctx.loc(fi), sample='while i > 0')


def power_iter(ctx):
  m = ctx.model
  fi = m.func(MOD, 'power_iteration')
  pl = _while_loops(m, fi)
  if len(pl) != 1:
    raise AnalysisError(f'power_iteration: expected one while_loop over nested functions, found {len(pl)}')
  _, condf, body = pl[0]
  ctx.analysed(fi, body, condf)
  cmpr = Comparer()
  for pad in (True, False):
    ev = evaluator(m, decide=_decider(padding=pad))
    # the loop state: however many slots the code carries; roles are found by what each slot is updated to
    rw = ev.run(fi)
    ctx.evaluations += 1
    if rw.op != 'tuple' or len(rw.args) != 2:
      raise AnalysisError('power_iteration does not return (vector, value)')
    w = [x for x in walk(rw) if x.op == 'while']
    ctx.need('C01.PI', len(w), 1, 'while_loop in power_iteration')
    w = w[0]
    init = w.args[1]
    if init.op == 'call':
      init = init.args[1][0]
    if init.op not in ('list', 'tuple') or not 4 <= len(init.args) <= 8:
      raise AnalysisError('power_iteration: the initial loop state is not a tuple of 4..8 slots')
    k = len(init.args)
    vals = closure_values(ev, body, ['matrix', 'error_tolerance', 'num_iters'])
    names = [f'x{j}' for j in range(k)]
    st = tup(*[sym('spec', x) for x in names])
    r = ev.run(body, args={'state': st})
    g, named = abstract(r, vals)
    e = {x: sym('spec', x) for x in names}
    e.update(named)
    if g.op != 'tuple' or len(g.args) != k:
      raise AnalysisError(f'power_iteration._iter_body does not return the {k}-tuple it is started with')

    def slot(src_of):
      return [j for j in range(k) if cmpr.same(g.args[j], spec_term(ev, src_of(j), e))]
    Av_of = lambda v: f'jnp.einsum("ij,j->i", matrix, ({v} / jnp.linalg.norm({v})))'
    ray_of = lambda v: f'jnp.einsum("i,i->", ({v} / jnp.linalg.norm({v})), {Av_of(v)})'
    cnt = slot(lambda j: f'x{j} + 1')
    vs = slot(lambda j: Av_of(f'x{j}'))
    ctx.ob('C01.PI', body.short, f'count[pad={pad}]', len(cnt) == 1, f'exactly one loop slot must count iterations (x + 1); found slots {cnt}', ctx.loc(body),
           sample='count: i + 1')
    # the iterate slot: next value A (v / |v|) of ITSELF (a second slot may carry a copy of the same product)
    v_self = [j for j in vs]
    ctx.ob('C01.PI', body.short, f'next_v[pad={pad}]', len(v_self) >= 1,
           f'one loop slot must be updated to A (v / |v|) of itself; derived `{[cmpr.fmt(a)[:80] for a in g.args]}`', ctx.loc(body), sample='next_v: A v/|v|')
    if not cnt or not v_self:
      continue
    jv = v_self[0]
    copies = [j for j in range(k) if j != jv and cmpr.same(g.args[j], g.args[jv])]
    rs = [j for j in range(k) if cmpr.same(g.args[j], spec_term(ev, ray_of(f'x{jv}'), e))]
    ctx.ob('C01.PI', body.short, f'rayleigh[pad={pad}]', len(rs) == 1,
           f'one loop slot must carry the Rayleigh quotient v^T A v of the normalised iterate; derived `{[cmpr.fmt(a)[:80] for a in g.args]}`', ctx.loc(body),
           sample='rayleigh: Rayleigh quotient of normalised iterate')
    if not rs:
      continue
    js = rs[0]
    fl = [j for j in range(k) if cmpr.same(g.args[j], spec_term(ev, f'jnp.greater(jnp.abs({ray_of(f"x{jv}")} - x{js}), error_tolerance)', e))]
    ctx.ob('C01.PI', body.short, f'run_step[pad={pad}]', len(fl) == 1,
           f'one loop slot must be the keep-going flag |s_new - s| > error_tolerance; derived `{[cmpr.fmt(a)[:80] for a in g.args]}`', ctx.loc(body),
           sample='run_step: |s_new - s| > tol')
    other = [j for j in range(k) if j not in cnt + [jv, js] + fl + copies]
    ctx.ob('C01.PI', body.short, f's_v[pad={pad}]', not other, f'loop slots {other} are none of (count, iterate, copy of the iterate, eigenvalue, flag)', ctx.loc(body),
           sample='s_v: copy of A v/|v| or absent')
    if not fl:
      continue
    rc = ev.run(condf, args={'state': st})
    gc, named = abstract(rc, vals)
    ec = dict(e)
    ec.update(named)
    ctx.ob('C01.PI', condf.short, f'condition[pad={pad}]',
           cmpr.same(gc, spec_term(ev, f'jnp.logical_and(x{cnt[0]} < num_iters, x{fl[0]})', ec)),
           f'loop condition `{cmpr.fmt(gc)}` is not (i < num_iters) and run_step', ctx.loc(condf),
           sample='i < num_iters and run_step')
    # whole function: returns (v/||v||, s_out) from the loop, start vector masked
    v_out, s_out = rw.args
    ok = s_out.op == 'sub' and s_out.args[0] is w and is_const(s_out.args[1], js)
    ctx.ob('C01.PI', fi.short, f'returned_eigenvalue[pad={pad}]', ok,
           f'returned eigenvalue must be the loop-carried Rayleigh quotient (state slot {js}); got `{cmpr.fmt(s_out)}`',
           ctx.loc(fi), sample='s_out = loop_state[s]')
    okv = cmpr.same(v_out, spec_term(ev, 'v / jnp.linalg.norm(v)', {'v': T('sub', w, const(jv))})) or \
        any(cmpr.same(v_out, spec_term(ev, 'v / jnp.linalg.norm(v)', {'v': T('sub', w, const(j))})) for j in copies)
    ctx.ob('C01.PI', fi.short, f'returned_vector[pad={pad}]', okv,
           f'the returned vector must be the normalised loop-carried iterate; got `{cmpr.fmt(v_out)[:160]}`', ctx.loc(fi), sample='v_out / |v_out|')
    v0 = init.args[jv]
    okm = is_const(init.args[cnt[0]], 0) and is_const(init.args[fl[0]], True)
    if okm and pad:
      okm = 'padding_start' in dep_names(v0) and bool([c for c in walk(v0) if c.op == 'cmp' and c.args[0] == '<'])
    if okm:
      rs_ = [c for c in walk(v0) if c.op == 'call' and c.args[0].op == 'attr' and c.args[0].args[1] == 'uniform']
      okm = bool(rs_)
    ctx.ob('C01.PI', fi.short, f'start_vector[pad={pad}]', okm,
           'start vector must be the seeded random vector, zeroed at and after padding_start (count 0, flag True)', ctx.loc(fi),
           sample='v0 = seeded uniform * (arange < padding_start)')


def eigh_routine(ctx):
  m = ctx.model
  fi = m.func(MOD, 'matrix_inverse_pth_root_eigh')
  ctx.analysed(fi)
  cmpr = Comparer()
  for pad in (True, False):
    for rel in (True, False):
      ev = evaluator(m, opaque={'power_iteration'}, decide=_decider(padding=pad, rel=rel))
      r = ev.run(fi)
      ctx.evaluations += 1
      if r.op != 'tuple' or len(r.args) != 2:
        raise AnalysisError('matrix_inverse_pth_root_eigh does not return (matrix, metrics)')
      x = strip_casts(r.args[0])
      met = rec_fields(r.args[1])
      if met is None:
        raise AnalysisError('eigh routine metrics is not a TrainingMetrics record')
      err = strip_casts(met['inverse_pth_root_errors'])
      if pad:
        sa = select_arms(x)
        ok = _is_epilogue(sa)
        ctx.ob('C01.R4', fi.short, f'epilogue.value[rel={rel}]', ok,
               'all-padding epilogue where(padding_start == 0, 0, X) missing on the returned matrix', ctx.loc(fi),
               sample='where(padding_start == 0, 0, X)')
        x = strip_casts(sa[3]) if sa else x
        se = select_arms(err)
        ok = _is_epilogue(se)
        ctx.ob('C01.R4', fi.short, f'epilogue.error[rel={rel}]', ok,
               'all-padding epilogue where(padding_start == 0, 0, error) missing on the error', ctx.loc(fi),
               sample='where(padding_start == 0, 0, err)')
        err = strip_casts(se[3]) if se else err
      eighs = [c for c in walk(r) if is_ext_call(c, 'jax.numpy.linalg.eigh')]
      ctx.need('C01.E1', len(eighs), 1, 'eigh call')
      eg = eighs[0]
      reg = eg.args[1][0]
      P = sym('param', fi.short, 'p')
      ridge_exp = 'ridge_epsilon * jnp.maximum(max_ev, error_tolerance)'
      mx = [c for c in walk(reg) if is_ext_call(c, 'jax.numpy.maximum')]
      e_ = T('sub', eg, const(0))
      u_ = T('sub', eg, const(1))
      env = {'e0': e_, 'u': u_, 'reg': reg, 'p': P}
      # eigenvalues possibly masked
      if pad:
        fl = [c for c in walk(x) if is_ext_call(c, 'jax.numpy.flip')]
        ctx.ob('C01.E1', fi.short, f'eig_mask[rel={rel}]', bool(fl),
               'with padding the eigenvalues must be zeroed by the flipped mask', ctx.loc(fi),
               sample='e *= flip(ix)')
        if not fl:
          continue
        env['mask'] = fl[0]
        e_src = '(e0 * mask)'
      else:
        e_src = 'e0'
      # ridge used in the clamp
      mxs = [c for c in walk(x) if is_ext_call(c, 'jax.numpy.maximum')]
      ridge_t = None
      for c in mxs:
        a = c.args[1]
        if len(a) == 2 and cmpr.same(a[0], spec_term(ev, e_src, env)):
          ridge_t = a[1]
      ctx.ob('C01.E1', fi.short, f'clamp[pad={pad},rel={rel}]', ridge_t is not None,
             'eigenvalues must be clamped from below by the ridge before the power', ctx.loc(fi),
             sample='maximum(e, ridge)')
      if ridge_t is None:
        continue
      clamp_is_added_ridge(ctx, 'C01.E1', ev, fi, ridge_t, rel, f'[pad={pad},rel={rel}]', cmpr)
      env['ridge'] = ridge_t
      # inv_e = where(G, 0, max(e, ridge)^(-1/p)): the power arm by formula, the guard G by what it selects at four points
      pw_exp = spec_term(ev, f'jnp.power(jnp.maximum({e_src}, ridge), -1.0 / p)', env)
      e_term = spec_term(ev, e_src, env)
      W = _guarded_inverse_power(ctx, fi, x, pw_exp, e_term, ridge_t, f'[pad={pad},rel={rel}]', cmpr)
      if W is None:
        continue
      env['W'] = W
      exp_x = spec_term(ev, 'jnp.matmul(u * jnp.sqrt(W), (u * jnp.sqrt(W)).T)', env)
      ctx.ob('C01.E1', fi.short, f'root[pad={pad},rel={rel}]', cmpr.same(x, exp_x),
             f'X must be (u sqrt(inv_e))(u sqrt(inv_e))^T with inv_e = where(<zero guard>, 0, max(e, ridge)^(-1/p)); got `{cmpr.fmt(x)}`',
             ctx.loc(fi), sample='X = U diag(max(e,ridge)^(-1/p)) U^T')
      err_src = f'jnp.matmul(u.T, jnp.matmul(reg, u)) - jnp.diag({e_src})'
      if pad:
        err_src = f'({err_src}) * mask'
      exp_err = spec_term(ev, f'jnp.max(jnp.abs({err_src}))', env)
      ctx.ob('C01.E2', fi.short, f'error[pad={pad},rel={rel}]', cmpr.same(err, exp_err),
             f'error must be max|u^T A u - diag(e)| of the same decomposition; got `{cmpr.fmt(err)}`',
             ctx.loc(fi), sample='err = max|U^T A U - diag(e)|')
      # ridge scaling
      pcalls = [c for c in ev.calls if c.callee.endswith('.power_iteration')]
      if rel:
        okr = bool(pcalls) and bool([c for c in walk(ridge_t) if is_ext_call(c, 'jax.numpy.maximum')])
      else:
        okr = not pcalls
      ctx.ob('C01.E1', fi.short, f'ridge_scale[pad={pad},rel={rel}]', okr,
             'ridge must be ridge_epsilon * max(max_ev, floor) with max_ev from power_iteration iff relative_matrix_epsilon',
             ctx.loc(fi), sample='ridge = eps * max(max_ev, floor)')


def regularised_input(ctx):
  """E3: what the eigendecomposition-based routines decompose is A + d I with d = ridge_epsilon * max(max_ev, floor),
  max_ev the power-iteration estimate under relative scaling and 1 otherwise; E2 for the low-rank sibling: its reported
  error is the residual of that same decomposition."""
  m = ctx.model
  cmpr = Comparer()
  for q in ('matrix_inverse_pth_root_eigh', '_low_rank_root'):
    fi = m.func(MOD, q)
    ctx.analysed(fi)
    for pad in (True, False):
      for rel in (True, False):
        ev = evaluator(m, opaque={'power_iteration', '_low_rank_pack'}, decide=_decider(padding=pad, rel=rel, negrank=False))
        r = ev.run(fi)
        ctx.evaluations += 1
        eighs = list({c for c in walk(r) if is_ext_call(c, 'jax.numpy.linalg.eigh')})
        ctx.need('C01.E3', len(eighs), 1, f'eigh call in {q}')
        eg = eighs[0]
        reg = eg.args[1][0]
        pcalls = [c for c in ev.calls if c.callee.endswith('.power_iteration')]
        env = {'matrix': sym('param', fi.short, 'matrix'), 'padding_start': sym('param', fi.short, 'padding_start'),
               'ridge_epsilon': sym('param', fi.short, 'ridge_epsilon'), 'error_tolerance': sym('param', fi.short, 'error_tolerance')}
        if rel:
          if len(pcalls) != 1:
            ctx.ob('C01.E3', fi.short, f'ridge scale [pad={pad},rel={rel}]', False,
                   f'relative ridge scaling needs exactly one power_iteration estimate; found {len(pcalls)}', ctx.loc(fi))
            continue
          env['max_ev'] = ev.subscript(pcalls[0].result, const(1))
        else:
          env['max_ev'] = const(1.0)
        ix = '(jnp.arange(matrix.shape[0]) < padding_start)'
        M = f'(matrix * {ix}[jnp.newaxis, :] * {ix}[:, jnp.newaxis])' if pad else 'matrix'
        I = f'(jnp.eye(matrix.shape[0]) * {ix})' if pad else 'jnp.eye(matrix.shape[0])'
        exp = spec_term(ev, f'{M} + ridge_epsilon * jnp.maximum(max_ev, error_tolerance) * {I}', env)
        ctx.ob('C01.E3', fi.short, f'decomposed matrix is A + d I [pad={pad},rel={rel}]', cmpr.same(reg, exp) and (rel or not pcalls),
               f'the eigendecomposition must be taken of matrix + ridge_epsilon * max(max_ev, error_tolerance) * identity '
               f'(max_ev from power_iteration iff relative_matrix_epsilon, else 1); got `{cmpr.fmt(reg)[:300]}`', ctx.loc(fi),
               sample='eigh(A + eps * max(max_ev, tol) * I)')
        if q == '_low_rank_root':
          met = rec_fields(r.args[1]) if r.op == 'tuple' and len(r.args) == 2 else None
          if met is None:
            raise AnalysisError('_low_rank_root does not return (packed, TrainingMetrics)')
          err = strip_casts(met['inverse_pth_root_errors'])
          if pad:
            se = select_arms(err)
            err = strip_casts(se[3]) if se else err
          env2 = {'e0': T('sub', eg, const(0)), 'u': T('sub', eg, const(1)), 'reg': reg}
          src = 'jnp.matmul(u.T, jnp.matmul(reg, u)) - jnp.diag(e0)'
          if pad:
            masks = [c for c in walk(err) if is_ext_call(c, 'jax.numpy.flip') and not any(y is eg for y in walk(c))]
            if not masks:
              ctx.ob('C01.E2', fi.short, f'error[pad={pad},rel={rel}]', False, 'with padding the residual must be masked by the flipped mask', ctx.loc(fi))
              continue
            env2['mask'] = masks[0]
            src = '(jnp.matmul(u.T, jnp.matmul(reg, u)) - jnp.diag(e0 * mask)) * mask'
          exp_err = spec_term(ev, f'jnp.max(jnp.abs({src}))', env2)
          ctx.ob('C01.E2', fi.short, f'error[pad={pad},rel={rel}]', cmpr.same(err, exp_err),
                 f'error must be max|u^T A u - diag(e)| of the same decomposition; got `{cmpr.fmt(err)[:300]}`', ctx.loc(fi),
                 sample='err = max|U^T A U - diag(e)|')


def scaled_ridge(ev, fi, rel):
  """the documented ridge d = ridge_epsilon * max(max_ev, error_tolerance) as a term of evaluation ev (None: no unique estimate)"""
  env = {'ridge_epsilon': sym('param', fi.short, 'ridge_epsilon'), 'error_tolerance': sym('param', fi.short, 'error_tolerance')}
  if rel:
    pcalls = [c for c in ev.calls if c.callee.endswith('.power_iteration')]
    if len(pcalls) != 1:
      return None
    env['max_ev'] = ev.subscript(pcalls[0].result, const(1))
  else:
    env['max_ev'] = const(1.0)
  return spec_term(ev, 'ridge_epsilon * jnp.maximum(max_ev, error_tolerance)', env)


def clamp_is_added_ridge(ctx, rule, ev, fi, ridge_t, rel, tag, cmpr):
  """The floor the eigenvalues are clamped to is the ridge d that was ADDED before the decomposition (every exact
  eigenvalue of A + d I is >= d, so the clamp only removes rounding noise).  Clamping at the caller's raw
  ridge_epsilon instead lifts genuine eigenvalues whenever the scale max(max_ev, tol) is below 1."""
  want = scaled_ridge(ev, fi, rel)
  ctx.ob(rule, fi.short, f'clamp floor is the added ridge {tag}', want is not None and cmpr.same(ridge_t, want),
         f'eigenvalues must be clamped at ridge_epsilon * max(max_ev, error_tolerance) - the ridge added to the matrix; got `{cmpr.fmt(ridge_t)[:160]}`',
         ctx.loc(fi), sample='maximum(e, scaled ridge)')


def _guarded_inverse_power(ctx, fi, x, pw_exp, e_term, ridge_t, tag, cmpr):
  """Find inv_e = select(G, 0, P) in x with P the documented power max(e, ridge)^(-1/p), and decide the guard G by
  point evaluation (ideal.py): it must select 0 whenever the clamped base max(e, ridge) is not positive - an exactly zero
  (padded) eigenvalue, and a zero or slightly negative eigenvalue under a zero ridge (0 ** negative is inf, and the
  residual-based error figure does not notice) - and must select the power whenever the base is positive, including a
  negative eigenvalue lifted by a positive ridge.  Returns the select term or None (reported)."""
  from ..ideal import Point
  cands = []
  for c in walk(x):
    sa = select_arms(c)
    if sa is None:
      continue
    for zero_arm, pow_arm, zero_is_true in ((sa[2], sa[3], True), (sa[3], sa[2], False)):
      z_ = strip_casts(zero_arm)
      if (is_const(z_, 0, 0.0) or is_ext_call(z_, 'jax.numpy.zeros_like', 'jax.numpy.zeros')) and cmpr.same(pow_arm, pw_exp):
        cands.append((c, sa[1], zero_is_true))
  cands = list(dict.fromkeys(cands))
  ctx.ob('C01.E1', fi.short, f'inverse power under a zero guard {tag}', len(cands) == 1,
         f'the eigenvalue power max(e, ridge)^(-1/p) must appear exactly once, as the non-zero arm of a select against 0; found {len(cands)}',
         ctx.loc(fi), sample='inv_e = where(G, 0, max(e, ridge)^(-1/p))')
  if len(cands) != 1:
    return None
  W, G, zero_is_true = cands[0]
  points = [('e = 0 (padded / null direction)', 0.0, 'pos', True), ('e = 0, ridge = 0', 0.0, 0.0, True),
            ('e < 0, ridge = 0 (rounding noise of a singular matrix)', -1.0, 0.0, True),
            ('e > 0', 'pos', 'pos', False), ('e > 0, ridge = 0', 'pos', 0.0, False),
            ('e < 0, ridge > 0 (noise below a positive ridge: the true eigenvalue of A + dI is at least d)', -1.0, 'pos', False)]
  for what, ev_, rv_, want_zero in points:
    val = lambda v: 'pos' if v == 'pos' else ('num', v)
    leaf = lambda t, ev_=ev_, rv_=rv_: (val(ev_) if t is e_term else (val(rv_) if t is ridge_t else None))
    g = Point(leaf).ival(G)
    decided = g is not None and g not in ('pos', 'orth', 'indet') and g[0] in ('bool', 'num')
    picks_zero = decided and (bool(g[1]) == zero_is_true)
    if what.startswith('e = 0 (padded') and not decided:
      # e == 0 with a positive ridge: the clamp makes the base positive, either arm is finite; only an explicit e == 0 test decides it
      continue
    ctx.ob('C01.E1', fi.short, f'zero guard at `{what}` {tag}', decided and picks_zero == want_zero,
           f'at {what} the guard `{show(G, maxdepth=4)[:100]}` ' + ('must select 0 (the base max(e, ridge) is not positive: its inverse power is inf, '
           'which the residual-based error figure does not report)' if want_zero else 'must keep the root (the base is positive)') +
           f'; it evaluates to {g}', ctx.loc(fi), sample=f'{what}: {"0" if want_zero else "power"}')
  return W


def provenance(ctx):
  """R2: error figure and returned matrix share their defining computation."""
  m = ctx.model
  cases = [
      ('matrix_inverse_pth_root', dict(size1=False, lobpcg=False, eigh=False), 'while'),
      ('matrix_inverse_pth_root_eigh', dict(), 'jax.numpy.linalg.eigh'),
      ('_low_rank_root', dict(negrank=False), 'jax.numpy.linalg.eigh'),
  ]
  for q, facts, kind in cases:
    fi = m.func(MOD, q)
    ctx.analysed(fi)
    for pad in (True, False):
      for rel in (True, False):
        ev = evaluator(m, opaque={'mat_power', 'power_iteration', '_low_rank_pack'},
                       decide=_decider(padding=pad, rel=rel, **facts))
        r = ev.run(fi)
        ctx.evaluations += 1
        if r.op != 'tuple' or len(r.args) != 2 or rec_fields(r.args[1]) is None:
          raise AnalysisError(f'{q} does not return (matrix, TrainingMetrics)')
        x = r.args[0]
        err = rec_fields(r.args[1])['inverse_pth_root_errors']
        if kind == 'while':
          px = {t for t in walk(x) if t.op == 'while'}
          pe = {t for t in walk(err) if t.op == 'while'}
          # outermost loops only
          outer_x = {t for t in px if not any(t is not o and t in set(walk(o)) for o in px)}
          outer_e = {t for t in pe if not any(t is not o and t in set(walk(o)) for o in pe)}
          ok = bool(outer_x) and outer_x == outer_e
        else:
          px = {t for t in walk(x) if is_ext_call(t, kind)}
          pe = {t for t in walk(err) if is_ext_call(t, kind)}
          ok = bool(px) and px == pe
        ctx.ob('C01.R2', fi.short, f'error-provenance[pad={pad},rel={rel}]', ok,
               'the reported inverse_pth_root_errors does not derive from the same iterate/decomposition as the returned matrix',
               ctx.loc(fi), sample=f'error and X share the {kind} node')
        if pad:
          se = select_arms(strip_casts(err))
          okp = _is_epilogue(se)
          sx = select_arms(strip_casts(x))
          okx = _is_epilogue(sx)
          ctx.ob('C01.R4', fi.short, f'epilogue[{q},rel={rel}]', okp and okx,
                 'all-padding epilogue (where(padding_start == 0, 0, .)) must guard both value and error',
                 ctx.loc(fi), sample='epilogue on value and error')


def size1_error_honest(ctx):
  """R2b: on the 1x1 shortcut of matrix_inverse_pth_root the reported error must be a function of the returned root:
  a constant figure (0) makes the acceptance gate take whatever the closed form produces - NaN for a NaN statistic, inf
  for a zero statistic with zero ridge - as a verified root (found F21)."""
  m = ctx.model
  fi = m.func(MOD, 'matrix_inverse_pth_root')
  ctx.analysed(fi)
  for pad in (True, False):
    for rel in (True, False):
      ev = evaluator(m, opaque={'mat_power', 'power_iteration'}, decide=_decider(padding=pad, size1=True, rel=rel, lobpcg=False, eigh=False))
      r = ev.run(fi)
      ctx.evaluations += 1
      if r.op != 'tuple' or len(r.args) != 2 or rec_fields(r.args[1]) is None:
        raise AnalysisError('matrix_inverse_pth_root does not return (matrix, TrainingMetrics)')
      x = strip_casts(r.args[0])
      err = strip_casts(rec_fields(r.args[1])['inverse_pth_root_errors'])
      if pad:
        sx, se = select_arms(x), select_arms(err)
        x = strip_casts(sx[3]) if sx else x
        err = strip_casts(se[3]) if se else err
      # the root's defining computation: the closed-form power
      pw = [t for t in walk(x) if t.op == 'bin' and t.args[0] == '**']
      ok = bool(pw) and any(t is pw[0] or t is x for t in walk(err))
      ctx.ob('C01.R2', fi.short, f'1x1 shortcut: reported error depends on the returned root [pad={pad},rel={rel}]', ok,
             f'on the matrix_size == 1 path the error figure is `{show(err, maxdepth=4)[:100]}`, which does not depend on the returned root: a non-finite '
             'root (NaN statistic; zero statistic with zero ridge) is reported as error-free and accepted by the gate', ctx.loc(fi),
             sample='error = f(returned root)')


def siblings(ctx):
  """R4: mask prologue in all four siblings; cast back to the input dtype."""
  m = ctx.model
  for q in ['matrix_inverse_pth_root', 'matrix_inverse_pth_root_eigh', '_low_rank_root']:
    fi = m.func(MOD, q)
    facts = dict(size1=False, lobpcg=False, eigh=False, negrank=False)
    ev = evaluator(m, opaque={'mat_power', 'power_iteration', '_low_rank_pack'},
                   decide=_decider(padding=True, rel=True, **facts))
    ev.run(fi)
    sc = ev.last_scope
    mat = sc.vars.get('matrix')          # a parameter (re-bound to its masked cast)
    # the identity used for convergence checks / ridge: the smallest local value built from jnp.eye of the matrix size
    eyes = sorted((v_ for v_ in sc.vars.values() if _has_eye(v_) and not any(x.op in ('while', 'call') and fn_name(x) for x in walk(v_))),
                  key=lambda v_: sum(1 for _ in walk(v_)))
    ident = eyes[0] if eyes else None
    if mat is None or (ident is None and q == 'matrix_inverse_pth_root'):
      raise AnalysisError(f'{q}: masked matrix / identity not found for the mask prologue check')
    P = sym('param', fi.short, 'matrix')
    cmpr = Comparer()
    env = {'matrix': P, 'padding_start': sym('param', fi.short, 'padding_start')}
    ix = '(jnp.arange(matrix.shape[0]) < padding_start)'
    exp_m = spec_term(ev, f'matrix * {ix}[jnp.newaxis, :] * {ix}[:, jnp.newaxis]', env)
    exp_i = spec_term(ev, f'jnp.eye(matrix.shape[0]) * {ix}', env)
    # the Newton routine deflates `matrix` only under lobpcg (decided off)
    ctx.ob('C01.R4', fi.short, 'prologue.matrix', cmpr.same(mat, exp_m),
           f'matrix must be masked on both axes by (arange(n) < padding_start); got `{cmpr.fmt(mat)}`', ctx.loc(fi),
           sample='matrix *= ix[None,:]; matrix *= ix[:,None]')
    # (the eigendecomposition-based routines use the identity only in the ridge term, which E3 decides as a whole: with
    # the identity written inline there is no local to look at here)
    ctx.ob('C01.R4', fi.short, 'prologue.identity', ident is None or cmpr.same(ident, exp_i),
           f'identity must be masked by (arange(n) < padding_start); got `{cmpr.fmt(ident)}`', ctx.loc(fi),
           sample='identity *= ix')
    for c in [c for c in ev.calls if c.callee.endswith('.power_iteration')]:
      ctx.ob('C01.PI', fi.short, 'power_iteration.matrix', cmpr.same(c.args.get('matrix', NONE), exp_m),
             f'the eigenvalue estimate that scales the ridge must come from power iteration on the masked input itself; got `{cmpr.fmt(c.args.get("matrix", NONE))}`',
             ctx.loc(fi), sample='power_iteration(matrix=masked matrix)')
      pd = c.args.get('padding_start', NONE)
      ctx.ob('C01.PI', fi.short, 'power_iteration.padding_start', pd.op == 'sym' and pd.args[-1] == 'padding_start',
             'padding_start must be forwarded to power_iteration', ctx.loc(fi), sample='padding_start forwarded')
  # cast back to orig dtype
  for q in ['matrix_inverse_pth_root', 'matrix_inverse_pth_root_eigh', '_low_rank_root']:
    fi = m.func(MOD, q)
    ev = evaluator(m, opaque={'mat_power', 'power_iteration', '_low_rank_pack'},
                   decide=_decider(padding=False, rel=True, size1=False, lobpcg=False, eigh=False, negrank=False))
    r = ev.run(fi)
    x = r.args[0]
    dt = kwarg(x, 'dtype')
    ok = is_ext_call(x, 'jax.numpy.asarray') and dt is not None and \
        any(d.split('.')[0] == 'matrix' for d in dep_names(dt)) and 'dtype' in show(dt)
    ctx.ob('C01.R4', fi.short, 'cast-back', ok,
           'result must be cast back to the dtype of the input matrix', ctx.loc(fi),
           sample='asarray(X, matrix.dtype)')


def forwarding(ctx):
  """R4b: the options of a root computation reach the routine that does the work unchanged.
  (a) the eigh dispatch of matrix_inverse_pth_root forwards every parameter the two routines have in common;
  (b) the factory binds every same-named option of matrix_inverse_pth_root to its own configuration value
      (ridge_epsilon to matrix_epsilon)."""
  m = ctx.model
  outer = m.func(MOD, 'matrix_inverse_pth_root')
  inner = m.func(MOD, 'matrix_inverse_pth_root_eigh')
  ctx.analysed(outer, inner)
  ev = evaluator(m, opaque={'matrix_inverse_pth_root_eigh', 'mat_power', 'power_iteration'}, decide=_decider(eigh=True, padding=True, rel=True, size1=False, lobpcg=False))
  ev.run(outer)
  calls = [c for c in ev.calls if c.callee.endswith('.matrix_inverse_pth_root_eigh') and c.caller == outer.fq]
  ctx.need('C01.R4', len(calls), 1, 'eigh dispatch in matrix_inverse_pth_root')
  po = [a.arg for a in outer.node.args.args + outer.node.args.kwonlyargs]
  pi = [a.arg for a in inner.node.args.args + inner.node.args.kwonlyargs]
  for c in calls:
    for q in pi:
      if q not in po:
        continue
      a = c.args.get(q)
      ok = a is not None and a is sym('param', outer.short, q)
      ctx.ob('C01.R4', outer.short, f'eigh dispatch forwards `{q}`', ok,
             f'matrix_inverse_pth_root(eigh=True) must hand its own `{q}` to matrix_inverse_pth_root_eigh; got `{show(a, maxdepth=3) if a is not None else "<default>"}` '
             '(a dropped option silently falls back to the callee\'s default)', ctx.loc(outer, c.node) if c.node is not None else ctx.loc(outer),
             sample=f'{q}={q}')
  # (b) factory binding
  fac = m.func(MOD, 'distributed_shampoo')
  probe = m.func(MOD, 'distributed_shampoo._pmap_compute_preconditioners')
  ev2 = evaluator(m)
  sc = ev2.closure_env(probe)
  parts = []
  s_ = sc
  seen = set()
  while s_ is not None:
    for v_ in s_.vars.values():
      for x in walk(v_):
        if x.op == 'partial' and x not in seen and (fn_name(x.args[0]) == 'matrix_inverse_pth_root' or
                                                    (x.args[0].op == 'closure' and str(x.args[0].args[0]).endswith('.matrix_inverse_pth_root'))):
          seen.add(x)
          parts.append(x)
    s_ = getattr(s_, 'parent', None)
  ctx.need('C01.R4', len(parts), 1, 'functools.partial(matrix_inverse_pth_root, ...) in the distributed_shampoo factory')
  alias = {'ridge_epsilon': 'matrix_epsilon'}
  fpars = {a.arg for a in fac.node.args.args + fac.node.args.kwonlyargs}
  for x in parts:
    kw = dict(x.args[2])
    for q in po:
      src = alias.get(q, q)
      if src not in fpars or q in ('matrix', 'p', 'padding_start', 'prev', 'num_iters', 'error_tolerance'):
        continue
      a = kw.get(q)
      ok = a is not None and a is sym('cfg', 'distributed_shampoo', src)
      ctx.ob('C01.R4', fac.short, f'factory binds root option `{q}`', ok,
             f'the root routine must be configured with {q}={src} from the optimizer\'s own options; got `{show(a, maxdepth=3) if a is not None else "<default>"}`',
             ctx.loc(fac), sample=f'{q}={src}')


# -------------------------------------------------------------------- LOBPCG-deflated path
def lobpcg_path(ctx):
  """N5: deflation / re-deflation formulas and, above all, which error figure is reported."""
  m = ctx.model
  fi = m.func(MOD, 'matrix_inverse_pth_root')
  cmpr = Comparer()
  LOB = m.cls(MOD, 'LOBPCGDiagnostics').fq + '.create'
  IPR = m.cls(MOD, 'InversePthRootDiagnostics').fq + '.create'
  for pad in (True, False):
    for rel in (True, False):
      ev = evaluator(m, opaque={'mat_power', 'power_iteration', '_pth_root_difference', LOB, IPR},
                     decide=_decider(padding=pad, size1=False, rel=rel, lobpcg=True, eigh=False))
      r = ev.run(fi)
      ctx.evaluations += 1
      if r.op != 'tuple' or len(r.args) != 2 or rec_fields(r.args[1]) is None:
        raise AnalysisError('matrix_inverse_pth_root (lobpcg) does not return (matrix, TrainingMetrics)')
      x = strip_casts(r.args[0])
      met = rec_fields(r.args[1])
      err = strip_casts(met['inverse_pth_root_errors'])
      if pad:
        sx, se = select_arms(x), select_arms(err)
        x = strip_casts(sx[3]) if sx else x
        err = strip_casts(se[3]) if se else err
      tag = f'[pad={pad},rel={rel}]'
      lob = [c for c in walk(r) if is_ext_call(c, 'jax.experimental.sparse.linalg.lobpcg_standard')]
      ctx.need('C01.N5', len(lob), 1, 'lobpcg_standard call')
      L = lob[0]
      eigvals, eigvecs = T('sub', L, const(0)), T('sub', L, const(1))
      # reported error = max(diag, off-diag) error of the diagnostics of the FINAL root against the UNconditioned damped input
      dcalls = [c for c in ev.calls if c.callee == IPR]
      ctx.need('C01.N5', len(dcalls), 2, 'InversePthRootDiagnostics.create calls')
      uncond = [c for c in dcalls if strip_casts(c.args.get('pth_inverse_root', NONE)) is x or c.args.get('pth_inverse_root') is x]
      okd = len(uncond) == 1
      ctx.ob('C01.N5', fi.short, f'diagnostics of the returned root {tag}', okd,
             'exactly one diagnostics record must be computed from the matrix that is returned', ctx.loc(fi),
             sample='InversePthRootDiagnostics.create(resultant_mat_h, A + ridge I, p)')
      if okd:
        U = uncond[0]
        env = {'d': U.result}
        exp = spec_term(ev, 'jnp.maximum(d.max_diag_error, d.max_off_diag_error)', env)
        ctx.ob('C01.N5', fi.short, f'reported error {tag}', cmpr.same(err, exp),
               f'with LOBPCG the reported error must be max(max_diag_error, max_off_diag_error) of the diagnostics of the RETURNED root '
               f'against the unconditioned input; got `{cmpr.fmt(err)[:240]}`', ctx.loc(fi),
               sample='error = max(uncond.max_diag_error, uncond.max_off_diag_error)')
        mat = U.args.get('matrix', NONE)
        okm = mat.op == 'bin' and mat.args[0] == '+' and not any(y is L for y in walk(mat.args[1])) and \
            any(is_ext_call(y, 'jax.numpy.maximum') for y in walk(mat.args[2])) and any(is_ext_call(y, 'jax.numpy.eye') for y in walk(mat.args[2]))
        if okm:
          # exactly: masked input + ridge_epsilon * max(max_ev, floor) * (masked) identity, max_ev = max(eigvals) | 1
          env_m = {'matrix': sym('param', fi.short, 'matrix'), 'padding_start': sym('param', fi.short, 'padding_start'),
                   'ridge_epsilon': sym('param', fi.short, 'ridge_epsilon'), 'eigvals': eigvals}
          ix_ = '(jnp.arange(matrix.shape[0]) < padding_start)'
          M_ = f'(matrix * {ix_}[jnp.newaxis, :] * {ix_}[:, jnp.newaxis])' if pad else 'matrix'
          I_ = f'(jnp.eye(matrix.shape[0]) * {ix_})' if pad else 'jnp.eye(matrix.shape[0])'
          mev = 'jnp.max(eigvals)' if rel else '1.0'
          floors = [strip_casts(a_) for c_ in walk(mat.args[2]) if is_ext_call(c_, 'jax.numpy.maximum') for a_ in c_.args[1]
                    if is_const(strip_casts(a_)) and isinstance(cval(strip_casts(a_)), float) and 0.0 < cval(strip_casts(a_)) <= 1e-6]
          okm = any(cmpr.same(mat, spec_term(ev, f'{M_} + ridge_epsilon * jnp.maximum({mev}, floor) * {I_}', dict(env_m, floor=f_))) for f_ in floors)
        ctx.ob('C01.N5', fi.short, f'unconditioned reference matrix {tag}', okm,
               'the reference for the reported error must be original_matrix + ridge * identity (not the deflated matrix)', ctx.loc(fi),
               sample='original_matrix + ridge_epsilon * identity')
        pp = U.args.get('p', NONE)
        ctx.ob('C01.N5', fi.short, f'diagnostics exponent {tag}', pp.op == 'sym' and pp.args[-1] == 'p',
               'diagnostics must use the routine\'s exponent p', ctx.loc(fi), sample='p forwarded')
      # re-deflation
      pd = [c for c in ev.calls if c.callee.endswith('._pth_root_difference')]
      ctx.need('C01.N5', len(pd), 1, '_pth_root_difference call')
      P = pd[0]
      env = {'eigvals': eigvals, 'eigvecs': eigvecs, 'pth_diff': P.result}
      okargs = cmpr.same(P.args.get('alpha', NONE), spec_term(ev, 'jnp.min(eigvals)', env)) and P.args.get('beta') is eigvals and \
          P.args.get('p', NONE).op == 'sym' and any(is_ext_call(y, 'jax.numpy.maximum') for y in walk(P.args.get('w', NONE)))
      ctx.ob('C01.N5', fi.short, f're-deflation arguments {tag}', okargs,
             '_pth_root_difference must be called as (ridge_epsilon, min(eigvals), eigvals, p)', ctx.loc(fi),
             sample='_pth_root_difference(ridge, min(eigvals), eigvals, p)')
      wl = [y for y in walk(x) if y.op == 'while']
      outer = [y for y in wl if not any(y is not o and y in set(walk(o)) for o in wl)]
      if outer:
        env['cond_root'] = T('sub', outer[0], const(1))
        exp_x = spec_term(ev, 'cond_root - (eigvecs * jnp.sqrt(pth_diff)).dot((eigvecs * jnp.sqrt(pth_diff)).T)', env)
        ctx.ob('C01.N5', fi.short, f're-deflated root {tag}', cmpr.same(x, exp_x),
               f'returned root must be conditioned_root - (V sqrt(pth_diff))(V sqrt(pth_diff))^T; got `{cmpr.fmt(x)[:200]}`', ctx.loc(fi),
               sample='X = X_cond - (V sqrt(d))(V sqrt(d))^T')
      # deflation of the input and eigenvalue estimate
      if rel:
        mx = [c for c in walk(x) if is_ext_call(c, 'jax.numpy.maximum')]
        okr = any(cmpr.same(c.args[1][0], spec_term(ev, 'jnp.max(eigvals)', env)) for c in mx if c.args[1])
        ctx.ob('C01.N5', fi.short, f'ridge scaled by max LOBPCG eigenvalue {tag}', okr and not [c for c in ev.calls if c.callee.endswith('.power_iteration')],
               'with LOBPCG and relative epsilon the ridge must scale with max(eigvals) (no power iteration)', ctx.loc(fi),
               sample='max_ev = max(eigvals)')


def diagnostics(ctx):
  """D1: InversePthRootDiagnostics.create measures |X^p A - I| (diag / off-diag); _pth_root_difference."""
  m = ctx.model
  fi = m.func(MOD, 'InversePthRootDiagnostics.create')
  ctx.analysed(fi)
  ev = evaluator(m, opaque={'mat_power'})
  r = rec_fields(ev.run(fi))
  if r is None:
    raise AnalysisError('InversePthRootDiagnostics.create does not build a record')
  cmpr = Comparer()
  P = lambda nm: sym('param', fi.short, nm)
  env = {'root': P('pth_inverse_root'), 'matrix': P('matrix'), 'p': P('p'), 'mat_power': T('fn', m.func(MOD, 'mat_power').fq)}
  M = 'jnp.matmul(mat_power(root, p), matrix)'
  specs = {
      'max_diag_error': f'jnp.max(jnp.abs(jnp.diag({M}) - 1))',
      'avg_diag_error': f'jnp.mean(jnp.abs(jnp.diag({M}) - 1))',
      'max_off_diag_error': f'jnp.max(jnp.abs({M} - jnp.diag(jnp.diag({M}))))',
  }
  for k, src in specs.items():
    ctx.ob('C01.D1', fi.short, k, cmpr.same(r[k], spec_term(ev, src, env)),
           f'`{k}` must be `{src}`; got `{cmpr.fmt(r[k])[:200]}`', ctx.loc(fi), sample=f'{k} = {src}')
  fd = m.func(MOD, '_pth_root_difference')
  ctx.analysed(fd)
  ev = evaluator(m)
  r = ev.run(fd)
  Q = lambda nm: sym('param', fd.short, nm)
  env = {k: Q(k) for k in ('w', 'alpha', 'beta', 'p')}
  a, b, amb = '(w + alpha)', '(w + beta)', '(alpha - beta)'
  stable = lambda bb, d: f'(({bb} ** (-1 / p)) * jnp.expm1((-1 / p) * jnp.log1p({d} / {bb})))'
  src = f'jnp.where(jnp.abs({amb} / {b}) < jnp.abs({amb} / {a}), -{stable(a, "(-" + amb + ")")}, {stable(b, amb)})'
  ctx.ob('C01.D1', fd.short, 'stable difference of roots', cmpr.same(r, spec_term(ev, src, env)),
         f'_pth_root_difference must be (w+alpha)^(-1/p) - (w+beta)^(-1/p) in its two log1p/expm1 forms; got `{cmpr.fmt(r)[:240]}`',
         ctx.loc(fd), sample='(b^e) expm1(e log1p((a-b)/b)) forms')
