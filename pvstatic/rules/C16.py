"""C16 - OCO algorithms: closed forms and sketch bookkeeping decided statically.

  O1  exhaustiveness: Algorithm members = {OGD, ADA} + keys of the `_fd_method_factors` table;
      `generate_init_update` binds OGD / ADA to their own init+update and every other member to the FD
      init+update; each factor function returns (sketch factor, alpha factor, lr, inversion);
  O2  sketch bookkeeping per FD algorithm (value graph of `_fd_update_fn` vs the documented formulas):
      t' = t + 1; the sketch is P*e with its last row replaced by g * sketch_factor; rho = s[-1];
      e' = sqrt((s - rho)(s + rho)); P' = vt; alpha' = alpha + alpha_factor * rho^2 with
      alpha_0 = delta (S-AdaGrad: factor 1, so alpha = delta + accumulated escaped mass);
      iterate: S_ADA / SON: w' = w - lr (P^T inv(alpha' + s_defl) P g + inv(alpha') (g - P^T P g)) with the
      same inversion inside and outside the sketch and safe inverse where(x <= 0, 0, inv(x)) (cut-off
      exactly 0); ADA_FD: (g - P^T (e/(alpha+e)) P g) / alpha;
  O3  OGD and diagonal AdaGrad updates equal their closed forms (t' = t + 1, w' = w - lr g rsqrt(t' + delta);
      h' = h + g^2, w' = w - lr g rsqrt(where(h' == 0, 1, h')), h_0 = delta);
  plus the C09 rules for the OCO sketch (homogeneity of (e, alpha), last row / rho).
Not decided: the FD bracket, equality with full-matrix AdaGrad for low-rank histories (numerical).
"""
from __future__ import annotations

from ..lib import (evaluator, Decider, enum_member, rec_fields, show, walk, strip_casts, is_ext_call, fn_name,
                   method_name, path_str, ext_name)
from ..spec import spec_term, Comparer
from ..terms import T, sym, const, is_const, cval, NONE, ext
from ..model import AnalysisError

OM = 'oco.algorithms'

ASSUMPTIONS = ['jnp.linalg.svd returns singular values in descending order']

FACTORS = {
    'RFD_SON': dict(sketch='jax.lax.rsqrt(t1 * lr)', alpha=0.5, lr='1.0', inv='jnp.reciprocal'),
    'FD_SON': dict(sketch='jax.lax.rsqrt(jnp.sqrt(t1) * lr)', alpha=0.0, lr='1.0', inv='jnp.reciprocal'),
    'ADA_FD': dict(sketch='1.0', alpha=0.0, lr='lr', inv=None),
    'S_ADA': dict(sketch='1.0', alpha=1.0, lr='lr', inv='jax.lax.rsqrt'),
}


def _hp(m, ev0, alg):
  at = enum_member(ev0, m, OM, 'Algorithm', alg)
  return T('rec', m.cls(OM, 'HParams').fq,
           (('delta', sym('hp', 'delta')), ('lr', sym('hp', 'lr')), ('sketch_size', sym('hp', 'sketch_size')), ('algorithm', at)))


def run(ctx):
  exhaustive(ctx)
  fresh_initial_state(ctx)
  driver_wiring(ctx)
  fd_bookkeeping(ctx)
  closed_forms(ctx)
  from . import C09
  C09.oco_fd(ctx)


def fresh_initial_state(ctx):
  """O4: the update functions modify the state dictionary they are given in place, so every init() must BUILD a state:
  the init functions are called when the bound init callable is invoked, not once when the (init, update) pair is made
  (a cached initial state is aliased by every history run on that pair: the second history starts from the end of the
  first, and no closed form holds for it)."""
  m = ctx.model
  fi = m.func(OM, 'generate_init_update')
  ctx.analysed(fi)
  inits = {'_ogd_init_fn', '_diag_adagrad_init_fn', '_fd_init_fn'}
  ev = evaluator(m, opaque=inits | {'_ogd_update_fn', '_diag_adagrad_update_fn', '_fd_update_fn'})
  r = ev.run(fi)
  if r.op != 'tuple' or len(r.args) != 2:
    raise AnalysisError('generate_init_update does not return (init, update)')
  early = [c for c in ev.calls if c.callee.split('.')[-1] in inits]
  ctx.ob('C16.O4', fi.short, 'no state is built when the pair is made', not early,
         f'`{early[0].callee.split(".")[-1] if early else ""}` is called while the (init, update) pair is constructed: the state it returns is shared by '
         'every later init() call, and the update functions mutate it in place', ctx.loc(fi, early[0].node) if early and early[0].node is not None else ctx.loc(fi),
         sample='init functions not called at factory time')
  n0 = len(ev.calls)
  callee = r.args[0]
  okc = callee.op in ('closure', 'partial', 'bound')
  late = []
  if okc:
    ev.call(callee, [], {}, None, None)
    late = [c for c in ev.calls[n0:] if c.callee.split('.')[-1] in inits]
  ctx.ob('C16.O4', fi.short, 'calling init() builds the state', okc and len({c.callee for c in late}) == len(inits),
         f'invoking the returned init callable must call the selected init function (found calls to {sorted({c.callee.split(".")[-1] for c in late})})',
         ctx.loc(fi), sample='bound_init_fn() -> init(w_shape, hparams)')


def _static_argnames(fi):
  """names listed in static_argnames of the jax.jit decorator of fi (None when fi is not jitted)"""
  import ast
  for d in fi.node.decorator_list:
    if 'jit' not in ast.unparse(d):
      continue
    for kw in (x for n in ast.walk(d) if isinstance(n, ast.Call) for x in n.keywords):
      if kw.arg == 'static_argnames':
        try:
          v = ast.literal_eval(kw.value)
        except ValueError:
          raise AnalysisError(f'{fi.short}: static_argnames is not a literal')
        return [v] if isinstance(v, str) else list(v)
    return []
  return None


def _equality_holes(ci):
  """why instances of class ci can compare equal although they differ (None: identity or full value comparison)"""
  import ast
  for nm in ('__eq__', '__hash__'):
    if nm in ci.methods:
      return f'{ci.name} defines {nm}'
  if not ci.is_record or ci.is_namedtuple:
    return None
  for d in ci.node.decorator_list:
    if isinstance(d, ast.Call) and any(kw.arg == 'eq' and isinstance(kw.value, ast.Constant) and kw.value.value is False for kw in d.keywords):
      return None       # eq=False: compared by identity
  for st in ci.node.body:
    if isinstance(st, ast.AnnAssign) and isinstance(st.value, ast.Call) and 'field' in ast.unparse(st.value.func):
      for kw in st.value.keywords:
        if kw.arg in ('compare', 'hash') and isinstance(kw.value, ast.Constant) and kw.value.value is False:
          return f'field `{ast.unparse(st.target)}` of {ci.name} is excluded from comparison ({kw.arg}=False)'
  return None


def driver_wiring(ctx):
  """O5 (oco/train.py): `run_dataset` runs the history with the update function, the initial state and the loss made
  from ITS arguments: the `update_fn` handed to the compiled scan is the second component of
  `generate_init_update(dataset.w_shape, hparams)` (or a record carrying it), the state is the first component called
  once, the loss is `value_and_grad(dataset.loss)`.  jax.jit keys its cache on the static arguments by ==/hash: a
  static argument whose class compares equal although a field differs (a dataclass field with compare=False, a
  hand-written __eq__) makes a later run with other hyper-parameters reuse the trace - and the lr / delta - of an earlier one."""
  m = ctx.model
  TM = 'oco.train'
  fr = m.func(TM, 'run_dataset')
  fc = m.func(TM, '_compiled_run_dataset')
  ctx.analysed(fr, fc)
  static = _static_argnames(fc)
  if static is None:
    raise AnalysisError('_compiled_run_dataset is not jitted: the driver rule has lost its anchor')
  ev = evaluator(m, opaque={'_compiled_run_dataset', 'generate_init_update', 'load_dataset'})
  ev.run(fr)
  ctx.evaluations += 1
  calls = [c for c in ev.calls if c.callee.endswith('._compiled_run_dataset')]
  ctx.need('C16.O5', len(calls), 1, 'call of the compiled scan in run_dataset')
  HP = sym('param', fr.short, 'hparams')
  gen = [c for c in ev.calls if c.callee.endswith('.generate_init_update')]
  data = [c for c in ev.calls if c.callee.endswith('.load_dataset')]
  ctx.need('C16.O5', len(data), 1, 'load_dataset call in run_dataset')
  DS = data[0].result

  def field(t, name):
    return t.op == 'attr' and t.args[0] is DS and t.args[1] == name

  okg = len(gen) == 1 and gen[0].args.get('hparams') is HP and field(gen[0].args.get('w_shape', NONE), 'w_shape')
  ctx.ob('C16.O5', fr.short, 'the (init, update) pair is made from the caller\'s hparams', okg,
         f'run_dataset must call generate_init_update(dataset.w_shape, hparams) with its own hparams; got {[show(v, maxdepth=3) for c in gen for v in c.args.values()]}',
         ctx.loc(fr), sample='generate_init_update(dataset.w_shape, hparams)')
  pair = gen[0].result if gen else NONE

  def is_component(t, k):
    return t.op == 'sub' and t.args[0] is pair and is_const(t.args[1], k)

  for c in calls:
    uf = c.args.get('update_fn', NONE)
    carried = is_component(uf, 1) or (uf.op == 'rec' and any(is_component(v, 1) for _, v in uf.args[1]))
    ctx.ob('C16.O5', fr.short, 'update_fn is the update function made from hparams', carried,
           f'the update function handed to the compiled scan must be the one generate_init_update returned; got `{show(uf, maxdepth=4)[:160]}`', ctx.loc(fr),
           sample='init_fn, update_fn = generate_init_update(..); _compiled_run_dataset(.., update_fn, ..)')
    st = c.args.get('state', NONE)
    inits = [y for y in walk(st) if y.op == 'call' and is_component(y.args[0], 0)]
    ctx.ob('C16.O5', fr.short, 'the history starts from init_fn()', bool(inits) and not any(is_component(y, 1) for y in walk(st)),
           f'the state handed to the compiled scan must be built from init_fn(); got `{show(st, maxdepth=4)[:160]}`', ctx.loc(fr), sample='initial_state = init_fn()')
    try:
      n0_ = ev.subscript(st, const('n'))
    except Exception:
      n0_ = NONE
    ctx.ob('C16.O5', fr.short, 'the history starts at row 0', is_const(n0_, 0),
           f"the state handed to the compiled scan must start with the row counter n = 0; got `{show(n0_, maxdepth=3)[:80]}`", ctx.loc(fr), sample="initial_state['n'] = 0")
    lg = c.args.get('loss_and_grad', NONE)
    oklg = is_ext_call(lg, 'jax.value_and_grad') and len(lg.args[1]) == 1 and not lg.args[2] and field(lg.args[1][0], 'loss')
    ctx.ob('C16.O5', fr.short, 'loss_and_grad = value_and_grad(dataset.loss)', oklg,
           f'the gradient fed to the update must be that of the dataset loss; got `{show(lg, maxdepth=4)[:160]}`', ctx.loc(fr), sample='jax.value_and_grad(dataset.loss)')
    for nm in static:
      v = c.args.get(nm, NONE)
      for y in walk(v):
        if y.op == 'rec':
          ci = m.classes.get(y.args[0])
          if ci is None:
            continue
          hole = _equality_holes(ci)
          ctx.ob('C16.O5', fr.short, f'static argument `{nm}` is compared in full by the jit cache', hole is None,
                 f'`{nm}` is a static argument of the jitted scan and is an instance of {ci.name}, but {hole}: two runs whose hyper-parameters differ can '
                 f'compare equal and share one trace (the second run then uses the first run\'s lr / delta)', ctx.loc(fr), sample='closures / records compared field by field')
  # the compiled scan itself: one update per row, fed with the loss and gradient of the current iterate on that row
  # follow the function values handed to lax.scan / lax.fori_loop (nested defs, module-level helpers bound by
  # functools.partial, lambdas - whatever they are): each is applied to a symbolic (index | chunk, state) pair
  UF = sym('param', fc.short, 'update_fn')
  LG = sym('param', fc.short, 'loss_and_grad')
  ST = sym('spec', 'row_state')
  ev2 = evaluator(m)
  r_top = ev2.run(fc)
  ctx.evaluations += 1
  bodies = []
  seen_fns = set()
  work = [r_top]
  while work:
    t = work.pop()
    for c in walk(t):
      if not (is_ext_call(c, 'jax.lax.scan') or is_ext_call(c, 'jax.lax.fori_loop')):
        continue
      for f_ in list(c.args[1]) + [v_ for _, v_ in c.args[2]]:
        if f_.op not in ('closure', 'partial', 'bound') or f_ in seen_fns:
          continue
        seen_fns.add(f_)
        pair = [ST, sym('spec', 'chunk')] if is_ext_call(c, 'jax.lax.scan') else [sym('spec', 'loop_index'), ST]
        rb = ev2.call(f_, pair, {}, None, None)
        bodies.append(rb)
        work.append(rb)
  ucalls = []
  for r2 in bodies:
    mine = list(dict.fromkeys(y for y in walk(r2) if y.op == 'call' and y.args[0] is UF))
    ucalls += mine
    if mine and not any(is_ext_call(c, 'jax.lax.fori_loop') for c in walk(r2)):
      fp = fc
      # the row counter: rows are consumed one by one, in order (row n on entry, n + 1 on exit)
      n_in = T('sub', ST, const('n'))
      n_out = ev2.subscript(r2, const('n'))
      okn = n_out.op == 'bin' and n_out.args[0] == '+' and any(is_const(a_, 1) for a_ in n_out.args[1:]) and \
          any(a_.op == 'sub' and is_const(a_.args[1], 'n') and (a_.args[0] is ST or a_.args[0] in mine) for a_ in n_out.args[1:])
      ctx.ob('C16.O5', fp.short, "row counter advances by one per update", okn,
             f"state['n'] must be advanced by exactly 1 per processed row; got `{show(n_out, maxdepth=4)[:160]}`", ctx.loc(fp), sample="state['n'] += 1")
      for u in mine:
        la = u.args[1][1].args[0].args[1] if len(u.args[1]) == 3 and u.args[1][1].op == 'sub' and u.args[1][1].args[0].op == 'call' else ()
        okr = len(la) == 3 and la[1].op == 'sub' and la[1].args[1] is n_in
        ctx.ob('C16.O5', fp.short, "the row read is x[state['n']] of the incoming state", okr,
               f"the row fed to loss_and_grad must be indexed by the incoming state['n']; got `{show(la[1], maxdepth=4)[:120] if len(la) == 3 else None}`", ctx.loc(fp),
               sample="ix = state['n']; r = x[ix]")
  ucalls = list(dict.fromkeys(ucalls))
  ctx.need('C16.O5', len(ucalls), 1, 'update_fn application in the compiled scan')
  for u in ucalls:
    a = list(u.args[1])
    okf = len(a) == 3 and all(x.op == 'sub' and x.args[0].op == 'call' and x.args[0].args[0] is LG for x in a[1:]) and \
        is_const(a[1].args[1], 0) and is_const(a[2].args[1], 1) and a[1].args[0] is a[2].args[0]
    if okf:
      la = a[1].args[0].args[1]
      # loss_and_grad(w, x[n], y[n]): the current iterate and one row, the same row of x and y
      okf = len(la) == 3 and la[0].op == 'sub' and is_const(la[0].args[1], 'w') and la[1].op == 'sub' and la[2].op == 'sub' and la[1].args[1] is la[2].args[1]
    ctx.ob('C16.O5', fc.short, 'update_fn(state, f, g) with (f, g) = loss_and_grad(w, x[n], y[n])', okf,
           f'each row must update the state with the loss and gradient of the current iterate; got `{show(u, maxdepth=4)[:200]}`', ctx.loc(fc),
           sample='f, g = loss_and_grad(state["w"], r, y[ix]); state = update_fn(state, f, g)')


def exhaustive(ctx):
  m = ctx.model
  ci = m.cls(OM, 'Algorithm')
  members = [f for f, _, _ in ci.fields]
  fi = m.func(OM, '_fd_method_factors')
  fg = m.func(OM, 'generate_init_update')
  ctx.analysed(fi, fg)
  ev0 = evaluator(m)
  ev = evaluator(m, opaque={'_rfd', '_fdson', '_adafd', '_sada'})
  # every sketched member resolves, through the factor table, to a factor function (whatever way the table is built)
  factor_fns = {'_rfd', '_fdson', '_adafd', '_sada'}
  resolved = {}
  for mem in members:
    if mem in ('OGD', 'ADA'):
      continue
    r = ev.run(fi, args={'hparams': _hp(m, ev0, mem)})
    resolved[mem] = fn_name(r) if fn_name(r) in factor_fns else None
  ok = bool(resolved) and all(v is not None for v in resolved.values()) and len(set(resolved.values())) == len(resolved)
  ctx.ob('C16.O1', fi.short, 'factor table covers every sketched algorithm', ok,
         f'every Algorithm member other than OGD / ADA must select its own factor function through _fd_method_factors; resolved {resolved}', ctx.loc(fi),
         sample=f'{sorted(members)} = OGD, ADA + {sorted(resolved)}')
  want = {'OGD': ('_ogd_init_fn', '_ogd_update_fn'), 'ADA': ('_diag_adagrad_init_fn', '_diag_adagrad_update_fn')}
  for mem in members:
    evg = evaluator(m, opaque={'_ogd_init_fn', '_ogd_update_fn', '_diag_adagrad_init_fn', '_diag_adagrad_update_fn', '_fd_init_fn', '_fd_update_fn'})
    hp = _hp(m, ev0, mem)
    r = evg.run(fg, args={'hparams': hp})
    ok = r.op == 'tuple' and len(r.args) == 2 and all(x.op in ('closure', 'partial', 'bound') for x in r.args)
    if ok:
      i_t = evg.call(r.args[0], [], {}, None, None)
      u_t = evg.call(r.args[1], [sym('spec', 's'), sym('spec', 'l'), sym('spec', 'g')], {}, None, None)
      wi, wu = want.get(mem, ('_fd_init_fn', '_fd_update_fn'))
      ok = fn_name(i_t) == wi and fn_name(u_t) == wu and i_t.args[1][1] is hp and u_t.args[1][3] is hp and \
          u_t.args[1][0] is sym('spec', 's') and u_t.args[1][2] is sym('spec', 'g')
    ctx.ob('C16.O1', fg.short, f'{mem} bound to its init/update', ok,
           f'generate_init_update must bind {mem} to {want.get(mem, ("_fd_init_fn", "_fd_update_fn"))} with (w_shape, hparams) / (state, loss, grad, hparams)', ctx.loc(fg),
           sample=f'{mem} -> {want.get(mem, ("_fd_init_fn", "_fd_update_fn"))}')
  # factor functions
  cmpr = Comparer()
  names = {'RFD_SON': '_rfd', 'FD_SON': '_fdson', 'ADA_FD': '_adafd', 'S_ADA': '_sada'}
  for alg, fname in names.items():
    ff = m.func(OM, fname)
    ctx.analysed(ff)
    evf = evaluator(m)
    hp = _hp(m, ev0, alg)
    st = sym('param', ff.short, 'state')
    r = evf.run(ff, args={'hparams': hp})
    ok = r.op == 'tuple' and len(r.args) == 4
    if ok:
      spec = FACTORS[alg]
      env = {'t1': evf.subscript(st, const('t')), 'lr': sym('hp', 'lr')}
      ok = cmpr.same(r.args[0], spec_term(evf, spec['sketch'], env)) and is_const(r.args[1], spec['alpha']) and \
          cmpr.same(r.args[2], spec_term(evf, spec['lr'], env))
      if spec['inv'] is None:
        ok = ok and r.args[3].op == 'const' and isinstance(cval(r.args[3]), str)
      else:
        ok = ok and r.args[3] is spec_term(evf, spec['inv'], env)
    ctx.ob('C16.O1', ff.short, f'{alg} factors', ok,
           f'{alg} must use (sketch factor {FACTORS[alg]["sketch"]}, alpha factor {FACTORS[alg]["alpha"]}, lr {FACTORS[alg]["lr"]}, inversion {FACTORS[alg]["inv"]}); got `{show(r, maxdepth=4)[:200]}`',
           ctx.loc(ff), sample=f'{alg}: {FACTORS[alg]}')
  # table maps members to their own function
  evt = evaluator(m, opaque=set(names.values()))
  for alg, fname in names.items():
    hp = _hp(m, ev0, alg)
    r = evt.run(fi, args={'hparams': hp})
    ctx.ob('C16.O1', fi.short, f'table[{alg}] = {fname}()', fn_name(r) == fname, f'the factor table must map {alg} to {fname}(state, hparams); got `{show(r, maxdepth=3)[:120]}`',
           ctx.loc(fi), sample=f'{alg}: {fname}')


def fd_bookkeeping(ctx):
  m = ctx.model
  fi = m.func(OM, '_fd_update_fn')
  f0 = m.func(OM, '_fd_init_fn')
  ctx.analysed(fi, f0)
  ev0 = evaluator(m)
  cmpr = Comparer()
  for alg, spec in FACTORS.items():
    hp = _hp(m, ev0, alg)
    ev = evaluator(m)
    st0 = sym('param', fi.short, 'state')
    G = sym('param', fi.short, 'grad')
    r = ev.run(fi, args={'hparams': hp})
    ctx.evaluations += 1
    new = {k: ev.subscript(r, const(k)) for k in ('P', 'e', 'alpha', 'w', 't')}
    svds = [x for x in walk(new['e']) if is_ext_call(x, 'jax.numpy.linalg.svd')]
    ctx.need('C16.O2', len(set(svds)), 1, 'svd in _fd_update_fn')
    S = svds[0]
    from ..lib import kwarg
    fm = kwarg(S, 'full_matrices')
    ctx.ob('C16.O2', fi.short, f'thin SVD [{alg}]', fm is not None and is_const(fm, False),
           'the sketch must be refreshed from the THIN SVD (full_matrices=False): with the full one `vt` is n x n and the stored directions change shape', ctx.loc(fi),
           sample='jnp.linalg.svd(B, full_matrices=False)')
    old = lambda k: ev.subscript(st0, const(k))
    env = {'s': T('sub', S, const(1)), 'vt': T('sub', S, const(2)), 'g': G, 'alpha0': old('alpha'), 'w0': old('w'), 't0': old('t'),
           'P0': old('P'), 'e0': old('e'), 'lr': sym('hp', 'lr')}
    env['t1'] = spec_term(ev, 't0 + 1.0', env)
    ctx.ob('C16.O2', fi.short, f't\' = t + 1 [{alg}]', cmpr.same(new['t'], env['t1']), f'round counter must advance by one; got `{cmpr.fmt(new["t"])}`', ctx.loc(fi), sample='t += 1')
    B = S.args[1][0]
    # e is a vector: e.reshape(-1, 1), e[:, None] and expand_dims(e, 1) are the same column
    exp_Bs = [spec_term(ev, f"(P0 * {col}).at[-1].set(g.ravel() * ({spec['sketch']}))", env)
              for col in ('e0.reshape(-1, 1)', 'e0[:, None]', 'jnp.expand_dims(e0, 1)')]
    ctx.ob('C16.O2', fi.short, f'sketch input [{alg}]', any(cmpr.same(B, eb) for eb in exp_Bs),
           f'the factored matrix must be P * e with the LAST row set to g * {spec["sketch"]}; got `{cmpr.fmt(B)[:240]}`', ctx.loc(fi),
           sample=f'B = (P e).at[-1].set(g * {spec["sketch"]})')
    exp_alpha = spec_term(ev, f'alpha0 + {spec["alpha"]} * s[-1] ** 2', env)
    ctx.ob('C16.O2', fi.short, f'alpha\' = alpha + {spec["alpha"]} * rho^2 [{alg}]', cmpr.same(new['alpha'], exp_alpha),
           f'the diagonal term must grow by {spec["alpha"]} * rho^2 with rho = s[-1] (escaped mass = squared last singular value); got `{cmpr.fmt(new["alpha"])[:240]}`',
           ctx.loc(fi), sample=f'alpha += {spec["alpha"]} * s[-1]^2')
    env['alpha1'] = new['alpha']
    env['sd'] = spec_term(ev, '(s - s[-1]) * (s + s[-1])', env)
    env['e1'] = new['e']
    mm = 'jnp.dot'
    if spec['inv'] is None:
      upd = (f"(g.ravel() - {mm}(vt.T, (e1 / (alpha1 + e1)) * {mm}(vt, g.ravel()))) * jnp.where(alpha1 <= 0.0, 0.0, jnp.reciprocal(alpha1))")
    else:
      inv = spec['inv']
      si = lambda x: f'jnp.where({x} <= 0.0, 0.0, {inv}({x}))'
      upd = (f"{mm}(vt.T, {si('(alpha1 + sd)')} * {mm}(vt, g.ravel())) + {si('alpha1')} * (g.ravel() - {mm}(vt.T, {mm}(vt, g.ravel())))")
    exp_w = spec_term(ev, f"w0 - ({spec['lr']}) * ({upd}).reshape(w0.shape)", env)
    ctx.ob('C16.O2', fi.short, f'iterate [{alg}]', cmpr.same(new['w'], exp_w),
           f'{alg} iterate must be w - lr * (' + ('(g - P^T (e/(alpha+e)) P g) / alpha' if spec['inv'] is None else
                                                 'P^T inv(alpha + s_defl) P g + inv(alpha) (g - P^T P g)') +
           f') with safe inverse where(x <= 0, 0, inv(x)); got `{cmpr.fmt(new["w"])[:300]}`', ctx.loc(fi), sample=f'{alg} iterate')
  # init: alpha_0 = delta, zero sketch
  ev = evaluator(m)
  hp = _hp(m, ev0, 'S_ADA')
  r = ev.run(f0, args={'hparams': hp})
  a0 = ev.subscript(r, const('alpha'))
  ok = is_ext_call(a0, 'jax.numpy.array') and a0.args[1][0] is sym('hp', 'delta')
  ctx.ob('C16.O2', f0.short, 'alpha_0 = delta', ok, f'the diagonal term must start at hparams.delta; got `{show(a0, maxdepth=3)}`', ctx.loc(f0), sample='alpha_0 = delta')
  for k in ('P', 'e', 'w'):
    z = ev.subscript(r, const(k))
    ctx.ob('C16.O2', f0.short, f'{k}_0 = 0', is_ext_call(z, 'jax.numpy.zeros'), f'`{k}` must start at zero; got `{show(z, maxdepth=3)[:80]}`', ctx.loc(f0), sample=f'{k}_0 = zeros', trivial=True)
  eshape = ev.subscript(r, const('P'))
  ok = eshape.args[1][0].op == 'tuple' and eshape.args[1][0].args[0] is sym('hp', 'sketch_size')
  ctx.ob('C16.O2', f0.short, 'sketch has sketch_size rows', ok, 'P must be (sketch_size, grad_size)', ctx.loc(f0), sample='P: (sketch_size, n)', trivial=True)


def closed_forms(ctx):
  m = ctx.model
  ev0 = evaluator(m)
  cmpr = Comparer()
  fo = m.func(OM, '_ogd_update_fn')
  fa = m.func(OM, '_diag_adagrad_update_fn')
  fa0 = m.func(OM, '_diag_adagrad_init_fn')
  fo0 = m.func(OM, '_ogd_init_fn')
  ctx.analysed(fo, fa, fa0, fo0)
  hp = _hp(m, ev0, 'OGD')
  ev = evaluator(m, decide=Decider(extra=lambda c: True if c.op == 'cmp' and c.args[0] == '==' and 'shape' in show(c, maxdepth=4) else None))
  r = ev.run(fo, args={'hparams': hp})
  st = sym('param', fo.short, 'state')
  G = sym('param', fo.short, 'grad')
  env = {'w0': ev.subscript(st, const('w')), 't0': ev.subscript(st, const('t')), 'g': G, 'lr': sym('hp', 'lr'), 'delta': sym('hp', 'delta')}
  ctx.ob('C16.O3', fo.short, 'OGD t\' = t + 1', cmpr.same(ev.subscript(r, const('t')), spec_term(ev, 't0 + 1.0', env)), 'OGD round counter must advance by one', ctx.loc(fo), sample='t += 1')
  ctx.ob('C16.O3', fo.short, 'OGD iterate', cmpr.same(ev.subscript(r, const('w')), spec_term(ev, 'w0 - lr * g * jax.lax.rsqrt((t0 + 1.0) + delta)', env)),
         f'OGD must be w - lr * g / sqrt(t + delta) with the incremented t; got `{cmpr.fmt(ev.subscript(r, const("w")))[:200]}`', ctx.loc(fo), sample='w -= lr g rsqrt(t\' + delta)')
  hp = _hp(m, ev0, 'ADA')
  ev = evaluator(m)
  r = ev.run(fa, args={'hparams': hp})
  st = sym('param', fa.short, 'state')
  G = sym('param', fa.short, 'grad')
  env = {'w0': ev.subscript(st, const('w')), 'h0': ev.subscript(st, const('diag_h')), 'g': G, 'lr': sym('hp', 'lr')}
  ctx.ob('C16.O3', fa.short, 'AdaGrad h\' = h + g^2', cmpr.same(ev.subscript(r, const('diag_h')), spec_term(ev, 'h0 + g ** 2', env)),
         f'diagonal AdaGrad accumulator must be h + g^2; got `{cmpr.fmt(ev.subscript(r, const("diag_h")))[:160]}`', ctx.loc(fa), sample='h += g^2')
  ctx.ob('C16.O3', fa.short, 'AdaGrad iterate with safe inverse root',
         cmpr.same(ev.subscript(r, const('w')), spec_term(ev, 'w0 - jax.lax.rsqrt(jnp.where((h0 + g ** 2) == 0, 1, h0 + g ** 2)) * g * lr', env)),
         f'diagonal AdaGrad must be w - lr * g * rsqrt(where(h\' == 0, 1, h\')) (zero-gradient coordinates stay finite); got `{cmpr.fmt(ev.subscript(r, const("w")))[:240]}`',
         ctx.loc(fa), sample='w -= lr g rsqrt(where(h == 0, 1, h))')
  r0 = ev.run(fa0, args={'hparams': hp})
  h0 = ev.subscript(r0, const('diag_h'))
  ok = h0.op == 'bin' and h0.args[0] == '*' and any(x is sym('hp', 'delta') for x in (h0.args[1], h0.args[2])) and any(is_ext_call(x, 'jax.numpy.ones') for x in (h0.args[1], h0.args[2]))
  ctx.ob('C16.O3', fa0.short, 'AdaGrad h_0 = delta', ok, f'diagonal AdaGrad must start from delta * ones; got `{show(h0, maxdepth=3)[:100]}`', ctx.loc(fa0), sample='h_0 = delta')
