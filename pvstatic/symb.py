"""Value-graph term -> sympy expression (algebraic normal form of ONE expression).

External calls become uninterpreted functions; casts are transparent; the
result is used to compare a derived value with a documented formula by
cancelling the difference.  This is a computer-algebra canonicaliser, not a
solver over program paths.
"""
from __future__ import annotations

import sympy as sp

from .terms import T, is_const, cval

_TRANSPARENT_METHODS = {'astype', 'to_float', 'copy', 'block_until_ready'}
_TRANSPARENT_EXT = {
    'jax.numpy.asarray', 'jax.numpy.array', 'jax.numpy.float32', 'jax.numpy.float64',
    'jax.lax.stop_gradient', 'numpy.asarray', 'numpy.array', 'jax.numpy.ones_like_identity',
}
_FUNC_ALIASES = {
    'jax.numpy.matmul': 'mm', 'jax.numpy.dot': 'mm',
    'jax.numpy.linalg.norm': 'norm', 'jax.numpy.abs': 'abs_', 'jax.numpy.absolute': 'abs_',
    'jax.numpy.maximum': 'maximum', 'jax.numpy.minimum': 'minimum',
    'jax.numpy.max': 'amax', 'jax.numpy.min': 'amin', 'jax.numpy.sum': 'asum',
    'jax.numpy.mean': 'amean', 'jax.numpy.where': 'where', 'jax.lax.select': 'where',
    'jax.numpy.logical_and': 'land', 'jax.numpy.logical_or': 'lor',
    'jax.numpy.logical_not': 'lnot', 'jax.numpy.isnan': 'isnan',
    'jax.numpy.sign': 'sign', 'jax.numpy.ones_like': 'ones_like',
    'jax.numpy.zeros_like': 'zeros_like', 'jax.numpy.eye': 'eye', 'jax.numpy.diag': 'diag',
    'jax.numpy.round': 'round_', 'jax.numpy.rint': 'round_', 'jax.numpy.around': 'round_',
    'jax.numpy.floor': 'floor_', 'jax.numpy.trunc': 'trunc_', 'jax.numpy.ceil': 'ceil_',
    'jax.numpy.tensordot': 'tensordot', 'jax.numpy.einsum': 'einsum',
    'jax.numpy.greater': 'gt_f', 'jax.numpy.transpose': 'transpose',
    'jax.numpy.reshape': 'reshape', 'jax.numpy.concatenate': 'concatenate',
    'jax.numpy.linalg.svd': 'svd', 'jax.numpy.linalg.eigh': 'eigh', 'jax.numpy.linalg.qr': 'qr',
    'jax.numpy.flip': 'flip', 'jax.numpy.roll': 'roll', 'jax.numpy.log1p': 'log1p',
    'jax.numpy.expm1': 'expm1', 'jax.numpy.exp': 'exp', 'jax.numpy.log': 'log',
    'jax.numpy.reciprocal': 'reciprocal',
}
_KW_IGNORED = {'precision', 'dtype'}


class Symb:
  """Converter with a per-instance table for opaque sub-terms."""

  def __init__(self, leaf=None, transparent_calls=(), call_alias=None, positive=()):
    self.leaf = leaf            # optional callable(term) -> sympy or None
    self.transparent_calls = set(transparent_calls)   # repo fn short names treated as identity on arg 0
    self.call_alias = dict(call_alias or {})
    self.opaque = {}
    self.memo = {}
    self.positive = set(positive)

  def symbol(self, name):
    return sp.Symbol(name, real=True)

  def opaque_sym(self, t, hint='o'):
    if t not in self.opaque:
      self.opaque[t] = sp.Symbol(f'{hint}{len(self.opaque)}_{t.op}', real=True)
    return self.opaque[t]

  def f(self, name, *args):
    return sp.Function(name)(*args)

  def conv(self, t):
    if t in self.memo:
      return self.memo[t]
    r = self._conv(t)
    self.memo[t] = r
    return r

  def _conv(self, t):
    if self.leaf is not None:
      r = self.leaf(t)
      if r is not None:
        return r
    op, a = t.op, t.args
    if op == 'const':
      v = a[1]
      if isinstance(v, bool):
        return sp.true if v else sp.false
      if isinstance(v, int):
        return sp.Integer(v)
      if isinstance(v, float):
        return sp.nsimplify(v, rational=True) if abs(v) < 1e6 and v == v else sp.Float(v)
      if v is None:
        return sp.Symbol('None_')
      return sp.Symbol(f'const_{v!r}')
    if op == 'sym':
      return self.symbol('.'.join(str(x) for x in a[1:]))
    if op == 'attr':
      base = a[0]
      if a[1] in ('T',):
        return self.f('transpose', self.conv(base))
      if a[1] == 'ndim':
        return self.f('py_len', self.conv(T('attr', base, 'shape')))       # x.ndim is len(x.shape)
      path = self._path(t)
      if path is not None:
        return self.symbol(path)
      return self.f('attr_' + a[1], self.conv(base))
    if op == 'enum':
      return sp.Symbol(f'{a[0].split(".")[-1]}.{a[1]}')
    if op == 'ext':
      return sp.Symbol(a[0])
    if op == 'bin':
      o, x, y = a
      if o == '+':
        parts = self._seq_parts(t)
        if parts is not None:
          return self.f('seq_', *parts)        # concatenation of sequences keeps its order
      x, y = self.conv(x), self.conv(y)
      try:
        if o == '+':
          return x + y
        if o == '-':
          return x - y
        if o == '*':
          return x * y
        if o == '/':
          return x / y
        if o == '**':
          return x ** y
      except TypeError:
        return self.f('bin_' + _opname(o), self._as_expr(x), self._as_expr(y))
      if o == '@':
        return self.f('mm', x, y)
      return self.f('bin_' + _opname(o), x, y)
    if op == 'un':
      o, x = a
      x = self.conv(x)
      if o == '-':
        return -x
      if o == '+':
        return x
      return self.f('un_' + _opname(o), x)
    if op == 'cmp':
      o, x, y = a
      x, y = self.conv(x), self.conv(y)
      if o == '>':
        return self.f('lt', y, x)
      if o == '>=':
        return self.f('le', y, x)
      if o == '<':
        return self.f('lt', x, y)
      if o == '<=':
        return self.f('le', x, y)
      if o == '==':
        return self.f('eq', *sorted([x, y], key=sp.default_sort_key))
      if o == '!=':
        return self.f('ne', *sorted([x, y], key=sp.default_sort_key))
      return self.f('cmp_' + _opname(o), x, y)
    if op == 'bool':
      args = [self._as_expr(self.conv(x)) for x in a[1:]]
      return self.f('b' + a[0], *sorted(args, key=sp.default_sort_key))
    if op in ('ite', 'cond'):
      return self.f(op, self._as_expr(self.conv(a[0])), self.conv(a[1]), self.conv(a[2]))
    if op == 'sub':
      ax = _newaxis_position(a[1])
      if ax is not None:
        return self.f('expand_dims', self.conv(a[0]), sp.Integer(ax))       # x[None], x[jnp.newaxis, ...], x[:, None] ...
      return self.f('getitem', self.conv(a[0]), self._as_expr(self.conv(a[1])))
    if op == 'slice':
      return self.f('slice_', *[self._as_expr(self.conv(x)) for x in a])
    if op in ('tuple', 'list'):
      return self.f('seq_', *self._seq_parts(t))
    if op == 'call':
      if a[0].op == 'builtin' and a[0].args[0] in ('tuple', 'list') and len(a[1]) == 1 and not a[2]:
        return self.f('seq_', *self._seq_parts(t))
      return self._call(t)
    if op == 'star' and len(a) == 2 and a[1].op == 'compdom':
      # an element of a comprehension: compared structurally (element expression, iterable, filters)
      return self.f('star_', self._as_expr(self.conv(a[0])), self.f('compdom_', *[self._as_expr(self.conv(x)) for x in a[1].args]))
    if op == 'elem' and len(a) == 1:
      return self.f('elem_', self._as_expr(self.conv(a[0])))
    return self.opaque_sym(t)

  _DOMS = ('compdom', 'loopdom', 'repeat', 'sliceof', 'guarded', 'mapdom', 'filtered', 'loopacc_dom')

  def _seq_parts(self, t):
    """Normal form of python sequences: `(*xs, a)`, `tuple(xs) + (a,)`, `[*xs] + [a]`, `list(xs) + [a]` and
    `[x for x in xs] + [a]` are one sequence seq_(splat_(xs), a).  None when t is not a sequence expression."""
    if t.op in ('tuple', 'list'):
      parts = []
      for e in t.args:
        if e.op == 'star' and len(e.args) == 2:
          dom = e.args[1]
          if dom.op not in self._DOMS:
            parts.append(self.f('splat_', self._as_expr(self.conv(dom))))
            continue
          if dom.op == 'compdom' and len(dom.args) == 1 and self._is_generic_element(e.args[0], dom.args[0]):
            parts.append(self.f('splat_', self._as_expr(self.conv(dom.args[0]))))
            continue
        parts.append(self._as_expr(self.conv(e)))
      return parts
    if t.op == 'call' and t.args[0].op == 'builtin' and t.args[0].args[0] in ('tuple', 'list') and len(t.args[1]) == 1 and not t.args[2]:
      inner = self._seq_parts(t.args[1][0])
      return inner if inner is not None else [self.f('splat_', self._as_expr(self.conv(t.args[1][0])))]
    if t.op == 'bin' and t.args[0] == '+':
      l, r = self._seq_parts(t.args[1]), self._seq_parts(t.args[2])
      if l is not None and r is not None:
        return l + r
    return None

  @staticmethod
  def _is_generic_element(e, it):
    """e is the generic element of the iterable `it` (an identity comprehension)"""
    if e.op == 'elem' and len(e.args) == 1 and e.args[0] is it:
      return True
    if e.op == 'rangevar' and it.op == 'call' and it.args[0].op == 'builtin' and it.args[0].args[0] == 'range':
      return tuple(x for x in e.args if x.op != 'depth') == tuple(it.args[1])
    return False

  def _shape_arg(self, args):
    """x.reshape(a, b), x.reshape((a, b)), jnp.reshape(x, [a, b]) all carry the shape tuple_(a, b)"""
    if len(args) == 1 and args[0].op in ('tuple', 'list') and not any(e.op == 'star' for e in args[0].args):
      args = list(args[0].args)
    elif len(args) == 1:
      return self._as_expr(self.conv(args[0]))
    return self.f('seq_', *[self._as_expr(self.conv(x)) for x in args])

  def _as_expr(self, x):
    if x is sp.true:
      return sp.Symbol('True_')
    if x is sp.false:
      return sp.Symbol('False_')
    return x

  def _path(self, t):
    parts = []
    while t.op == 'attr':
      parts.append(t.args[1])
      t = t.args[0]
    if t.op == 'sym':
      parts.append('.'.join(str(x) for x in t.args[1:]))
      return '.'.join(reversed(parts))
    if t.op in ('leaf', 'elem') and t.args[0].op == 'sym':
      parts.append(t.op + '(' + '.'.join(str(x) for x in t.args[0].args[1:]) + ')')
      return '.'.join(reversed(parts))
    return None

  def _call(self, t):
    f, args, kwargs = t.args
    kw = [(k, v) for k, v in kwargs if k not in _KW_IGNORED]
    # method calls
    if f.op == 'attr':
      recv, name = f.args
      if name in _TRANSPARENT_METHODS:
        return self.conv(recv)
      if name in ('dot',):
        return self.f('mm', self.conv(recv), *[self.conv(x) for x in args])
      if name == 'reshape' and args:
        return self.f('reshape', self.conv(recv), self._shape_arg(args))
      if name == 'transpose' and not args and not kw:
        return self.f('transpose', self.conv(recv))
      if name in ('sum', 'mean', 'max', 'min', 'reshape', 'transpose', 'ravel', 'any', 'all'):
        nm = {'sum': 'asum', 'mean': 'amean', 'max': 'amax', 'min': 'amin'}.get(name, name)
        return self.f(nm, self.conv(recv), *[self._as_expr(self.conv(x)) for x in args],
                      *[self.f('kw_' + k, self._as_expr(self.conv(v))) for k, v in kw])
      return self.f('m_' + name, self.conv(recv), *[self._as_expr(self.conv(x)) for x in args],
                    *[self.f('kw_' + k, self._as_expr(self.conv(v))) for k, v in kw])
    if f.op == 'ext':
      d = f.args[0]
      if d in _TRANSPARENT_EXT and args:
        return self.conv(args[0])
      if d in ('jax.numpy.sqrt',) and len(args) == 1:
        return sp.sqrt(self.conv(args[0]))
      if d in ('jax.lax.rsqrt',) and len(args) == 1:
        return 1 / sp.sqrt(self.conv(args[0]))
      if d in ('jax.numpy.square',) and len(args) == 1:
        return self.conv(args[0]) ** 2
      if d in ('jax.numpy.power',) and len(args) == 2:
        return self.conv(args[0]) ** self.conv(args[1])
      if d in ('jax.numpy.reciprocal',) and len(args) == 1:
        return 1 / self.conv(args[0])
      if d in ('jax.numpy.multiply',) and len(args) == 2:
        return self.conv(args[0]) * self.conv(args[1])
      if d in ('jax.numpy.add',) and len(args) == 2:
        return self.conv(args[0]) + self.conv(args[1])
      if d in ('jax.numpy.subtract',) and len(args) == 2:
        return self.conv(args[0]) - self.conv(args[1])
      if d in ('jax.numpy.divide', 'jax.numpy.true_divide') and len(args) == 2:
        return self.conv(args[0]) / self.conv(args[1])
      if d in ('jax.numpy.zeros_like', 'numpy.zeros_like') and len(args) == 1:
        return sp.Integer(0)          # as a value: zero (shape is not part of the normal form)
      if d in ('jax.numpy.ones_like', 'numpy.ones_like') and len(args) == 1:
        return sp.Integer(1)
      if d in ('jax.numpy.reshape', 'numpy.reshape') and len(args) == 2:
        return self.f('reshape', self.conv(args[0]), self._shape_arg([args[1]]))
      if d in ('jax.numpy.expand_dims', 'numpy.expand_dims') and len(args) == 2 and args[1].op == 'const' and isinstance(cval(args[1]), int) and not isinstance(cval(args[1]), bool):
        return self.f('expand_dims', self.conv(args[0]), sp.Integer(cval(args[1])))
      if d in ('jax.numpy.equal', 'jax.numpy.not_equal') and len(args) == 2:
        return self.f('eq' if d.endswith('.equal') else 'ne', *sorted([self.conv(args[0]), self.conv(args[1])], key=sp.default_sort_key))
      if d in ('jax.numpy.mod', 'jax.numpy.remainder') and len(args) == 2:
        return self.conv(T('bin', '%', args[0], args[1]))
      if d in ('jax.numpy.floor_divide',) and len(args) == 2:
        return self.conv(T('bin', '//', args[0], args[1]))
      if d in ('jax.numpy.negative',) and len(args) == 1:
        return -self.conv(args[0])
      if d in ('jax.numpy.greater',) and len(args) == 2:
        return self.f('lt', self.conv(args[1]), self.conv(args[0]))
      if d in ('jax.numpy.greater_equal',) and len(args) == 2:
        return self.f('le', self.conv(args[1]), self.conv(args[0]))
      if d in ('jax.numpy.less',) and len(args) == 2:
        return self.f('lt', self.conv(args[0]), self.conv(args[1]))
      if d in ('jax.numpy.less_equal',) and len(args) == 2:
        return self.f('le', self.conv(args[0]), self.conv(args[1]))
      if d in ('jax.numpy.logical_and', 'jax.numpy.logical_or'):
        nm = 'band' if d.endswith('and') else 'bor'
        flat = []
        for x in args:
          cx = self._as_expr(self.conv(x))
          if getattr(cx, 'func', None) is not None and str(cx.func) == nm:
            flat.extend(cx.args)
          else:
            flat.append(cx)
        return self.f(nm, *sorted(set(flat), key=sp.default_sort_key))
      name = _FUNC_ALIASES.get(d, d.replace('.', '_'))
      return self.f(name, *[self._as_expr(self.conv(x)) for x in args],
                    *[self.f('kw_' + k, self._as_expr(self.conv(v))) for k, v in kw])
    if f.op == 'fn':
      short = f.args[0].split('.')[-1]
      if short in self.transparent_calls and args:
        return self.conv(args[0])
      name = self.call_alias.get(short, 'fn_' + short)
      return self.f(name, *[self._as_expr(self.conv(x)) for x in args],
                    *[self.f('kw_' + k, self._as_expr(self.conv(v))) for k, v in kw])
    if f.op == 'builtin':
      if f.args[0] == 'float' and len(args) == 1:
        return self.conv(args[0])
      return self.f('py_' + f.args[0], *[self._as_expr(self.conv(x)) for x in args])
    if f.op in ('sym', 'attr', 'sub'):
      return self.f('call_', self.conv(f), *[self._as_expr(self.conv(x)) for x in args])
    return self.opaque_sym(t)


def _is_newaxis(t):
  return (t.op == 'const' and cval(t) is None) or (t.op == 'ext' and t.args[0] in ('jax.numpy.newaxis', 'numpy.newaxis'))


def _is_full(t):
  if t.op == 'slice':
    return all(x.op == 'const' and cval(x) is None for x in t.args)
  return t.op == 'const' and cval(t) is Ellipsis


def _newaxis_position(idx):
  """axis inserted by an index made of one None / newaxis and otherwise full slices / an ellipsis after it; else None"""
  if _is_newaxis(idx):
    return 0
  if idx.op != 'tuple':
    return None
  items = list(idx.args)
  news = [i for i, x in enumerate(items) if _is_newaxis(x)]
  if len(news) != 1:
    return None
  k = news[0]
  before, after = items[:k], items[k + 1:]
  if not all(_is_full(x) for x in after):
    return None
  if all(x.op == 'slice' and _is_full(x) for x in before):
    return k
  # x[..., None, :]: counted from the end (an ellipsis before the new axis): position -(len(after) + 1)
  if len(before) == 1 and before[0].op == 'const' and cval(before[0]) is Ellipsis and all(x.op == 'slice' for x in after):
    return -(len(after) + 1)
  return None


def _opname(o):
  return {'//': 'floordiv', '%': 'mod', '&': 'and', '|': 'or', '^': 'xor', '~': 'inv',
          'not': 'not', 'is': 'is', 'is not': 'isnot', 'in': 'in', 'not in': 'notin',
          '<<': 'shl', '>>': 'shr', '@': 'mm'}.get(o, 'op')


def equal(e1, e2):
  """Decide e1 == e2 as rational expressions over uninterpreted atoms."""
  if e1 == e2:
    return True
  try:
    d = e1 - e2
    if d == 0:
      return True
    d = sp.expand(d)
    if d == 0:
      return True
    n = sp.count_ops(d)
    if n < 600:
      d2 = sp.cancel(sp.together(d))
      if d2 == 0:
        return True
      if n < 120:
        return sp.simplify(d2) == 0
    return False
  except Exception:
    return False
