"""Source model of /repo: modules, functions, classes, scopes (pure ast, nothing imported)."""
from __future__ import annotations

import ast
import hashlib
import os


class AnalysisError(Exception):
  """The checker cannot analyse something it must (missing anchor, unknown construct)."""


class FuncInfo:
  def __init__(self, node, fq, module, parent, cls):
    self.node = node
    self.fq = fq
    self.module = module
    self.parent = parent          # FuncInfo of lexically enclosing function or None
    self.cls = cls                # ClassInfo if a method
    self.locals = _local_names(node)
    self.children = {}            # name -> FuncInfo for directly nested defs

  @property
  def name(self):
    return self.node.name if hasattr(self.node, 'name') else '<lambda>'

  @property
  def short(self):
    # qualname inside module
    return self.fq[len(self.module.name) + 1:]

  def __repr__(self):
    return f'<Func {self.fq}>'


class ClassInfo:
  def __init__(self, node, fq, module):
    self.node = node
    self.fq = fq
    self.module = module
    self.methods = {}
    self.fields = []       # [(name, default_expr or None, annotation)]
    self.decorators = [ast.unparse(d) for d in node.decorator_list]
    self.bases = [ast.unparse(b) for b in node.bases]

  @property
  def name(self):
    return self.node.name

  @property
  def is_enum(self):
    return any('Enum' in b for b in self.bases)

  @property
  def is_record(self):
    return (any('NamedTuple' in b for b in self.bases) or
            any('dataclass' in d for d in self.decorators))

  @property
  def is_namedtuple(self):
    return any('NamedTuple' in b for b in self.bases)

  def static_fields(self):
    """Fields declared struct.field(pytree_node=False)."""
    out = []
    for name, default, _ in self.fields:
      if default is not None and isinstance(default, ast.Call):
        for kw in default.keywords:
          if kw.arg == 'pytree_node' and isinstance(kw.value, ast.Constant) and kw.value.value is False:
            out.append(name)
    return out


class ModuleInfo:
  def __init__(self, name, path, source):
    self.name = name
    self.path = path
    self.source = source
    self.tree = ast.parse(source, filename=path)
    self.functions = {}   # short qualname -> FuncInfo
    self.classes = {}     # short qualname -> ClassInfo
    self.top_funcs = {}
    self.digest = hashlib.sha256(source.encode()).hexdigest()[:16]


def _local_names(fn):
  """Names that are local to function node fn (python scoping rules)."""
  names = set()
  declared_nonlocal = set()
  if isinstance(fn, ast.Lambda):
    a = fn.args
    for x in a.posonlyargs + a.args + a.kwonlyargs:
      names.add(x.arg)
    if a.vararg:
      names.add(a.vararg.arg)
    if a.kwarg:
      names.add(a.kwarg.arg)
    # walrus inside lambda is rare; ignore
    return names
  a = fn.args
  for x in a.posonlyargs + a.args + a.kwonlyargs:
    names.add(x.arg)
  if a.vararg:
    names.add(a.vararg.arg)
  if a.kwarg:
    names.add(a.kwarg.arg)

  def targets(t):
    if isinstance(t, ast.Name):
      names.add(t.id)
    elif isinstance(t, (ast.Tuple, ast.List)):
      for e in t.elts:
        targets(e)
    elif isinstance(t, ast.Starred):
      targets(t.value)

  def visit(stmts):
    for s in stmts:
      if isinstance(s, (ast.FunctionDef, ast.AsyncFunctionDef, ast.ClassDef)):
        names.add(s.name)
        continue
      if isinstance(s, ast.Assign):
        for t in s.targets:
          targets(t)
      elif isinstance(s, (ast.AugAssign, ast.AnnAssign)):
        targets(s.target)
      elif isinstance(s, (ast.For, ast.AsyncFor)):
        targets(s.target)
        visit(s.body)
        visit(s.orelse)
      elif isinstance(s, ast.While):
        visit(s.body)
        visit(s.orelse)
      elif isinstance(s, ast.If):
        visit(s.body)
        visit(s.orelse)
      elif isinstance(s, (ast.With, ast.AsyncWith)):
        for it in s.items:
          if it.optional_vars is not None:
            targets(it.optional_vars)
        visit(s.body)
      elif isinstance(s, ast.Try):
        visit(s.body)
        for h in s.handlers:
          if h.name:
            names.add(h.name)
          visit(h.body)
        visit(s.orelse)
        visit(s.finalbody)
      elif isinstance(s, (ast.Import, ast.ImportFrom)):
        for al in s.names:
          names.add((al.asname or al.name).split('.')[0])
      elif isinstance(s, (ast.Global, ast.Nonlocal)):
        declared_nonlocal.update(s.names)
      # walrus
      for n in ast.walk(s) if not isinstance(s, (ast.For, ast.While, ast.If, ast.With, ast.Try)) else []:
        if isinstance(n, ast.NamedExpr):
          targets(n.target)
  visit(fn.body)
  return names - declared_nonlocal


class Model:
  """All non-test modules of the package under <repo>/precondition."""

  def __init__(self, repo='/repo', package='precondition'):
    self.repo = repo
    self.package = package
    self.modules = {}
    self.functions = {}   # fq -> FuncInfo
    self.classes = {}     # fq -> ClassInfo
    root = os.path.join(repo, package)
    if not os.path.isdir(root):
      raise AnalysisError(f'package directory missing: {root}')
    for dirpath, dirnames, filenames in os.walk(root):
      dirnames.sort()
      for fn in sorted(filenames):
        if not fn.endswith('.py') or fn.endswith('_test.py'):
          continue
        path = os.path.join(dirpath, fn)
        rel = os.path.relpath(path, repo)[:-3].replace(os.sep, '.')
        if rel.endswith('.__init__'):
          rel = rel[:-9]
        with open(path, encoding='utf-8') as f:
          src = f.read()
        try:
          mi = ModuleInfo(rel, path, src)
        except SyntaxError as e:
          raise AnalysisError(f'cannot parse {path}: {e}')
        self.modules[rel] = mi
        self._index(mi)

  def _index(self, mi):
    def rec(stmts, prefix, parent_fn, cls):
      for s in stmts:
        if isinstance(s, (ast.FunctionDef, ast.AsyncFunctionDef)):
          short = prefix + s.name
          fi = FuncInfo(s, mi.name + '.' + short, mi, parent_fn, cls)
          mi.functions[short] = fi
          self.functions[fi.fq] = fi
          if parent_fn is not None:
            parent_fn.children[s.name] = fi
          if cls is not None and parent_fn is None:
            cls.methods[s.name] = fi
          rec(s.body, short + '.', fi, None)
        elif isinstance(s, ast.ClassDef):
          short = prefix + s.name
          ci = ClassInfo(s, mi.name + '.' + short, mi)
          mi.classes[short] = ci
          self.classes[ci.fq] = ci
          for b in s.body:
            if isinstance(b, ast.AnnAssign) and isinstance(b.target, ast.Name):
              ci.fields.append((b.target.id, b.value, b.annotation))
            elif isinstance(b, ast.Assign) and len(b.targets) == 1 and isinstance(b.targets[0], ast.Name):
              ci.fields.append((b.targets[0].id, b.value, None))
          rec(s.body, short + '.', None, ci)
        elif isinstance(s, (ast.If, ast.For, ast.While, ast.With, ast.Try)):
          for fld in ('body', 'orelse', 'finalbody'):
            rec(getattr(s, fld, []) or [], prefix, parent_fn, cls)
          for h in getattr(s, 'handlers', []) or []:
            rec(h.body, prefix, parent_fn, cls)
    rec(mi.tree.body, '', None, None)

  # ---- lookups ----
  def module(self, short):
    """Module by dotted name relative to the package (e.g. 'tearfree.shampoo')."""
    name = self.package + ('.' + short if short else '')
    if name not in self.modules:
      raise AnalysisError(f'anchor module missing: {name}')
    return self.modules[name]

  def func(self, module_short, qual):
    mi = self.module(module_short)
    if qual not in mi.functions:
      raise AnalysisError(f'anchor function missing: {mi.name}.{qual}')
    return mi.functions[qual]

  def has_func(self, module_short, qual):
    name = self.package + ('.' + module_short if module_short else '')
    return name in self.modules and qual in self.modules[name].functions

  def cls(self, module_short, qual):
    mi = self.module(module_short)
    if qual not in mi.classes:
      raise AnalysisError(f'anchor class missing: {mi.name}.{qual}')
    return mi.classes[qual]

  def find_funcs(self, name):
    """All functions whose simple name is `name`."""
    return [f for f in self.functions.values() if f.name == name]

  def digest(self):
    h = hashlib.sha256()
    for k in sorted(self.modules):
      h.update(k.encode())
      h.update(self.modules[k].digest.encode())
    return h.hexdigest()[:16]

  def loc(self, fi_or_module, node):
    mi = fi_or_module.module if isinstance(fi_or_module, FuncInfo) else fi_or_module
    return f'{os.path.relpath(mi.path, self.repo)}:{getattr(node, "lineno", 0)}'
