"""Hash-consed value-graph terms.

A term is an immutable node ``T(op, *args)``; structurally equal terms are the
same Python object, so equality/hash are identity based and global value
numbering comes for free.  ``args`` may contain terms, python scalars, strings
and (nested) tuples of those.
"""
from __future__ import annotations


class T:
  __slots__ = ('op', 'args', 'loc', '_hash', '__weakref__')
  _table: dict = {}

  def __new__(cls, op, *args, loc=None):
    key = (op,) + args
    try:
      got = cls._table.get(key)
    except TypeError:
      raise TypeError(f'unhashable term args for op {op}: {args!r}')
    if got is not None:
      if got.loc is None and loc is not None:
        got.loc = loc
      return got
    self = object.__new__(cls)
    self.op = op
    self.args = args
    self.loc = loc
    self._hash = hash(key)
    cls._table[key] = self
    return self

  def __hash__(self):
    return self._hash

  def __eq__(self, other):
    return self is other

  def __ne__(self, other):
    return self is not other

  def __repr__(self):
    return show(self)

  def __reduce__(self):
    return (T, (self.op,) + self.args)


def is_t(x):
  return isinstance(x, T)


# ---- constructors -----------------------------------------------------------

def const(v, loc=None):
  # keep python type in the key so that 1, 1.0 and True stay distinct
  return T('const', type(v).__name__, v, loc=loc)


def cval(t):
  return t.args[1]


def is_const(t, *vals):
  if not (isinstance(t, T) and t.op == 'const'):
    return False
  if not vals:
    return True
  return any(type(t.args[1]) is type(v) and t.args[1] == v or
             (not isinstance(v, bool) and not isinstance(t.args[1], bool)
              and isinstance(v, (int, float)) and isinstance(t.args[1], (int, float))
              and t.args[1] == v)
             for v in vals)


NONE = const(None)
TRUE = const(True)
FALSE = const(False)


def sym(kind, *name, loc=None):
  return T('sym', kind, *name, loc=loc)


def ext(dotted):
  return T('ext', dotted)


def unknown(reason, *extra, loc=None):
  return T('unknown', reason, *extra, loc=loc)


_NEG_EXT = ('jax.numpy.logical_not', 'jax.numpy.invert', 'jax.numpy.bitwise_not', 'numpy.logical_not', 'numpy.invert')


def _explicit_negation(c):
  if c.op == 'un' and c.args[0] in ('not', '~'):
    return c.args[1]
  if c.op == 'call' and c.args[0].op == 'ext' and c.args[0].args[0] in _NEG_EXT and len(c.args[1]) == 1 and not c.args[2]:
    return c.args[1][0]
  # a strict ordering test is the negation of the non-strict one the other way round (the normal form strip_negation uses)
  if c.op == 'cmp' and len(c.args) == 3 and c.args[0] in ('<', '>'):
    op, a, b = c.args
    return T('cmp', '>=', a, b) if op == '<' else T('cmp', '>=', b, a)
  if c.op == 'call' and c.args[0].op == 'ext' and c.args[0].args[0] in ('jax.numpy.less', 'jax.numpy.greater', 'numpy.less', 'numpy.greater') and \
      len(c.args[1]) == 2 and not c.args[2]:
    a, b = c.args[1]
    return T('cmp', '>=', a, b) if c.args[0].args[0].endswith('less') else T('cmp', '>=', b, a)
  return None


def _de_morgan(c):
  if c.op == 'call' and c.args[0].op == 'ext' and len(c.args[1]) == 2 and not c.args[2]:
    name = c.args[0].args[0]
    dual = {'jax.numpy.logical_and': 'jax.numpy.logical_or', 'jax.numpy.logical_or': 'jax.numpy.logical_and',
            'numpy.logical_and': 'numpy.logical_or', 'numpy.logical_or': 'numpy.logical_and'}.get(name)
    if dual is not None:
      inner = [_explicit_negation(x) for x in c.args[1]]
      if all(x is not None for x in inner):
        return T('call', T('ext', dual), tuple(inner), ())
  if c.op == 'bin' and c.args[0] in ('&', '|'):
    inner = [_explicit_negation(x) for x in c.args[1:]]
    if all(x is not None for x in inner):
      return T('bin', '|' if c.args[0] == '&' else '&', *inner)
  if c.op == 'bool' and c.args[0] in ('and', 'or') and len(c.args) >= 3:
    inner = [_explicit_negation(x) for x in c.args[1:]]
    if all(x is not None for x in inner):
      return T('bool', 'or' if c.args[0] == 'and' else 'and', *inner)
  return None


def strip_negation(c):
  """(c', flipped): c == (not c') when flipped.  Recognises `not x`, `~x`, jnp.logical_not(x), `a != b` and
  jnp.not_equal(a, b) (-> a == b), repeatedly."""
  flipped = False
  while True:
    if c.op == 'un' and c.args[0] in ('not', '~'):
      c, flipped = c.args[1], not flipped
      continue
    if c.op == 'call' and c.args[0].op == 'ext' and c.args[0].args[0] in _NEG_EXT and len(c.args[1]) == 1 and not c.args[2]:
      c, flipped = c.args[1][0], not flipped
      continue
    if c.op == 'cmp' and c.args[0] == '!=' and len(c.args) == 3:
      c, flipped = T('cmp', '==', c.args[1], c.args[2]), not flipped
      continue
    if c.op == 'cmp' and c.args[0] == 'is not' and len(c.args) == 3:
      c, flipped = T('cmp', 'is', c.args[1], c.args[2]), not flipped
      continue
    if c.op == 'call' and c.args[0].op == 'ext' and c.args[0].args[0] in ('jax.numpy.not_equal', 'numpy.not_equal') and len(c.args[1]) == 2 and not c.args[2]:
      c, flipped = T('cmp', '==', c.args[1][0], c.args[1][1]), not flipped
      continue
    # De Morgan: a conjunction (disjunction) whose operands are all explicit negations is the negated disjunction
    # (conjunction) of the operands: and(~a, ~b) == ~or(a, b)
    dm = _de_morgan(c)
    if dm is not None:
      c, flipped = dm, not flipped
      continue
    # ordering tests: the four spellings of one test (a >= b, b <= a, not a < b, not b > a) become `a >= b`
    if c.op == 'cmp' and len(c.args) == 3 and c.args[0] in ('<=', '<', '>'):
      op, a, b = c.args
      if op == '<=':
        c = T('cmp', '>=', b, a)
      elif op == '<':
        c, flipped = T('cmp', '>=', a, b), not flipped
      else:
        c, flipped = T('cmp', '>=', b, a), not flipped
      continue
    return c, flipped


def ite(c, a, b, loc=None):
  if a is b:
    return a
  if is_const(c):
    return a if cval(c) else b
  c2, flipped = strip_negation(c)       # canonical polarity: ite(not c, a, b) == ite(c, b, a)
  if flipped:
    if is_const(c2):
      return b if cval(c2) else a
    return T('ite', c2, b, a, loc=loc)
  return T('ite', c2, a, b, loc=loc)


def tup(*elts):
  return T('tuple', *elts)


def lst(*elts):
  return T('list', *elts)


UNBOUND = T('unbound')


# ---- traversal --------------------------------------------------------------

def children(t):
  """Immediate sub-terms (searching nested tuples in args)."""
  out = []

  def rec(a):
    if isinstance(a, T):
      out.append(a)
    elif isinstance(a, tuple):
      for x in a:
        rec(x)
  for a in t.args:
    rec(a)
  return out


def walk(t, seen=None):
  """All distinct sub-terms of t (pre-order), t included."""
  if seen is None:
    seen = set()
  stack = [t]
  while stack:
    x = stack.pop()
    if x in seen:
      continue
    seen.add(x)
    yield x
    stack.extend(children(x))


def contains(t, pred):
  for x in walk(t):
    if pred(x):
      return True
  return False


def subst(t, mapping, memo=None):
  """Replace sub-terms by mapping (dict term->term), bottom-up."""
  if memo is None:
    memo = {}

  def rec_arg(a):
    if isinstance(a, T):
      return rec(a)
    if isinstance(a, tuple):
      return tuple(rec_arg(x) for x in a)
    return a

  def rec(x):
    if x in mapping:
      return mapping[x]
    if x in memo:
      return memo[x]
    new_args = tuple(rec_arg(a) for a in x.args)
    r = x if all(n is o for n, o in zip(new_args, x.args)) and True else T(x.op, *new_args, loc=x.loc)
    # tuples compare by value, rebuild only when something changed
    if r is not x:
      pass
    memo[x] = r
    return r
  return rec(t)


# ---- printing ---------------------------------------------------------------

def show(t, depth=0, maxdepth=6):
  if not isinstance(t, T):
    if isinstance(t, tuple):
      return '(' + ', '.join(show(x, depth + 1, maxdepth) for x in t) + ')'
    return repr(t)
  if depth > maxdepth:
    return '…'
  op, a = t.op, t.args
  s = lambda x: show(x, depth + 1, maxdepth)
  if op == 'const':
    return repr(a[1])
  if op == 'sym':
    return ':'.join(str(x) for x in a[1:]) if a[0] in ('param', 'cfg') else '<' + ':'.join(str(x) for x in a) + '>'
  if op == 'ext':
    return a[0].replace('jax.numpy', 'jnp')
  if op == 'attr':
    return f'{s(a[0])}.{a[1]}'
  if op == 'call':
    args = [s(x) for x in a[1]] + [f'{k}={s(v)}' for k, v in a[2]]
    return f'{s(a[0])}(' + ', '.join(args) + ')'
  if op == 'bin':
    return f'({s(a[1])} {a[0]} {s(a[2])})'
  if op == 'un':
    return f'({a[0]} {s(a[1])})'
  if op == 'cmp':
    return f'({s(a[1])} {a[0]} {s(a[2])})'
  if op == 'bool':
    return '(' + f' {a[0]} '.join(s(x) for x in a[1:]) + ')'
  if op == 'ite':
    return f'ite({s(a[0])}, {s(a[1])}, {s(a[2])})'
  if op == 'sub':
    return f'{s(a[0])}[{s(a[1])}]'
  if op == 'slice':
    return ':'.join('' if is_const(x, None) else s(x) for x in a)
  if op in ('tuple', 'list'):
    br = '()' if op == 'tuple' else '[]'
    return br[0] + ', '.join(s(x) for x in a) + br[1]
  if op == 'star':
    return f'*[{s(a[0])} for {s(a[1])}]'
  if op == 'closure':
    return f'<fn {a[0]}>'
  if op == 'class':
    return f'<class {a[0]}>'
  if op == 'rec':
    return f'{a[0]}(' + ', '.join(f'{k}={s(v)}' for k, v in a[1]) + ')'
  if op == 'enum':
    return f'{a[0]}.{a[1]}'
  return f'{op}(' + ', '.join(s(x) if isinstance(x, (T, tuple)) else repr(x) for x in a) + ')'
