"""DEG domain: homogeneity degrees of value-graph terms.

Two analyses share one walker:
  * G-degree: degree of homogeneity in the gradient scale.  Leaves: gradient = 1, state slots =
    unknowns x_slot, configuration scalars / epsilons / masks = 0.  Sums, selects and concatenations
    require equal degrees (collected as linear constraints and solved).
  * H-degree ("history" degree): exponent of the decay factor beta carried by the pure-history part of
    a value (what remains when the gradient is set to zero); NOHIST for values without history part.
    A sum joins the history parts of its operands (they must agree), a fresh operand is ignored.
Degrees are sympy expressions (rational numbers, unknowns, symbolic exponents such as -1/p).
"""
from __future__ import annotations

import sympy as sp

from .lib import ext_name, method_name, fn_name, show, path_str
from .symb import Symb
from .terms import T, is_const, cval

NOHIST = 'NOHIST'
ZERO = 'ZERO'      # literal zero: degree-polymorphic


class DegError(Exception):
  pass


class Mismatch(Exception):
  def __init__(self, term, a, b, what):
    super().__init__(what)
    self.term, self.a, self.b, self.what = term, a, b, what


_PRESERVE_EXT = {'jax.numpy.abs', 'jax.numpy.sum', 'jax.numpy.mean', 'jax.numpy.max', 'jax.numpy.min', 'jax.numpy.linalg.norm',
                 'jax.numpy.reshape', 'jax.numpy.transpose', 'jax.numpy.asarray', 'jax.numpy.array', 'jax.numpy.flip',
                 'jax.numpy.roll', 'jax.numpy.diag', 'jax.numpy.pad', 'jax.numpy.moveaxis', 'jax.numpy.squeeze',
                 'jax.numpy.expand_dims', 'jax.numpy.ravel', 'jax.numpy.trace', 'jax.numpy.negative', 'jax.numpy.stack',
                 'jax.numpy.nan_to_num', 'jax.numpy.real', 'jax.numpy.amax', 'jax.numpy.amin', 'jax.numpy.cumsum'}
_PRESERVE_METH = {'astype', 'reshape', 'transpose', 'ravel', 'sum', 'mean', 'max', 'min', 'T', 'copy', 'flatten', 'squeeze'}
_ZERO_DEG_EXT = {'jax.numpy.arange', 'jax.numpy.eye', 'jax.numpy.ones', 'jax.numpy.ones_like', 'jax.numpy.isnan', 'jax.numpy.isfinite',
                 'jax.numpy.logical_and', 'jax.numpy.logical_or', 'jax.numpy.logical_not', 'jax.numpy.sign', 'jax.numpy.any',
                 'jax.numpy.all', 'jax.numpy.greater', 'jax.numpy.less', 'jax.numpy.full'}
_PRODUCT_EXT = {'jax.numpy.matmul', 'jax.numpy.dot', 'jax.numpy.tensordot', 'jax.numpy.multiply', 'jax.numpy.outer'}
_JOIN_EXT = {'jax.numpy.maximum', 'jax.numpy.minimum', 'jax.numpy.concatenate', 'jax.numpy.add', 'jax.numpy.subtract', 'jax.numpy.hstack', 'jax.numpy.vstack'}
_DECOMP = {'jax.numpy.linalg.svd': {0: 0, 1: 1, 2: 0}, 'jax.numpy.linalg.eigh': {0: 1, 1: 0}}


class Deg:
  """mode 'G' or 'H'.  leaf(term) -> degree (sympy / NOHIST / ZERO) or None to descend."""

  def __init__(self, mode, leaf, eps_names=('epsilon', 'eps', 'error_tolerance')):
    self.mode = mode
    self.leaf = leaf
    self.eps_names = eps_names
    self.memo = {}
    self.constraints = []      # (sympy expr == 0, term, description)   [G mode]
    self.mismatches = []       # Mismatch objects                         [H mode]
    self.symb = Symb()

  # -- helpers
  def _is_eps(self, t):
    p = path_str(t) or (str(t.args[-1]) if t.op == 'sym' else None)
    return p is not None and any(e in p.lower() for e in self.eps_names)

  def _join(self, term, degs, what):
    degs = [d for d in degs if d is not ZERO]
    if self.mode == 'H':
      degs = [d for d in degs if d is not NOHIST]
      if not degs:
        return NOHIST
    if not degs:
      return ZERO
    base = degs[0]
    for d in degs[1:]:
      if self.mode == 'G':
        if sp.simplify(d - base) != 0:
          self.constraints.append((sp.expand(d - base), term, what))
      else:
        if sp.simplify(d - base) != 0:
          self.mismatches.append(Mismatch(term, base, d, what))
    return base

  def _mul(self, degs):
    if any(d is ZERO for d in degs):
      return ZERO
    if self.mode == 'H':
      hs = [d for d in degs if d is not NOHIST]
      if len(hs) < len(degs) and not hs:
        return NOHIST
      if len(hs) < len(degs):
        # history x fresh: vanishes with the gradient -> no pure-history part
        return NOHIST
      return sum(hs, sp.Integer(0))
    return sum(degs, sp.Integer(0))

  def deg(self, t):
    if t in self.memo:
      return self.memo[t]
    r = self._deg(t)
    self.memo[t] = r
    return r

  def _scalar0(self):
    return sp.Integer(0)

  def _deg(self, t):
    lv = self.leaf(t)
    if lv is not None:
      return lv
    op = t.op
    if op == 'const':
      v = cval(t)
      if isinstance(v, (int, float)) and not isinstance(v, bool) and v == 0:
        return ZERO
      return self._scalar0()
    if op in ('sym', 'ext', 'enum'):
      return self._scalar0()
    if op == 'attr':
      if t.args[1] in ('shape', 'ndim', 'dtype', 'size'):
        return self._scalar0()
      if t.args[1] == 'T':
        return self.deg(t.args[0])
      if self._is_eps(t):
        return self._scalar0()
      p = path_str(t)
      if p is not None:
        return self._scalar0()
      return self.deg(t.args[0])
    if op == 'cmp' or op == 'bool':
      return self._scalar0()
    if op == 'un':
      if t.args[0] in ('not', '~'):
        return self._scalar0()
      return self.deg(t.args[1])
    if op == 'bin':
      o, a, b = t.args
      if o in ('+', '-'):
        da, db = self.deg(a), self.deg(b)
        if self._absorbed(a):
          return db
        if self._absorbed(b):
          return da
        return self._join(t, [da, db], f'operands of `{o}`')
      if o in ('*', '@'):
        return self._mul([self.deg(a), self.deg(b)])
      if o == '/':
        da, db = self.deg(a), self.deg(b)
        if da is ZERO:
          return ZERO
        if self.mode == 'H':
          if da is NOHIST:
            return NOHIST
          if db is NOHIST:
            raise DegError(f'division by a fresh value: {show(t, maxdepth=3)}')
          return da - (db if db is not ZERO else 0)
        return da - (db if db is not ZERO else 0)
      if o == '**':
        da = self.deg(a)
        if da is ZERO or da is NOHIST:
          return da
        e = self.symb.conv(b)
        return sp.expand(da * e)
      if o in ('&', '|', '^', '%', '//'):
        return self._scalar0()
      raise DegError(f'no degree rule for operator {o}')
    if op in ('ite', 'cond'):
      return self._join(t, [self.deg(t.args[1]), self.deg(t.args[2])], 'arms of a select')
    if op == 'sub':
      base = t.args[0]
      n = ext_name(base) if base.op == 'call' else None
      if n in _DECOMP and is_const(t.args[1]):
        inner = self.deg(base.args[1][0])
        k = _DECOMP[n].get(cval(t.args[1]))
        if k is None:
          raise DegError('unknown component of a decomposition')
        if k == 0:
          return self._scalar0() if inner is not ZERO else ZERO
        return inner
      if base.op == 'cond' and is_const(t.args[1]):
        pass
      return self.deg(base)
    if op in ('tuple', 'list'):
      return self._join(t, [self.deg(x.args[0] if x.op == 'star' else x) for x in t.args], 'elements')
    if op == 'call':
      return self._call(t)
    if op in ('loop', 'phi', 'elem', 'leaf', 'store', 'zipped'):
      raise DegError(f'cannot type {op} term {show(t, maxdepth=2)}')
    raise DegError(f'no degree rule for {op}: {show(t, maxdepth=2)}')

  def _absorbed(self, t):
    """epsilon-like addends do not constrain the degree of a sum."""
    from .lib import strip_casts
    t = strip_casts(t)
    if self._is_eps(t):
      return True
    if t.op == 'bin' and t.args[0] == '*':
      return self._absorbed(t.args[1]) or self._absorbed(t.args[2])
    if t.op == 'const' and isinstance(cval(t), float) and 0 < abs(cval(t)) < 1e-3:
      return True
    return False

  def _call(self, t):
    n = ext_name(t)
    m = method_name(t)
    args = list(t.args[1])
    kw = dict(t.args[2])
    if m in _PRESERVE_METH:
      return self.deg(t.args[0].args[0])
    if m == 'dot':
      return self._mul([self.deg(t.args[0].args[0])] + [self.deg(a) for a in args])
    if m == 'set':
      # x.at[idx].set(v): join of container and value
      recv = t.args[0].args[0]
      cont = recv.args[0].args[0] if recv.op == 'sub' and recv.args[0].op == 'attr' and recv.args[0].args[1] == 'at' else recv
      return self._join(t, [self.deg(cont), self.deg(args[0])], 'x.at[...].set(v)')
    if n in _PRESERVE_EXT:
      return self.deg(args[0])
    if n in _ZERO_DEG_EXT:
      return self._scalar0()
    if n == 'jax.numpy.zeros' or n == 'jax.numpy.zeros_like':
      return ZERO
    if n in ('jax.numpy.sqrt',):
      d = self.deg(args[0])
      return d if d in (ZERO, NOHIST) else d / 2
    if n in ('jax.lax.rsqrt',):
      d = self.deg(args[0])
      return d if d in (ZERO, NOHIST) else -d / 2
    if n in ('jax.numpy.reciprocal',):
      d = self.deg(args[0])
      return d if d in (ZERO, NOHIST) else -d
    if n in ('jax.numpy.square',):
      d = self.deg(args[0])
      return d if d in (ZERO, NOHIST) else 2 * d
    if n == 'jax.numpy.power':
      d = self.deg(args[0])
      if d in (ZERO, NOHIST):
        return d
      return sp.expand(d * self.symb.conv(args[1]))
    if n in _PRODUCT_EXT:
      return self._mul([self.deg(a) for a in args[:2]])
    if n == 'jax.numpy.einsum':
      return self._mul([self.deg(a) for a in args[1:]])
    if n in _JOIN_EXT:
      if n == 'jax.numpy.concatenate' and args and args[0].op in ('list', 'tuple'):
        parts = [x.args[0] if x.op == 'star' else x for x in args[0].args]
        return self._join(t, [self.deg(x) for x in parts], 'concatenated parts')
      ds = [self.deg(a) for a in args[:2]]
      keep = [d for a, d in zip(args[:2], ds) if not self._absorbed(a)]
      return self._join(t, keep or ds, f'operands of {n.split(".")[-1]}')
    if n in ('jax.numpy.where', 'jax.lax.select') and len(args) == 3:
      return self._join(t, [self.deg(args[1]), self.deg(args[2])], 'arms of where')
    if n in ('jax.numpy.linalg.qr',):
      return self.deg(args[0])
    if n in _DECOMP:
      return self.deg(args[0])
    if n in ('jax.numpy.exp', 'jax.numpy.log', 'jax.scipy.special.logsumexp', 'jax.numpy.cov', 'jax.numpy.log1p', 'jax.numpy.expm1'):
      raise DegError(f'{n} is not homogeneous')
    if t.args[0].op == 'builtin':
      return self._scalar0()
    if t.args[0].op == 'fn':
      raise DegError(f'opaque repo call {fn_name(t)}')
    raise DegError(f'no degree rule for call {n or m}: {show(t, maxdepth=2)}')


def solve(constraints, unknowns):
  """Solve linear constraints expr == 0 for the unknowns; returns (solution dict, residual list)."""
  eqs = [c[0] for c in constraints]
  if not eqs:
    return {}, []
  sol = sp.solve(eqs, list(unknowns), dict=True)
  if not sol:
    return None, constraints
  s = sol[0]
  residual = [c for c in constraints if sp.simplify(c[0].subs(s)) != 0]
  return s, residual
