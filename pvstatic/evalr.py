"""Abstract evaluator: python function bodies -> gated value graph (terms).

No repo code is imported or run.  Function bodies are walked once; an `if`
whose test the valuation cannot decide produces `ite` nodes at the merge, calls
to repo functions are inlined (bounded depth), loops are summarised (`loop`,
`phi`, `star` nodes) or unrolled when the iterable is statically known.
"""
from __future__ import annotations

import ast
import builtins as _builtins
import operator

from . import extsig
from .model import AnalysisError, FuncInfo, ClassInfo, _local_names
from .terms import walk as _walk
from .terms import (T, const, cval, is_const, NONE, TRUE, FALSE, sym, ext, strip_negation,
                    unknown, ite, tup, lst, UNBOUND, walk, show)

_BUILTIN_NAMES = set(dir(_builtins))

_BINOPS = {
    ast.Add: '+', ast.Sub: '-', ast.Mult: '*', ast.Div: '/', ast.FloorDiv: '//',
    ast.Mod: '%', ast.Pow: '**', ast.MatMult: '@', ast.BitAnd: '&',
    ast.BitOr: '|', ast.BitXor: '^', ast.LShift: '<<', ast.RShift: '>>',
}
_PYBIN = {
    '+': operator.add, '-': operator.sub, '*': operator.mul,
    '/': operator.truediv, '//': operator.floordiv, '%': operator.mod,
    '**': operator.pow, '&': operator.and_, '|': operator.or_,
    '^': operator.xor,
}
_CMPOPS = {
    ast.Eq: '==', ast.NotEq: '!=', ast.Lt: '<', ast.LtE: '<=', ast.Gt: '>',
    ast.GtE: '>=', ast.Is: 'is', ast.IsNot: 'is not', ast.In: 'in',
    ast.NotIn: 'not in',
}
_PYCMP = {
    '==': operator.eq, '!=': operator.ne, '<': operator.lt, '<=': operator.le,
    '>': operator.gt, '>=': operator.ge,
}
_UNOPS = {ast.USub: '-', ast.UAdd: '+', ast.Not: 'not', ast.Invert: '~'}

NOELEM = T('noelem')

# external functions that map over a pytree argument leaf-wise
_CMP_FUNCS = {'jax.numpy.greater': '>', 'jax.numpy.greater_equal': '>=', 'jax.numpy.less': '<', 'jax.numpy.less_equal': '<=',
              'jax.numpy.equal': '==', 'jax.numpy.not_equal': '!=',
              'jax.lax.gt': '>', 'jax.lax.ge': '>=', 'jax.lax.lt': '<', 'jax.lax.le': '<=', 'jax.lax.eq': '==', 'jax.lax.ne': '!='}

_PYTREE_EXT = {'jax.lax.all_gather', 'jax.lax.with_sharding_constraint', 'jax.lax.psum', 'jax.lax.pmean',
               'jax.lax.stop_gradient', 'jax.device_put', 'jax.block_until_ready'}


class Scope:
  _n = 0

  def __init__(self, kind, parent, locals_=None, fi=None, label=''):
    Scope._n += 1
    self.id = Scope._n
    self.kind = kind
    self.parent = parent
    self.vars = {}
    self.locals = locals_ or set()
    self.fi = fi
    self.label = label


class _Frame:
  def __init__(self, fq, path_base):
    self.fq = fq
    self.returns = []     # [(cond tuple, value)]
    self.path_base = path_base


class CallRecord:
  __slots__ = ('callee', 'args', 'path', 'caller', 'node', 'via', 'result')

  def __init__(self, callee, args, path, caller, node, via):
    self.callee = callee
    self.args = args
    self.path = path
    self.caller = caller
    self.node = node
    self.via = via
    self.result = None


def neg(c):
  if is_const(c):
    return const(not cval(c))
  if c.op == 'un' and c.args[0] == 'not':
    return c.args[1]
  return T('un', 'not', c)


class Evaluator:

  def __init__(self, model, decide=None, opaque=(), summaries=None,
               bindings=None, max_depth=10, unroll=24, inline_external=None):
    self.model = model
    self.decide_hook = decide
    self.attr_hook = None
    self.opaque = set(opaque)
    self.summaries = dict(summaries or {})
    self.bindings = dict(bindings or {})  # (func short fq, param) -> term
    self.max_depth = max_depth
    self.unroll = unroll
    self.heap = {}
    self.calls = []
    self.asserts = []     # (cond term, path tuple, fq, node)
    self.raises = []      # (exc term, path tuple, fq, node)
    self.effects = []     # (kind, detail, fq, node)
    self.mod_scopes = {}
    self.scopes = {}
    self.lambdas = {}
    self.path = []
    self.frames = []
    self.loop_stack = []
    self.gen_state = {}    # id -> dict(items=[terms], pos=int) for summarised generators
    self.cond_log = []     # every traced two-armed conditional met: (term, function, node)
    self.leaf_override = {}  # tree term -> term standing for its generic leaf (lets a rule name 'the parameter' of a tree map)
    self.raw_preds = {}     # normalised cond term -> predicates as written at the sites that produced it
    self.vmap_log = []     # (vmapped wrapper term, args, result, caller, kwargs): which calls ran under jax.vmap and with which axes
    self.loop_ctl = []     # per active loop: list of (cond, snapshot, kind) for undecided continue/break
    self._ids = 0
    self._active = []     # fqs being inlined (recursion guard)
    self._mod_loading = set()

  # ------------------------------------------------------------ utilities
  def new_id(self, prefix):
    self._ids += 1
    return f'{prefix}{self._ids}'

  def decide(self, c):
    if is_const(c):
      return bool(cval(c))
    if c.op in ('list', 'tuple', 'dict'):
      if not c.args:
        return False
      if not any(isinstance(a, T) and a.op == 'star' for a in c.args):
        return True
    if c.op in ('closure', 'class', 'rec', 'obj', 'partial', 'enum', 'mod', 'ext'):
      if c.op == 'enum':
        v = c.args[2]
        if is_const(v):
          return bool(cval(v))
        return None
      return True
    if c.op == 'un' and c.args[0] == 'not':
      d = self.decide(c.args[1])
      return None if d is None else (not d)
    if c.op == 'bool':
      vals = [self.decide(x) for x in c.args[1:]]
      if c.args[0] == 'and':
        if any(v is False for v in vals):
          return False
        if all(v is True for v in vals):
          return True
      else:
        if any(v is True for v in vals):
          return True
        if all(v is False for v in vals):
          return False
      return None
    if self.decide_hook is not None:
      return self.decide_hook(c)
    return None

  def cur_fq(self):
    return self.frames[-1].fq if self.frames else '<module>'

  # ------------------------------------------------------------ module scopes
  def module_scope(self, name):
    if name in self.mod_scopes:
      return self.mod_scopes[name]
    mi = self.model.modules[name]
    sc = Scope('module', None, fi=None, label=name)
    sc.vars['__name__'] = const(name)
    self.mod_scopes[name] = sc
    self.scopes[sc.id] = sc
    self._mod_loading.add(name)
    fr = _Frame(name + '.<module>', len(self.path))
    self.frames.append(fr)
    try:
      self.exec_block(mi.tree.body, sc)
    finally:
      self.frames.pop()
      self._mod_loading.discard(name)
    return sc

  def modref(self, dotted):
    if dotted in self.model.modules:
      return T('mod', dotted)
    return ext(dotted)

  # ------------------------------------------------------------ name lookup
  def lookup(self, name, scope, node=None):
    s = scope
    first = True
    while s is not None:
      if s.kind == 'class' and not first:
        s = s.parent
        continue
      if name in s.vars:
        return s.vars[name]
      if s.kind in ('function', 'lambda', 'comp') and name in s.locals:
        return UNBOUND
      first = False
      s = s.parent
    if name in _BUILTIN_NAMES:
      return T('builtin', name)
    return unknown('unresolved-name', name)

  # ------------------------------------------------------------ snapshots
  def _snap(self, scope):
    return (dict(scope.vars), dict(self.heap))

  def _restore(self, scope, snap):
    scope.vars = dict(snap[0])
    self.heap = dict(snap[1])

  def _merge(self, scope, c, sa, sb):
    va, ha = sa
    vb, hb = sb
    out = {}
    for k in set(va) | set(vb):
      a = va.get(k, UNBOUND)
      b = vb.get(k, UNBOUND)
      out[k] = a if a is b else self._merge_val(c, a, b)
    scope.vars = out
    hout = {}
    for k in set(ha) | set(hb):
      a = ha.get(k, UNBOUND)
      b = hb.get(k, UNBOUND)
      hout[k] = a if a is b else ite(c, a, b)
    self.heap = hout

  def _merge_val(self, c, a, b):
    # a list extended on one branch only: keep the common prefix and mark the extras as conditional
    if a.op == 'list' and b.op == 'list' and a is not b:
      la, lb = a.args, b.args
      if len(la) >= len(lb) and la[:len(lb)] == lb:
        extra, cond = la[len(lb):], c
      elif len(lb) > len(la) and lb[:len(la)] == la:
        extra, cond = lb[len(la):], neg(c)
      else:
        return ite(c, a, b)
      short_ = lb if len(la) >= len(lb) else la
      marked = [T('star', e.args[0], T('guarded', cond, e.args[1])) if e.op == 'star' else T('star', e, T('guarded', cond)) for e in extra]
      return T('list', *(tuple(short_) + tuple(marked)))
    return ite(c, a, b)

  # ------------------------------------------------------------ statements
  def exec_block(self, stmts, scope):
    """Returns True when every path through stmts terminated (return/raise)."""
    pushed = 0
    terminated = False
    for s in stmts:
      r = self.exec_stmt(s, scope)
      if r is True or r in ('cont', 'brk'):
        terminated = r
        break
      if isinstance(r, T):          # residual path condition for the rest
        self.path.append(r)
        pushed += 1
    for _ in range(pushed):
      self.path.pop()
    return terminated

  def exec_stmt(self, s, scope):
    fr = self.frames[-1]
    if isinstance(s, ast.Expr):
      v = s.value
      if isinstance(v, ast.Call) and isinstance(v.func, ast.Attribute) and \
          v.func.attr in ('append', 'extend', 'insert', 'remove', 'pop', 'add', 'update', 'sort', 'setdefault', 'clear'):
        if self._mutating_call(v, scope):
          return False
      self.ev(v, scope)
      return False
    if isinstance(s, ast.Assign):
      val = self.ev(s.value, scope)
      for t in s.targets:
        self.assign(t, val, scope)
      return False
    if isinstance(s, ast.AnnAssign):
      if s.value is not None:
        self.assign(s.target, self.ev(s.value, scope), scope)
      return False
    if isinstance(s, ast.AugAssign):
      cur = self.ev(_as_load(s.target), scope)
      val = self.binop(_BINOPS[type(s.op)], cur, self.ev(s.value, scope), s)
      self.assign(s.target, val, scope)
      return False
    if isinstance(s, ast.Return):
      val = self.ev(s.value, scope) if s.value is not None else NONE
      fr.returns.append((tuple(self.path[fr.path_base:]), val))
      return True
    if isinstance(s, ast.Raise):
      exc = self.ev(s.exc, scope) if s.exc is not None else NONE
      self.raises.append((exc, tuple(self.path), fr.fq, s))
      return True
    if isinstance(s, ast.Assert):
      c = self.ev(s.test, scope)
      self.asserts.append((c, tuple(self.path), fr.fq, s))
      return False
    if isinstance(s, ast.If):
      return self.exec_if(s, scope)
    if isinstance(s, (ast.For, ast.AsyncFor)):
      r = self.exec_for(s, scope)
      return True if r is True else False
    if isinstance(s, ast.While):
      self.exec_while(s, scope)
      return False
    if isinstance(s, (ast.FunctionDef, ast.AsyncFunctionDef)):
      fi = self._funcinfo_for(s, scope)
      scope.vars[s.name] = T('closure', fi.fq, scope.id)
      self.scopes[scope.id] = scope
      return False
    if isinstance(s, ast.ClassDef):
      ci = self._classinfo_for(s, scope)
      scope.vars[s.name] = T('class', ci.fq) if ci else unknown('local-class', s.name)
      return False
    if isinstance(s, (ast.With, ast.AsyncWith)):
      for it in s.items:
        v = self.ev(it.context_expr, scope)
        if it.optional_vars is not None:
          self.assign(it.optional_vars, T('with', v), scope)
      return self.exec_block(s.body, scope)
    if isinstance(s, ast.Try):
      t = self.exec_block(s.body, scope)
      if not t:
        t = self.exec_block(s.orelse, scope)
      if s.finalbody:
        t2 = self.exec_block(s.finalbody, scope)
        t = t or t2
      return t
    if isinstance(s, ast.Import):
      for al in s.names:
        if al.asname:
          scope.vars[al.asname] = self.modref(al.name)
        else:
          top = al.name.split('.')[0]
          scope.vars[top] = self.modref(top)
      return False
    if isinstance(s, ast.ImportFrom):
      base = s.module or ''
      for al in s.names:
        nm = al.asname or al.name
        dotted = base + '.' + al.name if base else al.name
        if dotted in self.model.modules:
          scope.vars[nm] = T('mod', dotted)
        elif base in self.model.modules:
          if base in self._mod_loading:
            scope.vars[nm] = unknown('cyclic-import', dotted)
          else:
            msc = self.module_scope(base)
            scope.vars[nm] = msc.vars.get(al.name, unknown('import-missing', dotted))
        else:
          scope.vars[nm] = ext(dotted)
      return False
    if isinstance(s, ast.Delete):
      for t in s.targets:
        if isinstance(t, ast.Name):
          scope.vars.pop(t.id, None)
      return False
    if isinstance(s, (ast.Global, ast.Nonlocal)):
      self.effects.append(('global' if isinstance(s, ast.Global) else 'nonlocal', tuple(s.names), fr.fq, s))
      return False
    if isinstance(s, ast.Pass):
      return False
    if isinstance(s, ast.Continue):
      return 'cont' if self.loop_ctl else False
    if isinstance(s, ast.Break):
      return 'brk' if self.loop_ctl else False
    self.effects.append(('unsupported-stmt', type(s).__name__, fr.fq, s))
    return False

  def exec_if(self, s, scope):
    c = self.ev(s.test, scope)
    d = self.decide(c)
    if d is True:
      return self.exec_block(s.body, scope)
    if d is False:
      return self.exec_block(s.orelse, scope)
    snap = self._snap(scope)
    self.path.append(c)
    ta = self.exec_block(s.body, scope)
    self.path.pop()
    sa = self._snap(scope)
    self._restore(scope, snap)
    nc = neg(c)
    self.path.append(nc)
    tb = self.exec_block(s.orelse, scope)
    self.path.pop()
    sb = self._snap(scope)
    if ta in ('cont', 'brk') and self.loop_ctl:
      self.loop_ctl[-1].append((c, sa, ta))
      ta = True
    if tb in ('cont', 'brk') and self.loop_ctl:
      self.loop_ctl[-1].append((nc, sb, tb))
      tb = True
    if ta and tb:
      return True
    if ta:
      self._restore(scope, sb)
      return nc
    if tb:
      self._restore(scope, sa)
      return c
    self._merge(scope, c, sa, sb)
    return False

  def _merge_pending(self, scope, pend):
    for c, snap, kind in reversed(pend):
      cur = self._snap(scope)
      self._merge(scope, c, snap, cur)

  def _assigned_names(self, stmts):
    fake = ast.FunctionDef(name='_', args=ast.arguments(posonlyargs=[], args=[], kwonlyargs=[], kw_defaults=[], defaults=[], vararg=None, kwarg=None), body=list(stmts), decorator_list=[], returns=None)
    return _local_names(fake)

  def exec_for(self, s, scope):
    it = self.ev(s.iter, scope)
    items = self.enumerate_iter(it)
    if items is not None and len(items) <= self.unroll:
      broke = False
      for x in items:
        self.assign(s.target, x, scope)
        self.loop_ctl.append([])
        st = self.exec_block(s.body, scope)
        pend = self.loop_ctl.pop()
        self._merge_pending(scope, pend)
        if st == 'brk':
          broke = True
          break
        if st is True:
          return True
      if not broke:
        self.exec_block(s.orelse, scope)
      return
    lid = self.new_id('L')
    assigned = self._assigned_names(s.body)
    inits = {}
    for v in assigned:
      if v in scope.vars:
        inits[v] = scope.vars[v]
        scope.vars[v] = T('phi', lid, v, inits[v])
    self.assign(s.target, self.elem_of(it), scope)
    mutated = [v for v in _mutated_names(s.body) if v in scope.vars and scope.vars[v].op == 'list' and v not in assigned]
    for v in mutated:
      scope.vars[v] = T('list', *(scope.vars[v].args + (T('star', T('loopacc', lid, v), T('loopacc_dom', lid)),)))
    self.loop_stack.append((lid, it))
    self.path.append(T('inloop', lid))
    self.loop_ctl.append([])
    try:
      self.exec_block(s.body, scope)
    finally:
      pend = self.loop_ctl.pop()
      self.path.pop()
      self.loop_stack.pop()
    self._merge_pending(scope, pend)
    for v in mutated:
      cur = scope.vars.get(v)
      if cur is not None and cur.op == 'list':
        scope.vars[v] = T('list', *[e for e in cur.args if not (e.op == 'star' and e.args[0].op == 'loopacc' and e.args[0].args[0] == lid)])
    for v in assigned:
      if v in scope.vars:
        bv = scope.vars[v]
        init = inits.get(v, UNBOUND)
        if bv.op == 'phi' and bv.args[0] == lid:
          scope.vars[v] = init
        elif bv.op == 'bin' and bv.args[0] == '+' and bv.args[1].op == 'phi' and bv.args[1].args[0] == lid and bv.args[1].args[1] == v and \
            init.op in ('tuple', 'list') and bv.args[2].op == init.op:
          # acc = acc + (x,) / acc += [x] in every iteration: the same accumulation as acc.append(x)
          scope.vars[v] = T(init.op, *(init.args + tuple(
              T('star', (e.args[0] if e.op == 'star' else e), T('loopdom', lid, it, (), (e.args[1] if e.op == 'star' else NONE)))
              for e in bv.args[2].args)))
        else:
          folded = self._left_fold(lid, v, init, bv, it)
          scope.vars[v] = folded if folded is not None else T('loop', lid, v, init, bv)
    self.exec_block(s.orelse, scope)

  def _left_fold(self, lid, v, init, bv, it):
    """acc = xs[0]; for x in xs[1:]: acc = f(acc, x)   is   functools.reduce(f, xs)  (f a library function)"""
    if bv.op != 'call' or bv.args[0].op != 'ext' or len(bv.args[1]) != 2 or bv.args[2]:
      return None
    a, b = bv.args[1]
    if not (a.op == 'phi' and a.args[0] == lid and a.args[1] == v) or b is not self.elem_of(it):
      return None
    if any(y.op == 'phi' and y.args[0] == lid for y in _walk(b)):
      return None
    # the iterable is xs[1:] - of an opaque sequence, or of an abstract list (kept as a `sliceof` domain)
    if it.op == 'sub' and it.args[1].op == 'slice':
      xs, sl = it.args
    elif it.op in ('list', 'tuple') and len(it.args) == 1 and it.args[0].op == 'star' and it.args[0].args[1].op == 'sliceof':
      xs, sl = it.args[0].args[1].args
    else:
      return None
    lo, hi, st = sl.args
    if not (is_const(lo, 1) and is_const(hi, None) and is_const(st, None)):
      return None
    if init is not self.subscript(xs, const(0)):
      return None
    return T('reduce', bv.args[0], xs)

  def exec_while(self, s, scope):
    # iterations whose test is decided (a work list that is popped until empty, a small counter) are executed one by one;
    # whatever is left when the test stops being decidable is the abstract loop from that state
    for _ in range(self.unroll):
      d = self.decide(self.ev(s.test, scope))
      if d is False:
        self.exec_block(s.orelse, scope)
        return
      if d is not True:
        break
      self.loop_ctl.append([])
      st = self.exec_block(s.body, scope)
      pend = self.loop_ctl.pop()
      self._merge_pending(scope, pend)
      if st == 'brk':
        return
      if st is True:
        return True
    lid = self.new_id('W')
    assigned = self._assigned_names(s.body)
    inits = {}
    for v in assigned:
      if v in scope.vars:
        inits[v] = scope.vars[v]
        scope.vars[v] = T('phi', lid, v, inits[v])
    c = self.ev(s.test, scope)
    self.loop_stack.append((lid, T('whiletest', c)))
    self.path.append(T('inloop', lid))
    self.loop_ctl.append([])
    try:
      self.exec_block(s.body, scope)
    finally:
      pend = self.loop_ctl.pop()
      self.path.pop()
      self.loop_stack.pop()
    self._merge_pending(scope, pend)
    for v in assigned:
      if v in scope.vars:
        bv = scope.vars[v]
        init = inits.get(v, UNBOUND)
        if bv.op == 'phi' and bv.args[0] == lid:
          scope.vars[v] = init
        else:
          scope.vars[v] = T('loop', lid, v, init, bv)

  def _mutating_call(self, call, scope):
    """x.append(e) etc. as a statement; returns True when handled."""
    meth = call.func.attr
    tgt = call.func.value
    args = [self.ev(a, scope) for a in call.args]
    cur = self.ev(tgt, scope)
    fr = self.frames[-1]
    is_listy = cur.op in ('list', 'phi', 'loop', 'mut') or cur.op == 'set' or cur.op == 'dict'
    if cur.op in ('ext', 'mod', 'closure', 'class', 'bound', 'partial', 'builtin', 'rec', 'obj', 'unknown', 'unbound', 'const'):
      return False
    # record effect on non-local receivers
    self._note_mutation(tgt, cur, meth, scope, call)
    new = None
    star_dom = self.loop_stack[-1] if self.loop_stack else None
    if cur.op == 'list' and meth in ('pop', 'insert', 'remove') and not any(e.op == 'star' for e in cur.args) \
        and all(is_const(a) for a in args) and star_dom is None:
      items = list(cur.args)
      try:
        if meth == 'pop':
          items.pop(*[cval(a) for a in args])
        elif meth == 'insert':
          items.insert(cval(args[0]), args[1])
        else:
          items.remove(args[0])
        new = T('list', *items)
      except Exception:
        new = None
      if new is not None:
        self.assign(tgt, new, scope, quiet=True)
        return True
    if cur.op == 'list' and meth in ('append', 'extend'):
      if meth == 'append':
        elts = [args[0]]
      else:
        a = args[0]
        if a.op in ('list', 'tuple'):
          elts = list(a.args)
        else:
          elts = [T('star', self.elem_of(a), a)]
      if star_dom is not None:
        # every enclosing abstract loop in which this list is being built (it carries that loop's
        # accumulator marker) contributes one level of the iteration domain, outermost first
        marked = {e.args[0].args[0] for e in cur.args if e.op == 'star' and e.args[0].op == 'loopacc'}
        levels = [(lid, it) for (lid, it) in self.loop_stack[:-1] if lid in marked] + [star_dom]
        segs = self._loop_guard_segments()

        def wrap(e):
          dom = e.args[1] if e.op == 'star' else NONE
          for lid, it in reversed(levels):
            dom = T('loopdom', lid, it, segs.get(lid, ()), dom)
          return T('star', (e.args[0] if e.op == 'star' else e), dom)
        elts = [wrap(e) for e in elts]
      new = T('list', *(cur.args + tuple(elts)))
    elif meth == 'update' and len(args) == 1 and self._update_as_stores(cur, args[0]) is not None:
      new = self._update_as_stores(cur, args[0])        # d.update({k: v, ..}) is d[k] = v; ..
    else:
      new = T('mut', cur, meth, tuple(args), self.new_id('m'))
    self.assign(tgt, new, scope, quiet=True)
    return True

  def _update_as_stores(self, cur, arg):
    def pairs(t):
      if t.op == 'dict' and all(is_const(k) for k, _ in t.args):
        return list(t.args)
      if t.op == 'store' and is_const(t.args[1]):
        inner = pairs(t.args[0])
        return None if inner is None else inner + [(t.args[1], t.args[2])]
      return None
    if arg.op == 'ite':
      a, b = self._update_as_stores(cur, arg.args[1]), self._update_as_stores(cur, arg.args[2])
      return None if a is None or b is None else ite(arg.args[0], a, b)
    ps = pairs(arg)
    if ps is None:
      return None
    out = cur
    for k, v in ps:
      out = T('store', out, k, v)
    return out

  def _loop_guard_segments(self):
    """lid -> path conditions met between that loop's entry and the next nested loop's entry."""
    segs, cur = {}, None
    for c in self.path:
      if c.op == 'inloop':
        cur = c.args[0]
        segs[cur] = ()
      elif cur is not None:
        segs[cur] = segs[cur] + (c,)
    return segs

  def _loop_path_base(self):
    # index in self.path of the innermost enclosing 'inloop' marker
    for i in range(len(self.path) - 1, -1, -1):
      if self.path[i].op == 'inloop':
        return i
    return len(self.path)

  def _note_mutation(self, tgt, cur, meth, scope, node):
    fr = self.frames[-1]
    base = tgt
    while isinstance(base, (ast.Attribute, ast.Subscript)):
      base = base.value
    if isinstance(base, ast.Name):
      owner = self._owner_scope(base.id, scope)
      if owner is not None and owner is not scope and owner.kind != 'comp':
        self.effects.append(('mutate-nonlocal', (base.id, meth, owner.label), fr.fq, node))
      elif owner is scope and scope.fi is not None and base.id in _param_names(scope.fi.node):
        self.effects.append(('mutate-param', (base.id, meth), fr.fq, node))

  def _owner_scope(self, name, scope):
    s = scope
    while s is not None:
      if name in s.vars or name in s.locals:
        return s
      s = s.parent
    return None

  def assign(self, target, val, scope, quiet=False):
    if isinstance(target, ast.Name):
      scope.vars[target.id] = val
      return
    if isinstance(target, (ast.Tuple, ast.List)):
      n = len(target.elts)
      stars = [i for i, t in enumerate(target.elts) if isinstance(t, ast.Starred)]
      if len(stars) == 1:
        # a, *rest, z = val
        k = stars[0]
        after = n - k - 1
        known = val.args if val.op in ('tuple', 'list') and not any(a.op == 'star' for a in val.args) else None
        for i, t in enumerate(target.elts):
          if i < k:
            p = known[i] if known is not None else self.subscript(val, const(i), None)
            self.assign(t, p, scope)
          elif i == k:
            if known is not None:
              p = T('list', *known[k:len(known) - after])
            else:
              p = self.subscript(val, T('slice', const(k), const(-after) if after else NONE, NONE), None)
            self.assign(t.value, p, scope)
          else:
            j = i - n            # negative index from the end
            p = known[j] if known is not None else self.subscript(val, const(j), None)
            self.assign(t, p, scope)
        return
      parts = self.destructure(val, n)
      for t, p in zip(target.elts, parts):
        if isinstance(t, ast.Starred):
          self.assign(t.value, p, scope)
        else:
          self.assign(t, p, scope)
      return
    if isinstance(target, ast.Attribute):
      base = self.ev(target.value, scope)
      if base.op == 'obj':
        self.heap[(base.args[1], target.attr)] = val
      else:
        if not quiet:
          self.effects.append(('attr-store', (ast.unparse(target),), self.cur_fq(), target))
      return
    if isinstance(target, ast.Subscript):
      base = self.ev(target.value, scope)
      key = self.ev_index(target.slice, scope)
      if not quiet:
        self._note_mutation(target.value, base, 'setitem', scope, target)
      new = T('store', base, key, val)
      self.assign(target.value, new, scope, quiet=True)
      return
    if isinstance(target, ast.Starred):
      self.assign(target.value, val, scope)
      return

  def destructure(self, val, n):
    if val.op in ('tuple', 'list') and len(val.args) == n and not any(a.op == 'star' for a in val.args):
      return list(val.args)
    if val.op == 'ite':
      a = self.destructure(val.args[1], n)
      b = self.destructure(val.args[2], n)
      return [ite(val.args[0], x, y) for x, y in zip(a, b)]
    if val.op == 'cond':
      a = self.destructure(val.args[1], n)
      b = self.destructure(val.args[2], n)
      return [T('cond', val.args[0], x, y) for x, y in zip(a, b)]
    if val.op == 'zipped':
      # element of a zip: components are the elements of each zipped iterable
      if len(val.args) == n:
        return list(val.args)
    if val.op == 'unzip' and n == val.args[1]:
      return [T('unzipped', val.args[0], i) for i in range(n)]
    return [self.subscript(val, const(i), None) for i in range(n)]

  # ------------------------------------------------------------ iteration helpers
  def enumerate_iter(self, it):
    """Static list of element terms, or None."""
    if it.op in ('list', 'tuple'):
      if any(a.op == 'star' for a in it.args):
        return None
      return list(it.args)
    if it.op == 'range_c':
      return [const(i) for i in range(*it.args)]
    if it.op == 'call' and it.args[0].op == 'builtin':
      name = it.args[0].args[0]
      a = it.args[1]
      if name == 'enumerate' and a:
        inner = self.enumerate_iter(a[0])
        if inner is not None:
          start = 0
          return [tup(const(i + start), x) for i, x in enumerate(inner)]
      if name == 'zip' and a:
        inners = [self.enumerate_iter(x) for x in a]
        if all(i is not None for i in inners):
          return [tup(*xs) for xs in zip(*inners)]
      if name == 'reversed' and a:
        inner = self.enumerate_iter(a[0])
        if inner is not None:
          return list(reversed(inner))
      if name in ('list', 'tuple', 'sorted') and len(a) == 1 and name != 'sorted':
        return self.enumerate_iter(a[0])
    if it.op == 'dict':
      return [k for k, _ in it.args]
    return None

  def elem_of(self, it):
    """Abstract element of iterable `it`."""
    if it.op in ('list', 'tuple'):
      elts = it.args
      if not elts:
        return NOELEM
      cands = []
      for e in elts:
        if e.op == 'star' and e.args[0].op == 'loopacc':
          continue
        c = e.args[0] if e.op == 'star' else e
        while c.op == 'star' and e.op == 'star':      # flattened nested comprehension: the element is the innermost one
          c = c.args[0]
        cands.append(c)
      if not cands:
        return NOELEM
      uniq = []
      for c in cands:
        if c not in uniq:
          uniq.append(c)
      if len(uniq) == 1:
        return uniq[0]
      return T('oneof', *uniq)
    if it.op == 'tmap':
      return it.args[0]
    if it.op == 'unzipped':
      inner = self.elem_of(it.args[0])
      if inner.op == 'tuple' and it.args[1] < len(inner.args):
        return inner.args[it.args[1]]
      return T('sub', inner, const(it.args[1]))
    if it.op == 'ite':
      a = self.elem_of(it.args[1])
      b = self.elem_of(it.args[2])
      if a is NOELEM:
        return b
      if b is NOELEM:
        return a
      return ite(it.args[0], a, b)
    if it.op == 'call' and it.args[0].op == 'builtin':
      name = it.args[0].args[0]
      a = it.args[1]
      if name == 'zip':
        comps = [self.elem_of(x) for x in a]
        # zip(range(n), xs): the element of xs that travels with index i is xs[i] (same value graph as indexing xs
        # by the loop variable of `for i in range(n)`)
        idx = [c for x, c in zip(a, comps) if c.op == 'rangevar' and x.op == 'call' and x.args[0].op == 'builtin' and x.args[0].args[0] == 'range' and
               len([y for y in x.args[1]]) == 1]
        if len(idx) == 1:
          # zip(range(len(xs)), xs) is enumerate(xs): the same (position, element) pair
          rng = [x for x, c in zip(a, comps) if c is idx[0]][0]
          bound = rng.args[1][0]
          enum_of = [x for x in a if x is not rng and bound.op == 'call' and bound.args[0].op == 'builtin' and bound.args[0].args[0] == 'len' and
                     len(bound.args[1]) == 1 and bound.args[1][0] is x]
          if len(enum_of) == 1 and len(a) == 2:
            comps = [T('index', enum_of[0]) if c is idx[0] else self.elem_of(x) for x, c in zip(a, comps)]
          else:
            comps = [c if c is idx[0] else (self.subscript(x, idx[0], None) if c.op == 'elem' and c.args[0] is x else c) for x, c in zip(a, comps)]
        return T('zipped', *comps)
      if name == 'enumerate' and a:
        return tup(T('index', a[0]), self.elem_of(a[0]))
      if name in ('list', 'tuple', 'iter') and a:
        return self.elem_of(a[0])
      if name in ('reversed', 'sorted') and a:
        inner = self.elem_of(a[0])
        if inner.op == 'elem' or a[0].op in ('attr', 'sym'):
          return T('elem', it)
        return inner
      if name == 'range':
        # iteration variables of nested abstract loops / comprehensions over the same range are different
        # variables: tag the inner ones with their nesting depth
        d = len(self.loop_stack) + getattr(self, 'comp_depth', 0)
        return T('rangevar', *a) if d == 0 else T('rangevar', *a, T('depth', d))
      if name == 'map' and len(a) >= 2:
        return self.call(a[0], [self.elem_of(x) for x in a[1:]], {}, None, None)
    if it.op == 'range_c':
      return T('rangevar', *[const(x) for x in it.args])
    if it.op == 'mut':
      return T('elem', it)
    return T('elem', it)

  # ------------------------------------------------------------ expressions
  def ev(self, n, scope):
    m = getattr(self, 'ev_' + type(n).__name__, None)
    if m is None:
      return unknown('expr', type(n).__name__, loc=self._loc(n))
    return m(n, scope)

  def _loc(self, n):
    return (self.cur_fq(), getattr(n, 'lineno', 0))

  def ev_Constant(self, n, scope):
    return const(n.value)

  def ev_Name(self, n, scope):
    return self.lookup(n.id, scope, n)

  def ev_JoinedStr(self, n, scope):
    # an f-string whose parts are all statically known strings / numbers (no format spec) is that string
    parts = []
    for v in n.values:
      if isinstance(v, ast.Constant) and isinstance(v.value, str):
        parts.append(v.value)
        continue
      if isinstance(v, ast.FormattedValue) and v.format_spec is None and v.conversion in (-1, 115):
        t = self.ev(v.value, scope)
        if is_const(t) and isinstance(cval(t), (str, int)) and not isinstance(cval(t), bool):
          parts.append(str(cval(t)))
          continue
      return T('fstring', ast.unparse(n))
    return const(''.join(parts))

  def ev_NamedExpr(self, n, scope):
    v = self.ev(n.value, scope)
    self.assign(n.target, v, scope)
    return v

  def ev_Starred(self, n, scope):
    return T('starred', self.ev(n.value, scope))

  def ev_Tuple(self, n, scope):
    return T('tuple', *self._elts(n.elts, scope))

  def ev_List(self, n, scope):
    return T('list', *self._elts(n.elts, scope))

  def ev_Set(self, n, scope):
    return T('set', *self._elts(n.elts, scope))

  def _elts(self, elts, scope):
    out = []
    for e in elts:
      if isinstance(e, ast.Starred):
        v = self.ev(e.value, scope)
        if v.op in ('list', 'tuple'):
          out.extend(v.args)
        else:
          out.append(T('star', self.elem_of(v), v))
      else:
        out.append(self.ev(e, scope))
    return out

  def ev_Dict(self, n, scope):
    items = []
    for k, v in zip(n.keys, n.values):
      if k is None:
        items.append((T('dictsplat'), self.ev(v, scope)))
      else:
        items.append((self.ev(k, scope), self.ev(v, scope)))
    return T('dict', *items)

  def ev_Lambda(self, n, scope):
    mod = self._module_of(scope)
    key = f'{mod}.<lambda@{n.lineno}:{n.col_offset}>'
    self.lambdas[key] = (n, scope)
    self.scopes[scope.id] = scope
    return T('closure', key, scope.id)

  def ev_IfExp(self, n, scope):
    c = self.ev(n.test, scope)
    d = self.decide(c)
    if d is True:
      return self.ev(n.body, scope)
    if d is False:
      return self.ev(n.orelse, scope)
    self.path.append(c)
    a = self.ev(n.body, scope)
    self.path.pop()
    self.path.append(neg(c))
    b = self.ev(n.orelse, scope)
    self.path.pop()
    return ite(c, a, b, loc=self._loc(n))

  def ev_BoolOp(self, n, scope):
    op = 'and' if isinstance(n.op, ast.And) else 'or'
    vals = []
    for v in n.values:
      t = self.ev(v, scope)
      d = self.decide(t)
      if op == 'and':
        if d is False:
          # python returns this operand
          if not vals:
            return t
          vals.append(t)
          break
        if d is True and v is not n.values[-1]:
          continue
      else:
        if d is True:
          if not vals:
            return t
          vals.append(t)
          break
        if d is False and v is not n.values[-1]:
          continue
      vals.append(t)
    if len(vals) == 1:
      return vals[0]
    return T('bool', op, *vals, loc=self._loc(n))

  def ev_UnaryOp(self, n, scope):
    v = self.ev(n.operand, scope)
    op = _UNOPS[type(n.op)]
    if op == 'not':
      d = self.decide(v)
      if d is not None:
        return const(not d)
      return neg(v)
    if is_const(v) and isinstance(cval(v), (int, float)) and not isinstance(cval(v), bool):
      if op == '-':
        return const(-cval(v))
      if op == '+':
        return v
    return T('un', op, v, loc=self._loc(n))

  def ev_BinOp(self, n, scope):
    return self.binop(_BINOPS[type(n.op)], self.ev(n.left, scope), self.ev(n.right, scope), n)

  def binop(self, op, a, b, n=None):
    if is_const(a) and is_const(b) and op in _PYBIN:
      x, y = cval(a), cval(b)
      if isinstance(x, (int, float, str, bool)) and isinstance(y, (int, float, str, bool)):
        try:
          if op == '**' and isinstance(y, (int, float)) and abs(y) > 64:
            raise ValueError
          return const(_PYBIN[op](x, y))
        except Exception:
          pass
    if op == '+' and a.op == b.op and a.op in ('list', 'tuple'):
      return T(a.op, *(a.args + b.args))
    if op == '+' and a.op == 'list' and b.op == 'mut':
      return T('list', *(a.args + (T('star', self.elem_of(b), b),)))
    if op == '*' and a.op in ('list', 'tuple') or op == '*' and b.op in ('list', 'tuple'):
      l, k = (a, b) if a.op in ('list', 'tuple') else (b, a)
      if is_const(k) and isinstance(cval(k), (int, bool)):
        return T(l.op, *(l.args * int(cval(k))))
      if not l.args:
        return l
      return T(l.op, *[T('star', e, T('repeat', k)) for e in l.args])
    return T('bin', op, a, b, loc=self._loc(n) if n is not None else None)

  def ev_Compare(self, n, scope):
    left = self.ev(n.left, scope)
    parts = []
    for op, right in zip(n.ops, n.comparators):
      r = self.ev(right, scope)
      parts.append(self.compare(_CMPOPS[type(op)], left, r, n))
      left = r
    if len(parts) == 1:
      return parts[0]
    ds = [self.decide(p) for p in parts]
    if any(d is False for d in ds):
      return FALSE
    if all(d is True for d in ds):
      return TRUE
    return T('bool', 'and', *parts)

  def compare(self, op, a, b, n=None):
    if op in _PYCMP and is_const(a) and is_const(b):
      try:
        return const(bool(_PYCMP[op](cval(a), cval(b))))
      except Exception:
        pass
    if op in ('==', '!=', 'is', 'is not'):
      same = None
      if a is b and a.op in ('const', 'enum', 'class', 'ext', 'closure'):
        same = True
      elif a.op == 'enum' and b.op == 'enum':
        same = a is b
      elif a.op == 'const' and b.op == 'const':
        same = (cval(a) == cval(b)) if op in ('==', '!=') else (cval(a) is cval(b) or cval(a) == cval(b))
      elif a.op == 'ext' and b.op == 'ext':
        same = a is b
      elif (a.op == 'const' and cval(a) is not None and b.op in ('ext', 'closure', 'class', 'enum', 'rec', 'obj', 'partial', 'bound')) or \
           (b.op == 'const' and cval(b) is not None and a.op in ('ext', 'closure', 'class', 'enum', 'rec', 'obj', 'partial', 'bound')):
        same = False
      elif (a.op == 'const' and cval(a) is None and b.op in ('rec', 'obj', 'list', 'tuple', 'closure', 'class', 'enum', 'ext', 'partial', 'dict')) or \
           (b.op == 'const' and cval(b) is None and a.op in ('rec', 'obj', 'list', 'tuple', 'closure', 'class', 'enum', 'ext', 'partial', 'dict')):
        same = False
      elif a.op in ('list', 'tuple') and b.op in ('list', 'tuple') and op in ('==', '!='):
        if not any(x.op == 'star' for x in a.args + b.args):
          if len(a.args) != len(b.args):
            same = False
          elif all(x is y for x, y in zip(a.args, b.args)):
            same = True
      if same is not None:
        return const(same if op in ('==', 'is') else not same)
    if op in ('in', 'not in') and b.op in ('list', 'tuple', 'set') and not any(x.op == 'star' for x in b.args):
      res = [self.compare('==', a, x) for x in b.args]
      if any(is_const(r, True) for r in res):
        return const(op == 'in')
      if all(is_const(r, False) for r in res):
        return const(op != 'in')
    return T('cmp', op, a, b, loc=self._loc(n) if n is not None else None)

  def ev_Attribute(self, n, scope):
    return self.attr(self.ev(n.value, scope), n.attr, n)

  def attr(self, base, name, n=None):
    if self.attr_hook is not None:
      r = self.attr_hook(self, base, name)
      if r is not None:
        return r
    op = base.op
    if op == 'slice' and name in ('start', 'stop', 'step'):
      return base.args[('start', 'stop', 'step').index(name)]        # fields of a slice object
    if op == 'mod':
      sc = self.module_scope(base.args[0])
      if name in sc.vars:
        return sc.vars[name]
      sub = base.args[0] + '.' + name
      if sub in self.model.modules:
        return T('mod', sub)
      return unknown('module-attr', sub)
    if op == 'ext':
      return ext(base.args[0] + '.' + name)
    if op == 'class':
      ci = self.model.classes.get(base.args[0])
      if ci is not None:
        if name in ci.methods:
          return self._method_value(ci, name, base, is_class_access=True)
        for fname, default, _ in ci.fields:
          if fname == name:
            if ci.is_enum:
              sc = self.module_scope(ci.module.name)
              val = self.ev(default, sc) if default is not None else NONE
              return T('enum', ci.fq, name, val)
            sc = self.module_scope(ci.module.name)
            return self.ev(default, sc) if default is not None else unknown('class-field', name)
      return T('attr', base, name)
    if op == 'rec':
      for k, v in base.args[1]:
        if k == name:
          return v
      ci = self.model.classes.get(base.args[0])
      if ci is not None and name in ci.methods:
        return self._method_value(ci, name, base)
      if name in ('replace', '_replace'):
        return T('recmeth', base, 'replace')
      return T('attr', base, name)
    if op == 'obj':
      key = (base.args[1], name)
      if key in self.heap:
        return self.heap[key]
      ci = self.model.classes.get(base.args[0])
      if ci is not None and name in ci.methods:
        return self._method_value(ci, name, base)
      return T('attr', base, name)
    if op == 'enum':
      if name == 'value':
        return base.args[2]
      if name == 'name':
        return const(base.args[1])
    if op == 'ite':
      return ite(base.args[0], self.attr(base.args[1], name, n), self.attr(base.args[2], name, n))
    if op == 'cond' and base.args[1].op in ('rec', 'cond') and base.args[2].op in ('rec', 'cond'):
      return T('cond', base.args[0], self.attr(base.args[1], name, n), self.attr(base.args[2], name, n))
    if op == 'oneof' and all(x.op in ('rec', 'obj') for x in base.args):
      parts = []
      for x in base.args:
        v = self.attr(x, name, n)
        if v not in parts:
          parts.append(v)
      return parts[0] if len(parts) == 1 else T('oneof', *parts)
    return T('attr', base, name, loc=self._loc(n) if n is not None else None)

  def _method_value(self, ci, name, recv, is_class_access=False):
    fi = ci.methods[name]
    decos = [ast.unparse(d) for d in fi.node.decorator_list]
    sc = self.module_scope(ci.module.name)
    clo = T('closure', fi.fq, sc.id)
    self.scopes[sc.id] = sc
    if 'classmethod' in decos:
      cls_t = recv if recv.op == 'class' else T('class', ci.fq)
      return T('bound', clo, cls_t)
    if 'staticmethod' in decos:
      return clo
    if 'property' in decos and not is_class_access:
      return self.call(T('bound', clo, recv), [], {}, None, None)
    if is_class_access:
      return clo
    return T('bound', clo, recv)

  def ev_Subscript(self, n, scope):
    base = self.ev(n.value, scope)
    idx = self.ev_index(n.slice, scope)
    return self.subscript(base, idx, n)

  def ev_index(self, sl, scope):
    if isinstance(sl, ast.Slice):
      lo = self.ev(sl.lower, scope) if sl.lower else NONE
      st_ = self.ev(sl.step, scope) if sl.step else NONE
      # x[0:n] is x[:n], x[a:b:1] is x[a:b]
      if is_const(lo) and cval(lo) == 0 and not isinstance(cval(lo), bool):
        lo = NONE
      if is_const(st_) and cval(st_) == 1 and not isinstance(cval(st_), bool):
        st_ = NONE
      return T('slice', lo, self.ev(sl.upper, scope) if sl.upper else NONE, st_)
    if isinstance(sl, ast.Tuple):
      return T('tuple', *[self.ev_index(e, scope) for e in sl.elts])
    return self.ev(sl, scope)

  def ev_Slice(self, n, scope):
    return self.ev_index(n, scope)

  def subscript(self, base, idx, n=None):
    if idx.op == 'slice' and all(is_const(x, None) for x in idx.args) and base.op in ('elem', 'call', 'sub', 'zipped'):
      return base                     # x[:] of an immutable value is x
    if base.op == 'ext' and base.args[0] in ('numpy.s_', 'numpy.index_exp', 'jax.numpy.s_', 'jax.numpy.index_exp'):
      return idx                      # np.s_[a:b, c] is the index object itself
    if base.op not in ('tuple', 'list', 'dict', 'const', 'rec'):
      # x[::-1] is jnp.flip(x); x[:, ::-1] is jnp.flip(x, axis=1) (array values: lists / tuples are handled below)
      def is_rev(t):
        return t.op == 'slice' and is_const(t.args[0], None) and is_const(t.args[1], None) and is_const(t.args[2], -1)

      def is_all(t):
        return t.op == 'slice' and all(is_const(x, None) for x in t.args)
      def arrayish(t):      # evidently an array (a python list reversed by [::-1] keeps its own form)
        return (t.op == 'call' and t.args[0].op == 'ext' and t.args[0].args[0].split('.')[0] in ('jax', 'numpy')) or t.op in ('bin', 'un') or \
            (t.op == 'sub' and arrayish(t.args[0]))
      if is_rev(idx) and arrayish(base):
        return self.call(ext('jax.numpy.flip'), [base], {}, n, None)
      if idx.op == 'tuple' and idx.args and is_rev(idx.args[-1]) and all(is_all(t) for t in idx.args[:-1]) and len(idx.args) >= 2:
        return self.call(ext('jax.numpy.flip'), [base], {'axis': const(len(idx.args) - 1)}, n, None)
    if base.op in ('tuple', 'list'):
      has_star = any(a.op == 'star' for a in base.args)
      if is_const(idx) and isinstance(cval(idx), int) and not isinstance(cval(idx), bool) and not has_star:
        i = cval(idx)
        if -len(base.args) <= i < len(base.args):
          return base.args[i]
      if idx.op == 'slice':
        lo, hi, st = idx.args
        if all(is_const(x) for x in (lo, hi, st)) and not has_star:
          return T(base.op, *base.args[slice(cval(lo), cval(hi), cval(st))])
        # symbolic slice of a list: keep element origins
        e = self.elem_of(base)
        if e is NOELEM:
          return base
        return T(base.op, T('star', e, T('sliceof', base, idx)))
      if not is_const(idx):
        e = self.elem_of(base)
        if e is not NOELEM and base.op == 'list':
          return e if len(set(a.args[0] if a.op == 'star' else a for a in base.args)) == 1 else T('sub', base, idx)
    if base.op == 'store':
      b = base
      while b.op == 'store':
        k = b.args[1]
        if k is idx:
          return b.args[2]
        if is_const(k) and is_const(idx):
          b = b.args[0]
          continue
        return T('sub', base, idx)
      return self.subscript(b, idx, n)
    if base.op == 'dict' and idx.op in ('const', 'enum'):
      for k, v in base.args:
        if k is idx:
          return v
    if base.op == 'ite':
      return ite(base.args[0], self.subscript(base.args[1], idx, n), self.subscript(base.args[2], idx, n))
    if base.op == 'unzip' and is_const(idx):
      return T('unzipped', base.args[0], cval(idx))
    if base.op == 'sub' and base.args[1].op == 'slice' and is_const(idx) and isinstance(cval(idx), int) and \
        not isinstance(cval(idx), bool) and cval(idx) >= 0:
      # x[:h][i] is x[i] for 0 <= i < h (sequences and arrays alike: whenever one is defined so is the other)
      lo, hi, stp = base.args[1].args
      if all(is_const(x) for x in (lo, hi, stp)) and cval(stp) in (None, 1) and cval(lo) in (None, 0) and \
          (cval(hi) is None or (isinstance(cval(hi), int) and cval(hi) > cval(idx))):
        return self.subscript(base.args[0], idx, n)
    if base.op == 'sub' and base.args[1].op == 'slice' and base.args[0].op == 'while' and \
        is_const(idx) and isinstance(cval(idx), int) and not isinstance(cval(idx), bool) and cval(idx) >= 0:
      # state[a:b][i] of a loop's final state (a python tuple shaped like the initial state) is state[a + i]
      lo, hi, stp = base.args[1].args
      init = base.args[0].args[1] if len(base.args[0].args) > 1 else None
      if all(is_const(x) for x in (lo, hi, stp)) and cval(stp) in (None, 1) and (cval(lo) is None or cval(lo) >= 0) and \
          init is not None and init.op in ('tuple', 'list') and not any(a.op == 'star' for a in init.args):
        j = (cval(lo) or 0) + cval(idx)
        top = len(init.args) if cval(hi) is None else (cval(hi) if cval(hi) >= 0 else len(init.args) + cval(hi))
        if j < min(top, len(init.args)):
          return self.subscript(base.args[0], const(j), n)
    if base.op == 'cond' and (is_const(idx) or idx.op == 'slice') and \
        base.args[1].op in ('tuple', 'list', 'cond') and base.args[2].op in ('tuple', 'list', 'cond'):
      return T('cond', base.args[0], self.subscript(base.args[1], idx, n), self.subscript(base.args[2], idx, n))
    return T('sub', base, idx, loc=self._loc(n) if n is not None else None)

  # comprehensions
  def _comp(self, n, scope, kind):
    gens = n.generators
    sc = Scope('comp', scope, locals_=set(), label='comp')
    self.scopes[sc.id] = sc

    def rec(gi):
      if gi == len(gens):
        if kind == 'dict':
          return [(self.ev(n.key, sc), self.ev(n.value, sc))]
        return [self.ev(n.elt, sc)]
      g = gens[gi]
      it = self.ev(g.iter, sc if gi else scope)
      items = self.enumerate_iter(it)
      out = []
      if items is not None and len(items) <= self.unroll:
        for x in items:
          self.assign(g.target, x, sc)
          ok = True
          for cnd in g.ifs:
            d = self.decide(self.ev(cnd, sc))
            if d is False:
              ok = False
              break
            if d is None:
              ok = None
          if ok is False:
            continue
          inner = rec(gi + 1)
          if ok is None:
            inner = [T('star', e, T('filtered', x)) if kind != 'dict' else e for e in inner]
          out.extend(inner)
        return out
      self.assign(g.target, self.elem_of(it), sc)
      self.comp_depth = getattr(self, 'comp_depth', 0) + 1
      try:
        conds = [self.ev(cnd, sc) for cnd in g.ifs]
        if any(self.decide(c) is False for c in conds):
          return []
        conds = [c for c in conds if self.decide(c) is not True]
        inner = rec(gi + 1)
      finally:
        self.comp_depth -= 1
      dom = T('compdom', it, *conds)
      if kind == 'dict':
        return [(T('star', k, dom), v) for k, v in inner]
      return [T('star', e, dom) for e in inner]
    elts = rec(0)
    if kind == 'dict':
      return T('dict', *elts)
    return T('list' if kind in ('list', 'gen') else 'set', *elts)

  def ev_ListComp(self, n, scope):
    return self._comp(n, scope, 'list')

  def ev_GeneratorExp(self, n, scope):
    return self._comp(n, scope, 'gen')

  def ev_SetComp(self, n, scope):
    return self._comp(n, scope, 'set')

  def ev_DictComp(self, n, scope):
    return self._comp(n, scope, 'dict')

  # ------------------------------------------------------------ calls
  def ev_Call(self, n, scope):
    if isinstance(n.func, ast.Attribute) and n.func.attr == 'pop' and isinstance(n.func.value, ast.Name) and not n.keywords:
      cur = self.ev(n.func.value, scope)
      idx = [self.ev(a, scope) for a in n.args]
      if cur.op == 'list' and not any(e.op == 'star' for e in cur.args) and all(is_const(i) for i in idx) and not self.loop_stack:
        items = list(cur.args)
        try:
          val = items.pop(*[cval(i) for i in idx])
          self.assign(n.func.value, T('list', *items), scope, quiet=True)
          return val
        except Exception:
          pass
    f = self.ev(n.func, scope)
    args = []
    for a in n.args:
      if isinstance(a, ast.Starred):
        v = self.ev(a.value, scope)
        if v.op in ('list', 'tuple') and not any(x.op == 'star' for x in v.args):
          args.extend(v.args)
        else:
          args.append(T('starred', v))
      else:
        args.append(self.ev(a, scope))
    kwargs = {}
    for kw in n.keywords:
      if kw.arg is None:
        v = self.ev(kw.value, scope)
        if v.op == 'dict' and all(is_const(k) for k, _ in v.args):
          for k, vv in v.args:
            kwargs[cval(k)] = vv
        else:
          kwargs['**'] = v
      else:
        kwargs[kw.arg] = self.ev(kw.value, scope)
    return self.call(f, args, kwargs, n, scope)

  def generic_call(self, f, args, kwargs, n=None):
    return T('call', f, tuple(args), tuple(sorted(kwargs.items())), loc=self._loc(n) if n is not None else None)

  def call(self, f, args, kwargs, n, scope):
    op = f.op
    if op == 'closure':
      return self.call_closure(f, None, args, kwargs, n)
    if op == 'bound':
      return self.call_closure(f.args[0], f.args[1], args, kwargs, n)
    if op == 'class':
      return self.construct(f, args, kwargs, n)
    if op == 'partial':
      pa = list(f.args[1]) + list(args)
      pk = dict(f.args[2])
      pk.update(kwargs)
      return self.call(f.args[0], pa, pk, n, scope)
    if op == 'vmapped':
      r = self.call(f.args[0], args, kwargs, n, scope)
      self.vmap_log.append((f, tuple(args), r, self.cur_fq(), tuple(sorted(kwargs.items()))))
      return r
    if op == 'maybe':
      # _maybe(f)(x, ...) -> None if x is None else f(x, ...)
      if args and is_const(args[0], None):
        return NONE
      return self.call(f.args[0], args, kwargs, n, scope)
    if op == 'ite':
      return ite(f.args[0], self.call(f.args[1], args, kwargs, n, scope),
                 self.call(f.args[2], args, kwargs, n, scope))
    if op == 'recmeth':
      rec = f.args[0]
      fields = dict(rec.args[1])
      for k, v in kwargs.items():
        fields[k] = v
      order = [k for k, _ in rec.args[1]]
      for k in kwargs:
        if k not in order:
          order.append(k)
      r_ = T('rec', rec.args[0], tuple((k, fields[k]) for k in order))
      # a record rebuilt by replace is a construction like any other (rules look at constructor records)
      self.calls.append(CallRecord(rec.args[0], dict((k, fields[k]) for k in order), tuple(self.path), self.cur_fq(), n, 'construct'))
      self.calls[-1].result = r_
      return r_
    if op == 'ext':
      args, kwargs = extsig.canonical(f.args[0], args, kwargs)
      if f.args[0] in _CMP_FUNCS and len(args) == 2 and not kwargs:
        return self.compare(_CMP_FUNCS[f.args[0]], args[0], args[1], n)      # jnp.greater_equal(a, b) is a >= b
      if f.args[0] in ('jax.numpy.power', 'numpy.power', 'jax.lax.pow') and len(args) == 2 and not kwargs:
        return T('bin', '**', args[0], args[1], loc=self._loc(n) if n is not None else None)     # jnp.power(a, b) is a ** b
      if f.args[0] in ('jax.numpy.where', 'jax.lax.select', 'numpy.where') and len(args) == 3 and not kwargs:
        c2, flipped = strip_negation(args[0])       # canonical polarity of array selects
        args = [c2, args[2], args[1]] if flipped else [c2, args[1], args[2]]
      if f.args[0] in ('jax.numpy.moveaxis', 'numpy.moveaxis') and len(args) == 3 and not kwargs and \
          is_const(args[1], 0) and is_const(args[2], -1):
        # moving the leading axis to the end is the cyclic transpose (1, ..., rank-1, 0): one spelling for both
        sc_ = Scope('function', None, locals_=set(), label='<canon>')
        sc_.vars['a'] = args[0]
        axes = self.ev(ast.parse('tuple(range(1, len(a.shape))) + (0,)', mode='eval').body, sc_)
        f = ext(f.args[0].rsplit('.', 1)[0] + '.transpose')
        args = [args[0], axes]
      r = self.call_ext(f.args[0], args, kwargs, n, scope)
      if r is not None:
        return r
      return self.generic_call(f, args, kwargs, n)
    if op == 'builtin':
      r = self.call_builtin(f.args[0], args, kwargs, n, scope)
      if r is not None:
        return r
      return self.generic_call(f, args, kwargs, n)
    if op == 'attr':
      if f.args[1] == '_replace' and not args and kwargs and '**' not in kwargs:
        # NamedTuple._replace on a value whose class is not tracked: if exactly one record class of the repository has all
        # the named fields, the result is that record with the other fields passed through
        cands = [ci for ci in self.model.classes.values() if ci.is_record and ci.is_namedtuple and
                 set(kwargs) <= {fn_ for fn_, _, _ in ci.fields}]
        if len(cands) == 1:
          ci = cands[0]
          fields = [(fn_, kwargs[fn_] if fn_ in kwargs else self.attr(f.args[0], fn_, n)) for fn_, _, _ in ci.fields]
          r_ = T('rec', ci.fq, tuple(fields))
          self.calls.append(CallRecord(ci.fq, dict(fields), tuple(self.path), self.cur_fq(), n, 'construct'))
          self.calls[-1].result = r_
          return r_
      r = self.call_method_generic(f.args[0], f.args[1], args, kwargs, n, scope)
      if r is not None:
        return r
    return self.generic_call(f, args, kwargs, n)

  def call_method_generic(self, recv, name, args, kwargs, n, scope):
    if recv.op == 'const' and isinstance(cval(recv), str):
      s = cval(recv)
      if name == 'join' and len(args) == 1 and args[0].op in ('list', 'tuple') and all(is_const(x) and isinstance(cval(x), str) for x in args[0].args):
        return const(s.join(cval(x) for x in args[0].args))
      if all(is_const(a) for a in args) and not kwargs and name in ('format', 'startswith', 'endswith', 'split', 'join', 'lower', 'upper', 'strip'):
        try:
          r = getattr(s, name)(*[cval(a) for a in args])
          if isinstance(r, list):
            return T('list', *[const(x) for x in r])
          return const(r)
        except Exception:
          return None
      return T('strop', name, recv, tuple(args))
    if recv.op in ('list', 'tuple') and name == 'copy':
      return recv
    if recv.op == 'dict' and name in ('items', 'keys', 'values'):
      if name == 'items':
        return T('list', *[tup(k, v) for k, v in recv.args])
      if name == 'keys':
        return T('list', *[k for k, _ in recv.args])
      return T('list', *[v for _, v in recv.args])
    return None

  # -- repo closures
  def _resolve_closure(self, clo):
    key, sid = clo.args
    if key in self.lambdas and key not in self.model.functions:
      node, scope = self.lambdas[key]
      return node, self.scopes.get(sid, scope), None, key
    fi = self.model.functions.get(key)
    if fi is None:
      return None, None, None, key
    return fi.node, self.scopes.get(sid), fi, key

  def call_closure(self, clo, self_t, args, kwargs, n):
    node, defscope, fi, key = self._resolve_closure(clo)
    if node is None:
      return self.generic_call(clo, args, kwargs, n)
    short = key.split('.')[-1]
    fullargs = ([self_t] if self_t is not None else []) + list(args)
    bound = self.bind_args(node, fullargs, kwargs, defscope)
    rec = CallRecord(key, bound, tuple(self.path), self.cur_fq(), n, None)
    self.calls.append(rec)
    summ = self.summaries.get(key) or self.summaries.get(short)
    if summ is not None:
      r = summ(self, bound, rec)
      if r is not None:
        rec.result = r
        return r
    if key in self.opaque or short in self.opaque:
      ca, ck = self._canonical_internal(node, fullargs, kwargs)
      r = T('call', T('fn', key), tuple(ca), tuple(sorted(ck.items())))
      rec.result = r
      return r
    if bound is None:
      return self.generic_call(clo, fullargs, kwargs, n)
    if len(self._active) >= self.max_depth or self._active.count(key) >= 2:
      ca, ck = self._canonical_internal(node, fullargs, kwargs)
      r = T('call', T('fn', key), tuple(ca), tuple(sorted(ck.items())))
      rec.result = r
      return r
    r = self.run_function(node, fi, key, defscope, bound)
    rec.result = r
    return r

  def _canonical_internal(self, node, args, kwargs):
    """Uninterpreted calls of repository functions in one spelling: arguments given by keyword move into their
    positional slot as long as every earlier parameter is supplied (f(a, y=b) == f(a, b))."""
    a = node.args
    if a.vararg or '**' in kwargs or any(x.op == 'starred' for x in args):
      return list(args), dict(kwargs)
    params = [x.arg for x in a.posonlyargs + a.args]
    args, kwargs = list(args), dict(kwargs)
    while len(args) < len(params) and params[len(args)] in kwargs:
      args.append(kwargs.pop(params[len(args)]))
    return args, kwargs

  def run_function(self, node, fi, key, defscope, bound):
    kind = 'lambda' if isinstance(node, ast.Lambda) else 'function'
    sc = Scope(kind, defscope, locals_=(fi.locals if fi else _local_names(node)), fi=fi, label=key)
    self.scopes[sc.id] = sc
    sc.vars.update(bound)
    # lists of an enclosing scope that this function mutates in place (x.append(...) on a free variable): work on a
    # local alias so that branch merges inside the body see the mutation, and write the final value back afterwards
    captured = []
    if not isinstance(node, ast.Lambda):
      for nm in _mutated_names(node.body):
        if nm in sc.vars or nm in sc.locals:
          continue
        ds = defscope
        while ds is not None and nm not in ds.vars:
          ds = ds.parent
        if ds is not None and ds.vars[nm].op == 'list':
          sc.vars[nm] = ds.vars[nm]
          captured.append((nm, ds))
    self._active.append(key)
    fr = _Frame(key, len(self.path))
    self.frames.append(fr)
    saved_loops = self.loop_stack
    saved_ctl = self.loop_ctl
    self.loop_stack = []
    self.loop_ctl = []
    try:
      if isinstance(node, ast.Lambda):
        return self.ev(node.body, sc)
      term = self.exec_block(node.body, sc)
      if not term:
        fr.returns.append((tuple(self.path[fr.path_base:]), NONE))
    finally:
      self.loop_stack = saved_loops
      self.loop_ctl = saved_ctl
      self.frames.pop()
      self._active.pop()
    for nm, ds in captured:
      if nm in sc.vars:
        ds.vars[nm] = sc.vars[nm]
    self.last_scope = sc
    return self._fold_returns(fr.returns)

  def _fold_returns(self, returns):
    if not returns:
      return T('noreturn')
    res = returns[-1][1]
    for cond, v in reversed(returns[:-1]):
      cs = [c for c in cond if c.op != 'inloop']
      if not cs:
        res = v if not cond else T('loopret', v, res)
        continue
      c = cs[0] if len(cs) == 1 else T('bool', 'and', *cs)
      res = ite(c, v, res)
    return res

  def bind_args(self, node, args, kwargs, defscope):
    a = node.args
    params = [x.arg for x in a.posonlyargs + a.args]
    bound = {}
    pos = list(args)
    star_pos = [x for x in pos if x.op == 'starred']
    rest = []
    if star_pos:
      # unknown number of positionals: bind what we can by position, rest unknown
      newpos = []
      for x in pos:
        if x.op == 'starred':
          break
        newpos.append(x)
      rest = pos[len(newpos):]
      pos = newpos
      for i, p in enumerate(params[len(pos):]):
        if p not in kwargs:
          bound[p] = T('argsplat', tuple(rest), i)
    for p, v in zip(params, pos):
      bound[p] = v
    extra = pos[len(params):] + list(rest if a.vararg else [])
    if a.vararg:
      bound[a.vararg.arg] = T('tuple', *extra)
    kw_left = dict(kwargs)
    for p in params + [x.arg for x in a.kwonlyargs]:
      if p in kw_left:
        bound[p] = kw_left.pop(p)
    if a.kwarg:
      splat = kw_left.pop('**', None)
      items = tuple((const(k), v) for k, v in sorted(kw_left.items()))
      bound[a.kwarg.arg] = T('dict', *items) if splat is None else T('dictmerge', T('dict', *items), splat)
      kw_left = {}
    # defaults
    defaults = a.defaults
    dparams = params[len(params) - len(defaults):] if defaults else []
    for p, d in zip(dparams, defaults):
      if p not in bound:
        bound[p] = self.ev(d, defscope) if defscope is not None else unknown('default', p)
    for p, d in zip(a.kwonlyargs, a.kw_defaults):
      if p.arg not in bound and d is not None:
        bound[p.arg] = self.ev(d, defscope) if defscope is not None else unknown('default', p.arg)
    for p in params + [x.arg for x in a.kwonlyargs]:
      if p not in bound:
        bound[p] = T('missingarg', p) if '**' not in kwargs else T('fromsplat', kwargs['**'], p)
    return bound

  # -- construction
  def construct(self, cls_t, args, kwargs, n):
    ci = self.model.classes.get(cls_t.args[0])
    if ci is None:
      return self.generic_call(cls_t, args, kwargs, n)
    if '__init__' in ci.methods:
      oid = self.new_id('o')
      obj = T('obj', ci.fq, oid)
      sc = self.module_scope(ci.module.name)
      clo = T('closure', ci.methods['__init__'].fq, sc.id)
      self.call_closure(clo, obj, args, kwargs, n)
      return obj
    if ci.is_enum:
      return self.generic_call(cls_t, args, kwargs, n)
    if ci.is_record:
      names = [f for f, _, _ in ci.fields]
      fields = {}
      starred = [x for x in args if x.op == 'starred']
      if len(starred) == 1 and '**' not in kwargs:
        # Rec(*parts, a, b) with every field supplied: `parts` fills the fields the other arguments leave (a call that
        # constructs at all has exactly that many)
        k = len(names) - (len(args) - 1) - len([f_ for f_ in kwargs if f_ in names])
        if k >= 0:
          exp_ = []
          for x in args:
            exp_.extend([self.subscript(x.args[0], const(i), None) for i in range(k)] if x.op == 'starred' else [x])
          args = exp_
      for nm, v in zip(names, args):
        fields[nm] = v
      for k, v in kwargs.items():
        fields[k] = v
      sc = self.module_scope(ci.module.name)
      out = []
      for nm, default, _ in ci.fields:
        if nm in fields:
          out.append((nm, fields[nm]))
        elif default is not None and ci.is_namedtuple:
          out.append((nm, self.ev(default, sc)))
        elif default is not None:
          out.append((nm, self._dataclass_default(ci, nm, default, sc)))
        else:
          out.append((nm, T('missingarg', nm)))
      extra = [k for k in fields if k not in names]
      for k in extra:
        out.append((k, fields[k]))
      r = T('rec', ci.fq, tuple(out), loc=self._loc(n) if n is not None else None)
      self.calls.append(CallRecord(ci.fq, dict(out), tuple(self.path), self.cur_fq(), n, 'construct'))
      self.calls[-1].result = r
      return r
    return self.generic_call(cls_t, args, kwargs, n)

  def _dataclass_default(self, ci, name, default, sc):
    v = self.ev(default, sc)
    # struct.field(default_factory=F) / dataclasses.field(default_factory=F)
    if v.op == 'call' and v.args[0].op == 'ext' and v.args[0].args[0].endswith('.field'):
      kw = dict(v.args[2])
      if 'default_factory' in kw:
        return self.call(kw['default_factory'], [], {}, None, None)
      if 'default' in kw:
        return kw['default']
      return T('default', ci.fq, name)
    return v

  # -- builtins
  def call_builtin(self, name, args, kwargs, n, scope):
    a = args
    if name == 'next' and a and a[0].op == 'itergen':
      st = self.gen_state.get(a[0].args[0])
      if st is not None and st['pos'] < len(st['items']):
        st['pos'] += 1
        return st['items'][st['pos'] - 1]
      return None
    if name == 'slice' and 1 <= len(a) <= 3 and not kwargs:
      # slice(b) / slice(a, b) / slice(a, b, c): the slice object x[a:b:c] uses
      lo, hi, st_ = (NONE, a[0], NONE) if len(a) == 1 else (a[0], a[1], a[2] if len(a) == 3 else NONE)
      if is_const(lo) and cval(lo) == 0 and not isinstance(cval(lo), bool):
        lo = NONE
      if is_const(st_) and cval(st_) == 1 and not isinstance(cval(st_), bool):
        st_ = NONE
      return T('slice', lo, hi, st_)
    if name == 'dict' and '**' not in kwargs and (not a or (len(a) == 1 and a[0].op == 'dict')):
      # dict(k=v, ...) / dict(d, k=v) is the literal {**d, 'k': v}
      items = [kv for kv in (a[0].args if a else ()) if not (is_const(kv[0]) and cval(kv[0]) in kwargs)]
      return T('dict', *items, *[(const(k), v) for k, v in kwargs.items()])
    if name == 'len' and len(a) == 1:
      x = a[0]
      if x.op in ('list', 'tuple', 'set', 'dict') and not any(isinstance(e, T) and e.op == 'star' for e in x.args):
        return const(len(x.args))
      if x.op == 'const' and isinstance(cval(x), str):
        return const(len(cval(x)))
      return None
    if name == 'range':
      if a and all(is_const(x) and isinstance(cval(x), int) for x in a):
        vals = [cval(x) for x in a]
        if len(range(*vals)) <= 64:
          return T('range_c', *vals)
      return None
    if name in ('list', 'tuple'):
      if not a:
        return T(name)
      x = a[0]
      if x.op in ('list', 'tuple'):
        return T(name, *x.args)
      if x.op == 'range_c':
        return T(name, *[const(i) for i in range(*x.args)])
      if x.op in ('tmap', 'unzip', 'unzipped', 'cond'):
        return x
      items = self.enumerate_iter(x)
      if items is not None:
        return T(name, *items)
      if x.op == 'call' and x.args[0].op == 'builtin' and x.args[0].args[0] in ('zip', 'map', 'reversed', 'enumerate'):
        return T(name, T('star', self.elem_of(x), x))
      return None
    if name == 'zip':
      if len(a) == 1 and a[0].op == 'starred':
        inner = a[0].args[0]
        e = self.elem_of(inner)
        if e.op == 'tuple':
          return T('unzip', inner, len(e.args))
        return None
      return None
    if name in ('int', 'float', 'bool', 'str') and len(a) == 1 and is_const(a[0]):
      try:
        return const(getattr(_builtins, name)(cval(a[0])))
      except Exception:
        return None
    if name == 'abs' and len(a) == 1 and is_const(a[0]) and isinstance(cval(a[0]), (int, float)):
      return const(abs(cval(a[0])))
    if name in ('min', 'max') and a and all(is_const(x) and isinstance(cval(x), (int, float)) for x in a) and len(a) > 1:
      return const(getattr(_builtins, name)(*[cval(x) for x in a]))
    if name in ('min', 'max') and len(a) == 1 and a[0].op in ('list', 'tuple') and all(is_const(x) for x in a[0].args):
      vals = [cval(x) for x in a[0].args]
      if vals:
        return const(getattr(_builtins, name)(vals))
      if 'default' in kwargs:
        return kwargs['default']
    if name == 'sum' and len(a) == 1 and a[0].op in ('list', 'tuple') and all(is_const(x) for x in a[0].args):
      try:
        return const(sum(cval(x) for x in a[0].args))
      except Exception:
        return None
    if name == 'isinstance' and len(a) == 2 and a[0].op in ('cond', 'ite'):
      r1 = self.call_builtin(name, [a[0].args[1], a[1]], kwargs, n, scope)
      r2 = self.call_builtin(name, [a[0].args[2], a[1]], kwargs, n, scope)
      if r1 is not None and r1 is r2:
        return r1
      return None
    if name == 'isinstance' and len(a) == 2:
      x, c = a
      if c.op == 'builtin':
        cn = c.args[0]
        if x.op in ('list', 'tuple', 'dict', 'set'):
          return const(x.op == cn)
        if x.op == 'const':
          return const(isinstance(cval(x), getattr(_builtins, cn, ())) if isinstance(getattr(_builtins, cn, None), type) else False)
        if x.op in ('rec', 'obj', 'closure', 'enum'):
          return FALSE
        if x.op in ('ext', 'partial', 'bound', 'fn', 'vmapped') and cn in ('str', 'int', 'float', 'bool', 'list', 'tuple', 'dict', 'set', 'bytes'):
          return FALSE            # a function object is none of the data types
        if x.op == 'call' and x.args[0].op == 'ext' and x.args[0].args[0].split('.')[0] in ('jax', 'numpy') and cn in ('list', 'tuple', 'dict', 'set', 'str'):
          return FALSE
        if x.op == 'bin' and cn in ('list', 'tuple', 'dict', 'set') and x.args[1].op not in ('list', 'tuple', 'mut', 'phi') and x.args[2].op not in ('list', 'tuple', 'mut', 'phi'):
          return FALSE
      if c.op == 'class':
        if x.op in ('rec', 'obj'):
          return const(x.args[0] == c.args[0])
        if x.op in ('list', 'tuple', 'const', 'dict'):
          return FALSE
      if c.op == 'ext' and x.op in ('list', 'tuple', 'const', 'dict', 'rec', 'obj'):
        return FALSE
      return None
    if name == 'callable' and len(a) == 1:
      if a[0].op in ('closure', 'bound', 'partial', 'class'):
        return TRUE
      if a[0].op in ('const', 'list', 'tuple', 'dict'):
        return FALSE
      return None
    if name == 'print':
      self.effects.append(('io-print', (), self.cur_fq(), n))
      return NONE
    if name == 'getattr' and len(a) >= 2 and is_const(a[1]) and isinstance(cval(a[1]), str):
      r = self.attr(a[0], cval(a[1]), n)
      if r.op == 'attr' and len(a) == 3:
        return T('getattr', a[0], a[1], a[2])
      return r
    if name == 'any' or name == 'all':
      if len(a) == 1 and a[0].op in ('list', 'tuple') and not any(e.op == 'star' for e in a[0].args):
        ds = [self.decide(e) for e in a[0].args]
        if name == 'any':
          if any(d is True for d in ds):
            return TRUE
          if all(d is False for d in ds):
            return FALSE
        else:
          if any(d is False for d in ds):
            return FALSE
          if all(d is True for d in ds):
            return TRUE
      return None
    if name == 'map' and len(a) >= 2:
      items = [self.enumerate_iter(x) for x in a[1:]]
      if all(i is not None for i in items):
        return T('list', *[self.call(a[0], list(xs), {}, n, scope) for xs in zip(*items)])
      elems = [self.elem_of(x) for x in a[1:]]
      # the mapped function runs one level down: comprehension variables inside it are distinct from the mapped element
      self.comp_depth = getattr(self, 'comp_depth', 0) + 1
      try:
        res = self.call(a[0], elems, {}, n, scope)
      finally:
        self.comp_depth -= 1
      # map(f, xs) over one iterable is the comprehension [f(x) for x in xs]
      return T('list', T('star', res, T('compdom', a[1]) if len(a) == 2 else T('mapdom', *a[1:])))
    if name == 'reversed' and len(a) == 1 and a[0].op in ('list', 'tuple') and not any(e.op == 'star' for e in a[0].args):
      return T(a[0].op, *reversed(a[0].args))
    if name == 'sorted' and len(a) == 1 and a[0].op in ('list', 'tuple') and all(is_const(e) for e in a[0].args) and not kwargs:
      try:
        return T('list', *sorted(a[0].args, key=cval))
      except Exception:
        return None
    return None

  # -- external special forms
  def call_ext(self, dotted, args, kwargs, n, scope):
    a = args
    if dotted == 'functools.partial' and a:
      return T('partial', a[0], tuple(a[1:]), tuple(sorted(kwargs.items())))
    if dotted in ('jax.vmap', 'jax.jit', 'jax.pmap', 'jax.checkpoint') and a:
      return T('vmapped', a[0], tuple(sorted(kwargs.items())), dotted)
    if dotted in ('jax.tree.map', 'jax.tree_util.tree_map', 'jax.tree_map') and len(a) >= 2:
      return self.tree_map(a[0], list(a[1:]), kwargs, n, scope)
    if dotted in ('jax.tree_util.tree_map_with_path', 'jax.tree.map_with_path') and len(a) >= 2:
      leaves = [T('treepath', a[1])] + [self.leaf_of(x) for x in a[1:]]
      elt = self.call(a[0], leaves, {}, n, scope)
      return T('tmap', elt, tuple(a[1:]), tuple(sorted(kwargs.items())))
    if dotted in ('jax.lax.cond',) and len(a) >= 3:
      ops = list(a[3:])
      if 'operand' in kwargs:
        ops = [kwargs['operand']]
      self.path.append(T('condarm', a[0], True))
      ta = self.call(a[1], ops, {}, n, scope)
      self.path.pop()
      self.path.append(T('condarm', a[0], False))
      tb = self.call(a[2], ops, {}, n, scope)
      self.path.pop()
      c2, flipped = strip_negation(a[0])
      if flipped:
        r_ = T('cond', c2, tb, ta, loc=self._loc(n) if n is not None else None)
      else:
        r_ = T('cond', c2, ta, tb, loc=self._loc(n) if n is not None else None)
      # the predicate as written (the normal form drops the difference between `x < y` and `not x >= y`, which matters
      # for a NaN operand): rules that care look it up here
      self.raw_preds.setdefault(r_, []).append(a[0])
      self.cond_log.append((r_, self.cur_fq(), n))
      return r_
    if dotted in ('jax.lax.while_loop',) and len(a) == 3:
      wid = self.new_id('wl')
      st = T('wstate', wid)
      cres = self.call(a[0], [st], {}, n, scope)
      bres = self.call(a[1], [st], {}, n, scope)
      return T('while', wid, a[2], bres, cres, loc=self._loc(n) if n is not None else None)
    if dotted == 'functools.reduce' and len(a) >= 2:
      items = self.enumerate_iter(a[1])
      if items is not None and items:
        acc = items[0] if len(a) == 2 else a[2]
        for x in (items[1:] if len(a) == 2 else items):
          acc = self.call(a[0], [acc, x], {}, n, scope)
        return acc
      return T('reduce', a[0], a[1], *a[2:])
    if dotted in ('jax.named_scope',):
      return T('ctx', dotted)
    if dotted in _PYTREE_EXT and a and a[0].op in ('rec', 'list', 'tuple', 'ite', 'cond'):
      rest = list(a[1:])

      def leaf_fn(v):
        return self.generic_call(ext(dotted), [v] + rest, kwargs, n)
      return self.map_structure(a[0], leaf_fn)
    if dotted == 'typing.cast' and len(a) == 2:
      return a[1]
    if dotted == 'jax.numpy.split' and a:
      # jnp.split(x, [k1, .., kn]) along axis 0: the slices x[:k1], x[k1:k2], .., x[kn:]
      ios = kwargs.get('indices_or_sections', a[1] if len(a) > 1 else None)
      ax = kwargs.get('axis', a[2] if len(a) > 2 else const(0))
      if ios is not None and ios.op in ('list', 'tuple') and ios.args and not any(x.op == 'star' for x in ios.args) and is_const(ax, 0) and \
          set(kwargs) <= {'axis', 'indices_or_sections'}:
        cuts = [NONE] + list(ios.args) + [NONE]
        return T('tuple', *[self.subscript(a[0], T('slice', lo, hi, NONE), n) for lo, hi in zip(cuts, cuts[1:])])
    if dotted == 'itertools.chain.from_iterable' and len(a) == 1 and a[0].op in ('list', 'tuple') and not kwargs:
      # chain.from_iterable(f(x) for x in X)  ==  [y for x in X for y in f(x)]
      parts = []
      for x in a[0].args:
        if x.op == 'star' and x.args[1].op in ('compdom', 'loopdom'):
          f, dom = x.args
          parts.append(T('star', T('star', self.elem_of(f), T('compdom', f)), dom))
        elif x.op in ('list', 'tuple'):
          parts.extend(x.args)
        else:
          return None
      return T('list', *parts)
    if dotted == 'itertools.chain' and a and all(x.op in ('list', 'tuple') for x in a) and not kwargs:
      return T('list', *[e for x in a for e in x.args])
    if dotted == 'copy.deepcopy' and len(a) == 1:
      return a[0]
    if dotted == 'math.prod' and len(a) == 1 and a[0].op in ('list', 'tuple') and all(is_const(x) for x in a[0].args):
      p = 1
      for x in a[0].args:
        p *= cval(x)
      return const(p)
    return None

  def _is_empty_node(self, v):
    if is_const(v, None):
      return True
    if v.op == 'call' and v.args[0].op == 'ext' and v.args[0].args[0].endswith('MaskedNode') and not v.args[1]:
      return True
    if v.op == 'call' and v.args[0].op == 'ext' and v.args[0].args[0].endswith('EmptyState') and not v.args[1]:
      return True
    return False

  def tree_map(self, f, trees, kwargs, n, scope, depth=0):
    is_leaf = kwargs.get('is_leaf')
    v0 = trees[0]
    if is_leaf is not None:
      d = self.decide(self.call(is_leaf, [v0], {}, n, scope))
      if d is True:
        return self.call(f, trees, {}, n, scope)
    if depth < 8:
      if v0.op == 'rec':
        ci = self.model.classes.get(v0.args[0])
        static = set(ci.static_fields()) if ci else set()
        out = []
        for k, v in v0.args[1]:
          if k in static:
            out.append((k, v))
          else:
            others = [self.attr(t, k) for t in trees[1:]]
            out.append((k, self.tree_map(f, [v] + others, kwargs, n, scope, depth + 1)))
        return T('rec', v0.args[0], tuple(out))
      if v0.op in ('list', 'tuple'):
        out = []
        for i, e in enumerate(v0.args):
          if e.op == 'star':
            others = [self.elem_of(t) for t in trees[1:]]
            out.append(T('star', self.tree_map(f, [e.args[0]] + others, kwargs, n, scope, depth + 1), e.args[1]))
          else:
            others = [self.subscript(t, const(i)) for t in trees[1:]]
            out.append(self.tree_map(f, [e] + others, kwargs, n, scope, depth + 1))
        return T(v0.op, *out)
      if self._is_empty_node(v0):
        return v0
      if v0.op in ('ite', 'cond'):
        def arm(i):
          return self.tree_map(f, [v0.args[i]] + [t.args[i] if (t.op == v0.op and t.args[0] is v0.args[0]) else t for t in trees[1:]], kwargs, n, scope, depth + 1)
        if v0.op == 'ite':
          return ite(v0.args[0], arm(1), arm(2))
        if v0.args[1].op in ('rec', 'list', 'tuple', 'cond') or v0.args[2].op in ('rec', 'list', 'tuple', 'cond'):
          return T('cond', v0.args[0], arm(1), arm(2))
      if v0.op in ('call', 'bin', 'sub', 'attr', 'default', 'const', 'un', 'cond', 'while') or (v0.op == 'sym' and depth > 0):
        # an array-like leaf (or an unknown subtree of a known record): apply f
        if depth > 0 or v0.op in ('call', 'bin'):
          return self.call(f, trees, {}, n, scope)
    leaves = [self.leaf_of(x) for x in trees]
    elt = self.call(f, leaves, {}, n, scope)
    return T('tmap', elt, tuple(trees), tuple(sorted(kwargs.items())))

  def map_structure(self, v, fn, depth=0):
    if depth > 8:
      return fn(v)
    if v.op == 'rec':
      ci = self.model.classes.get(v.args[0])
      static = set(ci.static_fields()) if ci else set()
      return T('rec', v.args[0], tuple((k, x if k in static else self.map_structure(x, fn, depth + 1)) for k, x in v.args[1]))
    if v.op in ('list', 'tuple'):
      out = []
      for e in v.args:
        if e.op == 'star':
          out.append(T('star', self.map_structure(e.args[0], fn, depth + 1), e.args[1]))
        else:
          out.append(self.map_structure(e, fn, depth + 1))
      return T(v.op, *out)
    if v.op == 'ite':
      return ite(v.args[0], self.map_structure(v.args[1], fn, depth + 1), self.map_structure(v.args[2], fn, depth + 1))
    if v.op == 'cond':
      return T('cond', v.args[0], self.map_structure(v.args[1], fn, depth + 1), self.map_structure(v.args[2], fn, depth + 1))
    if self._is_empty_node(v):
      return v
    return fn(v)

  def leaf_of(self, t):
    if t in self.leaf_override:
      return self.leaf_override[t]
    if t.op == 'tmap':
      return t.args[0]
    if t.op == 'list' and t.args and all(x.op == 'star' for x in t.args):
      e = self.elem_of(t)
      if e.op != 'oneof':
        return e
    if t.op == 'unzipped':
      return self.elem_of(t)
    if t.op == 'ite':
      a = self.leaf_of(t.args[1])
      b = self.leaf_of(t.args[2])
      if t.args[2].op in ('tuple', 'list') and not t.args[2].args:
        return a
      return ite(t.args[0], a, b)
    return T('leaf', t)

  # ------------------------------------------------------------ helpers
  def _module_of(self, scope):
    s = scope
    while s is not None:
      if s.kind == 'module':
        return s.label
      s = s.parent
    return '?'

  def _funcinfo_for(self, node, scope):
    for fi in self.model.functions.values():
      if fi.node is node:
        return fi
    raise AnalysisError(f'function node not indexed: {node.name}')

  def _classinfo_for(self, node, scope):
    for ci in self.model.classes.values():
      if ci.node is node:
        return ci
    return None

  # ------------------------------------------------------------ entry points
  def closure_env(self, fi):
    """Scope in which fi is defined, with every enclosing factory evaluated
    (its parameters symbolic unless bound through `bindings`)."""
    chain = []
    p = fi.parent
    while p is not None:
      chain.append(p)
      p = p.parent
    sc = self.module_scope(fi.module.name)
    for outer in reversed(chain):
      sc = self._enter_factory(outer, sc)
    return sc

  def _enter_factory(self, fi, defscope):
    key = ('factory', fi.fq, defscope.id)
    if key in self.scopes:
      return self.scopes[key]
    bound = {}
    a = fi.node.args
    for p in a.posonlyargs + a.args + a.kwonlyargs:
      b = self.bindings.get((fi.short, p.arg))
      bound[p.arg] = b if b is not None else sym('cfg', fi.short, p.arg)
    if a.vararg:
      bound[a.vararg.arg] = sym('cfg', fi.short, a.vararg.arg)
    if a.kwarg:
      bound[a.kwarg.arg] = sym('cfg', fi.short, a.kwarg.arg)
    sc = Scope('function', defscope, locals_=fi.locals, fi=fi, label=fi.fq)
    self.scopes[sc.id] = sc
    sc.vars.update(bound)
    fr = _Frame(fi.fq, len(self.path))
    self.frames.append(fr)
    self._active.append(fi.fq)
    try:
      self.exec_block(fi.node.body, sc)
    finally:
      self._active.pop()
      self.frames.pop()
    sc.returns = fr.returns
    self.scopes[key] = sc
    return sc

  def factory_returns(self, fi):
    sc = self.closure_env_of_factory(fi)
    return self._fold_returns(sc.returns)

  def closure_env_of_factory(self, fi):
    outer = self.closure_env(fi)
    return self._enter_factory(fi, outer)

  def run(self, fi, args=None, kwargs=None, self_t=None):
    """Evaluate function fi with symbolic parameters (or the given terms)."""
    defscope = self.closure_env(fi)
    a = fi.node.args
    bound = {}
    names = [p.arg for p in a.posonlyargs + a.args + a.kwonlyargs]
    given = dict(args or {})
    for i, p in enumerate(names):
      if p in given:
        bound[p] = given[p]
      elif i == 0 and self_t is not None:
        bound[p] = self_t
      elif i == 0 and p == 'self' and fi.cls is not None:
        bound[p] = T('obj', fi.cls.fq, 'self')
      elif i == 0 and p == 'cls' and fi.cls is not None:
        bound[p] = T('class', fi.cls.fq)
      else:
        b = self.bindings.get((fi.short, p))
        bound[p] = b if b is not None else sym('param', fi.short, p)
    if a.vararg and a.vararg.arg not in bound:
      bound[a.vararg.arg] = given.get(a.vararg.arg, sym('param', fi.short, a.vararg.arg))
    if a.kwarg and a.kwarg.arg not in bound:
      bound[a.kwarg.arg] = given.get(a.kwarg.arg, sym('param', fi.short, a.kwarg.arg))
    return self.run_function(fi.node, fi, fi.fq, defscope, bound)


def _mutated_names(stmts):
  out = []
  for st in stmts:
    for n in ast.walk(st):
      if isinstance(n, ast.Call) and isinstance(n.func, ast.Attribute) and n.func.attr in ('append', 'extend', 'insert') \
          and isinstance(n.func.value, ast.Name):
        if n.func.value.id not in out:
          out.append(n.func.value.id)
  return out


def _as_load(t):
  n = ast.parse(ast.unparse(t), mode='eval').body
  ast.copy_location(n, t)
  for sub in ast.walk(n):
    if not hasattr(sub, 'lineno'):
      sub.lineno = getattr(t, 'lineno', 0)
      sub.col_offset = getattr(t, 'col_offset', 0)
  return n


def _param_names(node):
  a = node.args
  out = [p.arg for p in a.posonlyargs + a.args + a.kwonlyargs]
  if a.vararg:
    out.append(a.vararg.arg)
  if a.kwarg:
    out.append(a.kwarg.arg)
  return out
