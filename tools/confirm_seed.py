#!/usr/bin/env python3
"""Confirm a sub-agent's seeded change in a fresh scratch worktree and file it under /verif/seeded/<id>/.

  tools/confirm_seed.py <seed-id> <property> <src_dir> [--jobs N]

src_dir holds patch.diff, demo.py, notes.md.  Confirms: demo exits 0 on HEAD, patch applies,
demo exits non-zero with the patch, the pinned suite still gives 714 passed with only the 3
baseline always_fail tests failing.  Writes meta.json with what was run.
"""
import json
import os
import re
import shutil
import subprocess
import sys

BASE_FAIL = {'test_basic0', 'test_lr', 'test_matrix_inverse_root_padding1'}


def sh(cmd, cwd, env=None, timeout=3000):
  r = subprocess.run(cmd, cwd=cwd, env=env, shell=True, capture_output=True, text=True, timeout=timeout)
  return r.returncode, (r.stdout + r.stderr)


def main():
  sid, prop, src = sys.argv[1:4]
  jobs = int(sys.argv[sys.argv.index('--jobs') + 1]) if '--jobs' in sys.argv else 6
  wt = f'/tmp/cs_{sid}'
  dst = f'/verif/seeded/{sid}'
  os.makedirs(dst, exist_ok=True)
  for f in ('patch.diff', 'demo.py', 'notes.md'):
    if os.path.exists(os.path.join(src, f)):
      shutil.copy(os.path.join(src, f), os.path.join(dst, f))
  subprocess.run(f'git -C /repo worktree remove --force {wt}', shell=True, capture_output=True)
  rc, out = sh(f'git -C /repo worktree add -q --detach {wt} HEAD', '/')
  meta = dict(id=sid, property=prop, base_commit=subprocess.check_output('git -C /repo rev-parse --short HEAD', shell=True, text=True).strip())
  try:
    env = dict(os.environ, PYTHONPATH=wt, JAX_PLATFORMS='cpu')
    demo = os.path.join(dst, 'demo.py')
    rc0, out0 = sh(f'/venv/bin/python {demo}', wt, env)
    meta['demo_without_change'] = dict(rc=rc0, tail=out0[-300:])
    rca, outa = sh(f'git apply {dst}/patch.diff', wt)
    meta['patch_applies'] = rca == 0
    rc1, out1 = sh(f'/venv/bin/python {demo}', wt, env)
    meta['demo_with_change'] = dict(rc=rc1, tail=out1[-600:])
    rcs, outs = sh(f'/venv/bin/python -m pytest -q -p no:cacheprovider --timeout=900 -n {jobs} 2>&1 | tail -15', wt, env)
    m = re.search(r'(\d+) failed, (\d+) passed', outs)
    failed = set(re.findall(r'FAILED \S+::(\w+)', outs))
    meta['suite_with_change'] = dict(summary=m.group(0) if m else outs[-200:], failed=sorted(failed),
                                     only_baseline_failures=failed <= BASE_FAIL and bool(m) and int(m.group(2)) == 714)
    meta['files_touched'] = re.findall(r'^\+\+\+ b/(\S+)', open(f'{dst}/patch.diff').read(), re.M)
    meta['confirmed'] = (rc0 == 0 and rca == 0 and rc1 != 0 and meta['suite_with_change']['only_baseline_failures'])
    meta['ran'] = [f'cd {wt} && PYTHONPATH={wt} /venv/bin/python demo.py  (HEAD: rc {rc0}; with patch: rc {rc1})',
                   f'git apply patch.diff; /venv/bin/python -m pytest -q -p no:cacheprovider --timeout=900 -n {jobs}']
    notes = open(os.path.join(dst, 'notes.md')).read() if os.path.exists(os.path.join(dst, 'notes.md')) else ''
    meta['needs_to_manifest'] = notes[:1500]
  finally:
    subprocess.run(f'git -C /repo worktree remove --force {wt}', shell=True, capture_output=True)
  with open(os.path.join(dst, 'meta.json'), 'w') as f:
    json.dump(meta, f, indent=1)
  print(sid, 'confirmed' if meta.get('confirmed') else 'NOT CONFIRMED', meta.get('suite_with_change', {}).get('summary'),
        'demo rc', meta.get('demo_without_change', {}).get('rc'), '->', meta.get('demo_with_change', {}).get('rc'))


if __name__ == '__main__':
  main()
