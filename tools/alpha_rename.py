#!/usr/bin/env python3-vt
"""Behaviour-preserving mass rewrite used as a false-alarm test: rename every local variable.

  tools/alpha_rename.py <src precondition dir> <dst precondition dir> [--suffix _v] [--only file.py ...]

Every name that is assigned in a function body (not a parameter, not global / nonlocal, not a nested def / class
name) is renamed consistently in that function and in the nested scopes that read it as a free variable.
Comprehension variables and lambda parameters are left alone.  The file is re-emitted with ast.unparse, so
formatting and comments change as well - none of which a check may depend on.
"""
import ast
import os
import shutil
import sys


class Scope:
  def __init__(self, node, parent):
    self.node = node
    self.parent = parent
    self.params = set()
    self.assigned = set()
    self.declared = set()    # global / nonlocal
    self.defs = set()        # nested def / class names
    self.children = []


def build(node, parent=None):
  sc = Scope(node, parent)
  if isinstance(node, (ast.FunctionDef, ast.AsyncFunctionDef, ast.Lambda)):
    a = node.args
    for x in a.posonlyargs + a.args + a.kwonlyargs:
      sc.params.add(x.arg)
    if a.vararg:
      sc.params.add(a.vararg.arg)
    if a.kwarg:
      sc.params.add(a.kwarg.arg)
  body = node.body if isinstance(node.body, list) else [node.body]

  def visit(n):
    if isinstance(n, (ast.FunctionDef, ast.AsyncFunctionDef)):
      sc.defs.add(n.name)
      for d in n.decorator_list:
        visit(d)
      for d in n.args.defaults + [x for x in n.args.kw_defaults if x is not None]:
        visit(d)
      sc.children.append(build(n, sc))
      return
    if isinstance(n, ast.ClassDef):
      sc.defs.add(n.name)
      sc.children.append(build(n, sc))
      return
    if isinstance(n, ast.Lambda):
      sc.children.append(build(n, sc))
      return
    if isinstance(n, (ast.ListComp, ast.SetComp, ast.DictComp, ast.GeneratorExp)):
      # own scope: targets are not locals of the function; the first iterable is evaluated outside
      visit(n.generators[0].iter)
      sc.children.append(build_comp(n, sc))
      return
    if isinstance(n, (ast.Global, ast.Nonlocal)):
      sc.declared |= set(n.names)
    if isinstance(n, ast.Name) and isinstance(n.ctx, (ast.Store, ast.Del)):
      sc.assigned.add(n.id)
    if isinstance(n, (ast.Import, ast.ImportFrom)):
      for al in n.names:
        sc.defs.add((al.asname or al.name).split('.')[0])
    if isinstance(n, ast.ExceptHandler) and n.name:
      sc.defs.add(n.name)
    for c in ast.iter_child_nodes(n):
      visit(c)
  for s in body:
    visit(s)
  return sc


def build_comp(n, parent):
  sc = Scope(n, parent)
  for g in n.generators:
    for x in ast.walk(g.target):
      if isinstance(x, ast.Name):
        sc.params.add(x.id)

  def visit(m):
    if isinstance(m, ast.Lambda):
      sc.children.append(build(m, sc))
      return
    if isinstance(m, (ast.ListComp, ast.SetComp, ast.DictComp, ast.GeneratorExp)) and m is not n:
      visit(m.generators[0].iter)
      sc.children.append(build_comp(m, sc))
      return
    if isinstance(m, ast.NamedExpr):
      pass
    for c in ast.iter_child_nodes(m):
      visit(c)
  parts = [n.elt] if hasattr(n, 'elt') else [n.key, n.value]
  for i, g in enumerate(n.generators):
    if i > 0:
      visit(g.iter)
    for c in g.ifs:
      visit(c)
  for p in parts:
    visit(p)
  return sc


def rename_scope(sc, suffix, inherited):
  """inherited: mapping old -> new for names bound in enclosing function scopes."""
  node = sc.node
  mapping = dict(inherited)
  is_fn = isinstance(node, (ast.FunctionDef, ast.AsyncFunctionDef))
  is_class = isinstance(node, ast.ClassDef)
  is_module = isinstance(node, ast.Module)
  # names bound here shadow inherited ones
  for nm in sc.params | sc.defs:
    mapping.pop(nm, None)
  if is_fn:
    for nm in sc.assigned - sc.params - sc.declared - sc.defs:
      if nm.startswith('__') or nm == '_':
        mapping.pop(nm, None)
        continue
      mapping[nm] = nm + suffix
  elif is_class or is_module:
    for nm in sc.assigned:
      mapping.pop(nm, None)         # class / module level names are API: keep
  else:
    for nm in sc.assigned - sc.params:
      pass
  child_nodes = {id(c.node): c for c in sc.children}

  def visit(n):
    if id(n) in child_nodes and n is not node:
      c = child_nodes[id(n)]
      # parts evaluated in THIS scope: decorators, defaults, first comprehension iterable
      if isinstance(n, (ast.FunctionDef, ast.AsyncFunctionDef)):
        for d in n.decorator_list:
          visit(d)
        for d in n.args.defaults + [x for x in n.args.kw_defaults if x is not None]:
          visit(d)
      elif isinstance(n, ast.Lambda):
        for d in n.args.defaults + [x for x in n.args.kw_defaults if x is not None]:
          visit(d)
      elif isinstance(n, (ast.ListComp, ast.SetComp, ast.DictComp, ast.GeneratorExp)):
        visit(n.generators[0].iter)
      rename_scope(c, suffix, mapping)
      return
    if isinstance(n, ast.Name) and n.id in mapping:
      n.id = mapping[n.id]
    for ch in ast.iter_child_nodes(n):
      visit(ch)
  if isinstance(node, (ast.ListComp, ast.SetComp, ast.DictComp, ast.GeneratorExp)):
    parts = [node.elt] if hasattr(node, 'elt') else [node.key, node.value]
    for i, g in enumerate(node.generators):
      visit(g.target)
      if i > 0:
        visit(g.iter)
      for cnd in g.ifs:
        visit(cnd)
    for p_ in parts:
      visit(p_)
  else:
    body = node.body if isinstance(node.body, list) else [node.body]
    for s in body:
      visit(s)


def main():
  src, dst = sys.argv[1:3]
  suffix = sys.argv[sys.argv.index('--suffix') + 1] if '--suffix' in sys.argv else '_v'
  only = sys.argv[sys.argv.index('--only') + 1:] if '--only' in sys.argv else None
  if os.path.exists(dst):
    shutil.rmtree(dst)
  shutil.copytree(src, dst)
  n = 0
  for root, _, files in os.walk(dst):
    for f in files:
      if not f.endswith('.py') or f.endswith('_test.py'):
        continue
      if only and f not in only:
        continue
      p = os.path.join(root, f)
      tree = ast.parse(open(p).read())
      sc = build(tree)
      rename_scope(sc, suffix, {})
      out = ast.unparse(tree)
      ast.parse(out)
      open(p, 'w').write(out + '\n')
      n += 1
  print(f'renamed locals in {n} files -> {dst}')


if __name__ == '__main__':
  main()
