#!/usr/bin/env python3-vt
"""Run the registered checks against every seeded change under /verif/seeded/.

Each patch is applied to a scratch copy of /repo/precondition (removed afterwards) and
every property check (or only the seed's own property with --own) is run with --repo.
Prints a matrix seed x property -> exit code.
"""
import argparse
import json
import os
import shutil
import subprocess
import sys
import tempfile
from concurrent.futures import ThreadPoolExecutor

VERIF = os.path.dirname(os.path.dirname(os.path.abspath(__file__)))


def props_available():
  return sorted(f[:-3] for f in os.listdir(os.path.join(VERIF, 'pvstatic', 'rules')) if f.startswith('C') and f.endswith('.py') and len(f) == 6)


def run_seed(sid, props, tier):
  d = os.path.join(VERIF, 'seeded', sid)
  tmp = tempfile.mkdtemp(prefix='pvseed_', dir='/tmp')
  try:
    shutil.copytree('/repo/precondition', os.path.join(tmp, 'precondition'))
    r = subprocess.run(['patch', '-p1', '-s', '-d', tmp, '-i', os.path.join(d, 'patch.diff')], capture_output=True, text=True)
    if r.returncode != 0:
      return sid, {'*': (99, 'patch failed: ' + r.stdout[-200:] + r.stderr[-200:])}
    env = dict(os.environ, PYTHONPATH=VERIF, PYTHONDONTWRITEBYTECODE='1')
    out = {}
    for p in props:
      r = subprocess.run([sys.executable, '-m', 'pvstatic.driver', p, '--tier', tier, '--repo', tmp, '--no-evidence'],
                         capture_output=True, text=True, cwd=VERIF, env=env)
      first = [l.strip() for l in r.stdout.splitlines() if l.startswith('  ') or 'ANALYSIS-ERROR' in l]
      out[p] = (r.returncode, first[0][:170] if first else '')
    return sid, out
  finally:
    shutil.rmtree(tmp, ignore_errors=True)


def main():
  ap = argparse.ArgumentParser()
  ap.add_argument('seeds', nargs='*')
  ap.add_argument('--own', action='store_true', help='only the property the seed targets')
  ap.add_argument('--tier', default='quick')
  ap.add_argument('--jobs', type=int, default=8)
  ap.add_argument('--json', help='write the matrix (seed -> property -> [rc, first report]) here')
  a = ap.parse_args()
  avail = props_available()
  seeds = sorted(s for s in os.listdir(os.path.join(VERIF, 'seeded')) if os.path.exists(os.path.join(VERIF, 'seeded', s, 'patch.diff')))
  if a.seeds:
    seeds = [s for s in seeds if any(x in s for x in a.seeds)]
  jobs = []
  for s in seeds:
    meta = {}
    mp = os.path.join(VERIF, 'seeded', s, 'meta.json')
    if os.path.exists(mp):
      meta = json.load(open(mp))
    own = meta.get('property', s.split('-')[0])
    props = [own] if a.own and own in avail else avail
    jobs.append((s, props, own))
  results = {}
  with ThreadPoolExecutor(a.jobs) as ex:
    for sid, out in ex.map(lambda j: run_seed(j[0], j[1], a.tier), jobs):
      results[sid] = out
  for s, props, own in jobs:
    out = results[s]
    caught = [p for p, (rc, _) in out.items() if rc == 1]
    errs = [p for p, (rc, _) in out.items() if rc not in (0, 1)]
    status = 'CAUGHT' if own in caught else ('caught-by-other' if caught else 'MISSED')
    print(f'{status:16s} {s:10s} own={own} caught_by={caught} errors={errs}')
    for p in caught[:3] + errs[:2]:
      print(f'      {p}: {out[p][1]}')
  if a.json:
    with open(a.json, 'w') as f:
      json.dump({s: {p: list(v) for p, v in results[s].items()} for s, _, _ in jobs}, f, indent=1, sort_keys=True)
  return 0


if __name__ == '__main__':
  sys.exit(main())
