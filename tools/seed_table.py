#!/usr/bin/env python3-vt
"""Regenerate the seed table of DESIGN.md §6.2 from seeded/MATRIX.json (between the SEED-TABLE markers)."""
import json
import os
import re

VERIF = os.path.dirname(os.path.dirname(os.path.abspath(__file__)))


def main():
  m = json.load(open(os.path.join(VERIF, 'seeded', 'MATRIX.json')))
  rows = ['| seed | the change (full notes: `seeded/<id>/notes.md`) | first rule reporting it in its own property\'s check | also reported by |', '|---|---|---|---|']
  own_ok = 0
  for sid in sorted(m):
    own = sid.split('-')[0]
    rc, line = m[sid][own]
    rule = re.search(r'\[(C\d\d\.[A-Za-z0-9]+)\]', line or '')
    others = [p for p in sorted(m[sid]) if p != own and m[sid][p][0] == 1]
    meta = {}
    mp = os.path.join(VERIF, 'seeded', sid, 'meta.json')
    if os.path.exists(mp):
      meta = json.load(open(mp))
    needs = (meta.get('needs_to_manifest') or '').strip().splitlines()
    needs = needs[0] if needs else ''
    needs = re.sub(r'^#+\s*', '', needs)
    needs = re.sub(r'^(C\d\d\s*/\s*)?[Cc]hange\s*\d+\s*[-:\u2013\u2014]+\s*', '', needs).replace('|', '/')
    if len(needs) > 120:
      needs = needs[:117] + '...'
    own_ok += rc == 1
    rows.append(f"| {sid} | {needs or '–'} | {(rule.group(1) if rule else ('MISSED' if rc == 0 else 'exit %d' % rc))} | {' '.join(others) or '–'} |")
  head = f'{len(m)} seeds, {own_ok} reported by their own property\'s check (quick tier).\n\n'
  p = os.path.join(VERIF, 'DESIGN.md')
  s = open(p).read()
  a, b = '<!-- SEED-TABLE-BEGIN -->', '<!-- SEED-TABLE-END -->'
  if a in s:
    s = s[:s.index(a) + len(a)] + '\n' + head + '\n'.join(rows) + '\n' + s[s.index(b):]
    open(p, 'w').write(s)
  print(head + '\n'.join(rows[:4]))


if __name__ == '__main__':
  main()
