#!/usr/bin/env python3-vt
"""Systematic single-site mutation of the library source, to look for changes no check reports.

  tools/mutate.py <module path under precondition/> [--func NAME ...] [--props C01 C02 ...] [--jobs N] [--max M] [--out FILE]

For every function selected (default: all non-test functions of the module) generate single-site mutants by ast
rewriting - comparison operators (< <= > >= == !=), arithmetic operators (+ - * / // %), integer / float constants
(0 <-> 1, c -> c+1, float c -> 2c), boolean constants, `and`/`or`, unary minus / not dropped, swapped first two call
arguments, dropped keyword argument - write the mutated module into a scratch copy (removed afterwards) and run
the given checks (default: all 17, quick tier).  Prints the survivors: mutants for which every check exits 0.
Survivors are candidates for triage (equivalent mutant, code outside every property, or a missing rule); nothing
here is a verdict about the repository.
"""
import argparse
import ast
import copy
import json
import os
import shutil
import subprocess
import sys
import tempfile
from concurrent.futures import ThreadPoolExecutor

VERIF = os.path.dirname(os.path.dirname(os.path.abspath(__file__)))
PROPS = [f'C{i:02d}' for i in range(1, 18)]

CMP = {ast.Lt: [ast.LtE, ast.Gt], ast.LtE: [ast.Lt, ast.GtE], ast.Gt: [ast.GtE, ast.Lt], ast.GtE: [ast.Gt, ast.LtE],
       ast.Eq: [ast.NotEq], ast.NotEq: [ast.Eq], ast.Is: [ast.IsNot], ast.IsNot: [ast.Is]}
BIN = {ast.Add: [ast.Sub], ast.Sub: [ast.Add], ast.Mult: [ast.Div], ast.Div: [ast.Mult], ast.FloorDiv: [ast.Div], ast.Mod: [ast.FloorDiv]}


def sites(fn):
  """yield (description, mutate(node_copy_root) -> None) for one function: operate by node index in ast.walk order"""
  nodes = list(ast.walk(fn))
  in_assert = {id(x) for a in nodes if isinstance(a, (ast.Assert, ast.Raise)) for x in ast.walk(a)}
  for i, n in enumerate(nodes):
    if id(n) in in_assert:
      continue          # assertion / error-message code: a flipped assert fails for every input (the test suite sees it)
    if isinstance(n, ast.Compare) and len(n.ops) == 1 and type(n.ops[0]) in CMP:
      for new in CMP[type(n.ops[0])]:
        yield i, f'cmp {type(n.ops[0]).__name__}->{new.__name__}', ('cmp', new)
    elif isinstance(n, ast.BinOp) and type(n.op) in BIN:
      for new in BIN[type(n.op)]:
        yield i, f'bin {type(n.op).__name__}->{new.__name__}', ('bin', new)
    elif isinstance(n, ast.Constant) and isinstance(n.value, bool):
      yield i, f'const {n.value}->{not n.value}', ('const', not n.value)
    elif isinstance(n, ast.Constant) and isinstance(n.value, int) and not isinstance(n.value, bool) and abs(n.value) <= 4:
      yield i, f'const {n.value}->{n.value + 1}', ('const', n.value + 1)
      if n.value != 0:
        yield i, f'const {n.value}->{n.value - 1}', ('const', n.value - 1)
    elif isinstance(n, ast.Constant) and isinstance(n.value, float) and n.value != 0.0:
      yield i, f'const {n.value}->{n.value * 2}', ('const', n.value * 2)
    elif isinstance(n, ast.BoolOp):
      yield i, f'boolop {type(n.op).__name__} flipped', ('boolop', ast.Or if isinstance(n.op, ast.And) else ast.And)
    elif isinstance(n, ast.UnaryOp) and isinstance(n.op, (ast.USub, ast.Not)):
      yield i, f'unary {type(n.op).__name__} dropped', ('dropunary', None)
    elif isinstance(n, ast.Call):
      if len(n.args) >= 2 and not any(isinstance(a, ast.Starred) for a in n.args[:2]) and ast.dump(n.args[0]) != ast.dump(n.args[1]):
        yield i, 'call args 0<->1 swapped', ('swapargs', None)
      for k, kw in enumerate(n.keywords):
        if kw.arg in ('axis', 'keepdims', 'padding_start', 'prev', 'precision', 'dtype'):
          if kw.arg in ('dtype', 'precision'):
            continue
          yield i, f'keyword {kw.arg} dropped', ('dropkw', k)


def apply(fn_copy, idx, action):
  nodes = list(ast.walk(fn_copy))
  n = nodes[idx]
  kind, arg = action
  if kind == 'cmp':
    n.ops = [arg()]
  elif kind == 'bin':
    n.op = arg()
  elif kind == 'const':
    n.value = arg
  elif kind == 'boolop':
    n.op = arg()
  elif kind == 'dropunary':
    # replace the node's fields by its operand's (in place)
    op = n.operand
    n.__class__ = op.__class__
    n.__dict__.clear()
    n.__dict__.update(op.__dict__)
  elif kind == 'swapargs':
    n.args[0], n.args[1] = n.args[1], n.args[0]
  elif kind == 'dropkw':
    del n.keywords[arg]


def functions(tree):
  out = []

  def rec(node, prefix):
    for ch in ast.iter_child_nodes(node):
      if isinstance(ch, (ast.FunctionDef, ast.AsyncFunctionDef)):
        q = prefix + ch.name
        out.append((q, ch))
        rec(ch, q + '.')
      elif isinstance(ch, ast.ClassDef):
        rec(ch, prefix + ch.name + '.')
      else:
        rec(ch, prefix)
  rec(tree, '')
  return out


def own_nodes_count(fn):
  return sum(1 for _ in ast.walk(fn))


def run_mutant(job):
  rel, qual, desc, line, src, props = job
  tmp = tempfile.mkdtemp(prefix='pvmutx_', dir='/tmp')
  try:
    shutil.copytree('/repo/precondition', os.path.join(tmp, 'precondition'))
    with open(os.path.join(tmp, rel), 'w') as f:
      f.write(src)
    env = dict(os.environ, PYTHONPATH=VERIF, PYTHONDONTWRITEBYTECODE='1')
    res = {}
    for p in props:
      r = subprocess.run([sys.executable, '-m', 'pvstatic.driver', p, '--tier', 'quick', '--repo', tmp, '--no-evidence'],
                         capture_output=True, text=True, cwd=VERIF, env=env)
      res[p] = r.returncode
      if r.returncode == 1:
        break            # reported: no need to run the remaining checks
    return dict(file=rel, function=qual, mutation=desc, line=line, results=res,
                status='reported' if 1 in res.values() else ('error' if any(v not in (0, 1) for v in res.values()) else 'survived'))
  finally:
    shutil.rmtree(tmp, ignore_errors=True)


def main():
  ap = argparse.ArgumentParser()
  ap.add_argument('module')
  ap.add_argument('--func', nargs='*')
  ap.add_argument('--props', nargs='*', default=PROPS)
  ap.add_argument('--jobs', type=int, default=10)
  ap.add_argument('--max', type=int, default=0)
  ap.add_argument('--out')
  a = ap.parse_args()
  path = os.path.join('/repo', a.module)
  text = open(path).read()
  tree = ast.parse(text)
  jobs = []
  for qual, fn in functions(tree):
    if a.func and not any(qual == f or qual.endswith('.' + f) for f in a.func):
      continue
    # only sites owned by this function (not by nested defs - they get their own turn) unless selected explicitly
    nested = {id(x) for ch in ast.walk(fn) if isinstance(ch, (ast.FunctionDef, ast.AsyncFunctionDef)) and ch is not fn for x in ast.walk(ch)}
    nodes = list(ast.walk(fn))
    for idx, desc, action in sites(fn):
      if id(nodes[idx]) in nested:
        continue
      t2 = copy.deepcopy(tree)
      target = [f for q, f in functions(t2) if q == qual][0]
      apply(target, idx, action)
      try:
        src = ast.unparse(t2)
        ast.parse(src)
      except Exception:
        continue
      jobs.append((a.module, qual, desc, getattr(nodes[idx], 'lineno', 0), src, a.props))
  if a.max and len(jobs) > a.max:
    step = len(jobs) / a.max
    jobs = [jobs[int(i * step)] for i in range(a.max)]
  print(f'{len(jobs)} mutants', flush=True)
  out = []
  with ThreadPoolExecutor(a.jobs) as ex:
    for r in ex.map(run_mutant, jobs):
      out.append(r)
      if r['status'] != 'reported':
        print(f"{r['status']:9s} {r['function']}:{r['line']} {r['mutation']}", flush=True)
  n = len(out)
  rep = sum(1 for r in out if r['status'] == 'reported')
  print(f'{n} mutants: {rep} reported, {sum(1 for r in out if r["status"] == "survived")} survived, {sum(1 for r in out if r["status"] == "error")} analysis errors')
  if a.out:
    with open(a.out, 'w') as f:
      json.dump(out, f, indent=1)


if __name__ == '__main__':
  main()
