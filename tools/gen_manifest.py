#!/usr/bin/env python3-vt
"""Regenerates /verif/MANIFEST.json from the table below (claimed = rule module exists and is listed)."""
import json
import os
import subprocess

VERIF = os.path.dirname(os.path.dirname(os.path.abspath(__file__)))

CLAIMS = {
    'C01': dict(
        technique='definite assignment + gated value graph (abstract evaluation of the source) compared with the documented Newton/eigh formulas by computer-algebra normal form; sibling cross-check',
        text='Static: every path of the root routines binds what it reads (incl. the 1x1 branch); the coupled Newton step, start point, stopping test, retry damping, convergence select, binary matrix power, Rayleigh-quotient power iteration on the masked matrix, eigh clamp/root/error formulas, error provenance and mask prologue / all-padding epilogue of the sibling routines are derived from the current source as value-graph terms and shown equal to the documented formulas. These are necessary conditions of C01; numerical accuracy itself is not decided. Also: what the eigh-based routines decompose is exactly A + ridge_epsilon*max(max_ev, tol)*I on the masked input; the zero guard of the eigenvalue power is decided by point evaluation (it must select 0 whenever max(e, ridge) is not positive - found F20 - and keep the root whenever it is); the all-padding epilogue tests exactly padding_start == 0; options are forwarded unchanged.',
        note='Trusted: python ast, the pvstatic evaluator (casts transparent, jax primitives uninterpreted), sympy cancellation. Undecided: accuracy/residual bound/finiteness/symmetry (floating point), LOBPCG-deflated path formulas.',
        design='4/C01'),
    'C02': dict(
        technique='gated value graph of _transform_grad / statistics update / block contraction compared, per configuration valuation, with an independent restatement of the documented math by computer-algebra normal form (translation-validation style, static)',
        text='Static: for every valuation of the configuration atoms of the per-parameter transform (7 graft types x skip x lr coupling x lr schedule x weight decay x wd coupling x momentum kind x nesterov x clipping; covering set in quick, all 1792 in thorough) the returned update and the three rebuilt state slots are shown equal, as formal expressions over uninterpreted jax primitives, to the documented formulas; statistics/preconditioners/avg_grad/metrics pass through; exponent = 2 x preconditioned dims unless overridden at both consumers; statistics weights (beta2, where(beta2==1, beta2, 1-beta2)), Gram update over all-but-one axes, block-major running statistic index; block preconditioning contracts axes in order and rolls skipped axes. Necessary conditions of C02; numeric equality with a float64 reference is not decided. Also: the history starts from matrix_epsilon*I statistics and identity (packed: zero) preconditioners, replicated and sharded; the refresh dispatcher, the excluded-parameter predicate, the partitioner walk and the sharded record conversions are as documented.',
        note='Trusted: the restated formulas (SPEC in rules/C02.py) are the documented math; quantisation wrappers/casts value-transparent; preconditioned_grad uninterpreted at the top level. Undecided: numerical agreement, root correctness (C01).',
        design='4/C02'),
    'C03': dict(
        technique='gate typestate on the gated value graph: every store into a preconditioner slot is a select(isnan(e)|e>=T, old, candidate); sentinel reflexivity on non-refresh arms; guarded-denominator sign analysis',
        text='Static, over replicated / pmap-quantized / sharded refresh functions and all valuations of (scheduled, interval==1, reuse, metrics): each stored preconditioner array is a pass-through or a select primitive (never arithmetic) between the incoming slot and the candidate, with predicate isnan(e) | e >= inverse_failure_threshold, e reported by the same root computation as the candidate, old value on the true arm; on non-refresh paths e reduces to a sentinel equal to the threshold so the placeholder is rejected; efficient_cond implements predicate?compute():init; denominators of the per-parameter transform are guarded. Necessary conditions of C03; finiteness for given magnitudes is not decided.',
        note='Trusted: select primitives return one operand bit-for-bit; root routines opaque (C01). Undecided: finite small error implies finite root; update finiteness for given magnitudes.',
        design='4/C03'),
    'C04': dict(
        technique='cadence rules on the gated value graph: count+1 at every state constructor, guard normal form count % interval == 0 with call-site tracing of the step argument, identity-arm (pass-through) check of every guarded refresh, warm-up comparator/polarity, interval lower bound',
        text='Static: all six update paths rebuild state with count = incoming count + 1; every refresh guard (DS statistics, DS roots in 3 modes x valuations, Tearfree Shampoo x2, Sketchy) normalises to incoming_count % configured_interval == 0 and the count reaching the helpers is state.count unmodified; the not-taken arm returns the incoming slots themselves (statistics, blocks, sketches, metrics; ekfac restore of 5 sketch slots); roots are computed from the statistics of the same step (previous refresh in sharded mode); warm-up switch is count >= start with the preconditioned value on the true side; scheduled interval clamped >= 1. Necessary conditions of C04. Also: no root computation is reachable off the guard; the dispatcher runs the every-step function exactly when the interval is 1; the early return of the incoming states is taken exactly when there are no statistics; the three refresh functions agree on when the interval is scheduled; the sharded refresh roots this step\'s statistics with the stored exponents and the statistics\' own sizes.',
        note='Trusted: lax.cond/efficient_cond evaluate one arm and return it bit-for-bit; tree.map is leaf-wise. Undecided: traced non-integer schedule values; numerical agreement of roots with statistics.',
        design='4/C04'),
    'C05': dict(
        technique='algebraic derivation on the value graph (sympy): pre-momentum update = s*P with s*||P|| == ||graft step||; arm/dispatch table checks for Tearfree grafting',
        text='Static: from the value graph of the per-parameter transform the accumuland of the Shampoo momentum is shown, for every graft type / lr coupling, to be a scalar multiple of the preconditioned gradient whose norm equals the norm of the accumuland of the graft momentum (eps -> 0), and to equal the graft step itself for skipped parameters; Tearfree maybe_graft: base*||graft||/||base|| with 0 for ||base|| = 0, graft step itself on the masked and warm-up arms; GraftingType dispatch, norm-optimiser formulas, masked/unmasked plumbing and the mask rule agree with the documentation. Necessary conditions of C05.',
        note='Trusted: norm homogeneity; uninterpreted jax primitives. Undecided: closeness for eps != 0; that P is the right preconditioned gradient (C02/C10).',
        design='4/C05'),
    'C06': dict(
        technique='pairing rules on the value graph (split/concat, reshape in/out, pad/slice), sibling dispatch cross-check, index-map algebra over reshape/transpose chains from partial evaluation of the shape code, predicate consistency lint',
        text='Static: BlockPartitioner partition/merge are mutually inverse by construction (forward split vs reversed concat on the same axis, group size = slice width = stride, (d-1)//B split points); reshape in/out pairing in Preconditioner and the Tearfree reshaper (pad at end / slice from 0 of one _derive_shapes result, ceil padding); the three dispatchers on preconditioner type agree on all (type, rank<=1) states; per-block preconditioner slices [i*k,(i+1)*k) and block-major announcement; merge guard product*d <= max_dim; _deblockify(_blockify(x)) == x and block contiguity proved by an index-map algebra for every structural case (rank <= 3 quick, <= 4 thorough); the large-axis predicate dim >= block_size is uniform and init rejects what the block arithmetic cannot handle.',
        note='Trusted: numpy semantics of split/concatenate/reshape/transpose; blockify logic depends on which axes are large, not on the particular sizes. Undecided: BlockPartitioner element order on every concrete shape (numpy np.arange-based metadata not folded).',
        design='4/C06'),
    'C07': dict(
        technique='definite assignment; KIND abstract interpretation (pytree skeletons) with the initial state fed through the inlined update path per configuration valuation; cond-arm agreement; sibling cross-check of the sharded init/shape/pspec triple; assertion folding vs constructor validation; lints',
        text='Static: package-wide definite assignment (251 functions); the pytree skeleton of the initial state of a preconditioned and a skipped parameter is pushed through _compute_stats -> _compute_preconditioners (pmap and pmap-quantized, root routines inlined) -> _transform_grad for every consistent valuation of 11 layout atoms (covering set quick, all ~900 thorough) and must come back unchanged, with both arms of every traced conditional on the way building the same tree; same for SM3 and Tearfree Shampoo/Sketchy; the sharded init / shape-dtype / partition-spec functions build one record, count statistics under the same guard, pad by (-N) mod D, take the maximal size over the same parameters and declare the dtypes init constructs; dispatch siblings agree; no axis-less squeeze; configuration-only assertions cannot fail for an accepted configuration; no dead store of a computed value. Necessary conditions of C07. Also: the sharded update returns the records it received field by field and both record conversions are complete; roots are cut back to their own announced shape; the stale carry of the refresh cond has the taken arm\'s list lengths; all per-axis Sketchy buffers derive from one sketch rank. Also: no float-valued numpy function sits on the value graph of the per-parameter transform (a strongly typed float64 scalar would change the dtype of update and state under x64); the grafting accumulator is allocated at init exactly for the graft types whose transform accumulates into it.',
        note='Trusted: arrays are leaves (shapes/dtypes not tracked except in the sharded declaration); tree.map/all_gather preserve structure; _pjit_compute_preconditioners unreachable. Undecided: update dtype under mixed precision, shape-dependent assertions, arbitrary trace-time errors.',
        design='4/C07'),
    'C08': dict(
        technique='AXIS abstract interpretation (batch-axis non-interference) over the value graph of Tearfree Shampoo block routines; einsum formula folded by partial evaluation for all structural cases; taint rule on Distributed Shampoo statistic plumbing; shared pairing rules',
        text='Static: with statistics seeded as [N,d,d] from the init shape literal, every operation of _ema_update / _pth_inv_root keeps the blocks axis intact (no reduction without axis or over axis 0, no einsum dropping/renaming the block letter, no contraction outside vmap), the covariance is a vmap over the blocks axis contracting all other axes, each root comes from its own statistic; the einsum formula of _precondition_blocks, folded for every structural case, binds the blocks axis of update, roots and output to one letter and contracts each axis with its own root; in Distributed Shampoo the per-statistic values are only padded/stacked/batched/gathered/sliced/selected between collection and the vmapped root call and back; plus BlockPartitioner pairing, per-block slot slices, eigh padding mask and block contraction order. Necessary conditions of C08.',
        note='Trusted: vmap/eigh batching semantics. Undecided: numerical independence from the common padding size; blocked == separate to tolerance.',
        design='4/C08'),
    'C09': dict(
        technique='DEG abstract interpretation (homogeneity degrees in gradient scale and decay, linear constraint solving) on the value graph of the three FD updates; algebraic identities (l\' + t\')^(-1/p), cut-off index agreement, unfolding normal form',
        text='Static, for Distributed Shampoo _fd_update_root, Tearfree Sketchy _update_axis (ekfac / relative-epsilon valuations) and OCO _fd_update_fn (4 algorithms): the update equations are homogeneous in the gradient scale with eigenvalues/escaped mass covariance-level and sketch roots root-level, each new slot has its old degree, and the pure-history part of every stored quantity is discounted by beta^(degree/2) (zero-gradient step scales V diag(l) V\' and t by the same beta); retained values/vectors are the first k of one SVD with cut-off s[k] (OCO: last row, rho = s[-1]); t\' = beta t + cutoff^2; stored inverse roots are (l\' + t\' [+eps])^(-1/p) of the same step with clamps at 0; the factored matrix is [sqrt(beta) V sqrt(l), unfolding of the gradient along the axis]. Necessary conditions of C09. Also (guard discipline, by point evaluation): at the reference point of a healthy retained direction every clamp, mask and safe division on the stored fields is the identity; an off-unit column is dropped; at the all-zero state every inverse power is guarded to 0. Also: with average_grad the gradient accumulator of Distributed Shampoo restarts exactly on the first step of each statistics window (the restart test evaluated on a grid of (interval, step)) and the sketch is fed accumulator / interval; the ridge inside the stored Sketchy powers is epsilon, relative to max(l^2 + t) when so configured.',
        note='Trusted: homogeneity of singular values/vectors; masks and epsilons degree 0. Undecided: the PSD bracket, orthonormality, exact low-rank tracking (numerical linear algebra); linear_approx_tail heuristic.',
        design='4/C09'),
    'C10': dict(
        technique='symbolic slot regions (intervals linear in d, r) for the packed layout writer/reader with disjointness decided on the admissible cone; predicate truth tables; value-graph normal forms of the compressed application and of _low_rank_root; call-argument flow of the signed rank',
        text='Static: each of the 6 fields written by _fd_low_rank_pack is read by _fd_low_rank_unpack from the same region and the regions are pairwise disjoint for all r >= 1, d >= r+3; wrappers route fields correctly; buffer (d,|r|+2) with no pinned dtype; fields must be start-anchored to survive the pad/slice round trip of the replicated update (known finding F18 for eigvals / has_zeros); _precond_dim < d <=> _should_compress on all 6 abstract states and the signed configured rank reaches predicate and both special roots; the compressed application is c(g - gVV^T) + (gV e)V^T with the unpacked flag alone selecting the unchanged gradient; _low_rank_root keeps the first |r| of the rolled (negative rank) or flipped spectrum and averages the rest over the unpadded dims. Necessary conditions of C10. Also: every call of the two compression predicates passes (rank, dimension) in that order; the zero guard of _low_rank_root is decided by point evaluation (F20).',
        note='Trusted: numpy indexing semantics. Undecided: numerical agreement with the dense matrix; eigendecomposition accuracy.',
        design='4/C10'),
    'C11': dict(
        technique='value-graph normal forms of quantize / to_float / from_float_value per (dtype, extract_diagonal) valuation; constant, rounding-primitive, operand-order (overflow) and axis rules; writer/reader dispatch agreement; re-wrap call-site lint',
        text='Static: bucket counts 127 / 32767; the integer cast is applied to jnp.round of (x [- diag]) / where(b > 0, b, 1) with the input itself as numerator (no pre-scaling that could overflow) and the axis-0 bucket max|x|/count re-expanded on axis 0; dequantisation is payload * bucket (+ diag of the stored diagonal, exactly); writer and reader handle the same dtype set and other dtypes are rejected; from_float_value records payload/diagonal/bucket/dtype/flag/list(shape) and the empty case; Distributed Shampoo re-wraps raw leaves with the flag used to quantise. Necessary conditions of C11. Also: the quantized root wrapper returns the three parts of one re-quantized value and dequantizes the statistic from its own parts; a kept quantized root keeps every part under one predicate (gate rules). Also: from_float_value hands its input unchanged to quantize whatever its rank; the dequantize / re-quantize callbacks of the statistics update are the plain conversions (no ridge, symmetrisation or rescaling before quantizing).',
        note='Trusted: jnp.round = round-to-nearest-even; integral floats cast exactly. Undecided: the half-bucket bound / idempotence over all float32 magnitudes (subnormal buckets flush to zero on this backend).',
        design='4/C11'),
    'C12': dict(
        technique='inductive cover invariant discharged by structural facts on the value graph of sm3.update_fn (order-fact lattice EXACT <= UB <= COVER(i)): reshape views, min/max combine, non-negative affine step with squared gradient, plain max over the complementary axes, same gradient / same statistic in the step',
        text='Static, for every valuation of (rank 1?, normalize_grads, beta2 == 1, weight decay, beta1 == 1): accumulators are combined through one-hot reshapes by elementwise min (or max) into a pointwise bound, the statistic is beta2*bound + w*g^2 with w = 1-beta2 (1 when beta2 == 1), each new accumulator is a plain jnp.max of that statistic over exactly the other axes (rank 1: the statistic itself), the step preconditions the same (normalised) gradient by 1/sqrt(statistic + eps) before momentum, weight decay and -lr, beta2 == 1 gives monotone accumulators, accumulators are float32 zeros per axis. These discharge the induction step of the cover invariant and the AdaGrad/RMSProp step bound. Also: for the emitted step the quantizer is not transparent (the step is the float momentum, not its int8 round trip).',
        note='Trusted: beta2 in (0,1]; plain jnp.max is the true maximum. Undecided: exact equality with AdaGrad for rank 1 under int8 momentum quantisation (numerical).',
        design='4/C12'),
    'C13': dict(
        technique='LEN abstract domain (symbolic list lengths) on the value graph, pad-count normal form at every site, index-map rule for batch/unbatch, collective-axis and replica-index agreement, squeeze lint',
        text='Static: the pad count is (-N) mod D at all six sites with the right D and the N == 0 special case agrees across sharded init/declaration/update; every list handed to batch (statistics, exponents, paddings, quantized parts, previous preconditioners incl. the _maybe path) has symbolic length N + to_pad with pads appended last and pad entries (identity, exponent 1, padding start 0); batch chunks with slice width == stride == n/D and unbatch re-emits row-major, results are zipped against the N-long per-statistic lists (dropping exactly the pads); axis_index/all_gather/psum name one axis, every batched operand is indexed by the same replica (0 on one device), roots are all_gather-ed then unbatched; no axis-less squeeze. Necessary conditions of C13. Also: the flat results are dealt back by a running index from 0 advancing by each state\'s count; each root is cut back to its own announced shape; zipped result lists are read from position 0; the sharded global arrays list real rows first, dummy rows last, and get D dummy rows exactly when nothing is preconditioned; the caller hands the stored statistics / preconditioners down unchanged; both per-device vmap helpers map every operand of the root routine along axis 0, whole, and return the batched result for every batch; every identity pad is created with an explicit dtype.',
        note='Trusted: the caller builds the per-statistic lists in one loop (checked syntactically); numpy semantics of stack/split. Undecided: bitwise batch-size invariance of linear algebra; real-mesh execution.',
        design='4/C13'),
    'C14': dict(
        technique='effect analysis (purity) over all functions of the optimizer modules with a positive fixture; who-may-mutate table for list parameters; state-container class rule; KIND static-field constancy and layout fixed point (shared with C07); counter rules',
        text='Static: none of the 207 functions of the optimizer modules declares global/nonlocal, stores attributes outside constructors, stores into or mutates a captured/module-level object or a parameter (exception: `exponents`, created afresh by the only caller), memoises, draws from the global RNG, builds an unseeded generator or reads the clock/environment - so init/update are pure functions of (gradients, state, params, configuration); all state containers are NamedTuples / flax struct dataclasses without mutable class-level defaults; static (non-pytree) fields and the whole layout are identical at init and after any update path; counters start as int32 zeros and advance by one; no augmented assignment acts on a value still aliased from a state record, directly or through a callee that updates its parameter in place (numpy leaves of a restored state would be modified in place - F22 repaired); record classes nested in state fields are found through the field annotations. Necessary conditions of C14.',
        note='Trusted: syntactic effect recognition with one-level aliasing; jax/optax primitives are pure. Undecided: bit-identity of the msgpack round trip itself.',
        design='4/C14'),
    'C15': dict(
        technique='order/plumbing rules on the value graph of the Tearfree factories (call-argument flow), dependence of stages on learning_rate, normal forms of the Shampoo root and Sketchy application, plus the Tearfree parts of C04/C05/C06/C08/C09',
        text='Static: tearfree() = sharded_chain(graft(grafting_options, second_order(second_order_options)), momentum(momentum_options), scale(-lr) | scale_by_schedule(-lr(t))) in that order, chain threading in argument order, learning_rate reaching only the last stage (exact linearity); second_order = merge -> precondition -> unmerge from one reshaper options value (Shampoo block size / Sketchy 0), state initialised on merged params; momentum stage list for all 16 option valuations; Shampoo root p = 2*rank with half factors w^(-0.5/p) and per-block 1e-6 relative cut-off; Sketchy applies V diag(inv) V^T + inv_tail(I - VV^T) per axis (ekfac slots); plus Tearfree cadence/warm-up, grafting, merge/pad/blockify losslessness, block independence, sketch decay rules. Necessary conditions of C15.',
        note='Trusted: documented meaning of optax.scale / trace / add_decayed_weights. Undecided: numeric equality with an independent reference.',
        design='4/C15'),
    'C16': dict(
        technique='exhaustiveness of the algorithm table, constant propagation through the factor functions, value-graph normal forms of the FD / OGD / AdaGrad updates per algorithm, plus the DEG rules of C09 for the OCO sketch',
        text='Static: Algorithm members = OGD, ADA + factor-table keys, each bound to its own init/update, factor tuples as documented (S-AdaGrad: sketch 1, alpha factor 1, lr, rsqrt); for all four FD algorithms t\' = t + 1, sketch input (P e).at[-1].set(g * factor), rho = s[-1], e\' = sqrt((s-rho)(s+rho)), P\' = vt, alpha\' = alpha + factor * rho^2 with alpha_0 = delta, and the iterate formulas with the same safe inverse (cut-off exactly 0) inside and outside the sketch; OGD and diagonal AdaGrad equal their closed forms with h_0 = delta and the zero guard. Necessary conditions of C16. Also: init() builds a fresh state on every call (the update functions mutate the state in place); the dataset driver (oco/train.py) feeds the compiled scan the update function / initial state / loss made from its own arguments, one update per row in row order, and every record it passes as a static jit argument is compared in full (no compare=False field, no hand-written __eq__/__hash__).',
        note='Trusted: svd returns singular values in descending order. Undecided: FD bracket, equality with full-matrix AdaGrad for low-rank histories (numerical).',
        design='4/C16'),
    'C17': dict(
        technique='abstract interpretation of the python bookkeeping in create_redist_dict / create_groups (pvstatic.imp: symbolic values over a product of zone (difference-bound, Floyd-Warshall closure) and sign domains, one symbolic iteration per loop from a havocked head plus the invariant under check, path splitting on the code\'s own tests; no solver); roles (ranks dict, group, budget, proportional / top-up loops, pool variables) found by data flow, not by name',
        text='Static: at the write-out of every group the facts sum(ranks) <= len(group) * sketchy_rank and "every rank <= dim" are established by assertions on every path and only the top-up loop touches the ranks afterwards; the top-up loop (followed through one level of nesting) has a pool variable with 1 <= pool <= budget - sum(ranks) at entry and in every path of an iteration ranks do not decrease, d(ranks) + d(pool) <= 0, ranks stay <= dim, pool stays >= 0 and the loop continues only with pool >= 1; the proportional loop starts from a pool <= budget - len(group) (one rank per layer set aside), stores exactly one integer rank >= 1 per layer keyed by that layer, charges at least rank - 1, divides only by denominators the path knows to be positive (F19 repaired) and lowers the remaining score by at most the layer\'s own score, every share is floor(score * pool / remaining) so the pool stays >= 0, every stored rank is <= dim on its own path; the assertions of the iteration are implied by what precedes them (no valid input is turned into an AssertionError); create_groups keys every layer by its axis dimension and places it in exactly that group; the result tree holds one fresh rank list per parameter (no container shared between keys). Necessary conditions of C17.',
        note='Trusted: non-negative finite scores; assertions executed; nested helpers pure. Undecided: the proportional phase tripping its own assertions for float scores (no allocation returned).',
        design='4/C17'),
}

NOT_BUILT_REASON = 'checker for this property not built yet (build phase in progress; see DESIGN.md section 9)'


def main():
  props = [json.loads(l) for l in open(os.path.join(VERIF, 'properties.jsonl'))]
  fixes = subprocess.check_output(['git', '-C', '/repo', 'log', '--format=%h %s', 'e2425f6..HEAD']).decode().strip().split('\n')
  checks = []
  na = []
  for p in props:
    pid = p['id']
    c = CLAIMS.get(pid)
    if c and os.path.exists(os.path.join(VERIF, 'pvstatic', 'rules', pid + '.py')):
      checks.append(dict(
          property_id=pid,
          quick_cmd=f'./check {pid} --tier quick',
          thorough_cmd=f'./check {pid} --tier thorough',
          evidence_file=f'/verif/evidence/{pid}.json',
          replay_cmd_template='./check --replay {path}',
          engine='pvstatic',
          level_claimed=dict(category='other', text=c['text'], design_ref='DESIGN.md section ' + c['design']),
          level_note=c['note'],
          technique=c['technique'],
      ))
    else:
      na.append(dict(property_id=pid, reason=(c or {}).get('na', NOT_BUILT_REASON)))
  m = dict(
      version=1,
      setup_cmd='python3-vt -c "import ast, networkx, sympy, jsonschema" && ./check C01 --tier quick --no-evidence >/dev/null; test $? -le 1',
      hooks=dict(
          guard='PRECONDITION_VERIF (unused: static analysis needs no instrumentation)',
          enable='none: checks parse /repo sources with python ast; nothing is built or instrumented',
          baseline_off_cmd='cd /repo && /venv/bin/python -m pytest -q -p no:cacheprovider --timeout=900',
          source_commits=[l.split()[0] for l in fixes if l.split(' ', 1)[1].startswith('fix:')],
          add_only=True),
      engines=[dict(name='pvstatic', path='/verif/pvstatic',
                    serves_properties=[c['property_id'] for c in checks],
                    kind_free_text='repository-specific static analysis: ast source model, abstract evaluator producing a gated value graph (ite/cond/while/loop nodes, inlined repo calls, configuration valuations), abstract domains and rule tables per property; sympy used only as an algebraic normal form of single expressions; nothing from the repo is imported or executed')],
      checks=checks,
      notes='All checks are static (python3-vt, ast + sympy); exit 0 held / 1 VIOLATION / 2 ANALYSIS-ERROR. hooks.source_commits lists the unguarded fix: commits (genuine defects repaired; see known_findings.json and DESIGN.md section 5).',
      not_applicable=na,
  )
  with open(os.path.join(VERIF, 'MANIFEST.json'), 'w') as f:
    json.dump(m, f, indent=1)
  import jsonschema
  jsonschema.validate(m, json.load(open('/root/.vp/MANIFEST.schema.json')))
  print('MANIFEST ok:', [c['property_id'] for c in checks], 'n/a:', len(na))


if __name__ == '__main__':
  main()
