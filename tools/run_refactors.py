#!/usr/bin/env python3-vt
"""Run every check against behaviour-preserving refactors (false-alarm test).

  tools/run_refactors.py <dir-with-k/patch.diff> [...]   (default: /verif/refactors/*)

Each patch is applied to a scratch copy of /repo/precondition (removed afterwards); every property
check must exit 0 (or print only KNOWN-FINDING lines).  Anything else is a false alarm or an
analysis gap to be fixed in the machinery.
"""
import os
import shutil
import subprocess
import sys
import tempfile
from concurrent.futures import ThreadPoolExecutor

VERIF = os.path.dirname(os.path.dirname(os.path.abspath(__file__)))
PROPS = [f'C{i:02d}' for i in range(1, 18)]


def run_one(pdir):
  tmp = tempfile.mkdtemp(prefix='pvref_', dir='/tmp')
  try:
    shutil.copytree('/repo/precondition', os.path.join(tmp, 'precondition'))
    r = subprocess.run(['patch', '-p1', '-s', '-d', tmp, '-i', os.path.join(pdir, 'patch.diff')], capture_output=True, text=True)
    if r.returncode != 0:
      return pdir, {'*': (99, 'patch failed ' + (r.stdout + r.stderr)[-200:])}
    env = dict(os.environ, PYTHONPATH=VERIF, PYTHONDONTWRITEBYTECODE='1')
    out = {}
    for p in PROPS:
      r = subprocess.run([sys.executable, '-m', 'pvstatic.driver', p, '--tier', 'quick', '--repo', tmp, '--no-evidence'],
                         capture_output=True, text=True, cwd=VERIF, env=env)
      first = [l.strip() for l in r.stdout.splitlines() if l.startswith('  ') or 'ANALYSIS-ERROR' in l]
      out[p] = (r.returncode, first[0][:260] if first else '')
    return pdir, out
  finally:
    shutil.rmtree(tmp, ignore_errors=True)


def run_alpha(_):
  """generated twin: every local variable of the package renamed (tools/alpha_rename.py)"""
  tmp = tempfile.mkdtemp(prefix='pvref_', dir='/tmp')
  try:
    r = subprocess.run([sys.executable, os.path.join(VERIF, 'tools', 'alpha_rename.py'), '/repo/precondition', os.path.join(tmp, 'precondition')],
                       capture_output=True, text=True)
    if r.returncode != 0:
      return 'ALPHA-RENAME', {'*': (99, r.stderr[-200:])}
    for root, _, files in os.walk(os.path.join(tmp, 'precondition')):
      for f in files:
        if f.endswith('_test.py'):
          os.remove(os.path.join(root, f))
    env = dict(os.environ, PYTHONPATH=VERIF, PYTHONDONTWRITEBYTECODE='1')
    out = {}
    for p in PROPS:
      r = subprocess.run([sys.executable, '-m', 'pvstatic.driver', p, '--tier', 'quick', '--repo', tmp, '--no-evidence'],
                         capture_output=True, text=True, cwd=VERIF, env=env)
      first = [l.strip() for l in r.stdout.splitlines() if l.startswith('  ') or 'ANALYSIS-ERROR' in l]
      out[p] = (r.returncode, first[0][:260] if first else '')
    return 'ALPHA-RENAME (generated)', out
  finally:
    shutil.rmtree(tmp, ignore_errors=True)


def main():
  roots = [a for a in sys.argv[1:] if not a.startswith('--')] or [os.path.join(VERIF, 'refactors')]
  dirs = []
  for root in roots:
    if os.path.exists(os.path.join(root, 'patch.diff')):
      dirs.append(os.path.abspath(root))
      continue
    for d in sorted(os.listdir(root)):
      if os.path.exists(os.path.join(root, d, 'patch.diff')):
        dirs.append(os.path.abspath(os.path.join(root, d)))
  bad = 0
  jobs = [(run_one, d) for d in dirs]
  if len(sys.argv) == 1 or '--alpha' in sys.argv:
    jobs.append((run_alpha, None))
  with ThreadPoolExecutor(8) as ex:
    for pdir, out in ex.map(lambda j: j[0](j[1]), jobs):
      alarms = {p: v for p, v in out.items() if v[0] != 0}
      print(('ALARM ' if alarms else 'quiet ') + pdir)
      for p, (rc, line) in alarms.items():
        bad += 1
        print(f'    {p} rc={rc} {line}')
  print(f'{len(jobs)} refactors, {bad} alarms')
  return 1 if bad else 0


if __name__ == '__main__':
  sys.exit(main())
