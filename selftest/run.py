#!/usr/bin/env python3-vt
"""Checker self-test: apply catalogue mutants / behaviour-preserving twins to a
scratch copy of /repo/precondition (outside /repo and /verif, removed
afterwards) and run the property's check against it.

  selftest/run.py [Cxx ...] [--jobs N] [--tier quick] [--only name-substring]

A mutant must make its property's check exit 1; a twin must leave it at 0.
"""
import argparse
import importlib.util
import os
import shutil
import subprocess
import sys
import tempfile
from concurrent.futures import ThreadPoolExecutor

HERE = os.path.dirname(os.path.abspath(__file__))
VERIF = os.path.dirname(HERE)


def load_catalogue():
  spec = importlib.util.spec_from_file_location('catalogue', os.path.join(HERE, 'catalogue.py'))
  mod = importlib.util.module_from_spec(spec)
  spec.loader.exec_module(mod)
  return mod.CATALOGUE


ALPHA = False


def run_one(entry, tier, repo):
  tmp = tempfile.mkdtemp(prefix='pvmut_', dir='/tmp')
  try:
    shutil.copytree(os.path.join(repo, 'precondition'), os.path.join(tmp, 'precondition'))
    for path, old, new in entry['edits']:
      fp = os.path.join(tmp, path)
      with open(fp) as f:
        s = f.read()
      cnt = s.count(old)
      want = entry.get('count', 1)
      if cnt != want:
        return entry, 'STALE', f'pattern occurs {cnt}x (want {want}) in {path}: {old[:60]!r}'
      s = s.replace(old, new)
      with open(fp, 'w') as f:
        f.write(s)
    # must still compile
    for path, _, _ in entry['edits']:
      r = subprocess.run([sys.executable, '-c', f'import ast,sys; ast.parse(open({os.path.join(tmp, path)!r}).read())'],
                         capture_output=True, text=True)
      if r.returncode != 0:
        return entry, 'STALE', 'mutant does not parse: ' + r.stderr[-200:]
    if ALPHA:
      # compose with the alpha-renaming of every local variable: verdicts must not depend on local names
      r = subprocess.run([sys.executable, os.path.join(VERIF, 'tools', 'alpha_rename.py'), os.path.join(tmp, 'precondition'), os.path.join(tmp, 'precondition_alpha')],
                         capture_output=True, text=True)
      if r.returncode != 0:
        return entry, 'STALE', 'alpha renaming failed: ' + r.stderr[-200:]
      shutil.rmtree(os.path.join(tmp, 'precondition'))
      os.rename(os.path.join(tmp, 'precondition_alpha'), os.path.join(tmp, 'precondition'))
    env = dict(os.environ, PYTHONPATH=VERIF, PYTHONDONTWRITEBYTECODE='1')
    out = {}
    for prop in entry['props']:
      r = subprocess.run([sys.executable, '-m', 'pvstatic.driver', prop, '--tier', tier, '--repo', tmp, '--no-evidence'],
                         capture_output=True, text=True, cwd=VERIF, env=env)
      out[prop] = (r.returncode, r.stdout[-1500:] + r.stderr[-500:])
    return entry, 'RAN', out
  finally:
    shutil.rmtree(tmp, ignore_errors=True)


def main():
  ap = argparse.ArgumentParser()
  ap.add_argument('props', nargs='*')
  ap.add_argument('--jobs', type=int, default=14)
  ap.add_argument('--tier', default='quick')
  ap.add_argument('--only', default='')
  ap.add_argument('--repo', default='/repo')
  ap.add_argument('-v', action='store_true')
  ap.add_argument('--alpha', action='store_true', help='additionally rename every local variable in the scratch copy')
  a = ap.parse_args()
  global ALPHA
  ALPHA = a.alpha
  cat = load_catalogue()
  todo = [e for e in cat if (not a.props or set(e['props']) & set(a.props)) and a.only in e['name']]
  if a.props:
    for e in todo:
      e['props'] = [p for p in e['props'] if p in a.props]
  bad = 0
  with ThreadPoolExecutor(a.jobs) as ex:
    for entry, status, out in ex.map(lambda e: run_one(e, a.tier, a.repo), todo):
      kind = entry.get('kind', 'mutant')
      if status == 'STALE':
        bad += 1
        print(f'STALE   {entry["name"]}: {out}')
        continue
      for prop, (rc, text) in out.items():
        want = 1 if kind == 'mutant' else 0
        ok = rc == want
        if not ok:
          bad += 1
        tag = 'ok     ' if ok else ('MISSED ' if kind == 'mutant' and rc == 0 else ('FALSE+ ' if kind == 'twin' and rc == 1 else 'ERROR  '))
        line = ''
        if rc == 1:
          ls = [l for l in text.splitlines() if l.startswith('  ')]
          line = ls[0].strip()[:150] if ls else ''
        elif rc == 2:
          ls = [l for l in text.splitlines() if 'ANALYSIS-ERROR' in l]
          line = ls[0][:200] if ls else text[-200:]
        print(f'{tag} {kind:6s} {prop} {entry["name"]}: rc={rc} {line}')
        if a.v and not ok:
          print(text)
  print(f'{len(todo)} entries, {bad} problems')
  return 1 if bad else 0


if __name__ == '__main__':
  sys.exit(main())
